import PynetVerif.Lemmas.PduBounded
/-! `to_primitive` accepts every well-formed PDU; primitive → PDU → primitive is the identity. -/
namespace PynetVerif.Pdu

theorem uidWf_len {u : Bytes} (h : uidWf u = true) : u.length ≤ 64 ∧ u.isEmpty = false := by
  have h1 := uid_len_of_wf h
  simp only [uidWf, Bool.and_eq_true, Bool.not_eq_true'] at h
  exact ⟨h1, h.2⟩

theorem blt64_false {u : Bytes} (h : u.length ≤ 64) : Nat.blt 64 u.length = false := by
  rw [Bool.eq_false_iff, ne_eq, Nat.blt_eq]; omega

/-! ## to_primitive never rejects a well-formed PDU -/

theorem addTs_total {u : Bytes} (acc' : List Bytes) (h : u.length ≤ 64) : ∃ r, addTs acc' u = .ok r := by
  simp only [addTs, blt64_false h]
  split
  · exact ⟨_, rfl⟩
  · simp only [Bool.false_eq_true, ↓reduceIte]
    split <;> exact ⟨_, rfl⟩

theorem ctxSubs_total : ∀ (subs : List SynItem), subs.all synWf = true →
    ∀ a acc, ∃ r, ctxSubs subs a acc = .ok r
  | [], _, a, acc => ⟨_, rfl⟩
  | .transfer u :: tl, h, a, acc => by
    simp only [List.all_cons, Bool.and_eq_true, synWf] at h
    obtain ⟨r, hr⟩ := addTs_total (u := u) acc (uidWf_len h.1).1
    simp only [ctxSubs, hr]
    exact ctxSubs_total tl h.2 a r
  | .abstract u :: tl, h, a, acc => by
    simp only [List.all_cons, Bool.and_eq_true, synWf] at h
    simp only [ctxSubs, blt64_false (uidWf_len h.1).1, Bool.false_eq_true, ↓reduceIte]
    exact ctxSubs_total tl h.2 (some u) acc

theorem ctxOfRq_total {id : Nat} {subs : List SynItem} (hid : ctxIdOk id = true) (h : subs.all synWf = true) :
    ∃ c, ctxOfRq id subs = .ok c := by
  obtain ⟨⟨a, ts⟩, hr⟩ := ctxSubs_total subs h none []
  simp only [ctxOfRq, hid, ↓reduceIte, hr]
  exact ⟨_, rfl⟩

theorem userToPrim_total {s : UserSub} (h : userWf s = true) : ∃ u, userToPrim s = .ok u := by
  cases s with
  | userIdRq t r p s =>
    simp only [userWf, Bool.and_eq_true] at h
    simp only [userToPrim, h.1.1.1.1, h.1.1.1.2, Bool.and_self, ↓reduceIte]
    exact ⟨_, rfl⟩
  | _ => exact ⟨_, rfl⟩

theorem mapE_total {α β : Type} {f : α → Except Err β} :
    ∀ {xs : List α}, (∀ x ∈ xs, ∃ y, f x = .ok y) → ∃ ys, mapE f xs = .ok ys
  | [], _ => ⟨[], rfl⟩
  | x :: xs, h => by
    obtain ⟨y, hy⟩ := h x (by simp)
    obtain ⟨ys, hys⟩ := mapE_total (xs := xs) (fun z hz => h z (by simp [hz]))
    exact ⟨y :: ys, by simp only [mapE, hy, hys]⟩

theorem ctxsRq_total : ∀ (items : List VarItem), items.all varWf = true → ∃ cs, ctxsRq items = .ok cs
  | [], _ => ⟨[], rfl⟩
  | .pcRq id subs :: tl, h => by
    simp only [List.all_cons, Bool.and_eq_true] at h
    have hv := h.1
    simp only [varWf, Bool.and_eq_true] at hv
    obtain ⟨c, hc⟩ := ctxOfRq_total hv.1.1.1 hv.1.1.2
    obtain ⟨cs, hcs⟩ := ctxsRq_total tl h.2
    exact ⟨c :: cs, by simp only [ctxsRq, hc, hcs]⟩
  | .appCtx _ :: tl, h => by
    simp only [List.all_cons, Bool.and_eq_true] at h
    simpa [ctxsRq] using ctxsRq_total tl h.2
  | .pcAc _ _ _ :: tl, h => by
    simp only [List.all_cons, Bool.and_eq_true] at h
    simpa [ctxsRq] using ctxsRq_total tl h.2
  | .userInfo _ :: tl, h => by
    simp only [List.all_cons, Bool.and_eq_true] at h
    simpa [ctxsRq] using ctxsRq_total tl h.2

theorem ctxOfAc_total {id res : Nat} {subs : List SynItem} (h : varWf (.pcAc id res subs) = true) :
    ∃ c, ctxOfAc id res subs = .ok c := by
  simp only [varWf, Bool.and_eq_true] at h
  obtain ⟨⟨⟨hid, _⟩, hs⟩, hshape⟩ := h
  match subs, hs, hshape with
  | [.transfer u], hs, _ =>
    simp only [List.all_cons, List.all_nil, Bool.and_true, synWf] at hs
    have := uidWf_len hs
    simp only [ctxOfAc, hid, ↓reduceIte, this.2, Bool.false_eq_true, blt64_false this.1]
    exact ⟨_, rfl⟩
  | [.abstract u], _, hsh => simp [isTransfer] at hsh

theorem ctxsAc_total : ∀ (items : List VarItem), items.all varWf = true → ∃ cs, ctxsAc items = .ok cs
  | [], _ => ⟨[], rfl⟩
  | .pcAc id res subs :: tl, h => by
    simp only [List.all_cons, Bool.and_eq_true] at h
    obtain ⟨c, hc⟩ := ctxOfAc_total h.1
    obtain ⟨cs, hcs⟩ := ctxsAc_total tl h.2
    exact ⟨c :: cs, by simp only [ctxsAc, hc, hcs]⟩
  | .appCtx _ :: tl, h => by
    simp only [List.all_cons, Bool.and_eq_true] at h
    simpa [ctxsAc] using ctxsAc_total tl h.2
  | .pcRq _ _ :: tl, h => by
    simp only [List.all_cons, Bool.and_eq_true] at h
    simpa [ctxsAc] using ctxsAc_total tl h.2
  | .userInfo _ :: tl, h => by
    simp only [List.all_cons, Bool.and_eq_true] at h
    simpa [ctxsAc] using ctxsAc_total tl h.2

theorem lastUi_total : ∀ (items : List VarItem), items.all varWf = true → ∀ acc, ∃ ui, lastUi items acc = .ok ui
  | [], _, acc => ⟨acc, rfl⟩
  | .userInfo subs :: tl, h, acc => by
    simp only [List.all_cons, Bool.and_eq_true] at h
    have hv := h.1
    simp only [varWf, Bool.and_eq_true] at hv
    obtain ⟨ui, hui⟩ := mapE_total (f := userToPrim) (xs := subs) (fun s hs => by
      have := List.all_eq_true.mp hv.1 s hs
      simp only [Bool.and_eq_true] at this
      exact userToPrim_total this.1)
    simp only [lastUi, hui]
    exact lastUi_total tl h.2 ui
  | .appCtx _ :: tl, h, acc => by
    simp only [List.all_cons, Bool.and_eq_true] at h
    simpa [lastUi] using lastUi_total tl h.2 acc
  | .pcRq _ _ :: tl, h, acc => by
    simp only [List.all_cons, Bool.and_eq_true] at h
    simpa [lastUi] using lastUi_total tl h.2 acc
  | .pcAc _ _ _ :: tl, h, acc => by
    simp only [List.all_cons, Bool.and_eq_true] at h
    simpa [lastUi] using lastUi_total tl h.2 acc

/-- **no conformant PDU is rejected by `to_primitive()`** -/
theorem toPrim_total_of_wf (p : PDU) (h : wf p = true) : ∃ a, toPrim (canon p) = .ok a := by
  cases p with
  | rq ver called calling items =>
    simp only [wf, Bool.and_eq_true] at h
    obtain ⟨cs, hcs⟩ := ctxsRq_total items h.1.2
    obtain ⟨ui, hui⟩ := lastUi_total items h.1.2 []
    exact ⟨.assocRq (pyStrip calling) (pyStrip called) (firstApp items) cs ui, by
      simp only [canon, toPrim, hcs, hui]⟩
  | ac ver called calling items =>
    simp only [wf, Bool.and_eq_true] at h
    obtain ⟨cs, hcs⟩ := ctxsAc_total items h.1.2
    obtain ⟨ui, hui⟩ := lastUi_total items h.1.2 []
    exact ⟨.assocAc (pyStrip calling) (pyStrip called) (lastApp items none) cs ui, by
      simp only [canon, toPrim, hcs, hui]⟩
  | rj r s d =>
    simp only [wf, rjWf, Bool.and_eq_true, Bool.or_eq_true, beq_iff_eq] at h
    refine ⟨.assocRj r s d, ?_⟩
    obtain ⟨hr, hsd⟩ := h
    rcases hr with rfl | rfl <;> rcases hsd with (⟨rfl, hd⟩ | ⟨rfl, hd⟩) | ⟨rfl, hd⟩ <;>
      (first | (rcases hd with ((rfl | rfl) | rfl) | rfl <;> rfl) | (rcases hd with rfl | rfl <;> rfl))
  | pdata pdvs => exact ⟨_, rfl⟩
  | relRq => exact ⟨_, rfl⟩
  | relRp => exact ⟨_, rfl⟩
  | abort s r =>
    simp only [wf, abortWf, Bool.and_eq_true, Bool.or_eq_true, beq_iff_eq] at h
    rcases h with ⟨rfl, _⟩ | ⟨rfl, hr⟩
    · exact ⟨.abort 0, rfl⟩
    · refine ⟨.pabort r, ?_⟩
      rcases hr with ((((rfl | rfl) | rfl) | rfl) | rfl) | rfl <;> rfl

/-! ## primitive round trip -/

theorem addTs_fresh {acc : List Bytes} {u : Bytes} (hu : uidWf u = true) (hn : u ∉ acc) :
    addTs acc u = .ok (acc ++ [u]) := by
  have := uidWf_len hu
  have hc : acc.contains u = false := by simpa using hn
  simp only [addTs, this.2, Bool.false_eq_true, ↓reduceIte, blt64_false this.1, hc]

theorem ctxSubs_transfers : ∀ (ts : List Bytes) (a : Option Bytes) (acc : List Bytes),
    ts.all uidWf = true → (∀ x ∈ acc, x ∉ ts) → nodupB ts = true →
    ctxSubs (ts.map .transfer) a acc = .ok (a, acc ++ ts)
  | [], a, acc, _, _, _ => by simp [ctxSubs]
  | u :: ts, a, acc, hwf, hdis, hnd => by
    simp only [List.all_cons, Bool.and_eq_true] at hwf
    simp only [nodupB, Bool.and_eq_true, Bool.not_eq_true'] at hnd
    have hfresh : u ∉ acc := fun hm => hdis u hm (by simp)
    simp only [List.map_cons, ctxSubs, addTs_fresh hwf.1 hfresh]
    rw [ctxSubs_transfers ts a (acc ++ [u]) hwf.2 ?_ hnd.2]
    · simp
    · intro x hx
      rcases List.mem_append.mp hx with hx | hx
      · exact fun hm => hdis x hx (List.mem_cons_of_mem _ hm)
      · simp only [List.mem_singleton] at hx; subst hx
        have := hnd.1
        simpa using this

theorem ctxOfRq_pcRqOf (c : PCtx) (hwf : varWf (pcRqOf c) = true) (hs : ctxRqShape c = true) :
    ctxOfRq c.id (.abstract (c.abstract.getD []) :: c.transfer.map .transfer) = .ok c := by
  obtain ⟨id, ab, ts, res⟩ := c
  simp only [ctxRqShape, Bool.and_eq_true, Option.isSome_iff_exists, Option.isNone_iff_eq_none] at hs
  obtain ⟨⟨⟨a, rfl⟩, rfl⟩, hnd⟩ := hs
  simp only [pcRqOf, varWf, Bool.and_eq_true, Option.getD_some, List.all_cons, synWf] at hwf
  obtain ⟨⟨⟨hid, ⟨ha, hts⟩⟩, _⟩, _⟩ := hwf
  have htswf : ts.all uidWf = true := by
    rw [List.all_eq_true] at hts ⊢
    intro u hu
    have := hts (.transfer u) (List.mem_map.mpr ⟨u, hu, rfl⟩)
    simpa [synWf] using this
  simp only [ctxOfRq, hid, ↓reduceIte, Option.getD_some, ctxSubs, blt64_false (uidWf_len ha).1,
    Bool.false_eq_true, ctxSubs_transfers ts (some a) [] htswf (fun _ h => by cases h) hnd, List.nil_append]

theorem ctxsRq_map (cs : List PCtx) (tail : List VarItem) (rest : List PCtx)
    (ht : ctxsRq tail = .ok rest)
    (h : ∀ c ∈ cs, varWf (pcRqOf c) = true ∧ ctxRqShape c = true) :
    ctxsRq (cs.map pcRqOf ++ tail) = .ok (cs ++ rest) := by
  induction cs with
  | nil => simpa using ht
  | cons c cs ih =>
    obtain ⟨h1, h2⟩ := h c (by simp)
    have := ctxOfRq_pcRqOf c h1 h2
    simp only [List.map_cons, List.cons_append, pcRqOf, ctxsRq, this, ih (fun d hd => h d (by simp [hd]))]

theorem ctxOfAc_pcAcOf (c : PCtx) (hwf : varWf (pcAcOf c) = true) (hs : ctxAcShape c = true) :
    ctxOfAc c.id (c.result.getD 0) [.transfer (c.transfer.headD [])] = .ok c := by
  obtain ⟨id, ab, ts, res⟩ := c
  simp only [ctxAcShape, Bool.and_eq_true, Option.isSome_iff_exists, Option.isNone_iff_eq_none,
    beq_iff_eq] at hs
  obtain ⟨⟨rfl, ⟨r, rfl⟩⟩, hlen⟩ := hs
  match ts, hlen with
  | [u], _ =>
    simp only [pcAcOf, varWf, Bool.and_eq_true, Option.getD_some, List.headD_cons, List.all_cons,
      List.all_nil, Bool.and_true, synWf] at hwf
    obtain ⟨⟨⟨hid, _⟩, hu⟩, _⟩ := hwf
    have := uidWf_len hu
    simp [ctxOfAc, hid, this.2, blt64_false this.1]

theorem ctxsAc_map (cs : List PCtx) (tail : List VarItem) (rest : List PCtx)
    (ht : ctxsAc tail = .ok rest)
    (h : ∀ c ∈ cs, varWf (pcAcOf c) = true ∧ ctxAcShape c = true) :
    ctxsAc (cs.map pcAcOf ++ tail) = .ok (cs ++ rest) := by
  induction cs with
  | nil => simpa using ht
  | cons c cs ih =>
    obtain ⟨h1, h2⟩ := h c (by simp)
    have := ctxOfAc_pcAcOf c h1 h2
    simp only [List.map_cons, List.cons_append, pcAcOf, ctxsAc, this, ih (fun d hd => h d (by simp [hd]))]

theorem userToPrim_fromPrim (u : UserPrim) (h : userWf (userFromPrim u) = true) :
    userToPrim (userFromPrim u) = .ok u := by
  cases u with
  | role uid scu scp => cases scu <;> cases scp <;> rfl
  | userIdRq t r p s =>
    simp only [userFromPrim, userWf, Bool.and_eq_true] at h
    simp only [userFromPrim, userToPrim, h.1.1.1.1, h.1.1.1.2, Bool.and_self, ↓reduceIte]
    cases r <;> rfl
  | _ => rfl

theorem mapE_userToPrim (ui : List UserPrim) (h : ∀ u ∈ ui, userWf (userFromPrim u) = true) :
    mapE userToPrim (ui.map userFromPrim) = .ok ui := by
  have := mapE_map_ok userToPrim userFromPrim id ui (fun u hu => userToPrim_fromPrim u (h u hu))
  simpa using this

theorem lastUi_skip_pcRq (cs : List PCtx) (tail : List VarItem) (acc : List UserPrim) :
    lastUi (cs.map pcRqOf ++ tail) acc = lastUi tail acc := by
  induction cs with
  | nil => rfl
  | cons c cs ih => simpa [pcRqOf, lastUi] using ih

theorem lastUi_skip_pcAc (cs : List PCtx) (tail : List VarItem) (acc : List UserPrim) :
    lastUi (cs.map pcAcOf ++ tail) acc = lastUi tail acc := by
  induction cs with
  | nil => rfl
  | cons c cs ih => simpa [pcAcOf, lastUi] using ih

theorem lastApp_skip_pcAc (cs : List PCtx) (tail : List VarItem) (a : Option Bytes) :
    lastApp (cs.map pcAcOf ++ tail) a = lastApp tail a := by
  induction cs with
  | nil => rfl
  | cons c cs ih => simpa [pcAcOf, lastApp] using ih

theorem userWf_of_all {ui : List UserPrim}
    (h : (ui.map userFromPrim).all (fun s => userWf s && userFits s) = true) :
    ∀ u ∈ ui, userWf (userFromPrim u) = true := by
  intro u hu
  have := List.all_eq_true.mp h (userFromPrim u) (List.mem_map.mpr ⟨u, hu, rfl⟩)
  simp only [Bool.and_eq_true] at this
  exact this.1

/-- **primitive → PDU → primitive** (the PDU passed through `canon`, i.e. through encode/decode) -/
theorem toPrim_fromPrim (a : Prim) (h : primWf a = true) : toPrim (canon (fromPrim a)) = .ok (canonPrim a) := by
  cases a with
  | assocRq calling called app cs ui =>
    simp only [primWf, Bool.and_eq_true, Option.isSome_iff_exists] at h
    obtain ⟨⟨hwf, ⟨u, rfl⟩⟩, hshape⟩ := h
    simp only [fromPrim, wf, Bool.and_eq_true, Option.getD_some, List.all_cons, List.all_append,
      List.all_nil, Bool.and_true] at hwf
    obtain ⟨⟨_, ⟨_, ⟨hcs, hui⟩⟩⟩, _⟩ := hwf
    simp only [varWf, Bool.and_eq_true] at hui
    have h1 : ctxsRq (cs.map pcRqOf ++ [.userInfo (ui.map userFromPrim)]) = .ok (cs ++ []) :=
      ctxsRq_map cs _ [] rfl (fun c hc => ⟨by
        have := List.all_eq_true.mp hcs (pcRqOf c) (List.mem_map.mpr ⟨c, hc, rfl⟩); exact this,
        List.all_eq_true.mp hshape c hc⟩)
    have h2 : lastUi (cs.map pcRqOf ++ [.userInfo (ui.map userFromPrim)]) [] = .ok ui := by
      rw [lastUi_skip_pcRq]
      simp only [lastUi, mapE_userToPrim ui (userWf_of_all hui.1)]
    simp only [fromPrim, canon, toPrim, Option.getD_some, ctxsRq, lastUi, firstApp, h1, h2, List.append_nil,
      canonPrim]
  | assocAc calling called app cs ui =>
    simp only [primWf, Bool.and_eq_true, Option.isSome_iff_exists] at h
    obtain ⟨⟨hwf, ⟨u, rfl⟩⟩, hshape⟩ := h
    simp only [fromPrim, wf, Bool.and_eq_true, Option.getD_some, List.all_cons, List.all_append,
      List.all_nil, Bool.and_true] at hwf
    obtain ⟨⟨_, ⟨_, ⟨hcs, hui⟩⟩⟩, _⟩ := hwf
    simp only [varWf, Bool.and_eq_true] at hui
    have h1 : ctxsAc (cs.map pcAcOf ++ [.userInfo (ui.map userFromPrim)]) = .ok (cs ++ []) :=
      ctxsAc_map cs _ [] rfl (fun c hc => ⟨by
        have := List.all_eq_true.mp hcs (pcAcOf c) (List.mem_map.mpr ⟨c, hc, rfl⟩); exact this,
        List.all_eq_true.mp hshape c hc⟩)
    have h2 : lastUi (cs.map pcAcOf ++ [.userInfo (ui.map userFromPrim)]) [] = .ok ui := by
      rw [lastUi_skip_pcAc]
      simp only [lastUi, mapE_userToPrim ui (userWf_of_all hui.1)]
    have h3 : lastApp (cs.map pcAcOf ++ [.userInfo (ui.map userFromPrim)]) (some u) = some u := by
      rw [lastApp_skip_pcAc]; rfl
    simp only [fromPrim, canon, toPrim, Option.getD_some, ctxsAc, lastUi, lastApp, h1, h2, h3, List.append_nil,
      canonPrim]
  | assocRj r s d =>
    simp only [primWf, fromPrim, wf, rjWf, Bool.and_eq_true, Bool.or_eq_true, beq_iff_eq] at h
    obtain ⟨hr, hsd⟩ := h
    rcases hr with rfl | rfl <;> rcases hsd with (⟨rfl, hd⟩ | ⟨rfl, hd⟩) | ⟨rfl, hd⟩ <;>
      (first | (rcases hd with ((rfl | rfl) | rfl) | rfl <;> rfl) | (rcases hd with rfl | rfl <;> rfl))
  | pdata pdvs =>
    simp only [fromPrim, canon, toPrim, canonPrim, List.map_map]
    congr 2
    have : ((fun p : PDV => (p.id, p.data)) ∘ fun p : Nat × Bytes => (⟨p.1, p.2⟩ : PDV)) = id := by
      funext p; rfl
    rw [this, List.map_id]
  | releaseRq => rfl
  | releaseRp => rfl
  | abort s =>
    simp only [primWf, fromPrim, wf, abortWf, Bool.and_eq_true, Bool.or_eq_true, beq_iff_eq, bne_iff_ne] at h
    obtain ⟨hs, hne⟩ := h
    rcases hs with ⟨rfl, _⟩ | ⟨rfl, _⟩
    · rfl
    · exact absurd rfl hne
  | pabort r =>
    simp only [primWf, fromPrim, wf, abortWf, Bool.and_eq_true, Bool.or_eq_true, beq_iff_eq] at h
    rcases h with ⟨h0, _⟩ | ⟨_, hr⟩
    · cases h0
    · rcases hr with ((((rfl | rfl) | rfl) | rfl) | rfl) | rfl <;> rfl

end PynetVerif.Pdu
