import PynetVerif.Model.Policy
/-
Lemmas about `strip` (C13): padding with stripped characters is invisible, and two
character classes that agree on the characters of a title strip it alike.
-/
namespace PynetVerif.Policy

theorem dropWhile_all_append {p : UInt8 → Bool} :
    ∀ (pre t : Title), pre.all p = true → (pre ++ t).dropWhile p = t.dropWhile p := by
  intro pre
  induction pre with
  | nil => intro t _; rfl
  | cons a as ih =>
    intro t h
    simp only [List.all_cons, Bool.and_eq_true] at h
    simp only [List.cons_append, List.dropWhile_cons, h.1, if_true]
    exact ih t h.2

theorem dropWhile_all {p : UInt8 → Bool} (l : Title) (h : l.all p = true) : l.dropWhile p = [] := by
  have := dropWhile_all_append (p := p) l [] h
  simpa using this

theorem lstrip_pad {p : UInt8 → Bool} (pre t : Title) (h : pre.all p = true) :
    lstrip p (pre ++ t) = lstrip p t := dropWhile_all_append pre t h

theorem rstrip_pad {p : UInt8 → Bool} (t post : Title) (h : post.all p = true) :
    rstrip p (t ++ post) = rstrip p t := by
  unfold rstrip
  rw [List.reverse_append, dropWhile_all_append]
  simpa using h

theorem rstrip_nil {p : UInt8 → Bool} : rstrip p [] = [] := rfl

/-- padding on both sides with characters of the stripped class does not change the result -/
theorem strip_pad {p : UInt8 → Bool} (pre t post : Title) (h1 : pre.all p = true)
    (h2 : post.all p = true) : strip p (pre ++ t ++ post) = strip p t := by
  unfold strip
  rw [List.append_assoc, lstrip_pad _ _ h1]
  unfold lstrip
  rw [List.dropWhile_append]
  by_cases he : (List.dropWhile p t).isEmpty = true
  · have hnil : List.dropWhile p t = [] := by simpa using he
    simp [hnil, dropWhile_all post h2]
  · simp only [he]
    exact rstrip_pad _ _ h2

theorem dropWhile_congr {p q : UInt8 → Bool} :
    ∀ (l : Title), (∀ x ∈ l, p x = q x) → l.dropWhile p = l.dropWhile q := by
  intro l
  induction l with
  | nil => intro _; rfl
  | cons a as ih =>
    intro h
    have ha : p a = q a := h a (List.mem_cons_self ..)
    simp only [List.dropWhile_cons, ha]
    split
    · exact ih (fun x hx => h x (List.mem_cons_of_mem _ hx))
    · rfl

theorem mem_of_mem_dropWhile {p : UInt8 → Bool} {x : UInt8} :
    ∀ {l : Title}, x ∈ l.dropWhile p → x ∈ l := by
  intro l
  induction l with
  | nil => intro h; exact h
  | cons a as ih =>
    intro h
    simp only [List.dropWhile_cons] at h
    split at h
    · exact List.mem_cons_of_mem _ (ih h)
    · exact h

/-- two character classes that agree on every character of `t` strip `t` alike -/
theorem strip_congr {p q : UInt8 → Bool} (t : Title) (h : ∀ x ∈ t, p x = q x) :
    strip p t = strip q t := by
  unfold strip lstrip rstrip
  rw [dropWhile_congr t h]
  rw [dropWhile_congr (p := p) (q := q)]
  intro x hx
  exact h x (mem_of_mem_dropWhile (List.mem_reverse.mp hx))

theorem mem_strip {p : UInt8 → Bool} {x : UInt8} {t : Title} (h : x ∈ strip p t) : x ∈ t := by
  unfold strip lstrip rstrip at h
  exact mem_of_mem_dropWhile (List.mem_reverse.mp (mem_of_mem_dropWhile (List.mem_reverse.mp h)))

/-- whitespace that is not a space is a control character -/
theorem isPyWs_eq_isSpace_of_not_control (c : UInt8) (h : isControl c = false) :
    isPyWs c = isSpace c := by
  unfold isControl at h
  unfold isPyWs isSpace
  simp only [Bool.or_eq_false_iff, decide_eq_false_iff_not, UInt8.not_lt] at h
  have h1 : ¬ c ≤ 0x0d := by
    intro hc; have := UInt8.le_trans h.1 hc; exact absurd this (by decide)
  have h2 : ¬ c ≤ 0x1f := by
    intro hc; have := UInt8.le_trans h.1 hc; exact absurd this (by decide)
  simp [h1, h2]

/-- a title the API validated (`set_ae`) is stripped alike by `str.strip()` and by a spaces-only strip -/
theorem pyStrip_eq_spStrip_of_valid (t : Title) (h : validAE t = true) : pyStrip t = spStrip t := by
  apply strip_congr
  intro x hx
  apply isPyWs_eq_isSpace_of_not_control
  unfold validAE at h
  simp only [Bool.and_eq_true, Bool.not_eq_true', List.any_eq_false] at h
  have := h.1.2 x hx
  simpa using this

theorem isPyWs_lt_128 (c : UInt8) (h : isPyWs c = true) : c < 0x80 := by
  unfold isPyWs at h
  simp only [Bool.or_eq_true, Bool.and_eq_true, decide_eq_true_eq, beq_iff_eq] at h
  rcases h with (h | h) | h
  · subst h; decide
  · exact UInt8.lt_of_le_of_lt h.2 (by decide)
  · exact UInt8.lt_of_le_of_lt h.2 (by decide)

/-- whitespace padding of a raw title field is invisible to the PDU setter -/
theorem decodeTitle_pad (pre raw post : Bytes) (h1 : pre.all isPyWs = true)
    (h2 : post.all isPyWs = true) : decodeTitle (pre ++ raw ++ post) = decodeTitle raw := by
  have hp : ∀ l : Bytes, l.all isPyWs = true → l.any (· ≥ 0x80) = false := by
    intro l hl
    simp only [List.any_eq_false, decide_eq_true_eq]
    intro x hx hge
    have := isPyWs_lt_128 x (List.all_eq_true.mp hl x hx)
    exact absurd (UInt8.lt_of_lt_of_le this hge) (UInt8.lt_irrefl _)
  unfold decodeTitle
  simp only [List.any_append, hp pre h1, hp post h2, Bool.false_or, Bool.or_false]
  simp only [pyStrip, strip_pad pre raw post h1 h2]

theorem replicate_space_all (n : Nat) : (List.replicate n (0x20 : UInt8)).all isPyWs = true := by
  simp [List.all_replicate, isPyWs]

end PynetVerif.Policy
