import PynetVerif.Lemmas.PduLengths
import PynetVerif.Lemmas.PduPrim
/-! The receive path on encoder output: framing (C03) + decode + to_primitive; `wf ⇒ normal`. -/
namespace PynetVerif.Pdu
open PynetVerif.Framing

/-- the encoder output is a correctly framed PDU (type 1..7, u32 length = body length) -/
theorem encode_mkPdu (p : PDU) (h : encOk p = true) :
    ∃ t r body, encode p = mkPdu t r body ∧ validType t = true ∧ body.length < 4294967296 := by
  cases p with
  | rq ver called calling items =>
    simp only [encOk, Bool.and_eq_true, Nat.blt_eq] at h
    obtain ⟨⟨⟨⟨_, hc⟩, hg⟩, hi⟩, hl⟩ := h
    have hcl : called.length ≤ 16 := by
      simp only [aeRqOk, Bool.and_eq_true, Nat.ble_eq] at hc; exact hc.1.1.2
    have hgl : calling.length ≤ 16 := by
      simp only [aeRqOk, Bool.and_eq_true, Nat.ble_eq] at hg; exact hg.1.1.2
    obtain ⟨body, he, hbl, _⟩ := encAssoc_body 1 ver called calling items hcl hgl
    refine ⟨1, 0, body, ?_, rfl, by omega⟩
    show encAssoc 1 ver called calling items = _
    rw [he, sum_lenVar items hi, ← hbl]; rfl
  | ac ver called calling items =>
    simp only [encOk, Bool.and_eq_true, Nat.blt_eq] at h
    obtain ⟨⟨⟨⟨_, hc⟩, hg⟩, hi⟩, hl⟩ := h
    have hcl : called.length ≤ 16 := by
      simp only [aeAcOk, Bool.and_eq_true, Nat.ble_eq] at hc; exact hc.2
    have hgl : calling.length ≤ 16 := by
      simp only [aeAcOk, Bool.and_eq_true, Nat.ble_eq] at hg; exact hg.2
    obtain ⟨body, he, hbl, _⟩ := encAssoc_body 2 ver called calling items hcl hgl
    refine ⟨2, 0, body, ?_, rfl, by omega⟩
    show encAssoc 2 ver called calling items = _
    rw [he, sum_lenVar items hi, ← hbl]; rfl
  | rj r s d => exact ⟨3, 0, [0, u8 r, u8 s, u8 d], by simp [encode, mkPdu], rfl, by simp⟩
  | pdata pdvs =>
    simp only [encOk, Bool.and_eq_true, lt32_iff] at h
    have hsum : (pdvs.map (fun p => 5 + p.data.length)).sum = (pdvs.flatMap encPdv).length := by
      clear h
      induction pdvs with
      | nil => rfl
      | cons p ps ih =>
        simp only [List.map_cons, List.sum_cons, List.flatMap_cons, List.length_append, ih]
        simp [encPdv]; omega
    refine ⟨4, 0, pdvs.flatMap encPdv, ?_, rfl, h.2⟩
    simp only [encode, hsum, u32, mkPdu, u8, List.cons_append, List.nil_append]
  | relRq => exact ⟨5, 0, [0, 0, 0, 0], rfl, rfl, by simp⟩
  | relRp => exact ⟨6, 0, [0, 0, 0, 0], rfl, rfl, by simp⟩
  | abort s r => exact ⟨7, 0, [0, 0, u8 s, u8 r], by simp [encode, mkPdu], rfl, by simp⟩

theorem noTimeout_nil : NoTimeout [] := fun _ h => by cases h

/-- one `_read_pdu_data()` on the encoding of a well-formed PDU (whatever follows it on the stream):
the PDU is handed to the state machine, decoded to its canonical value — never Evt17, never Evt19 -/
theorem classify_encode (p : PDU) (h : wf p = true) (more : Bytes) :
    classify (encode p ++ more) = .ok (canon p) := by
  have hok := encOk_of_wf p h
  obtain ⟨t, r, body, he, ht, hl⟩ := encode_mkPdu p hok
  obtain ⟨ks', _, hr⟩ := readPdu_mk t r body more [] ht hl noTimeout_nil
  obtain ⟨a, ha⟩ := toPrim_total_of_wf p h
  simp only [classify, he, hr]
  rw [← he]
  simp only [accept, decode_encode p hok, ha]

/-! ## wf ⇒ normal -/

theorem not_endsNul_of_wf {u : Bytes} (h : uidWf u = true) : endsNul u = false := by
  simp only [uidWf, uidOk, Bool.and_eq_true, Bool.not_eq_true'] at h
  exact h.1.2

theorem synN_of_wf {s : SynItem} (h : synWf s = true) : synN s = true := by
  have hl : ∀ {u : Bytes}, uidWf u = true → lt16 u.length = true := fun hu => by
    have := (uidWf_len hu).1; simp only [lt16_iff]; omega
  cases s with
  | abstract u => simp only [synN, not_endsNul_of_wf h, Bool.not_false, hl h, Bool.and_self]
  | transfer u =>
    simp only [synN, not_endsNul_of_wf h, Bool.not_false, hl h, Bool.true_and, (uidWf_len h).2]

theorem userN_of_wf {s : UserSub} (h : userWf s = true) : userN s = true := by
  cases s with
  | implUid u => simp only [userN, not_endsNul_of_wf h, Bool.not_false]
  | role u scu scp =>
    simp only [userWf, Bool.and_eq_true] at h
    simp only [userN, not_endsNul_of_wf h.1.1, Bool.not_false]
  | sopExt u info => simp only [userN, not_endsNul_of_wf h, Bool.not_false]
  | commonExt v sop svc rel =>
    simp only [userWf, Bool.and_eq_true] at h
    simp only [userN, not_endsNul_of_wf h.1.1.1.2, not_endsNul_of_wf h.1.1.2, Bool.not_false, Bool.true_and,
      Bool.and_eq_true]
    exact ⟨all_imp (fun u hu => by simp only [not_endsNul_of_wf hu, Bool.not_false]) h.1.2, h.2⟩
  | userIdRq t r p s =>
    simp only [userWf, Bool.and_eq_true] at h
    simp only [userN, Bool.and_eq_true]; exact ⟨h.1.2, h.2⟩
  | userIdAc r => exact h
  | maxLen _ => rfl
  | asyncOps _ _ => rfl
  | implVer _ => rfl

theorem varN_of_wf {v : VarItem} (h : varWf v = true) : varN v = true := by
  have hok := varOk_of_wf h
  cases v with
  | appCtx u =>
    have := (uidWf_len h).1
    simp only [varN, not_endsNul_of_wf h, Bool.not_false, Bool.true_and, lt16_iff]; omega
  | pcRq id subs =>
    simp only [varWf, Bool.and_eq_true] at h
    simp only [varN, Bool.and_eq_true]
    exact ⟨all_imp (fun _ => synN_of_wf) h.1.1.2, h.1.2⟩
  | pcAc id res subs =>
    simp only [varWf, Bool.and_eq_true] at h
    simp only [varOk, Bool.and_eq_true] at hok
    simp only [varN, Bool.and_eq_true]
    exact ⟨⟨all_imp (fun _ => synN_of_wf) h.1.2, hok.1.2⟩, hok.2⟩
  | userInfo subs =>
    simp only [varWf, Bool.and_eq_true] at h
    simp only [varN, Bool.and_eq_true]
    refine ⟨all_imp (fun s hs => ?_) h.1, h.2⟩
    simp only [Bool.and_eq_true] at hs ⊢
    exact ⟨userN_of_wf hs.1, hs.2⟩

/-- a well-formed value has none of the shapes that do not survive re-encoding -/
theorem normal_of_wf (p : PDU) (h : wf p = true) : normal p = true := by
  cases p with
  | rq ver called calling items =>
    simp only [wf, Bool.and_eq_true] at h
    simp only [normal, Bool.and_eq_true]
    exact ⟨all_imp (fun _ => varN_of_wf) h.1.2, h.2⟩
  | ac ver called calling items =>
    simp only [wf, Bool.and_eq_true] at h
    simp only [normal, Bool.and_eq_true]
    exact ⟨all_imp (fun _ => varN_of_wf) h.1.2, h.2⟩
  | pdata pdvs =>
    simp only [wf, Bool.and_eq_true] at h
    simp only [normal, Bool.and_eq_true]
    refine ⟨all_imp (fun p hp => ?_) h.1, h.2⟩
    simp only [pdvWf, Bool.and_eq_true] at hp; exact hp.2
  | rj _ _ _ => rfl
  | relRq => rfl
  | relRp => rfl
  | abort _ _ => rfl

theorem encodable_of_normal (p : PDU) (h : normal p = true) : encodable p = true := by
  have hs : ∀ (subs : List SynItem), subs.all synN = true → subs.all synEncodable = true := fun subs =>
    all_imp (fun s hs => by
      cases s with
      | abstract u => rfl
      | transfer u => simp only [synN, Bool.and_eq_true] at hs; exact hs.2)
  have hv : ∀ (v : VarItem), varN v = true → varEncodable v = true := fun v hvn => by
    cases v with
    | pcRq id subs => simp only [varN, Bool.and_eq_true] at hvn; exact hs subs hvn.1
    | pcAc id res subs => simp only [varN, Bool.and_eq_true] at hvn; exact hs subs hvn.1.1
    | appCtx _ => rfl
    | userInfo _ => rfl
  cases p with
  | rq ver called calling items =>
    simp only [normal, Bool.and_eq_true] at h; exact all_imp hv h.1
  | ac ver called calling items =>
    simp only [normal, Bool.and_eq_true] at h; exact all_imp hv h.1
  | _ => rfl

end PynetVerif.Pdu
