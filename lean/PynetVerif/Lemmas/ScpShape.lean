import PynetVerif.Lemmas.ScpCounters
/-!
Definitions and lemmas for C20 (each request gets exactly one final response):
what "non-final" means, the shape predicates, quiet (event-free) behaviours, the
status code `validate_status` produces, the facts needed of a status table (proved for
every table of status.py), and the induction principles of the C-FIND loop.
-/
namespace PynetVerif.Scp
open PynetVerif.Status (Category)

/-! ### non-final responses, shapes -/

/-- the status codes `code_to_category` calls Pending -/
def pendingCode (c : Int) : Bool := c == 0xFF00 || c == 0xFF01

/-- Statuses allowed before the final response: Pending, and — for the Repository Query SOP
class only — the response-limit warning 0xB001 which pynetdicom's own SCU treats as non-final. -/
def nonFinalCode (repo : Bool) (c : Int) : Bool := pendingCode c || (repo && c == 0xB001)

def nonFinal (repo : Bool) (s : Snap) : Bool := nonFinalCode repo s.r.status

/-- `pendingCode` is the Pending category of the general `code_to_category` (C28's model) -/
theorem pendingCode_iff_category (n : Nat) :
    pendingCode (Int.ofNat n) = true ↔ Status.category n = Category.pending := by
  constructor
  · intro h
    simp only [pendingCode, Bool.or_eq_true, beq_iff_eq] at h
    rcases h with h | h
    · have : n = 0xFF00 := by have h' : (n : Int) = 65280 := h; omega
      subst this; decide
    · have : n = 0xFF01 := by have h' : (n : Int) = 65281 := h; omega
      subst this; decide
  · intro h
    unfold Status.category at h
    cases hl : Status.lookup Status.runs n with
    | none => rw [hl] at h; simp [Category.ofCode] at h
    | some v =>
      rw [hl] at h
      simp only [Option.getD_some] at h
      have hv := ofCode_pending v h
      subst hv
      obtain ⟨r, hr, h1, h2, h3⟩ := lookup_some_mem Status.runs n 4 hl
      have hall : Status.runs.all (fun r => r.2.2 != 4 || (Nat.ble 0xFF00 r.1 && Nat.ble r.2.1 0xFF01)) = true := by
        decide
      have hr' := List.all_eq_true.mp hall r hr
      simp only [h3, bne_self_eq_false, Bool.false_or, Bool.and_eq_true, Nat.ble_eq] at hr'
      have : n = 0xFF00 ∨ n = 0xFF01 := by omega
      rcases this with h | h <;> (subst h; decide)

/-- nothing follows a final response -/
def Sh (repo : Bool) (l : List Snap) : Prop :=
  ∀ pre f post, l = pre ++ f :: post → nonFinal repo f = false → post = []

/-- the last response exists and is final -/
def Finished (repo : Bool) (l : List Snap) : Prop :=
  ∃ pre f, l = pre ++ [f] ∧ nonFinal repo f = false

theorem Sh_nil (repo : Bool) : Sh repo [] := by
  intro pre f post h; cases pre <;> cases h

theorem Sh_single (repo : Bool) (s : Snap) : Sh repo [s] := by
  intro pre f post h _
  cases pre with
  | nil => simp at h; exact h.2
  | cons p ps => simp at h

theorem Sh_cons {repo : Bool} {s : Snap} {l : List Snap} (hs : nonFinal repo s = true) (hl : Sh repo l) :
    Sh repo (s :: l) := by
  intro pre f post h hf
  cases pre with
  | nil =>
    simp only [List.nil_append, List.cons.injEq] at h
    rw [← h.1, hs] at hf; cases hf
  | cons p ps =>
    simp only [List.cons_append, List.cons.injEq] at h
    exact hl ps f post h.2 hf

theorem Finished_single {repo : Bool} {s : Snap} (h : nonFinal repo s = false) : Finished repo [s] :=
  ⟨[], s, rfl, h⟩

theorem Finished_cons {repo : Bool} (s : Snap) {l : List Snap} (h : Finished repo l) : Finished repo (s :: l) := by
  obtain ⟨pre, f, h1, h2⟩ := h
  exact ⟨s :: pre, f, by rw [h1]; rfl, h2⟩

/-- what C20 asks of the responses to one request: no exception escapes the SCP, nothing follows
a final response, and — when no abort/release intervened — there is a final response -/
def Conforms (repo quiet : Bool) (o : Out) : Prop :=
  o.crashed = false ∧ Sh repo o.rsps ∧ (quiet = true → Finished repo o.rsps)

theorem conforms_send {repo quiet : Bool} (cx : Nat) (r : Rsp) (h : nonFinalCode repo r.status = false) :
    Conforms repo quiet (send cx r) :=
  ⟨rfl, Sh_single _ _, fun _ => Finished_single h⟩

theorem conforms_nil {repo : Bool} : Conforms repo false Out.nil :=
  ⟨rfl, Sh_nil _, fun h => by cases h⟩

/-- prepend one non-final response -/
theorem conforms_cons {repo quiet : Bool} {cx : Nat} {r : Rsp} {o : Out}
    (h : nonFinalCode repo r.status = true) (ho : Conforms repo quiet o) :
    Conforms repo quiet (send cx r ++ o) := by
  obtain ⟨h1, h2, h3⟩ := ho
  refine ⟨by simpa using h1, ?_, ?_⟩
  · show Sh repo ([⟨cx, r⟩] ++ o.rsps)
    exact Sh_cons h h2
  · intro hq
    show Finished repo ([⟨cx, r⟩] ++ o.rsps)
    exact Finished_cons _ (h3 hq)

/-! ### quiet behaviours -/

def Ev.quiet (e : Ev) : Bool := !e.hAbort && !e.peer

def Item.quiet : Item → Bool
  | .yield _ e => e.quiet
  | .raise _ e => e.quiet
  | .ret e => e.quiet

/-- no association event happens while the handler runs -/
def Handler.quiet : Handler → Bool
  | .gen items => items.all Item.quiet
  | .fnRaise _ e => e.quiet
  | .fnNone e => e.quiet
  | .fnJunk e => e.quiet
  | .fnVal _ e => e.quiet

/-- the association is established and the peer has not asked to stop -/
def St.up (s : St) : Bool := s.est && !s.peer

theorem St.apply_quiet {s : St} {e : Ev} (he : e.quiet = true) : s.apply e = s := by
  cases s; cases e
  simp only [Ev.quiet, Bool.and_eq_true, Bool.not_eq_true'] at he
  simp [St.apply, he.1, he.2]

theorem St.up_est {s : St} (h : s.up = true) : s.est = true := by
  simp only [St.up, Bool.and_eq_true] at h; exact h.1

theorem St.up_peer {s : St} (h : s.up = true) : s.peer = false := by
  simp only [St.up, Bool.and_eq_true, Bool.not_eq_true'] at h; exact h.2

/-! ### the status `validate_status` produces -/

/-- the value of the last Status element of a status dataset -/
def lastStatus : List (Kw × Nat) → Option Nat
  | [] => none
  | e :: es =>
    match lastStatus es with
    | some v => some v
    | none => if e.1 == Kw.status then some e.2 else none

/-- the Status value `validate_status` leaves in the response -/
def statusCode : StatusVal → Int
  | .int c => c
  | .bad => 0xC002
  | .ds elems =>
    match lastStatus elems with
    | some v => v
    | none => 0xC001

theorem hasAttr_status (p : Prim) : hasAttr p Kw.status = true := by cases p <;> decide

theorem setAttr_status_ne (r : Rsp) (k : Kw) (v : Nat) (h : k ≠ Kw.status) : (r.setAttr k v).status = r.status := by
  cases k <;> first | rfl | exact absurd rfl h

theorem copyElems_cons (p : Prim) (e : Kw × Nat) (es : List (Kw × Nat)) (r : Rsp) :
    copyElems p (e :: es) r = copyElems p es (if hasAttr p e.1 then r.setAttr e.1 e.2 else r) := by
  simp [copyElems]

theorem copyElems_status (p : Prim) : ∀ (elems : List (Kw × Nat)) (r : Rsp),
    (copyElems p elems r).status =
      match lastStatus elems with
      | some v => (v : Int)
      | none => r.status := by
  intro elems
  induction elems with
  | nil => intro r; rfl
  | cons e es ih =>
    intro r
    rw [copyElems_cons, ih]
    simp only [lastStatus]
    cases hl : lastStatus es with
    | some v => rfl
    | none =>
      simp only
      by_cases hk : e.1 = Kw.status
      · have hb : (e.1 == Kw.status) = true := by simp [hk]
        have ha : hasAttr p e.1 = true := by rw [hk]; exact hasAttr_status p
        simp only [hb, ha, if_true]
        rw [hk]; rfl
      · have hb : (e.1 == Kw.status) = false := by simp [hk]
        simp only [hb, Bool.false_eq_true, if_false]
        split
        · exact setAttr_status_ne r e.1 e.2 hk
        · rfl

theorem lastStatus_isSome : ∀ (elems : List (Kw × Nat)), (lastStatus elems).isSome = hasStatus elems := by
  intro elems
  induction elems with
  | nil => rfl
  | cons e es ih =>
    simp only [lastStatus, hasStatus, List.any_cons] at ih ⊢
    cases hl : lastStatus es with
    | some v =>
      rw [hl] at ih
      simp only [Option.isSome_some] at ih ⊢
      rw [← ih]; simp
    | none =>
      rw [hl] at ih
      simp only [Option.isSome_none] at ih
      rw [← ih]
      by_cases hk : (e.1 == Kw.status) = true <;> simp [hk]

/-- the status of the response after `validate_status` depends only on the status object -/
theorem validateStatus_status (p : Prim) (s : StatusVal) (r : Rsp) :
    (validateStatus p s r).status = statusCode s := by
  cases s with
  | int c => rfl
  | bad => rfl
  | ds elems =>
    simp only [validateStatus, statusCode]
    have hs := lastStatus_isSome elems
    by_cases h : hasStatus elems = true
    · simp only [h, if_true]
      rw [copyElems_status p elems r]
      cases hl : lastStatus elems with
      | none => rw [hl, h] at hs; cases hs
      | some v => rfl
    · have h' : hasStatus elems = false := by simpa using h
      simp only [h', Bool.false_eq_true, if_false]
      cases hl : lastStatus elems with
      | none => rfl
      | some v => rw [hl, h'] at hs; cases hs

/-! ### message id -/

/-- the status object carries no (0000,0120) MessageIDBeingRespondedTo element -/
def StatusVal.noMsgId : StatusVal → Bool
  | .ds elems => elems.all (fun e => e.1 != Kw.msgIdResp)
  | _ => true

theorem setAttr_msgId_ne (r : Rsp) (k : Kw) (v : Nat) (h : k ≠ Kw.msgIdResp) :
    (r.setAttr k v).msgIdResp = r.msgIdResp := by
  cases k <;> first | rfl | exact absurd rfl h

theorem copyElems_msgId (p : Prim) : ∀ (elems : List (Kw × Nat)) (r : Rsp),
    elems.all (fun e => e.1 != Kw.msgIdResp) = true → (copyElems p elems r).msgIdResp = r.msgIdResp := by
  intro elems
  induction elems with
  | nil => intro r _; rfl
  | cons e es ih =>
    intro r h
    simp only [List.all_cons, Bool.and_eq_true, bne_iff_ne, ne_eq] at h
    simp only [copyElems, List.foldl_cons] at ih ⊢
    split
    · rw [ih _ (by simpa using h.2)]; exact setAttr_msgId_ne r e.1 e.2 h.1
    · exact ih r (by simpa using h.2)

theorem validateStatus_msgId (p : Prim) (s : StatusVal) (r : Rsp) (h : s.noMsgId = true) :
    (validateStatus p s r).msgIdResp = r.msgIdResp := by
  cases s with
  | int c => rfl
  | bad => rfl
  | ds elems =>
    simp only [validateStatus]
    split
    · exact copyElems_msgId p elems r h
    · rfl

/-! ### status tables -/

/-- what C20 needs of a status table: its Pending entries are exactly codes `code_to_category`
calls Pending, its other entries are not, and 0xB001 — where present — is a Warning -/
structure StdTable (t : Table) : Prop where
  pending : ∀ c, tableCat t c = some Category.pending → pendingCode c = true
  nonPending : ∀ c cat, tableCat t c = some cat → cat ≠ Category.pending → pendingCode c = false
  b001 : ∀ cat, tableCat t 0xB001 = some cat → cat = Category.warning

/-- Boolean check of `StdTable` on the runs of a table -/
def stdTableB (t : Table) : Bool :=
  t.all (fun r => r.2.2 != 4 || (Nat.ble 0xFF00 r.1 && Nat.ble r.2.1 0xFF01)) &&
  t.all (fun r => r.2.2 == 4 || Nat.blt r.2.1 0xFF00 || Nat.blt 0xFF01 r.1) &&
  t.all (fun r => r.2.2 == 1 || Nat.blt r.2.1 0xB001 || Nat.blt 0xB001 r.1)

theorem ofCode_eq (v : Nat) (cat : Category) (h : Category.ofCode v = cat) (hc : cat ≠ Category.unknown) :
    v = cat.toNat := by
  unfold Category.ofCode at h
  split at h <;> first | (subst h; rfl) | (subst h; exact absurd rfl hc)

theorem stdTable_of_check (t : Table) (h : stdTableB t = true) : StdTable t := by
  simp only [stdTableB, Bool.and_eq_true] at h
  obtain ⟨⟨h1, h2⟩, h3⟩ := h
  refine ⟨?_, ?_, ?_⟩
  · intro c hc
    rcases pending_of_runs t h1 c hc with h | h <;> (subst h; rfl)
  · intro c cat hc hne
    cases c with
    | negSucc k => simp [tableCat] at hc
    | ofNat k =>
      simp only [tableCat, Option.map_eq_some_iff] at hc
      obtain ⟨v, hv, hp⟩ := hc
      obtain ⟨r, hr, ha, hb, hcat⟩ := lookup_some_mem t k v hv
      have hr' := List.all_eq_true.mp h2 r hr
      have hv4 : v ≠ 4 := by
        intro h4; subst h4; exact hne (by rw [← hp]; rfl)
      have : (r.2.2 == 4) = false := by rw [hcat]; simpa using hv4
      simp only [this, Bool.false_or, Bool.or_eq_true, Nat.blt_eq] at hr'
      simp only [pendingCode, Bool.or_eq_false_iff, beq_eq_false_iff_ne, ne_eq]
      constructor <;> (intro he; have : (k : Int) = _ := he; omega)
  · intro cat hc
    simp only [tableCat, Option.map_eq_some_iff] at hc
    obtain ⟨v, hv, hp⟩ := hc
    obtain ⟨r, hr, ha, hb, hcat⟩ := lookup_some_mem t 0xB001 v hv
    have hr' := List.all_eq_true.mp h3 r hr
    simp only [Bool.or_eq_true, Nat.blt_eq, beq_iff_eq] at hr'
    have : r.2.2 = 1 := by
      rcases hr' with (h | h) | h
      · exact h
      · omega
      · omega
    rw [hcat] at this
    subst this
    rw [← hp]; rfl

/-- every `*_STATUS` table of status.py (regenerated) is a standard table -/
theorem stdTable_all : ∀ t ∈ Gen.Status.tables, StdTable t.2 := by
  intro t ht
  apply stdTable_of_check
  have h : Gen.Status.tables.all (fun t => stdTableB t.2) = true := by decide
  exact List.all_eq_true.mp h t ht

theorem stdTable_named (name : String) (h : (Gen.Status.tables.find? (fun t => t.1 == name)).isSome = true) :
    StdTable (tableNamed name) := by
  unfold tableNamed
  cases hf : Gen.Status.tables.find? (fun t => t.1 == name) with
  | none => rw [hf] at h; cases h
  | some t => exact stdTable_all t (List.mem_of_find?_eq_some hf)

/-- a final-category entry of a standard table is a final status code -/
theorem StdTable.final_of_cat {t : Table} (ht : StdTable t) {repo : Bool} {c : Int} {cat : Category}
    (hc : tableCat t c = some cat) (h1 : cat ≠ Category.pending) (h2 : cat ≠ Category.warning) :
    nonFinalCode repo c = false := by
  simp only [nonFinalCode, Bool.or_eq_false_iff]
  refine ⟨ht.nonPending c cat hc h1, ?_⟩
  cases repo with
  | false => rfl
  | true =>
    simp only [Bool.true_and, beq_eq_false_iff_ne, ne_eq]
    intro he
    subst he
    exact h2 (ht.b001 cat hc)

theorem StdTable.nonFinal_of_pending {t : Table} (ht : StdTable t) {repo : Bool} {c : Int}
    (hc : tableCat t c = some Category.pending) : nonFinalCode repo c = true := by
  simp [nonFinalCode, ht.pending c hc]

theorem conforms_mono {repo q q' : Bool} {o : Out} (h : Conforms repo q o) (hq : q' = true → q = true) :
    Conforms repo q' o :=
  ⟨h.1, h.2.1, fun h' => h.2.2 (hq h')⟩

theorem conforms_nil_any {repo q : Bool} (hq : q = false) : Conforms repo q Out.nil := by
  subst hq; exact conforms_nil

/-! ### `_c_find_scp` -/

/-- what C20 needs of the table of a C-FIND service -/
structure FindTable (t : Table) : Prop extends StdTable t where
  success0 : tableCat t 0 = some Category.success
  exc : tableCat t 0xC311 = some Category.failure

/-- The hypothesis of the `_partial` theorems for `_c_find_scp`, on one value the loop body is
run on: it unpacks into two; a status the table does not know is not a Pending-looking code;
a status the table calls Warning is one that may precede the final response (only the
Repository Query 0xB001). -/
def GoodFind (t : Table) (repo : Bool) (v : Option YieldVal) : Prop :=
  ∃ s d o, unpack 0xC311 v = some (s, d, o) ∧
    (tableCat t (statusCode s) = none → nonFinalCode repo (statusCode s) = false) ∧
    (tableCat t (statusCode s) = some Category.warning → nonFinalCode repo (statusCode s) = true)

theorem goodFind_none {t : Table} (ht : FindTable t) (repo : Bool) : GoodFind t repo none := by
  refine ⟨_, _, _, rfl, ?_, ?_⟩ <;> (intro h; simp only [statusCode] at h; rw [ht.exc] at h; cases h)

theorem c312_final (repo : Bool) : nonFinalCode repo 0xC312 = false := by cases repo <;> decide
theorem zero_final (repo : Bool) : nonFinalCode repo 0 = false := by cases repo <;> decide

theorem findStep_conf {t : Table} (ht : FindTable t) {repo : Bool} {v : Option YieldVal}
    (hg : GoodFind t repo v) (cx : Nat) (est : Bool) (r : Rsp) :
    match findStep t cx est v r with
    | .stop o => (o = Out.nil ∧ est = false) ∨ (∃ r', o = send cx r' ∧ nonFinalCode repo r'.status = false)
    | .cont o _ => o = Out.nil ∨ (∃ r', o = send cx r' ∧ nonFinalCode repo r'.status = true)
    | .brk _ => False := by
  obtain ⟨s, d, o, hu, h1, h2⟩ := hg
  unfold findStep
  rw [hu]
  simp only
  cases est with
  | false => simp
  | true =>
    simp only [Bool.not_true, Bool.false_eq_true, if_false]
    have hst : (validateStatus .find s r.clearIdent).status = statusCode s := validateStatus_status _ _ _
    cases hc : tableCat t (validateStatus .find s r.clearIdent).status with
    | none =>
      simp only
      exact Or.inr ⟨_, rfl, by rw [hst] at hc ⊢; exact h1 hc⟩
    | some cat =>
      simp only
      rw [hst] at hc
      cases cat with
      | success =>
        simp only [findKnown]
        exact Or.inr ⟨_, rfl, by rw [hst]; exact ht.final_of_cat hc (by simp) (by simp)⟩
      | failure =>
        simp only [findKnown]
        exact Or.inr ⟨_, rfl, by rw [hst]; exact ht.final_of_cat hc (by simp) (by simp)⟩
      | cancel =>
        simp only [findKnown]
        exact Or.inr ⟨_, rfl, by rw [hst]; exact ht.final_of_cat hc (by simp) (by simp)⟩
      | warning =>
        simp only [findKnown]
        exact Or.inr ⟨_, rfl, by rw [hst]; exact h2 hc⟩
      | pending =>
        simp only [findKnown]
        by_cases hd : d.encodes = true
        · simp only [hd, if_true]
          exact Or.inr ⟨_, rfl, by show nonFinalCode repo (validateStatus .find s r.clearIdent).status = true
                                   rw [hst]; exact ht.nonFinal_of_pending hc⟩
        · simp only [hd, Bool.false_eq_true, if_false]
          exact Or.inr ⟨_, rfl, c312_final repo⟩
      | unknown =>
        simp [findKnown]

theorem findTail_conf (repo : Bool) (cx : Nat) (st : St) (r : Rsp) :
    Conforms repo st.est (findTail cx st r) := by
  unfold findTail
  cases h : st.est with
  | false => simp only [Bool.not_false, if_true]; exact conforms_nil
  | true => simp only [Bool.not_true, Bool.false_eq_true, if_false]; exact conforms_send _ _ (zero_final repo)

theorem findLoop_conf {t : Table} (ht : FindTable t) (repo : Bool) (cx : Nat) :
    ∀ (items : List Item) (st : St) (r : Rsp), (∀ v ∈ stepVals items, GoodFind t repo v) →
      Conforms repo (st.up && items.all Item.quiet) (findLoop t cx items st r) := by
  intro items
  induction items with
  | nil =>
    intro st r _
    exact conforms_mono (findTail_conf repo cx st r) (by simp [St.up]; intro a _; exact a)
  | cons it rest ih =>
    intro st r hg
    cases it with
    | ret e =>
      simp only [findLoop]
      refine conforms_mono (findTail_conf repo cx (st.apply e) r) ?_
      intro hq
      simp only [List.all_cons, Item.quiet, Bool.and_eq_true] at hq
      rw [St.apply_quiet hq.2.1]; exact St.up_est hq.1
    | raise te e =>
      have hv : GoodFind t repo none := hg none (by simp [stepVals])
      have hs := findStep_conf ht hv cx (st.apply e).est r
      simp only [findLoop]
      split
      · next o heq =>
        rw [heq] at hs
        rcases hs with ⟨ho, hest⟩ | ⟨r', ho, hf⟩
        · subst ho
          refine conforms_nil_any ?_
          cases hq : (st.up && (Item.raise te e :: rest).all Item.quiet) with
          | false => rfl
          | true =>
            simp only [List.all_cons, Item.quiet, Bool.and_eq_true] at hq
            rw [St.apply_quiet hq.2.1, St.up_est hq.1] at hest; cases hest
        · subst ho; exact conforms_send _ _ hf
      · next o r' heq =>
        rw [heq] at hs
        have htail : Conforms repo (st.up && (Item.raise te e :: rest).all Item.quiet) (findTail cx (st.apply e) r') := by
          refine conforms_mono (findTail_conf repo cx (st.apply e) r') ?_
          intro hq
          simp only [List.all_cons, Item.quiet, Bool.and_eq_true] at hq
          rw [St.apply_quiet hq.2.1]; exact St.up_est hq.1
        rcases hs with ho | ⟨r'', ho, hf⟩
        · subst ho; rw [Out.nil_append]; exact htail
        · subst ho; exact conforms_cons hf htail
      · next r' heq => rw [heq] at hs; exact hs.elim
    | yield v e =>
      have hv : GoodFind t repo (some v) := hg (some v) (by simp [stepVals])
      have hrest : ∀ x ∈ stepVals rest, GoodFind t repo x := by
        intro x hx; exact hg x (by simp [stepVals, hx])
      have hs := findStep_conf ht hv cx (st.apply e).est r
      have hup : (st.up && (Item.yield v e :: rest).all Item.quiet) = true →
          st.apply e = st ∧ st.est = true ∧ st.peer = false ∧ (st.up && rest.all Item.quiet) = true := by
        intro hq
        simp only [List.all_cons, Item.quiet, Bool.and_eq_true] at hq
        exact ⟨St.apply_quiet hq.2.1, St.up_est hq.1, St.up_peer hq.1, by simp [hq.1, hq.2.2]⟩
      simp only [findLoop]
      split
      · next hpeer =>
        refine conforms_mono (findTail_conf repo cx (st.apply e) r) ?_
        intro hq
        obtain ⟨h1, h2, _, _⟩ := hup hq
        rw [h1]; exact h2
      · split
        · next o heq =>
          rw [heq] at hs
          rcases hs with ⟨ho, hest⟩ | ⟨r', ho, hf⟩
          · subst ho
            refine conforms_nil_any ?_
            cases hq : (st.up && (Item.yield v e :: rest).all Item.quiet) with
            | false => rfl
            | true =>
              obtain ⟨h1, h2, _, _⟩ := hup hq
              rw [h1, h2] at hest; cases hest
          · subst ho; exact conforms_send _ _ hf
        · next o r' heq =>
          rw [heq] at hs
          have hih : Conforms repo (st.up && (Item.yield v e :: rest).all Item.quiet)
              (findLoop t cx rest (st.apply e) r') := by
            refine conforms_mono (ih (st.apply e) r' hrest) ?_
            intro hq
            obtain ⟨h1, _, _, h4⟩ := hup hq
            rw [h1]; exact h4
          rcases hs with ho | ⟨r'', ho, hf⟩
          · subst ho; rw [Out.nil_append]; exact hih
          · subst ho; exact conforms_cons hf hih
        · next r' heq => rw [heq] at hs; exact hs.elim

/-! ### `_get_scp` / `_move_scp` -/

theorem StdTable.final_of_cat_norepo {t : Table} (ht : StdTable t) {c : Int} {cat : Category}
    (hc : tableCat t c = some cat) (h1 : cat ≠ Category.pending) : nonFinalCode false c = false := by
  simp only [nonFinalCode, Bool.false_and, Bool.or_false]
  exact ht.nonPending c cat hc h1

/-- The hypothesis of the `_partial` theorems for `_get_scp/_move_scp`, on one value the loop
body is run on: it unpacks into two, and a status the table does not know is not a
Pending-looking code. -/
def GoodRetrieve (t : Table) (exc : Int) (v : Option YieldVal) : Prop :=
  ∃ s d o, unpack exc v = some (s, d, o) ∧
    (tableCat t (statusCode s) = none → pendingCode (statusCode s) = false)

theorem finalStatusSpec_final (n f w : Nat) : nonFinalCode false (finalStatusSpec n f w) = false := by
  unfold finalStatusSpec
  split
  · decide
  · split <;> decide

theorem gmTail_conf (cx n : Nat) (st : St) (g : GmSt) : Conforms false st.est (gmTail cx n st g) := by
  unfold gmTail
  cases h : st.est with
  | false => simp only [Bool.not_false, if_true]; exact conforms_nil
  | true =>
    simp only [Bool.not_true, Bool.false_eq_true, if_false]
    exact conforms_send _ _ (by rw [gmFinal_status]; exact finalStatusSpec_final _ _ _)

theorem stopSpec_final {p : Prim} {t : Table} (ht : StdTable t) {g : GmSt} {s : StatusVal} {d : DsVal}
    {r : Rsp} (hgood : tableCat t (statusCode s) = none → pendingCode (statusCode s) = false)
    (h : StopSpec p t g s d r) : nonFinalCode false r.status = false := by
  have hst : (validateStatus p s g.rsp).status = statusCode s := validateStatus_status _ _ _
  cases h with
  | unknown hc =>
    rw [hst] at hc ⊢
    simp only [nonFinalCode, Bool.false_and, Bool.or_false]; exact hgood hc
  | cancel hc =>
    show nonFinalCode false (validateStatus p s g.rsp).status = false
    rw [hst] at hc ⊢; exact ht.final_of_cat_norepo hc (by simp)
  | failWarn hc =>
    show nonFinalCode false (validateStatus p s g.rsp).status = false
    rw [hst] at hc ⊢
    rcases hc with hc | hc <;> exact ht.final_of_cat_norepo hc (by simp)
  | success hc =>
    rw [gmSuccess_status]
    split
    · rw [hst] at hc ⊢; exact ht.final_of_cat_norepo hc (by simp)
    · decide

theorem gmLoop_conf {t : Table} (ht : StdTable t) (p : Prim) (cx n : Nat) (exc : Int) :
    ∀ (items : List Item) (st : St) (g : GmSt), (∀ v ∈ stepVals items, GoodRetrieve t exc v) →
      Conforms false (st.up && items.all Item.quiet) (gmLoop p t cx n exc items st g) := by
  intro items
  have tailOK : ∀ (st : St) (e : Ev) (g : GmSt) (q : Bool),
      (q = true → e.quiet = true ∧ st.up = true) → Conforms false q (gmTail cx n (st.apply e) g) := by
    intro st e g q hq
    refine conforms_mono (gmTail_conf cx n (st.apply e) g) ?_
    intro h
    obtain ⟨h1, h2⟩ := hq h
    rw [St.apply_quiet h1]; exact St.up_est h2
  -- one loop body, given what follows it
  have body : ∀ (st : St) (e : Ev) (v : Option YieldVal) (g : GmSt) (q : Bool) (next : GmSt → Out),
      GoodRetrieve t exc v → (q = true → e.quiet = true ∧ st.up = true) →
      (∀ g', Conforms false q (next g')) →
      Conforms false q
        (match gmStep p t cx exc (st.apply e).est v g with
         | .stop o => o
         | .cont o g' => o ++ next g'
         | .brk g' => gmTail cx n (st.apply e) g') := by
    intro st e v g q next hv hq hnext
    obtain ⟨s, d, o, hu, hgood⟩ := hv
    split
    · next o' heq =>
      rcases gmStep_stop heq with h | h | ⟨_, s', d', o'', r, hu', ho, hspec⟩
      · -- crash: impossible, the value unpacks
        exfalso
        unfold gmStep at heq
        rw [hu] at heq
        simp only at heq
        split at heq
        · injection heq with heq; rw [h] at heq; cases heq
        · split at heq
          · cases heq
          · subst h
            unfold gmDispatch at heq
            split at heq
            · injection heq with heq; cases heq
            · unfold gmKnown at heq
              split at heq
              · injection heq with heq; cases heq
              · injection heq with heq; cases heq
              · injection heq with heq; cases heq
              · injection heq with heq; cases heq
              · obtain ⟨o3, g3, he, _⟩ := gmPending_spec cx (validateStatus p s g.clearIdent.rsp) d o g.clearIdent
                rw [he] at heq; cases heq
              · cases heq
      · subst h
        refine conforms_nil_any ?_
        cases hqq : q with
        | false => rfl
        | true =>
          exfalso
          obtain ⟨h1, h2⟩ := hq hqq
          unfold gmStep at heq
          rw [hu] at heq
          simp only [St.apply_quiet h1, St.up_est h2, Bool.not_true, Bool.false_eq_true, if_false] at heq
          split at heq
          · cases heq
          · unfold gmDispatch at heq
            split at heq
            · injection heq with heq; cases heq
            · unfold gmKnown at heq
              split at heq
              · injection heq with heq; cases heq
              · injection heq with heq; cases heq
              · injection heq with heq; cases heq
              · injection heq with heq; cases heq
              · obtain ⟨o3, g3, he, _⟩ := gmPending_spec cx (validateStatus p s g.clearIdent.rsp) d o g.clearIdent
                rw [he] at heq; cases heq
              · cases heq
      · subst ho
        rw [hu] at hu'
        injection hu' with hu'
        injection hu' with hs hrest
        subst hs
        exact conforms_send _ _ (stopSpec_final ht hgood hspec)
    · next o' g' heq =>
      obtain ⟨_, s', d', oc, hu', hcase⟩ := gmStep_cont heq
      rcases hcase with ⟨ho, _, _⟩ | ⟨hpend, ⟨ho, _, _⟩ | ⟨op, ho, _, hst, _, _⟩⟩
      · subst ho; rw [Out.nil_append]; exact hnext g'
      · subst ho; rw [Out.nil_append]; exact hnext g'
      · subst ho
        have hnf : nonFinalCode false g'.rsp.status = true := by
          rw [hst, validateStatus_status] at *
          simp only [nonFinalCode, Bool.false_and, Bool.or_false]
          exact ht.pending _ hpend
        obtain ⟨h1, h2, h3⟩ := hnext g'
        refine ⟨by simpa using h1, ?_, ?_⟩
        · show Sh false ([⟨cx, g'.rsp⟩] ++ (next g').rsps)
          exact Sh_cons hnf h2
        · intro hqq
          show Finished false ([⟨cx, g'.rsp⟩] ++ (next g').rsps)
          exact Finished_cons _ (h3 hqq)
    · next g' heq => exact tailOK st e g' q hq
  induction items with
  | nil =>
    intro st g _
    exact conforms_mono (gmTail_conf cx n st g) (by simp [St.up]; intro a _; exact a)
  | cons it rest ih =>
    intro st g hg
    cases it with
    | ret e =>
      simp only [gmLoop]
      refine tailOK st e g _ ?_
      intro hq
      simp only [List.all_cons, Item.quiet, Bool.and_eq_true] at hq
      exact ⟨hq.2.1, hq.1⟩
    | raise te e =>
      simp only [gmLoop]
      have hq : (st.up && (Item.raise te e :: rest).all Item.quiet) = true → e.quiet = true ∧ st.up = true := by
        intro hq
        simp only [List.all_cons, Item.quiet, Bool.and_eq_true] at hq
        exact ⟨hq.2.1, hq.1⟩
      exact body st e none g _ (fun g' => gmTail cx n (st.apply e) g') (hg none (by simp [stepVals])) hq
        (fun g' => tailOK st e g' _ hq)
    | yield v e =>
      have hq : (st.up && (Item.yield v e :: rest).all Item.quiet) = true → e.quiet = true ∧ st.up = true := by
        intro hq
        simp only [List.all_cons, Item.quiet, Bool.and_eq_true] at hq
        exact ⟨hq.2.1, hq.1⟩
      simp only [gmLoop]
      split
      · exact tailOK st e g _ hq
      · refine body st e (some v) g _ (fun g' => gmLoop p t cx n exc rest (st.apply e) g')
          (hg (some v) (by simp [stepVals])) hq ?_
        intro g'
        refine conforms_mono (ih (st.apply e) g' (fun x hx => hg x (by simp [stepVals, hx]))) ?_
        intro hqq
        simp only [List.all_cons, Item.quiet, Bool.and_eq_true] at hqq
        rw [St.apply_quiet hqq.2.1]
        simp [hqq.1, hqq.2.2]

/-! ### whole SCPs -/

theorem up_init : ({} : St).up = true := rfl

theorem apply_init_quiet {e : Ev} (h : e.quiet = true) : (({} : St).apply e).est = true := by
  rw [St.apply_quiet h]

theorem code_final (repo : Bool) (c : Int) (h1 : c ≠ 0xFF00) (h2 : c ≠ 0xFF01) (h3 : c ≠ 0xB001) :
    nonFinalCode repo c = false := by
  simp only [nonFinalCode, pendingCode, Bool.or_eq_false_iff, beq_eq_false_iff_ne, ne_eq]
  refine ⟨⟨h1, h2⟩, ?_⟩
  cases repo with
  | false => rfl
  | true => simp only [Bool.true_and, beq_eq_false_iff_ne, ne_eq]; exact h3

/-- `if !st.est then nil else o`: conforms when `o` does (quiet ⇒ established) -/
theorem conforms_guard {repo : Bool} {e : Ev} {o : Out} (ho : Conforms repo e.quiet o) :
    Conforms repo e.quiet (if !(({} : St).apply e).est then Out.nil else o) := by
  cases hq : e.quiet with
  | true =>
    rw [hq] at ho
    rw [apply_init_quiet hq]
    simpa using ho
  | false =>
    rw [hq] at ho
    split
    · exact conforms_nil
    · exact ho

/-- the hypothesis of `C20_shape_find_partial` on a handler -/
def GoodFindH (t : Table) (repo : Bool) : Handler → Prop
  | .gen items => ∀ v ∈ stepVals items, GoodFind t repo v
  | _ => True

theorem findScp_conf {t : Table} (ht : FindTable t) (repo : Bool) (cx m : Nat) (h : Handler)
    (hg : GoodFindH t repo h) : Conforms repo h.quiet (findScp t cx m h) := by
  cases h with
  | gen items =>
    have := findLoop_conf ht repo cx items {} { msgIdResp := m } hg
    simpa [findScp, Handler.quiet, up_init] using this
  | fnRaise te e =>
    exact conforms_send _ _ (code_final repo 0xC311 (by decide) (by decide) (by decide))
  | fnNone e =>
    simp only [findScp, Handler.quiet]
    refine conforms_guard ?_
    have hgood : ∀ v ∈ stepVals [Item.yield (.pair (.int 0) .none .success) {}], GoodFind t repo v := by
      intro v hv
      simp only [stepVals, List.mem_singleton] at hv
      subst hv
      refine ⟨_, _, _, rfl, ?_, ?_⟩ <;> (intro h; simp only [statusCode] at h; rw [ht.success0] at h; cases h)
    refine conforms_mono (findLoop_conf ht repo cx _ (({} : St).apply e) { msgIdResp := m } hgood) ?_
    intro hq
    rw [St.apply_quiet hq]; rfl
  | fnJunk e =>
    simp only [findScp, Handler.quiet]
    refine conforms_guard ?_
    have hgood : ∀ v ∈ stepVals [Item.raise true {}], GoodFind t repo v := by
      intro v hv
      simp only [stepVals, List.mem_singleton] at hv
      subst hv
      exact goodFind_none ht repo
    refine conforms_mono (findLoop_conf ht repo cx _ (({} : St).apply e) { msgIdResp := m } hgood) ?_
    intro hq
    rw [St.apply_quiet hq]; rfl
  | fnVal v e =>
    simp only [findScp, Handler.quiet]
    refine conforms_guard ?_
    have hgood : ∀ v ∈ stepVals [Item.raise true {}], GoodFind t repo v := by
      intro v hv
      simp only [stepVals, List.mem_singleton] at hv
      subst hv
      exact goodFind_none ht repo
    refine conforms_mono (findLoop_conf ht repo cx _ (({} : St).apply e) { msgIdResp := m } hgood) ?_
    intro hq
    rw [St.apply_quiet hq]; rfl

/-- the hypothesis of `C20_shape_get_partial` / `_move_partial`: on the values yielded after the
announced count (C-MOVE: after destination and count) -/
def GoodRetrieveH (t : Table) (exc : Int) (k : Nat) (h : Handler) : Prop :=
  ∀ v ∈ stepVals (h.itemsFrom k), GoodRetrieve t exc v

theorem getScp_conf {t : Table} (ht : StdTable t) (cx m : Nat) (h : Handler)
    (hg : GoodRetrieveH t 0xC411 1 h) : Conforms false h.quiet (getScp t cx m h) := by
  have fin : ∀ (q : Bool) (c : Int) (r : Rsp), c ≠ 0xFF00 → c ≠ 0xFF01 → r.status = c →
      Conforms false q (send cx r) := by
    intro q c r h1 h2 hr
    exact conforms_send _ _ (by rw [hr]; simp [nonFinalCode, pendingCode, h1, h2])
  cases h with
  | fnRaise te e => exact fin _ 0xC411 _ (by decide) (by decide) rfl
  | fnNone e => exact conforms_guard (fin _ 0xC413 _ (by decide) (by decide) rfl)
  | fnJunk e => exact conforms_guard (fin _ 0xC413 _ (by decide) (by decide) rfl)
  | fnVal v e => exact conforms_guard (fin _ 0xC413 _ (by decide) (by decide) rfl)
  | gen items =>
    cases items with
    | nil => exact fin _ 0xC413 _ (by decide) (by decide) rfl
    | cons it rest =>
      cases it with
      | ret e => exact fin _ 0xC413 _ (by decide) (by decide) rfl
      | raise te e => exact fin _ 0xC413 _ (by decide) (by decide) rfl
      | yield v e =>
        simp only [getScp]
        cases hv : asCount v with
        | none => exact fin _ 0xC413 _ (by decide) (by decide) rfl
        | some c =>
          simp only [getCounted]
          split
          · exact fin _ 0 _ (by decide) (by decide) rfl
          · split
            · exact fin _ 0xC416 _ (by decide) (by decide) rfl
            · refine conforms_mono (gmLoop_conf ht .get cx c.toNat 0xC411 rest (({} : St).apply e) _
                (by simpa [GoodRetrieveH, Handler.itemsFrom] using hg)) ?_
              intro hq
              simp only [Handler.quiet, List.all_cons, Item.quiet, Bool.and_eq_true] at hq
              rw [St.apply_quiet hq.1]
              simp [up_init, hq.2]

theorem moveScp_conf {t : Table} (ht : StdTable t) (cx m : Nat) (h : Handler)
    (hg : GoodRetrieveH t 0xC511 2 h) : Conforms false h.quiet (moveScp t cx m h) := by
  have fin : ∀ (q : Bool) (c : Int) (r : Rsp), c ≠ 0xFF00 → c ≠ 0xFF01 → r.status = c →
      Conforms false q (send cx r) := by
    intro q c r h1 h2 hr
    exact conforms_send _ _ (by rw [hr]; simp [nonFinalCode, pendingCode, h1, h2])
  cases h with
  | fnRaise te e => exact fin _ 0xC511 _ (by decide) (by decide) rfl
  | fnNone e => exact conforms_guard (fin _ 0xC514 _ (by decide) (by decide) rfl)
  | fnJunk e => exact conforms_guard (fin _ 0xC514 _ (by decide) (by decide) rfl)
  | fnVal v e => exact conforms_guard (fin _ 0xC514 _ (by decide) (by decide) rfl)
  | gen items =>
    cases items with
    | nil => exact fin _ 0xC514 _ (by decide) (by decide) rfl
    | cons it rest =>
      cases it with
      | ret e => exact fin _ 0xC514 _ (by decide) (by decide) rfl
      | raise te e => exact fin _ 0xC514 _ (by decide) (by decide) rfl
      | yield v e =>
        simp only [moveScp]
        -- quiet ⇒ still established after the first value
        have hq1 : (Handler.gen (Item.yield v e :: rest)).quiet = true → e.quiet = true ∧ rest.all Item.quiet = true := by
          intro hq
          simpa [Handler.quiet, Item.quiet] using hq
        split
        · next hne =>
          refine conforms_nil_any ?_
          cases hq : (Handler.gen (Item.yield v e :: rest)).quiet with
          | false => rfl
          | true =>
            rw [apply_init_quiet (hq1 hq).1] at hne
            simp at hne
        · split
          · exact fin _ 0xC515 _ (by decide) (by decide) rfl
          · exact fin _ 0xA801 _ (by decide) (by decide) rfl
          · next k _ =>
            cases rest with
            | nil => exact fin _ 0xC513 _ (by decide) (by decide) rfl
            | cons it2 rest2 =>
              cases it2 with
              | ret e2 => exact fin _ 0xC513 _ (by decide) (by decide) rfl
              | raise te2 e2 => exact fin _ 0xC513 _ (by decide) (by decide) rfl
              | yield v2 e2 =>
                simp only [moveAfterDest]
                cases hv : asCount v2 with
                | none => exact fin _ 0xC513 _ (by decide) (by decide) rfl
                | some c =>
                  simp only
                  have hq2 : (Handler.gen (Item.yield v e :: Item.yield v2 e2 :: rest2)).quiet = true →
                      e.quiet = true ∧ e2.quiet = true ∧ rest2.all Item.quiet = true := by
                    intro hq
                    simpa [Handler.quiet, Item.quiet, and_assoc] using hq
                  split
                  · next hne =>
                    refine conforms_nil_any ?_
                    cases hq : (Handler.gen (Item.yield v e :: Item.yield v2 e2 :: rest2)).quiet with
                    | false => rfl
                    | true =>
                      obtain ⟨a, b, _⟩ := hq2 hq
                      rw [St.apply_quiet a, St.apply_quiet b] at hne
                      simp at hne
                  · split
                    · exact fin _ 0 _ (by decide) (by decide) rfl
                    · split
                      · exact fin _ 0xC516 _ (by decide) (by decide) rfl
                      · cases k with
                        | raises => exact fin _ 0xC515 _ (by decide) (by decide) rfl
                        | refused => exact fin _ 0xA801 _ (by decide) (by decide) rfl
                        | unknown => exact fin _ 0xA801 _ (by decide) (by decide) rfl
                        | ok =>
                          refine conforms_mono (gmLoop_conf ht .move cx c.toNat 0xC511 rest2 _ _
                            (by simpa [GoodRetrieveH, Handler.itemsFrom] using hg)) ?_
                          intro hq
                          obtain ⟨a, b, c'⟩ := hq2 hq
                          rw [St.apply_quiet a, St.apply_quiet b]
                          simp [up_init, c']

theorem nf_0 : nonFinalCode false 0 = false := by decide
theorem nf_c311 : nonFinalCode false 0xC311 = false := by decide
theorem nf_c312 : nonFinalCode false 0xC312 = false := by decide
theorem nf_0110 : nonFinalCode false 0x0110 = false := by decide

/-! ### Relevant Patient Information Query -/

/-- the hypothesis of `C20_shape_rp_partial` on the status of the handler's first result: the
table does not call it Warning (the SCP has no branch for Warning and sends nothing), and a
status the table does not know is not a Pending-looking code -/
def GoodRpStatus (t : Table) (s : StatusVal) : Prop :=
  tableCat t (statusCode s) ≠ some Category.warning ∧ tableCat t (statusCode s) ≠ some Category.unknown ∧
  (tableCat t (statusCode s) = none → pendingCode (statusCode s) = false)

def GoodRpH (t : Table) : Handler → Prop
  | .gen (.yield (.pair s _ _) _ :: _) => GoodRpStatus t s
  | .gen (.yield (.status (.ds elems)) _ :: _) => elems.length = 2 → GoodRpStatus t .bad
  | _ => True

theorem rpSuccess_conf (cx : Nat) (e : Ev) (r : Rsp) :
    Conforms false e.quiet (rpSuccess cx (({} : St).apply e) r) := by
  unfold rpSuccess
  exact conforms_guard (conforms_send _ _ nf_0)

theorem rpBody_conf {t : Table} (ht : StdTable t) (cx : Nat) (e : Ev) (r : Rsp) (s : StatusVal) (d : DsVal)
    (hg : GoodRpStatus t s) : Conforms false e.quiet (rpBody t cx (({} : St).apply e) r s d) := by
  unfold rpBody
  refine conforms_guard ?_
  have hst : (validateStatus .find s r).status = statusCode s := validateStatus_status _ _ _
  obtain ⟨hw, hu, hn⟩ := hg
  cases hc : tableCat t (validateStatus .find s r).status with
  | none =>
    simp only
    rw [hst] at hc
    exact conforms_send _ _ (by rw [hst]; simp [nonFinalCode, hn hc])
  | some cat =>
    rw [hst] at hc
    cases cat with
    | success => exact conforms_send _ _ (by rw [hst]; exact ht.final_of_cat_norepo hc (by simp))
    | failure => exact conforms_send _ _ (by rw [hst]; exact ht.final_of_cat_norepo hc (by simp))
    | cancel => exact conforms_send _ _ (by rw [hst]; exact ht.final_of_cat_norepo hc (by simp))
    | warning => exact absurd hc hw
    | unknown => exact absurd hc hu
    | pending =>
      simp only
      by_cases hd : d.encodes = true
      · simp only [hd, if_true]
        refine conforms_cons ?_ (conforms_send _ _ nf_0)
        show nonFinalCode false (validateStatus .find s r).status = true
        rw [hst]; exact ht.nonFinal_of_pending hc
      · simp only [hd, Bool.false_eq_true, if_false]
        exact conforms_send _ _ nf_c312

theorem rpScp_conf {t : Table} (ht : StdTable t) (cx m : Nat) (h : Handler) (hg : GoodRpH t h) :
    Conforms false h.quiet (rpScp t cx m h) := by
  have exc : ∀ q, Conforms false q (send cx ({ msgIdResp := m, status := 0xC311 } : Rsp)) :=
    fun q => conforms_send _ _ nf_c311
  cases h with
  | fnRaise te e =>
    simp only [rpScp, Handler.quiet]
    split
    · exact rpSuccess_conf cx e _
    · exact exc _
  | fnNone e => exact rpSuccess_conf cx e _
  | fnJunk e => exact rpSuccess_conf cx e _
  | fnVal v e => exact rpSuccess_conf cx e _
  | gen items =>
    cases items with
    | nil => exact conforms_send _ _ nf_0
    | cons it rest =>
      have hq : ∀ (e : Ev) (o : Out), (Item.quiet (it) = e.quiet) → Conforms false e.quiet o →
          Conforms false (Handler.gen (it :: rest)).quiet o := by
        intro e o he ho
        refine conforms_mono ho ?_
        intro h
        simp only [Handler.quiet, List.all_cons, Bool.and_eq_true] at h
        rw [← he]; exact h.1
      cases it with
      | ret e => exact hq e _ rfl (rpSuccess_conf cx e _)
      | raise te e =>
        simp only [rpScp]
        split
        · exact hq e _ rfl (rpSuccess_conf cx e _)
        · exact exc _
      | yield v e =>
        cases v with
        | pair s d o => exact hq e _ rfl (rpBody_conf ht cx e _ s d hg)
        | status sv =>
          cases sv with
          | int c => exact hq e _ rfl (rpSuccess_conf cx e _)
          | bad => exact exc _
          | ds elems =>
            simp only [rpScp]
            split
            · next hl => exact hq e _ rfl (rpBody_conf ht cx e _ .bad .junkTruthy (hg (by simpa using hl)))
            · exact exc _
        | dest k => exact exc _
        | junk => exact hq e _ rfl (rpSuccess_conf cx e _)

/-! ### single-response services -/

/-- the hypothesis of the `_partial` theorems of the single-response services whose handler returns
a bare status (C-ECHO, C-STORE, N-DELETE): the status it produces is not a Pending-looking code -/
def GoodStatusH (h : Handler) : Prop :=
  h.call.1 = FnResult.raised ∨ pendingCode (statusCode (asStatus h.call.1)) = false

theorem call_quiet (h : Handler) (hg : ∀ items, h ≠ .gen items) : h.call.2.quiet = h.quiet := by
  cases h with
  | gen items => exact absurd rfl (hg items)
  | fnRaise te e => rfl
  | fnNone e => rfl
  | fnJunk e => rfl
  | fnVal v e => rfl

theorem echoScp_conf (cx m : Nat) (h : Handler) (hgen : ∀ items, h ≠ .gen items) (hg : GoodStatusH h) :
    Conforms false h.quiet (echoScp cx m h) := by
  unfold echoScp
  unfold GoodStatusH at hg
  rw [← call_quiet h hgen]
  generalize h.call = c at hg ⊢
  obtain ⟨res, e⟩ := c
  simp only at hg ⊢
  have key : ∀ sv : StatusVal, pendingCode (statusCode sv) = false →
      Conforms false e.quiet
        (if !(({} : St).apply e).est then Out.nil else
          match sv with
          | .ds elems => if hasStatus elems then send cx (copyElems .echo elems { msgIdResp := m })
                         else send cx { msgIdResp := m, status := 0 }
          | .int c => send cx { msgIdResp := m, status := c }
          | .bad => send cx { msgIdResp := m, status := 0 }) := by
    intro sv hsv
    refine conforms_guard ?_
    cases sv with
    | int c => exact conforms_send _ _ (by simpa [nonFinalCode, statusCode] using hsv)
    | bad => exact conforms_send _ _ nf_0
    | ds elems =>
      simp only
      split
      · next hst =>
        refine conforms_send _ _ ?_
        have : (copyElems .echo elems { msgIdResp := m }).status = statusCode (.ds elems) := by
          have := validateStatus_status .echo (.ds elems) { msgIdResp := m }
          simpa [validateStatus, hst] using this
        rw [this]; simpa [nonFinalCode] using hsv
      · exact conforms_send _ _ nf_0
  cases res with
  | raised => exact conforms_send _ _ nf_0
  | value v =>
    rcases hg with hg | hg
    · cases hg
    · exact key _ hg
  | junk5 => exact key (.int 5) (by decide)
  | genObj => exact key .bad (by decide)

theorem statusOnlyScp_conf (p : Prim) (exc : Int) (hexc : pendingCode exc = false) (cx m : Nat) (h : Handler)
    (hgen : ∀ items, h ≠ .gen items) (hg : GoodStatusH h) :
    Conforms false h.quiet (statusOnlyScp p exc cx m h) := by
  unfold statusOnlyScp
  unfold GoodStatusH at hg
  rw [← call_quiet h hgen]
  generalize h.call = c at hg ⊢
  obtain ⟨res, e⟩ := c
  simp only at hg ⊢
  have key : ∀ res : FnResult, pendingCode (statusCode (asStatus res)) = false →
      Conforms false e.quiet
        (if !(({} : St).apply e).est then Out.nil else send cx (validateStatus p (asStatus res) { msgIdResp := m })) := by
    intro res hres
    refine conforms_guard (conforms_send _ _ ?_)
    rw [validateStatus_status]; simpa [nonFinalCode] using hres
  cases res with
  | raised => exact conforms_send _ _ (by simpa [nonFinalCode] using hexc)
  | value v =>
    rcases hg with hg | hg
    · cases hg
    · exact key _ hg
  | junk5 => exact key .junk5 (by decide)
  | genObj => exact key .genObj (by decide)

/-- the hypothesis of `C20_shape_n_partial`: the handler raises, or returns something that unpacks
into (status, dataset) with a status that is not a Pending-looking code -/
def GoodPairH (h : Handler) : Prop :=
  h.call.1 = FnResult.raised ∨
  ∃ s d o, fnPair h.call.1 = some (s, d, o) ∧ pendingCode (statusCode s) = false

theorem nCreateStep_some {p : Prim} {cat : Category} {inst : Bool} {r r' : Rsp} {d d' : DsVal}
    (h : nCreateStep p cat inst r d = some (r', d')) : r'.status = r.status ∧ r'.msgIdResp = r.msgIdResp := by
  unfold nCreateStep at h
  split at h
  · split at h
    · injection h with h; injection h with h1 _; subst h1; exact ⟨rfl, rfl⟩
    · cases h
  · injection h with h; injection h with h1 _; subst h1; exact ⟨rfl, rfl⟩

theorem nFinish_spec (cx : Nat) (cat : Category) (r : Rsp) (d : DsVal) :
    ∃ x, nFinish cx cat r d = send cx x ∧ x.msgIdResp = r.msgIdResp ∧ (x.status = r.status ∨ x.status = 0x0110) := by
  unfold nFinish
  split
  · split
    · exact ⟨_, rfl, rfl, Or.inl rfl⟩
    · exact ⟨_, rfl, rfl, Or.inr rfl⟩
  · exact ⟨_, rfl, rfl, Or.inl rfl⟩

theorem nKnown_spec (p : Prim) (cx : Nat) (cat : Category) (inst : Bool) (r : Rsp) (d : DsVal) :
    ∃ x, nKnown p cx cat inst r d = send cx x ∧ x.msgIdResp = r.msgIdResp ∧
      (x.status = r.status ∨ x.status = 0x0110) := by
  unfold nKnown
  split
  · exact ⟨_, rfl, rfl, Or.inr rfl⟩
  · next r' d' hstep =>
    obtain ⟨h1, h2⟩ := nCreateStep_some hstep
    obtain ⟨x, hx, hm, hs⟩ := nFinish_spec cx cat r' d'
    exact ⟨x, hx, by rw [hm, h2], by rw [← h1]; exact hs⟩

/-- what `nBody` sends: nothing (the unpacking raised) or one response with the status
`validate_status` produced, or 0x0110 -/
theorem nBody_spec (p : Prim) (t : Table) (cx m : Nat) (inst : Bool) (res : FnResult) :
    (fnPair res = none ∧ nBody p t cx m inst res = Out.crash) ∨
    (∃ s d o x, fnPair res = some (s, d, o) ∧ nBody p t cx m inst res = send cx x ∧
      x.msgIdResp = (validateStatus p s { msgIdResp := m }).msgIdResp ∧
      (x.status = statusCode s ∨ x.status = 0x0110)) := by
  unfold nBody
  cases hp : fnPair res with
  | none => exact Or.inl ⟨rfl, rfl⟩
  | some x =>
    obtain ⟨s, d, o⟩ := x
    right
    simp only
    have hst : (validateStatus p s { msgIdResp := m }).status = statusCode s := validateStatus_status _ _ _
    split
    · exact ⟨s, d, o, _, rfl, rfl, rfl, Or.inl hst⟩
    · next cat _ =>
      obtain ⟨x, hx, hm, hs⟩ := nKnown_spec p cx cat inst (validateStatus p s { msgIdResp := m }) d
      exact ⟨s, d, o, x, rfl, hx, hm, by rw [← hst]; exact hs⟩

theorem nScp_conf (p : Prim) (t : Table) (cx m : Nat) (inst : Bool) (h : Handler)
    (hgen : ∀ items, h ≠ .gen items) (hg : GoodPairH h) :
    Conforms false h.quiet (nScp p t cx m inst h) := by
  unfold nScp
  unfold GoodPairH at hg
  rw [← call_quiet h hgen]
  generalize h.call = c at hg ⊢
  obtain ⟨res, e⟩ := c
  simp only at hg ⊢
  have key : ∀ res : FnResult, (∃ s d o, fnPair res = some (s, d, o) ∧ pendingCode (statusCode s) = false) →
      Conforms false e.quiet (if !(({} : St).apply e).est then Out.nil else nBody p t cx m inst res) := by
    intro res ⟨s, d, o, hp, hpend⟩
    refine conforms_guard ?_
    rcases nBody_spec p t cx m inst res with ⟨h1, _⟩ | ⟨s', d', o', x, h1, h2, _, h4⟩
    · rw [hp] at h1; cases h1
    · rw [hp] at h1
      injection h1 with h1; injection h1 with hs _; subst hs
      rw [h2]
      refine conforms_send _ _ ?_
      rcases h4 with h4 | h4 <;> rw [h4]
      · simpa [nonFinalCode] using hpend
      · decide
  cases res with
  | raised => exact conforms_send _ _ nf_0110
  | value v =>
    rcases hg with hg | hg
    · cases hg
    · exact key _ hg
  | junk5 =>
    rcases hg with hg | ⟨_, _, _, hg, _⟩
    · cases hg
    · cases hg
  | genObj =>
    rcases hg with hg | ⟨_, _, _, hg, _⟩
    · cases hg
    · cases hg

/-! ### nothing follows a final response — without any hypothesis on the handler -/

theorem Sh_of_le_one (repo : Bool) {l : List Snap} (h : l.length ≤ 1) : Sh repo l := by
  cases l with
  | nil => exact Sh_nil _
  | cons a l' =>
    cases l' with
    | nil => exact Sh_single _ _
    | cons b l'' => simp at h

theorem gmLoop_sh {t : Table} (ht : StdTable t) (p : Prim) (cx n : Nat) (exc : Int) (items : List Item)
    (st : St) (g : GmSt) : Sh false (gmLoop p t cx n exc items st g).rsps := by
  have tail : ∀ st g, Sh false (gmTail cx n st g).rsps := by
    intro st g
    rcases gmTail_rsps cx n st g with h | h <;> rw [h]
    · exact Sh_nil _
    · exact Sh_single _ _
  refine gmLoop_induct p t cx n exc (fun _ => True) (fun _ out => Sh false out.rsps)
    (fun st g => tail st g) ?_ ?_ ?_ items (fun _ _ => trivial) st g
  · intro est v g o _ h
    rcases gmStep_stop h with h | h | ⟨_, _, _, _, r, _, ho, _⟩
    · subst h; exact Sh_nil _
    · subst h; exact Sh_nil _
    · subst ho; exact Sh_single _ _
  · intro est v g o g' o' _ h ih
    obtain ⟨_, s', d, oc, _, hcase⟩ := gmStep_cont h
    rcases hcase with ⟨ho, _, _⟩ | ⟨hpend, ⟨ho, _, _⟩ | ⟨op, ho, _, hst, _, _⟩⟩
    · subst ho; simpa using ih
    · subst ho; simpa using ih
    · subst ho
      show Sh false ([⟨cx, g'.rsp⟩] ++ o'.rsps)
      refine Sh_cons ?_ ih
      show nonFinalCode false g'.rsp.status = true
      rw [hst, validateStatus_status] at *
      exact ht.nonFinal_of_pending hpend
  · intro est v g g' st h
    exact tail st g'

theorem length_send (cx : Nat) (r : Rsp) : (send cx r).rsps.length ≤ 1 := by simp

theorem getScp_sh {t : Table} (ht : StdTable t) (cx m : Nat) (h : Handler) : Sh false (getScp t cx m h).rsps := by
  have one : ∀ r : Rsp, Sh false (send cx r).rsps := fun r => Sh_single _ _
  have guard : ∀ (e : Ev) (r : Rsp), Sh false (if !(({} : St).apply e).est then Out.nil else send cx r).rsps := by
    intro e r; split
    · exact Sh_nil _
    · exact one r
  cases h with
  | fnRaise te e => exact one _
  | fnNone e => exact guard e _
  | fnJunk e => exact guard e _
  | fnVal v e => exact guard e _
  | gen items =>
    cases items with
    | nil => exact one _
    | cons it rest =>
      cases it with
      | ret e => exact one _
      | raise te e => exact one _
      | yield v e =>
        simp only [getScp]
        cases hv : asCount v with
        | none => exact one _
        | some c =>
          simp only [getCounted]
          split
          · exact one _
          · split
            · exact one _
            · exact gmLoop_sh ht _ _ _ _ _ _ _

theorem moveScp_sh {t : Table} (ht : StdTable t) (cx m : Nat) (h : Handler) : Sh false (moveScp t cx m h).rsps := by
  have one : ∀ r : Rsp, Sh false (send cx r).rsps := fun r => Sh_single _ _
  have guard : ∀ (e : Ev) (r : Rsp), Sh false (if !(({} : St).apply e).est then Out.nil else send cx r).rsps := by
    intro e r; split
    · exact Sh_nil _
    · exact one r
  cases h with
  | fnRaise te e => exact one _
  | fnNone e => exact guard e _
  | fnJunk e => exact guard e _
  | fnVal v e => exact guard e _
  | gen items =>
    cases items with
    | nil => exact one _
    | cons it rest =>
      cases it with
      | ret e => exact one _
      | raise te e => exact one _
      | yield v e =>
        simp only [moveScp]
        split
        · exact Sh_nil _
        · split
          · exact one _
          · exact one _
          · next k _ =>
            cases rest with
            | nil => exact one _
            | cons it2 rest2 =>
              cases it2 with
              | ret e2 => exact one _
              | raise te2 e2 => exact one _
              | yield v2 e2 =>
                simp only [moveAfterDest]
                cases hv : asCount v2 with
                | none => exact one _
                | some c =>
                  simp only
                  split
                  · exact Sh_nil _
                  · split
                    · exact one _
                    · split
                      · exact one _
                      · cases k with
                        | raises => exact one _
                        | refused => exact one _
                        | unknown => exact one _
                        | ok => exact gmLoop_sh ht _ _ _ _ _ _ _

theorem rpBody_sh {t : Table} (ht : StdTable t) (cx : Nat) (st : St) (r : Rsp) (s : StatusVal) (d : DsVal) :
    Sh false (rpBody t cx st r s d).rsps := by
  unfold rpBody
  have hst : (validateStatus .find s r).status = statusCode s := validateStatus_status _ _ _
  split
  · exact Sh_nil _
  · cases hc : tableCat t (validateStatus .find s r).status with
    | none => exact Sh_single _ _
    | some cat =>
      cases cat with
      | success => exact Sh_single _ _
      | failure => exact Sh_single _ _
      | cancel => exact Sh_single _ _
      | warning => exact Sh_nil _
      | unknown => exact Sh_nil _
      | pending =>
        simp only
        split
        · show Sh false ([⟨cx, _⟩] ++ [⟨cx, _⟩])
          refine Sh_cons ?_ (Sh_single _ _)
          show nonFinalCode false (validateStatus .find s r).status = true
          exact ht.nonFinal_of_pending hc
        · exact Sh_single _ _

theorem rpScp_sh {t : Table} (ht : StdTable t) (cx m : Nat) (h : Handler) : Sh false (rpScp t cx m h).rsps := by
  have one : ∀ r : Rsp, Sh false (send cx r).rsps := fun r => Sh_single _ _
  have succ : ∀ (st : St) (r : Rsp), Sh false (rpSuccess cx st r).rsps := by
    intro st r; unfold rpSuccess; split
    · exact Sh_nil _
    · exact one _
  cases h with
  | fnRaise te e => simp only [rpScp]; split
                    · exact succ _ _
                    · exact one _
  | fnNone e => exact succ _ _
  | fnJunk e => exact succ _ _
  | fnVal v e => exact succ _ _
  | gen items =>
    cases items with
    | nil => exact succ _ _
    | cons it rest =>
      cases it with
      | ret e => exact succ _ _
      | raise te e => simp only [rpScp]; split
                      · exact succ _ _
                      · exact one _
      | yield v e =>
        cases v with
        | pair s d o => exact rpBody_sh ht _ _ _ _ _
        | status sv =>
          cases sv with
          | int c => exact succ _ _
          | bad => exact one _
          | ds elems => simp only [rpScp]; split
                        · exact rpBody_sh ht _ _ _ _ _
                        · exact one _
        | dest k => exact one _
        | junk => exact succ _ _

theorem echoScp_len (cx m : Nat) (h : Handler) : (echoScp cx m h).rsps.length ≤ 1 := by
  unfold echoScp
  generalize h.call = c
  obtain ⟨res, e⟩ := c
  simp only
  have key : ∀ sv : StatusVal,
      (if !(({} : St).apply e).est then Out.nil else
          match sv with
          | .ds elems => if hasStatus elems then send cx (copyElems .echo elems { msgIdResp := m })
                         else send cx { msgIdResp := m, status := 0 }
          | .int c => send cx { msgIdResp := m, status := c }
          | .bad => send cx { msgIdResp := m, status := 0 }).rsps.length ≤ 1 := by
    intro sv
    split
    · simp
    · cases sv with
      | int c => simp
      | bad => simp
      | ds elems => simp only; split <;> simp
  cases res with
  | raised => simp
  | value v => exact key _
  | junk5 => exact key (.int 5)
  | genObj => exact key .bad

theorem statusOnlyScp_len (p : Prim) (exc : Int) (cx m : Nat) (h : Handler) :
    (statusOnlyScp p exc cx m h).rsps.length ≤ 1 := by
  unfold statusOnlyScp
  generalize h.call = c
  obtain ⟨res, e⟩ := c
  simp only
  have key : ∀ res : FnResult,
      (if !(({} : St).apply e).est then Out.nil
       else send cx (validateStatus p (asStatus res) { msgIdResp := m })).rsps.length ≤ 1 := by
    intro res; split <;> simp
  cases res with
  | raised => simp
  | value v => exact key _
  | junk5 => exact key .junk5
  | genObj => exact key .genObj

theorem nScp_len (p : Prim) (t : Table) (cx m : Nat) (inst : Bool) (h : Handler) :
    (nScp p t cx m inst h).rsps.length ≤ 1 := by
  unfold nScp
  have key : ∀ res, (if !(({} : St).apply h.call.2).est then Out.nil else nBody p t cx m inst res).rsps.length ≤ 1 := by
    intro res
    split
    · simp
    · rcases nBody_spec p t cx m inst res with ⟨_, h2⟩ | ⟨_, _, _, x, _, h2, _, _⟩ <;> rw [h2] <;> simp
  split
  · simp
  · exact key _

theorem findTable_of (name : String)
    (h : (Gen.Status.tables.find? (fun t => t.1 == name)).isSome = true)
    (h0 : tableCat (tableNamed name) 0 = some Category.success)
    (h1 : tableCat (tableNamed name) 0xC311 = some Category.failure) : FindTable (tableNamed name) :=
  { toStdTable := stdTable_named name h, success0 := h0, exc := h1 }


end PynetVerif.Scp
