import PynetVerif.Lemmas.PairAct
/-!
Case descriptions of the two reactor micro-steps, in the form the product-model proofs use them:
phase B either does nothing observable or completes one table action on the state with the event
popped; phase A only moves inbox items to the event queue, queues non-PDU events, and may close the
socket object in Sta13.
-/
namespace PynetVerif
open Dul Fsm

namespace PairL

/-- `effectsOf` is `Spec.Ps38.effects` at the input's `alt` bit (except for AA-1) -/
theorem effectsOf_eq' (s : St) (a : Action) (e : Nat) :
    ∃ alt b, effectsOf s a e = effB a s.requestor alt b ∧ (a ≠ .AA_1 → alt = altOf s a e) := by
  unfold effectsOf
  by_cases ha : a = .AA_1
  · subst ha
    simp only [↓reduceIte]
    split
    · exact ⟨true, true, rfl, fun h => absurd rfl h⟩
    · exact ⟨false, false, rfl, fun h => absurd rfl h⟩
  · simp only [ha, ↓reduceIte]
    refine ⟨altOf s a e, false, ?_, fun _ => rfl⟩
    cases a <;> first | rfl | exact absurd rfl ha

/-- the fields of `act` that do not depend on the effect fold -/
theorem act_core (s : St) (a : Action) (e : Nat) :
    (act s a e).fsm = (effectsOf s a e).2 ∧
    (act s a e).kill = (s.kill || (effectsOf s a e).2 == 1) ∧
    (act s a e).dead = s.dead ∧ (act s a e).phaseB = s.phaseB ∧ (act s a e).inbox = s.inbox ∧
    (act s a e).recvPdu = (if popsPdu a then s.recvPdu.tail else s.recvPdu) ∧
    (act s a e).requestor = s.requestor := by
  have hF := foldl_applyEff_frame (usedEffs a (effectsOf s a e).1) (popInputs s a)
  have hP := popInputs_frame s a
  rw [act_unfold]
  obtain ⟨f1, f2, f3, f4, f5, _, f7, _, _⟩ := finish_fields
    ((usedEffs a (effectsOf s a e).1).foldl applyEff (popInputs s a))
    ((a = .DT_2 || a = .AR_6) && altOf s a e) (effectsOf s a e).2 ⟨e, s.fsm, some a, (effectsOf s a e).2, true⟩
  obtain ⟨_, _, _, f10⟩ := finish_misc
    ((usedEffs a (effectsOf s a e).1).foldl applyEff (popInputs s a))
    ((a = .DT_2 || a = .AR_6) && altOf s a e) (effectsOf s a e).2 ⟨e, s.fsm, some a, (effectsOf s a e).2, true⟩
  refine ⟨f1, ?_, ?_, ?_, ?_, ?_, ?_⟩
  · rw [f2, hF.kill, hP.kill]
  · rw [f3, hF.dead, hP.dead]
  · rw [f4, hF.phaseB, hP.phaseB]
  · rw [f5, hF.inbox, hP.inbox]
  · rw [f7, hF.recvPdu, popInputs_recvPdu]
  · rw [f10, hF.requestor, hP.requestor]

/-- what phase B does -/
inductive IterB (s : St) : Prop
  /-- nothing at all -/
  | idle (h : iterB s = s)
  /-- the event queue was empty: only `phaseB` is reset -/
  | empty (hq : s.eventQ = []) (h : iterB s = { s with phaseB := false })
  /-- the thread died -/
  | died (h : (iterB s).dead = true)
  /-- one event was popped and its table action completed -/
  | acted (e : Nat) (rest : List Nat) (a : Action) (hq : s.eventQ = e :: rest) (hk : s.kill = false)
      (hph : s.phaseB = true)
      (hl : lookup Spec.Ps38.table e s.fsm = some a)
      (h : iterB s = act { s with eventQ := rest, phaseB := false } a e)

theorem iterB_cases (s : St) : IterB s := by
  by_cases hlive : (!s.live || !s.phaseB) = true
  · exact .idle (by unfold iterB; simp only [hlive, ↓reduceIte])
  have hk : s.kill = false := by
    cases hkk : s.kill with
    | false => rfl
    | true => simp [St.live, hkk] at hlive
  have hph : s.phaseB = true := by
    cases hpp : s.phaseB with
    | true => rfl
    | false => simp [hpp] at hlive
  cases hq : s.eventQ with
  | nil => exact .empty hq (by unfold iterB; simp only [hlive, hq]; rfl)
  | cons e rest =>
    have hdis : iterB s = dispatch { s with eventQ := rest, phaseB := false } e := by
      unfold iterB; simp only [hlive, hq]; rfl
    cases hl : lookup Spec.Ps38.table e s.fsm with
    | none =>
      refine .died ?_
      rw [hdis]; unfold dispatch; simp only [hl]
    | some a =>
      by_cases hf : fatal { s with eventQ := rest, phaseB := false } a = true
      · refine .died ?_
        rw [hdis]; unfold dispatch; simp only [hl, hf, ↓reduceIte]
      · refine .acted e rest a hq hk hph hl ?_
        rw [hdis]; unfold dispatch; simp only [hl, hf]
        rfl

/-- what phase A does to the socket object: nothing, or the idle close of Sta13 -/
theorem iterA_connected (s : St) :
    (iterA s).connected = s.connected ∨ (s.fsm = 13 ∧ s.kill = false ∧ (iterA s).connected = false) := by
  have hr : ∀ t : St, (readTransport t).connected = t.connected := by
    intro t; unfold readTransport; split <;> rfl
  rw [iterA_unfold]
  split
  · exact Or.inl rfl
  rename_i hlive
  have hk : s.kill = false := by
    cases hkk : s.kill with
    | false => rfl
    | true => simp [St.live, hkk] at hlive
  have h1 : (iterA1 s).connected = s.connected ∧ (iterA1 s).fsm = s.fsm := by
    unfold iterA1; split <;> exact ⟨rfl, rfl⟩
  show (iterA2 (iterA1 s)).connected = s.connected ∨ (s.fsm = 13 ∧ s.kill = false ∧ (iterA2 (iterA1 s)).connected = false)
  unfold iterA2
  split
  · exact Or.inl h1.1
  · unfold readOrClose
    split
    · rename_i h13
      split
      · exact Or.inl ((hr _).trans h1.1)
      · unfold closeSock
        split
        · exact Or.inr ⟨h1.2 ▸ h13, hk, rfl⟩
        · exact Or.inl h1.1
    · split
      · exact Or.inl ((hr _).trans h1.1)
      · exact Or.inl h1.1

end PairL
end PynetVerif
