import PynetVerif.Model.Ctx
/-! Helper lemmas about `Model/Ctx.lean` (core Lean only). -/
namespace PynetVerif.Ctx

theorem mem_insertById (x a : Cx) : ∀ l : List Cx, a ∈ insertById x l ↔ a = x ∨ a ∈ l := by
  intro l
  induction l with
  | nil => simp [insertById]
  | cons y ys ih =>
    unfold insertById
    by_cases h : x.id ≤ y.id
    · simp [h]
    · simp only [h, ↓reduceIte, List.mem_cons, ih]
      constructor
      · rintro (h1 | h1 | h1)
        · exact Or.inr (Or.inl h1)
        · exact Or.inl h1
        · exact Or.inr (Or.inr h1)
      · rintro (h1 | h1 | h1)
        · exact Or.inr (Or.inl h1)
        · exact Or.inl h1
        · exact Or.inr (Or.inr h1)

theorem mem_sortById (a : Cx) : ∀ l : List Cx, a ∈ sortById l ↔ a ∈ l := by
  intro l
  induction l with
  | nil => simp [sortById]
  | cons x xs ih => simp [sortById, mem_insertById, ih]

theorem lookup_some {acc : List Cx} {k : Nat} {c : Cx} (h : lookup acc k = some c) :
    c ∈ acc ∧ c.id = k := by
  induction acc with
  | nil => simp [lookup] at h
  | cons y ys ih =>
    unfold lookup at h
    by_cases hy : y.id = k
    · simp only [hy, ↓reduceIte, Option.some.injEq] at h
      subst h; exact ⟨List.mem_cons_self, hy⟩
    · simp only [hy, ↓reduceIte] at h
      exact ⟨List.mem_cons_of_mem _ (ih h).1, (ih h).2⟩

theorem lookup_none_iff (acc : List Cx) (k : Nat) : lookup acc k = none ↔ k ∉ ids acc := by
  induction acc with
  | nil => simp [lookup, ids]
  | cons y ys ih =>
    unfold lookup
    by_cases hy : y.id = k
    · simp [hy, ids]
    · simp only [hy, ↓reduceIte, ih, ids, List.map_cons, List.mem_cons, not_or]
      constructor
      · intro h; exact ⟨fun e => hy e.symm, h⟩
      · intro h; exact h.2

theorem lookup_isSome_of_mem {acc : List Cx} {c : Cx} (h : c ∈ acc) : ∃ c', lookup acc c.id = some c' := by
  cases hl : lookup acc c.id with
  | some c' => exact ⟨c', rfl⟩
  | none =>
    have := (lookup_none_iff acc c.id).mp hl
    exact absurd (List.mem_map.mpr ⟨c, h, rfl⟩) this

theorem mem_base {acc : List Cx} {ctxId : Option Nat} {c : Cx} (h : c ∈ base acc ctxId) : c ∈ acc := by
  unfold base at h
  cases ctxId with
  | none => exact (mem_sortById c acc).mp h
  | some k =>
    simp only at h
    cases hl : lookup acc k with
    | none => rw [hl] at h; exact (mem_sortById c acc).mp h
    | some c' =>
      rw [hl] at h
      simp only [List.mem_singleton] at h
      subst h; exact (lookup_some hl).1

theorem base_none (acc : List Cx) : base acc none = sortById acc := rfl

/-- the abstract-syntax clause of the property: equal, or the UPS Push substitution -/
def AbOk (ab : Nat) (c : Cx) : Prop := c.ab = ab ∨ (ab = upsPush ∧ isUpsOther c.ab = true)

instance (ab : Nat) (c : Cx) : Decidable (AbOk ab c) := by unfold AbOk; exact inferInstance

theorem mem_candidates {acc : List Cx} {ab : Nat} {role : Option Role} {ctxId : Option Nat} {c : Cx}
    (h : c ∈ candidates acc ab role ctxId) :
    c ∈ acc ∧ roleOk role c = true ∧
      ((c ∈ base acc ctxId ∧ c.ab = ab) ∨
       (ab = upsPush ∧ isUpsOther c.ab = true ∧ ∀ b ∈ base acc ctxId, b.ab ≠ ab)) := by
  unfold candidates at h
  simp only [List.mem_filter] at h
  obtain ⟨h2, hr⟩ := h
  refine ⟨?_, hr, ?_⟩
  · split at h2
    · rcases List.mem_append.mp h2 with h3 | h3
      · exact mem_base (List.mem_filter.mp h3).1
      · exact (List.mem_filter.mp h3).1
    · exact mem_base (List.mem_filter.mp h2).1
  · split at h2
    next hc =>
      simp only [Bool.and_eq_true, beq_iff_eq, List.isEmpty_iff] at hc
      rcases List.mem_append.mp h2 with h3 | h3
      · rw [hc.2] at h3; cases h3
      · right
        refine ⟨hc.1, (List.mem_filter.mp h3).2, ?_⟩
        intro b hb hab
        have : b ∈ List.filter (fun c => c.ab == ab) (base acc ctxId) :=
          List.mem_filter.mpr ⟨hb, by simp [hab]⟩
        rw [hc.2] at this; cases this
    next hc =>
      left
      have := List.mem_filter.mp h2
      exact ⟨this.1, by simpa using this.2⟩

/-- every accepted context with the asked abstract syntax and role is a candidate
when no context id is given (the `send_*` path) -/
theorem candidates_of_mem {acc : List Cx} {ab : Nat} {role : Option Role} {c : Cx}
    (hc : c ∈ acc) (hab : c.ab = ab) (hr : roleOk role c = true) :
    c ∈ candidates acc ab role none := by
  unfold candidates
  have h1 : c ∈ List.filter (fun c => c.ab == ab) (base acc none) :=
    List.mem_filter.mpr ⟨(mem_sortById c acc).mpr hc, by simp [hab]⟩
  simp only [List.mem_filter]
  refine ⟨?_, hr⟩
  split
  · exact List.mem_append.mpr (Or.inl h1)
  · exact h1

/-- the UPS Push fallback -/
theorem candidates_of_ups {acc : List Cx} {role : Option Role} {ctxId : Option Nat} {c : Cx}
    (hc : c ∈ acc) (hu : isUpsOther c.ab = true) (hr : roleOk role c = true)
    (hno : ∀ b ∈ base acc ctxId, b.ab ≠ upsPush) :
    c ∈ candidates acc upsPush role ctxId := by
  unfold candidates
  have hemp : List.filter (fun c => c.ab == upsPush) (base acc ctxId) = [] := by
    apply List.filter_eq_nil_iff.mpr
    intro b hb; simp [hno b hb]
  simp only [hemp, List.isEmpty_nil, beq_self_eq_true, Bool.and_self, ↓reduceIte, List.nil_append,
    List.mem_filter]
  exact ⟨⟨hc, hu⟩, hr⟩

/-! #### the scan loop -/

theorem verdict_ret {ts : Option Ts} {c : Cx} (h : verdict ts c = .ret) :
    ∃ t, ts = some t ∧ t.uid = c.ts.uid := by
  unfold verdict at h
  cases ts with
  | none => simp at h
  | some t =>
    refine ⟨t, rfl, ?_⟩
    simp only at h
    by_cases h1 : t.uid = c.ts.uid
    · exact h1
    · simp only [h1, ↓reduceIte] at h
      repeat (split at h <;> try cases h)

theorem verdict_keep {ts : Option Ts} {c : Cx} (h : verdict ts c = .keep) :
    ts = none ∨ ∃ t, ts = some t ∧ t.uid ≠ c.ts.uid ∧ t.known = true ∧ c.ts.known = true ∧
      t.compressed = false ∧ c.ts.compressed = false ∧ t.little = c.ts.little := by
  unfold verdict at h
  cases ts with
  | none => exact Or.inl rfl
  | some t =>
    right
    refine ⟨t, rfl, ?_⟩
    simp only at h
    by_cases h1 : t.uid = c.ts.uid
    · simp [h1] at h
    · simp only [h1, ↓reduceIte] at h
      cases hk : t.known <;> cases hc : t.compressed <;> cases hk' : c.ts.known <;>
        cases hc' : c.ts.compressed <;> simp_all

theorem verdict_raise {ts : Option Ts} {c : Cx} (h : verdict ts c = .raise) :
    ∃ t, ts = some t ∧ (t.known = false ∨ (t.compressed = false ∧ c.ts.known = false)) := by
  unfold verdict at h
  cases ts with
  | none => simp at h
  | some t =>
    refine ⟨t, rfl, ?_⟩
    simp only at h
    by_cases h1 : t.uid = c.ts.uid
    · simp [h1] at h
    · simp only [h1, ↓reduceIte] at h
      cases hk : t.known <;> cases hc : t.compressed <;> cases hk' : c.ts.known <;>
        cases hc' : c.ts.compressed <;> simp_all <;> (split at h <;> cases h)

theorem verdict_of_exact {t : Ts} {c : Cx} (h : t.uid = c.ts.uid) : verdict (some t) c = .ret := by
  simp [verdict, h]

theorem scan_found {ts : Option Ts} : ∀ {l : List Cx} {c : Cx}, scan ts l = .found c →
    c ∈ l ∧ verdict ts c = .ret := by
  intro l
  induction l with
  | nil => intro c h; simp [scan] at h
  | cons x xs ih =>
    intro c h
    unfold scan at h
    cases hv : verdict ts x with
    | ret =>
      simp only [hv, ScanRes.found.injEq] at h
      subst h; exact ⟨List.mem_cons_self, hv⟩
    | raise => simp [hv] at h
    | skip =>
      simp only [hv] at h
      exact ⟨List.mem_cons_of_mem _ (ih h).1, (ih h).2⟩
    | keep =>
      simp only [hv] at h
      cases hs : scan ts xs with
      | found c' =>
        rw [hs] at h
        simp only [ScanRes.found.injEq] at h
        subst h
        exact ⟨List.mem_cons_of_mem _ (ih hs).1, (ih hs).2⟩
      | raised => rw [hs] at h; simp at h
      | done ms => rw [hs] at h; simp at h

theorem scan_done {ts : Option Ts} : ∀ {l ms : List Cx}, scan ts l = .done ms →
    ∀ c ∈ ms, c ∈ l ∧ verdict ts c = .keep := by
  intro l
  induction l with
  | nil => intro ms h c hc; simp [scan] at h; subst h; cases hc
  | cons x xs ih =>
    intro ms h c hc
    unfold scan at h
    cases hv : verdict ts x with
    | ret => simp [hv] at h
    | raise => simp [hv] at h
    | skip =>
      simp only [hv] at h
      exact ⟨List.mem_cons_of_mem _ (ih h c hc).1, (ih h c hc).2⟩
    | keep =>
      simp only [hv] at h
      cases hs : scan ts xs with
      | found c' => rw [hs] at h; simp at h
      | raised => rw [hs] at h; simp at h
      | done ms' =>
        rw [hs] at h
        simp only [ScanRes.done.injEq] at h
        subst h
        rcases List.mem_cons.mp hc with h1 | h1
        · subst h1; exact ⟨List.mem_cons_self, hv⟩
        · exact ⟨List.mem_cons_of_mem _ (ih hs c h1).1, (ih hs c h1).2⟩

/-- no iteration raises -/
def NoRaise (ts : Option Ts) (l : List Cx) : Prop := ∀ c ∈ l, verdict ts c ≠ .raise

theorem scan_not_raised {ts : Option Ts} : ∀ {l : List Cx}, NoRaise ts l → scan ts l ≠ .raised := by
  intro l
  induction l with
  | nil => intro _ h; simp [scan] at h
  | cons x xs ih =>
    intro hn h
    have hx := hn x List.mem_cons_self
    have hxs : NoRaise ts xs := fun c hc => hn c (List.mem_cons_of_mem _ hc)
    unfold scan at h
    cases hv : verdict ts x with
    | ret => simp [hv] at h
    | raise => exact hx hv
    | skip => simp only [hv] at h; exact ih hxs h
    | keep =>
      simp only [hv] at h
      cases hs : scan ts xs with
      | found c' => rw [hs] at h; simp at h
      | raised => exact ih hxs hs
      | done ms => rw [hs] at h; simp at h

/-- with no raise, an exact transfer-syntax match anywhere in the list is returned
(the first one) -/
theorem scan_exact {ts : Option Ts} : ∀ {l : List Cx}, NoRaise ts l →
    (∃ c ∈ l, verdict ts c = .ret) → ∃ r, scan ts l = .found r := by
  intro l
  induction l with
  | nil => intro _ ⟨c, hc, _⟩; cases hc
  | cons x xs ih =>
    intro hn ⟨c, hc, hvc⟩
    have hx := hn x List.mem_cons_self
    have hxs : NoRaise ts xs := fun c hc => hn c (List.mem_cons_of_mem _ hc)
    unfold scan
    cases hv : verdict ts x with
    | ret => exact ⟨x, rfl⟩
    | raise => exact absurd hv hx
    | skip =>
      simp only
      rcases List.mem_cons.mp hc with h1 | h1
      · subst h1; rw [hv] at hvc; cases hvc
      · exact ih hxs ⟨c, h1, hvc⟩
    | keep =>
      simp only
      rcases List.mem_cons.mp hc with h1 | h1
      · subst h1; rw [hv] at hvc; cases hvc
      · obtain ⟨r, hr⟩ := ih hxs ⟨c, h1, hvc⟩
        exact ⟨r, by rw [hr]⟩

/-- with no raise, a kept candidate makes the result `found` or a non-empty `done` -/
theorem scan_keep {ts : Option Ts} : ∀ {l : List Cx}, NoRaise ts l →
    (∃ c ∈ l, verdict ts c = .keep) →
    (∃ r, scan ts l = .found r) ∨ (∃ m ms, scan ts l = .done (m :: ms)) := by
  intro l
  induction l with
  | nil => intro _ ⟨c, hc, _⟩; cases hc
  | cons x xs ih =>
    intro hn ⟨c, hc, hvc⟩
    have hx := hn x List.mem_cons_self
    have hxs : NoRaise ts xs := fun c hc => hn c (List.mem_cons_of_mem _ hc)
    unfold scan
    cases hv : verdict ts x with
    | ret => exact Or.inl ⟨x, rfl⟩
    | raise => exact absurd hv hx
    | skip =>
      simp only
      rcases List.mem_cons.mp hc with h1 | h1
      · subst h1; rw [hv] at hvc; cases hvc
      · exact ih hxs ⟨c, h1, hvc⟩
    | keep =>
      simp only
      cases hs : scan ts xs with
      | found r => exact Or.inl ⟨r, rfl⟩
      | raised => exact absurd hs (scan_not_raised hxs)
      | done ms => exact Or.inr ⟨x, ms, rfl⟩

/-- the first kept candidate is what `matches[0]` is: nothing before it is kept -/
theorem scan_done_head {ts : Option Ts} : ∀ {l : List Cx} {m : Cx} {ms : List Cx},
    scan ts l = .done (m :: ms) →
    ∃ pre post, l = pre ++ m :: post ∧ ∀ c ∈ pre, verdict ts c = .skip := by
  intro l
  induction l with
  | nil => intro m ms h; simp [scan] at h
  | cons x xs ih =>
    intro m ms h
    unfold scan at h
    cases hv : verdict ts x with
    | ret => simp [hv] at h
    | raise => simp [hv] at h
    | skip =>
      simp only [hv] at h
      obtain ⟨pre, post, h1, h2⟩ := ih h
      refine ⟨x :: pre, post, by simp [h1], ?_⟩
      intro c hc
      rcases List.mem_cons.mp hc with h3 | h3
      · subst h3; exact hv
      · exact h2 c h3
    | keep =>
      simp only [hv] at h
      cases hs : scan ts xs with
      | found c' => rw [hs] at h; simp at h
      | raised => rw [hs] at h; simp at h
      | done ms' =>
        rw [hs] at h
        simp only [ScanRes.done.injEq, List.cons.injEq] at h
        obtain ⟨h1, _⟩ := h
        subst h1
        exact ⟨[], xs, rfl, by intro c hc; cases hc⟩

end PynetVerif.Ctx
