import PynetVerif.Lemmas.Pair
/-!
What an action does to the socket object, to the wire and to the event queue, as a fold over its
effect list on a three-field projection of the reactor state (`EffP`), and the finite facts about
that fold for the effect lists of PS3.8 (`Spec.Ps38.effects`).
-/
namespace PynetVerif
open Dul Fsm

namespace PairL

/-- projection of the reactor state an effect list acts on: the socket object's connected flag, the
PDUs newly put on the wire (most recent first), the events newly queued -/
structure EffP where
  conn : Bool
  sent : List Eff
  q : List Nat
  deriving DecidableEq, Repr

/-- `applyEff` on the projection, for a connection that is not broken; `ok`: the next connect succeeds -/
def stepP (ok : Bool) (p : EffP) (f : Eff) : EffP :=
  if isSend f then (if p.conn then { p with sent := f :: p.sent } else { p with q := p.q ++ [17] })
  else match f with
    | .close => if p.conn then { p with conn := false, q := p.q ++ [17] } else p
    | .connect => if ok then { p with conn := true } else p
    | _ => p

def runP (ok c : Bool) (l : List Eff) : EffP := l.foldl (stepP ok) ⟨c, [], []⟩

/-- fields `applyEff` never touches -/
theorem applyEff_consts (s : St) (f : Eff) :
    (applyEff s f).broken = s.broken ∧ (applyEff s f).connectOk = s.connectOk := by
  unfold applyEff closeSock
  repeat' split
  all_goals exact ⟨rfl, rfl⟩

theorem applyEff_proj (s : St) (f : Eff) (hb : s.broken = false) (p : EffP) (bs : List Eff) (bq : List Nat)
    (hc : s.connected = p.conn) (hs : s.sent = p.sent ++ bs) (hq : s.eventQ = bq ++ p.q) :
    (applyEff s f).connected = (stepP s.connectOk p f).conn ∧
    (applyEff s f).sent = (stepP s.connectOk p f).sent ++ bs ∧
    (applyEff s f).eventQ = bq ++ (stepP s.connectOk p f).q := by
  cases hpc : p.conn <;> cases hok : s.connectOk <;> cases f <;>
    simp [applyEff, stepP, isSend, isInd, closeSock, hb, hc, hpc, hok, hs, hq]

theorem foldl_applyEff_proj (effs : List Eff) : ∀ (s : St) (p : EffP) (bs : List Eff) (bq : List Nat),
    s.broken = false → s.connected = p.conn → s.sent = p.sent ++ bs → s.eventQ = bq ++ p.q →
    (effs.foldl applyEff s).connected = (effs.foldl (stepP s.connectOk) p).conn ∧
    (effs.foldl applyEff s).sent = (effs.foldl (stepP s.connectOk) p).sent ++ bs ∧
    (effs.foldl applyEff s).eventQ = bq ++ (effs.foldl (stepP s.connectOk) p).q := by
  induction effs with
  | nil => intro s p bs bq _ hc hs hq; exact ⟨hc, hs, hq⟩
  | cons f fs ih =>
    intro s p bs bq hb hc hs hq
    obtain ⟨h1, h2, h3⟩ := applyEff_proj s f hb p bs bq hc hs hq
    have := ih (applyEff s f) (stepP s.connectOk p f) bs bq ((applyEff_consts s f).1.trans hb) h1 h2 h3
    rw [(applyEff_consts s f).2] at this
    exact this

theorem popInputs_misc (s : St) (a : Action) :
    (popInputs s a).connected = s.connected ∧ (popInputs s a).broken = s.broken ∧
    (popInputs s a).connectOk = s.connectOk := by
  have h1 : ∀ t : St, (popPrimQ t a).connected = t.connected ∧ (popPrimQ t a).broken = t.broken ∧
      (popPrimQ t a).connectOk = t.connectOk := by intro t; unfold popPrimQ; split <;> exact ⟨rfl, rfl, rfl⟩
  have h2 : ∀ t : St, (popAbortQ t a).connected = t.connected ∧ (popAbortQ t a).broken = t.broken ∧
      (popAbortQ t a).connectOk = t.connectOk := by
    intro t; unfold popAbortQ; split
    · split <;> exact ⟨rfl, rfl, rfl⟩
    · exact ⟨rfl, rfl, rfl⟩
  have h3 : ∀ t : St, (popPduQ t a).connected = t.connected ∧ (popPduQ t a).broken = t.broken ∧
      (popPduQ t a).connectOk = t.connectOk := by intro t; unfold popPduQ; split <;> exact ⟨rfl, rfl, rfl⟩
  unfold popInputs
  obtain ⟨a1, a2, a3⟩ := h1 s
  obtain ⟨b1, b2, b3⟩ := h2 (popPrimQ s a)
  obtain ⟨c1, c2, c3⟩ := h3 (popAbortQ (popPrimQ s a) a)
  exact ⟨c1.trans (b1.trans a1), c2.trans (b2.trans a2), c3.trans (b3.trans a3)⟩

theorem finish_misc (s2 : St) (c : Bool) (n : Nat) (d : Dispatch) :
    (finish s2 c n d).connected = s2.connected ∧ (finish s2 c n d).broken = s2.broken ∧
    (finish s2 c n d).connectOk = s2.connectOk ∧ (finish s2 c n d).requestor = s2.requestor := by
  cases c <;> exact ⟨rfl, rfl, rfl, rfl⟩

theorem foldl_applyEff_consts (effs : List Eff) : ∀ s : St,
    (effs.foldl applyEff s).broken = s.broken ∧ (effs.foldl applyEff s).connectOk = s.connectOk := by
  induction effs with
  | nil => intro s; exact ⟨rfl, rfl⟩
  | cons f fs ih =>
    intro s
    obtain ⟨a1, a2⟩ := ih (applyEff s f)
    obtain ⟨b1, b2⟩ := applyEff_consts s f
    exact ⟨a1.trans b1, a2.trans b2⟩

/-- the effect list an action really applies in this state -/
def effsOf (s : St) (a : Action) (e : Nat) : List Eff := usedEffs a (effectsOf s a e).1

/-- **what an action does to the socket object, the wire and the event queue** (connection not broken) -/
theorem act_proj (s : St) (a : Action) (e : Nat) (hb : s.broken = false) :
    (act s a e).connected = (runP s.connectOk s.connected (effsOf s a e)).conn ∧
    (act s a e).sent = (runP s.connectOk s.connected (effsOf s a e)).sent ++ s.sent ∧
    (act s a e).eventQ = s.eventQ ++ (runP s.connectOk s.connected (effsOf s a e)).q ++
      (if ((a = .DT_2 || a = .AR_6) && altOf s a e) = true then [19] else []) ∧
    (act s a e).broken = false ∧ (act s a e).connectOk = s.connectOk := by
  obtain ⟨m1, m2, m3⟩ := popInputs_misc s a
  have hP := popInputs_frame s a
  obtain ⟨h1, h2, h3⟩ := foldl_applyEff_proj (effsOf s a e) (popInputs s a) ⟨s.connected, [], []⟩ s.sent s.eventQ
    (m2.trans hb) m1 (by rw [popInputs_sent]; rfl) (by rw [hP.eventQ]; simp)
  obtain ⟨c1, c2⟩ := foldl_applyEff_consts (effsOf s a e) (popInputs s a)
  rw [m3] at h1 h2 h3
  rw [act_unfold]
  obtain ⟨f1, f2, f3, _⟩ := finish_misc ((effsOf s a e).foldl applyEff (popInputs s a))
    ((a = .DT_2 || a = .AR_6) && altOf s a e) (effectsOf s a e).2 ⟨e, s.fsm, some a, (effectsOf s a e).2, true⟩
  obtain ⟨_, _, _, _, _, _, _, _, f9⟩ := finish_fields ((effsOf s a e).foldl applyEff (popInputs s a))
    ((a = .DT_2 || a = .AR_6) && altOf s a e) (effectsOf s a e).2 ⟨e, s.fsm, some a, (effectsOf s a e).2, true⟩
  refine ⟨?_, ?_, ?_, ?_, ?_⟩
  · exact f1.trans h1
  · rw [finish_sent]; exact h2
  · exact f9.trans (by rw [h3]; rfl)
  · exact f2.trans (c1.trans (m2.trans hb))
  · exact f3.trans (c2.trans m3)

/-! ### finite facts about the effect lists of PS3.8 -/

def allActions : List Action :=
  [.AE_1, .AE_2, .AE_3, .AE_4, .AE_5, .AE_6, .AE_7, .AE_8, .DT_1, .DT_2, .AR_1, .AR_2, .AR_3, .AR_4, .AR_5,
   .AR_6, .AR_7, .AR_8, .AR_9, .AR_10, .AA_1, .AA_2, .AA_3, .AA_4, .AA_5, .AA_6, .AA_7, .AA_8]
theorem mem_allActions (a : Action) : a ∈ allActions := by cases a <;> simp [allActions]
def bools : List Bool := [false, true]
theorem mem_bools (b : Bool) : b ∈ bools := by cases b <;> simp [bools]

def hasClose (effs : List Eff) : Bool := effs.contains .close
def hasConnect (effs : List Eff) : Bool := effs.contains .connect
/-- the (at most one) PDU of an effect list -/
def sendEff (effs : List Eff) : Option Eff := (effs.filter isSend).head?

/-- what `runP` computes on the effect lists of the 28 actions, in closed form -/
def RunOk (a : Action) (req alt b ok c : Bool) : Prop :=
  let l := usedEffs a (effB a req alt b).1
  let r := runP ok c l
  (r.conn = if hasClose l then false else if hasConnect l then (c || ok) else c) ∧
  (r.sent = match sendEff l with | some f => if c then [f] else [] | none => []) ∧
  (∀ x ∈ r.q, x = 17) ∧ (r.q ≠ [] → r.conn = false) ∧ (a ≠ .AE_1 → c = false → r.conn = false) ∧
  (hasConnect l = true → a = .AE_1) ∧ (hasClose l = true → (effB a req alt b).2 = 1)

instance (a : Action) (req alt b ok c : Bool) : Decidable (RunOk a req alt b ok c) := by
  unfold RunOk; infer_instance

theorem runOk_all : ∀ a ∈ allActions, ∀ req ∈ bools, ∀ alt ∈ bools, ∀ b ∈ bools, ∀ ok ∈ bools, ∀ c ∈ bools,
    RunOk a req alt b ok c := by decide +kernel

theorem runOk_table (a : Action) (req alt b ok c : Bool) : RunOk a req alt b ok c :=
  runOk_all a (mem_allActions a) req (mem_bools _) alt (mem_bools _) b (mem_bools _) ok (mem_bools _) c (mem_bools _)

/-- the PDU event a send effect raises at the receiver -/
def tokOf (f : Eff) : Option Nat :=
  match wireOf f with
  | .pdu e _ => some e
  | _ => none

/-- except for AE-6 (protocol version), what matters of an action's effects — the PDU event it sends,
whether it closes, whether it connects, the next state — does not depend on the input's `alt` bit
nor on which event triggered it -/
theorem effs_indep : ∀ a ∈ allActions, ∀ req ∈ bools, ∀ alt ∈ bools, ∀ b ∈ bools, (a = .AE_6 → alt = false) →
    (sendEff (usedEffs a (effB a req alt b).1)).bind tokOf = (sendEff (usedEffs a (effB a req false false).1)).bind tokOf ∧
    hasClose (usedEffs a (effB a req alt b).1) = hasClose (usedEffs a (effB a req false false).1) ∧
    hasConnect (usedEffs a (effB a req alt b).1) = hasConnect (usedEffs a (effB a req false false).1) ∧
    (effB a req alt b).2 = (effB a req false false).2 := by decide +kernel

theorem wireOf_send (f : Eff) (h : isSend f = true) : ∃ e alt, wireOf f = .pdu e alt ∧ pduEv e = true ∧
    tokOf f = some e ∧ (alt = true → e = 16) := by
  cases f <;> simp [isSend] at h
  · exact ⟨6, false, rfl, rfl, rfl, fun h => nomatch h⟩
  · exact ⟨3, false, rfl, rfl, rfl, fun h => nomatch h⟩
  · exact ⟨4, false, rfl, rfl, rfl, fun h => nomatch h⟩
  · exact ⟨10, false, rfl, rfl, rfl, fun h => nomatch h⟩
  · exact ⟨12, false, rfl, rfl, rfl, fun h => nomatch h⟩
  · exact ⟨13, false, rfl, rfl, rfl, fun h => nomatch h⟩
  · exact ⟨16, _, rfl, rfl, rfl, fun _ => rfl⟩

theorem sendEff_isSend {l : List Eff} {f : Eff} (h : sendEff l = some f) : isSend f = true := by
  unfold sendEff at h
  have := List.mem_of_mem_head? (by rw [h]; rfl : f ∈ (l.filter isSend).head?)
  exact (List.mem_filter.mp this).2

end PairL
end PynetVerif
