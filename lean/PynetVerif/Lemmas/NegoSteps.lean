import PynetVerif.Lemmas.Nego
/-!
Case characterisation of the loop bodies of M-Nego (`AccStep`, `UnrStep`,
`ReqStep`) and the shape of the three functions' results for proposal lists
with distinct context ids.
-/
namespace PynetVerif.Nego

def DistinctIds (rq : List Cx) : Prop := (rq.map (·.id)).Nodup
def HasTs (rq : List Cx) : Prop := ∀ p ∈ rq, p.ts ≠ []
instance (rq : List Cx) : Decidable (DistinctIds rq) := inferInstanceAs (Decidable (rq.map (·.id)).Nodup)
instance (rq : List Cx) : Decidable (HasTs rq) := inferInstanceAs (Decidable (∀ p ∈ rq, p.ts ≠ []))
/-- role pairs as role-selection items carry them: two booleans -/
def BoolRoles (roles : Roles) : Prop := ∀ kv ∈ roles, ∃ a b, kv.2 = (some a, some b)

/-- loop body of `negotiate_as_acceptor` for one proposal, whichever branch of the early returns is taken -/
def accOne (ac : List Cx) (roles : Roles) (p : Cx) : Except Err (AccCx × Option RoleItem) :=
  if ac.isEmpty then noAcOne p else negOne ac roles p

/-- the proposed role pair the acceptor works with (`(None, None)` if there is no item) -/
def rqRolesOf (roles : Roles) (a : Nat) : RolePair := (roles.lookup a).getD (none, none)

/-- All ways `accOne` can return. -/
inductive AccStep (ac : List Cx) (roles : Roles) (p : Cx) : AccCx → Option RoleItem → Prop
  | noAc (t : Nat) (rest : List Nat) : ac = [] → p.ts = t :: rest →
      AccStep ac roles p { id := p.id, abs := p.abs, result := 3, ts := t, asScu := none, asScp := none } none
  | absRej (t : Nat) (rest : List Nat) : ac ≠ [] → acLookup ac p.abs = none → p.ts = t :: rest →
      AccStep ac roles p { id := p.id, abs := p.abs, result := 3, ts := t, asScu := some false, asScp := some false } none
  | tsRej (c : Cx) (t : Nat) (rest : List Nat) : ac ≠ [] → acLookup ac p.abs = some c → firstCommon c.ts p.ts = none →
      p.ts = t :: rest →
      AccStep ac roles p { id := p.id, abs := p.abs, result := 4, ts := t, asScu := some false, asScp := some false } none
  | noneRole (c : Cx) (t : Nat) : ac ≠ [] → acLookup ac p.abs = some c → firstCommon c.ts p.ts = some t →
      (c.scu = none ∨ c.scp = none) →
      AccStep ac roles p { id := p.id, abs := p.abs, result := 0, ts := t, asScu := some false, asScp := some true } none
  | roleRej (c : Cx) (t : Nat) (cu cp : Bool) (o : Bool × Bool × Bool × Bool) : ac ≠ [] → acLookup ac p.abs = some c →
      firstCommon c.ts p.ts = some t → c.scu = some cu → c.scp = some cp →
      tableLookup (rqRolesOf roles p.abs) (some cu, some cp) = .ok o → o.2.2.1 = false → o.2.2.2 = false →
      AccStep ac roles p { id := p.id, abs := p.abs, result := 1, ts := t, asScu := some false, asScp := some false } none
  | accepted (c : Cx) (t : Nat) (cu cp : Bool) (o : Bool × Bool × Bool × Bool) : ac ≠ [] → acLookup ac p.abs = some c →
      firstCommon c.ts p.ts = some t → c.scu = some cu → c.scp = some cp →
      tableLookup (rqRolesOf roles p.abs) (some cu, some cp) = .ok o → ¬ (o.2.2.1 = false ∧ o.2.2.2 = false) →
      AccStep ac roles p { id := p.id, abs := p.abs, result := 0, ts := t, asScu := some o.2.2.1, asScp := some o.2.2.2 }
        (if (roles.lookup p.abs).isSome then some (replyItem p.abs (rqRolesOf roles p.abs) cu cp) else none)

theorem rejected_ok {p : Cx} {n : Nat} {role : Option Bool} {r : AccCx} (h : rejected p n role = .ok r) :
    ∃ t rest, p.ts = t :: rest ∧ r = { id := p.id, abs := p.abs, result := n, ts := t, asScu := role, asScp := role } := by
  unfold rejected tsHead at h
  cases hts : p.ts with
  | nil => simp [hts] at h
  | cons t rest => simp [hts] at h; exact ⟨t, rest, rfl, h.symm⟩

theorem accOne_step {ac : List Cx} {roles : Roles} {p : Cx} {r : AccCx} {ro : Option RoleItem}
    (h : accOne ac roles p = .ok (r, ro)) : AccStep ac roles p r ro := by
  unfold accOne at h
  by_cases hac : ac = []
  · subst hac
    simp only [List.isEmpty_nil, ↓reduceIte, noAcOne] at h
    cases hr : rejected p 3 none with
    | error e => simp [hr] at h
    | ok r' =>
      simp [hr] at h
      obtain ⟨t, rest, hts, rfl⟩ := rejected_ok hr
      obtain ⟨rfl, rfl⟩ := h
      exact .noAc t rest rfl hts
  · have hne : ac.isEmpty = false := by cases ac <;> simp_all
    simp only [hne, Bool.false_eq_true, ↓reduceIte, negOne] at h
    cases hl : acLookup ac p.abs with
    | none =>
      simp only [hl] at h
      cases hr : rejected p 3 (some false) with
      | error e => simp [hr] at h
      | ok r' =>
        simp [hr] at h
        obtain ⟨t, rest, hts, rfl⟩ := rejected_ok hr
        obtain ⟨rfl, rfl⟩ := h
        exact .absRej t rest hac hl hts
    | some c =>
      simp only [hl] at h
      cases hf : firstCommon c.ts p.ts with
      | none =>
        simp only [hf] at h
        cases hr : rejected p 4 (some false) with
        | error e => simp [hr] at h
        | ok r' =>
          simp [hr] at h
          obtain ⟨t, rest, hts, rfl⟩ := rejected_ok hr
          obtain ⟨rfl, rfl⟩ := h
          exact .tsRej c t rest hac hl hf hts
      | some t =>
        simp only [hf] at h
        cases hcu : c.scu with
        | none =>
          simp [hcu] at h
          obtain ⟨rfl, rfl⟩ := h
          exact .noneRole c t hac hl hf (Or.inl hcu)
        | some cu =>
          cases hcp : c.scp with
          | none =>
            simp [hcu, hcp] at h
            obtain ⟨rfl, rfl⟩ := h
            exact .noneRole c t hac hl hf (Or.inr hcp)
          | some cp =>
            simp only [hcu, hcp] at h
            cases ht : tableLookup ((roles.lookup p.abs).getD (none, none)) (some cu, some cp) with
            | error e => simp [ht] at h
            | ok o =>
              simp only [ht] at h
              by_cases hb : o.2.2.1 = false ∧ o.2.2.2 = false
              · simp [hb] at h
                obtain ⟨rfl, rfl⟩ := h
                exact .roleRej c t cu cp o hac hl hf hcu hcp ht hb.1 hb.2
              · simp only [hb, ↓reduceIte, Except.ok.injEq, Prod.mk.injEq] at h
                obtain ⟨rfl, rfl⟩ := h
                exact .accepted c t cu cp o hac hl hf hcu hcp ht hb

/-- All ways the storage-like loop body of `negotiate_unrestricted` can return. -/
inductive UnrStep (roles : Roles) (p : Cx) : AccCx → Option RoleItem → Prop
  | noRole (t : Nat) (rest : List Nat) : p.ts = t :: rest → roles.lookup p.abs = none →
      UnrStep roles p { id := p.id, abs := p.abs, result := 0, ts := t, asScu := some true, asScp := some true } none
  | withRole (t : Nat) (rest : List Nat) (rq : RolePair) (o : Bool × Bool × Bool × Bool) : p.ts = t :: rest →
      roles.lookup p.abs = some rq → tableLookup rq (some true, some true) = .ok o →
      UnrStep roles p { id := p.id, abs := p.abs, result := 0, ts := t, asScu := some o.2.2.1, asScp := some o.2.2.2 }
        (some { uid := p.abs, scu := rq.1 == some true, scp := rq.2 == some true })

theorem unrOne_step {roles : Roles} {p : Cx} {r : AccCx} {ro : Option RoleItem}
    (h : unrOne roles p = .ok (r, ro)) : UnrStep roles p r ro := by
  unfold unrOne tsHead at h
  cases hts : p.ts with
  | nil => simp [hts] at h
  | cons t rest =>
    simp only [hts] at h
    cases hl : roles.lookup p.abs with
    | none =>
      simp [hl] at h
      obtain ⟨rfl, rfl⟩ := h
      exact .noRole t rest hts hl
    | some rq =>
      simp only [hl] at h
      cases ht : tableLookup rq (some true, some true) with
      | error e => simp [ht] at h
      | ok o =>
        simp [ht] at h
        obtain ⟨rfl, rfl⟩ := h
        exact .withRole t rest rq o hts hl ht

/-- the acceptor's answer role pair the requestor works with -/
def acRolesOf (roles : Roles) (a : Nat) : RolePair := (roles.lookup a).getD (none, none)

/-- All ways the loop body of `negotiate_as_requestor` can return. -/
inductive ReqStep (acs : List WireCx) (roles : Roles) (p : Cx) : ReqCx → Prop
  | missing (t : Nat) (rest : List Nat) : wireLookup acs p.id = none → p.ts = t :: rest →
      ReqStep acs roles p { id := p.id, abs := p.abs, result := 2, ts := [t], asScu := false, asScp := false }
  | byTable (a : WireCx) (x y : Bool) (o : Bool × Bool × Bool × Bool) : wireLookup acs p.id = some a → a.result = 0 →
      acRolesOf roles p.abs = (some x, some y) → tableLookup (p.scu, p.scp) (some x, some y) = .ok o →
      ReqStep acs roles p { id := p.id, abs := p.abs, result := 0, ts := a.ts.take 1, asScu := o.1, asScp := o.2.1 }
  | default (a : WireCx) : wireLookup acs p.id = some a →
      ¬ (a.result = 0 ∧ (acRolesOf roles p.abs).1.isSome ∧ (acRolesOf roles p.abs).2.isSome) →
      ReqStep acs roles p { id := p.id, abs := p.abs, result := a.result, ts := a.ts.take 1, asScu := true, asScp := false }

theorem reqOne_step {acs : List WireCx} {roles : Roles} {p : Cx} {q : ReqCx}
    (h : reqOne acs roles p = .ok q) : ReqStep acs roles p q := by
  unfold reqOne tsHead at h
  cases hl : wireLookup acs p.id with
  | none =>
    simp only [hl] at h
    cases hts : p.ts with
    | nil => simp [hts] at h
    | cons t rest =>
      simp [hts] at h
      subst h
      exact .missing t rest hl hts
  | some a =>
    simp only [hl] at h
    by_cases hc : a.result = 0 ∧ ((roles.lookup p.abs).getD (none, none)).1.isSome ∧ ((roles.lookup p.abs).getD (none, none)).2.isSome
    · simp only [hc, and_self, ↓reduceIte] at h
      cases hr : (roles.lookup p.abs).getD (none, none) with
      | mk x y =>
        rw [hr] at hc h
        obtain ⟨h0, hx, hy⟩ := hc
        cases x with
        | none => simp at hx
        | some x =>
          cases y with
          | none => simp at hy
          | some y =>
            cases ht : tableLookup (p.scu, p.scp) (some x, some y) with
            | error e => simp [ht] at h
            | ok o =>
              simp [ht] at h
              subst h
              exact .byTable a x y o hl h0 hr ht
    · simp only [hc, ↓reduceIte, Except.ok.injEq] at h
      subst h
      exact .default a hl hc

end PynetVerif.Nego
