import PynetVerif.Lemmas.PairAct
/-!
A finite abstraction of the product model, used to prove provider-level agreement
(`Props/C06Pair.lean`).  An abstract side keeps the provider's state, whether it has stopped, whether
its socket object is still connected, which terminal actions it has completed, and the PDU events it
has put on the wire that the other side has not dispatched yet (`out`: not yet delivered, in the
other side's inbox, or in its event queue) with runs of P-DATA collapsed to one token.  Queues of
local events, the ARTIM timer, indications and the log are abstracted away: any local event PS3.8
defines for the current state may be dispatched at any time — except A-ABORT requests while a
confirmation is outstanding (Sta5, Sta7, Sta11), which is the hypothesis of the agreement theorem.
-/
namespace PynetVerif
open Dul Fsm PairL

structure ASide where
  fsm : Nat
  kill : Bool
  conn : Bool
  rel : Bool          -- completed AR-3 or AR-4
  rej : Bool          -- completed AE-4, AE-8 (or AE-6 with a rejection)
  out : List Nat
  deriving DecidableEq, Repr

structure APair where
  r : ASide
  a : ASide
  up : Bool
  deriving DecidableEq, Repr

namespace Abs

/-- runs of P-DATA (event 10) collapsed to a single token -/
def collapse : List Nat → List Nat
  | [] => []
  | x :: xs => if x = 10 ∧ (collapse xs).head? = some 10 then collapse xs else x :: collapse xs

/-- append a token to a collapsed list -/
def push (out : List Nat) (t : Nat) : List Nat :=
  if t = 10 ∧ out.getLast? = some 10 then out else out ++ [t]

def init : APair :=
  { r := ⟨1, false, false, false, false, []⟩, a := ⟨1, false, true, false, false, []⟩, up := false }

def closed (x : ASide) : Bool := !x.conn || x.kill

/-- the abstract effect of the completed action `a` (next state `n`, effects `effs`) on a side;
`okc`: the outcome of the connect attempt if the action makes one -/
def applyAct (x : ASide) (a : Action) (effs : List Eff) (n : Nat) (okc : Bool) : ASide :=
  { fsm := n, kill := x.kill || n == 1,
    conn := if hasClose effs then false else if hasConnect effs then okc else x.conn,
    rel := x.rel || a == .AR_3 || a == .AR_4,
    rej := x.rej || a == .AE_4 || a == .AE_8 || (a == .AE_6 && n == 13),
    out := match (sendEff effs).bind tokOf with
      | some t => if x.conn then push x.out t else x.out
      | none => x.out }

/-- the abstract dispatch of event `e` by side `x` (requestor or not) -/
def dispatch (x : ASide) (requestor : Bool) (e : Nat) (okc : Bool) : Option ASide :=
  match lookup Spec.Ps38.table e x.fsm with
  | none => none
  | some a => some (applyAct x a (usedEffs a (effB a requestor false false).1) (effB a requestor false false).2 okc)

def disp (x : ASide) (requestor : Bool) (e : Nat) : List ASide :=
  [true, false].filterMap fun okc => dispatch x requestor e okc

/-- events a side may dispatch that do not come from the other side's PDUs -/
def localEvents : List Nat := [1, 2, 5, 7, 8, 9, 11, 14, 15, 18]

/-- a confirmation the local user asked for is outstanding -/
def awaiting (fsm : Nat) : Bool := fsm == 5 || fsm == 7 || fsm == 11

/-- local events: anything PS3.8 defines, except A-ABORT requests while a confirmation is outstanding -/
def locals (x y : ASide) (requestor : Bool) : List (ASide × ASide) :=
  localEvents.flatMap fun e =>
    if e == 15 && awaiting x.fsm then [] else (disp x requestor e).map fun x' => (x', y)

/-- the next PDU in flight from the peer -/
def fromPeer (x y : ASide) (requestor : Bool) : List (ASide × ASide) :=
  match y.out with
  | [] => []
  | t :: rest => (disp x requestor t).flatMap fun x' =>
    if t == 10 then [(x', { y with out := rest }), (x', y)] else [(x', { y with out := rest })]

/-- connection closed: own socket closed / send failed, connect failed (Sta4), or EOF after everything
the peer sent was dispatched -/
def onClose (x y : ASide) (requestor : Bool) : List (ASide × ASide) :=
  if !x.conn || x.fsm == 4 || (closed y && y.out.isEmpty) then (disp x requestor 17).map fun x' => (x', y) else []

/-- Sta13 with an idle socket: the socket object is closed -/
def idleClose (x y : ASide) : List (ASide × ASide) :=
  if x.fsm == 13 && x.conn then [({ x with conn := false }, y)] else []

/-- all abstract successors of side `x` against peer `y`: (x', y') -/
def sideSuccs (x y : ASide) (requestor : Bool) : List (ASide × ASide) :=
  if x.kill then [] else locals x y requestor ++ fromPeer x y requestor ++ onClose x y requestor ++ idleClose x y

def succs (p : APair) : List APair :=
  ((sideSuccs p.r p.a true).map fun xy => { r := xy.1, a := xy.2, up := p.up || xy.1.conn }) ++
  (if p.up then (sideSuccs p.a p.r false).map fun xy => { r := xy.2, a := xy.1, up := p.up } else [])

def outcome (x : ASide) : ProvOutcome := if x.rel then .released else if x.rej then .rejected else .aborted

def agreeEnded (p : APair) : Bool := !(p.r.kill && p.a.kill) || (outcome p.r).agree (outcome p.a)

/-! ### the reachable set, computed -/

def insertAll (seen : List APair) : List APair → List APair × List APair
  | [] => (seen, [])
  | q :: qs => if seen.contains q then insertAll seen qs else
      let r := insertAll (q :: seen) qs
      (r.1, q :: r.2)

def bfs : Nat → List APair → List APair → List APair
  | 0, _, seen => seen
  | _, [], seen => seen
  | f + 1, p :: w, seen =>
    let r := insertAll seen (succs p)
    bfs f (r.2 ++ w) r.1

/-- the abstract states reachable from `init` -/
def R : List APair := bfs 500 [init] [init]

end Abs
end PynetVerif
