import PynetVerif.Lemmas.Dul
/-!
Lemmas for the streamed-P-DATA part of the C05 invariant (`Props/C05Inv.lean`, shape `strm`): event
queues led by a terminating event, the event queue after an action that does not queue Evt19, and the
provider queue after the queue pops of an action other than AA-1.
-/
namespace PynetVerif.Dul
open PynetVerif.Fsm

/-! ### synchronous admissibility is a special case -/

/-- every synchronously admissible step is admissible -/
theorem stepOk_of_sync (s : St) (st : Step) (h : stepOkSync s st = true) : stepOk s st = true := by
  cases st with
  | env e =>
    cases e with
    | «local» p => simp only [stepOk, quiescentOk, Bool.or_eq_true]; exact Or.inl h
    | _ => exact h
  | _ => rfl

theorem runOk_of_sync : ∀ (sched : List Step) (s : St), runOkSync s sched = true → runOk s sched = true := by
  intro sched
  induction sched with
  | nil => intro _ _; rfl
  | cons st rest ih =>
    intro s h
    simp only [runOkSync, Bool.and_eq_true] at h
    simp only [runOk, Bool.and_eq_true]
    exact ⟨stepOk_of_sync s st h.1, ih _ h.2⟩

/-! ### event queues led by a terminating event -/

theorem termLed_cons {t : Nat} {r : List Nat} (h : termLed (t :: r) = true) : t = 16 ∨ t = 17 := by
  simpa [termLed] using h

theorem termLed_append {q : List Nat} (ex : List Nat) (h : termLed q = true) (hne : q ≠ []) :
    termLed (q ++ ex) = true := by
  cases q with
  | nil => exact absurd rfl hne
  | cons t r => exact h

/-- appending Evt17s keeps a queue empty-or-terminator-led -/
theorem termLed_append17 {q ex : List Nat} (h : termLed q = true) (hex : ∀ x ∈ ex, x = 17) :
    termLed (q ++ ex) = true := by
  cases q with
  | nil =>
    cases ex with
    | nil => rfl
    | cons x r => simp [termLed, hex x (List.mem_cons_self ..)]
  | cons t r => exact h

theorem allPdata_iff {q : List Prim} : allPdata q = true ↔ ∀ p ∈ q, p = .pdata := by
  simp [allPdata]

/-! ### actions that do not queue Evt19 -/

/-- an action other than DT-2/AR-6 on an undecodable payload only ever appends Evt17 (failed sends,
`close()`) to the event queue -/
theorem act_evq17 (s : St) (a : Action) (e : Nat)
    (h : ((a = .DT_2 || a = .AR_6) && altOf s a e) = false) :
    ∃ ex, (act s a e).eventQ = s.eventQ ++ ex ∧ ∀ x ∈ ex, x = 17 := by
  rw [act_unfold]
  have hF := foldl_applyEff_frame (usedEffs a (effectsOf s a e).1) (popInputs s a)
  have hP := popInputs_frame s a
  obtain ⟨ex, hex, hex'⟩ := hF.evq
  obtain ⟨_, _, _, _, _, _, _, _, f9⟩ := finish_fields
    ((usedEffs a (effectsOf s a e).1).foldl applyEff (popInputs s a))
    ((a = .DT_2 || a = .AR_6) && altOf s a e) (effectsOf s a e).2
    ⟨e, s.fsm, some a, (effectsOf s a e).2, true⟩
  refine ⟨ex, ?_, hex'⟩
  rw [f9, h, hex, hP.eventQ]
  simp

theorem altOf_false_of_headDecodable (s : St) (a : Action) (e : Nat) (h : headDecodable s.recvPdu = true) :
    altOf s a e = false := by
  unfold altOf
  split
  · revert h
    cases s.recvPdu with
    | nil => intro _; rfl
    | cons x r =>
      obtain ⟨n, alt⟩ := x
      cases alt <;> simp [headDecodable]
  · rfl

/-! ### the provider queue after the pops -/

theorem popInputs_provQ_tail (s : St) (a : Action) (hp : popsPrim a = true) (ha : a ≠ .AA_1) :
    (popInputs s a).provQ = s.provQ.tail := by
  rw [popInputs_provQ]
  unfold popAbortQ popPrimQ
  simp [hp, ha]

theorem popInputs_provQ_same (s : St) (a : Action) (hp : popsPrim a = false) (ha : a ≠ .AA_1) :
    (popInputs s a).provQ = s.provQ := by
  rw [popInputs_provQ]
  unfold popAbortQ popPrimQ
  simp [hp, ha]

/-! ### the auxiliary condition of a streamed request, as a proposition -/

theorem streamQ_spec {s : St} (h : streamQ s = true) :
    termLed s.eventQ = true ∨ (s.phaseB = true ∧ ∃ e r, s.eventQ = e :: r ∧ termLed r = true ∧
      (e = 9 ∨ e = 12 ∨ (e = 10 ∧ headDecodable s.recvPdu = true))) := by
  unfold streamQ at h
  rcases Bool.or_eq_true_iff.mp h with h | h
  · exact Or.inl h
  · right
    simp only [Bool.and_eq_true] at h
    obtain ⟨hb, hm⟩ := h
    refine ⟨hb, ?_⟩
    cases heq : s.eventQ with
    | nil => rw [heq] at hm; cases hm
    | cons e r =>
      rw [heq] at hm
      simp only [Bool.and_eq_true, Bool.or_eq_true, beq_iff_eq] at hm
      obtain ⟨ht, (h9 | h12) | ⟨h10, hdec⟩⟩ := hm
      · exact ⟨e, r, rfl, ht, Or.inl h9⟩
      · exact ⟨e, r, rfl, ht, Or.inr (Or.inl h12)⟩
      · exact ⟨e, r, rfl, ht, Or.inr (Or.inr ⟨h10, hdec⟩)⟩

/-- with ARTIM consistent in Sta6/Sta8 (not running), it is consistent in every state and not expired -/
theorem artimOk_68 {f : Nat} {ar : Artim} (hf : f = 6 ∨ f = 8) (h : artimOk f ar = true) (n : Nat) :
    artimOk n ar = true ∧ ar.expired = false ∧ ar.fire = ar := by
  rcases hf with rfl | rfl <;> cases ar <;> simp [artimOk, Artim.expired, Artim.fire] at h ⊢

end PynetVerif.Dul
