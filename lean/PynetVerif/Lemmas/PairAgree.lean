import PynetVerif.Lemmas.PairSim
import PynetVerif.Lemmas.PairAbsReach
/-!
The product model is simulated by its finite abstraction along every admissible schedule without
injected send failure, as long as no local user aborts while a confirmation is outstanding; hence the
abstraction of every reachable product state lies in the kernel-checked closed set `Abs.R`.
-/
namespace PynetVerif
open Dul Fsm PairL

namespace Abs

theorem deliver_fields (snd rcv : St) (seen : Nat) (eof : Bool) :
    (Pair.deliver snd rcv seen eof).1.fsm = rcv.fsm ∧ (Pair.deliver snd rcv seen eof).1.kill = rcv.kill ∧
    (Pair.deliver snd rcv seen eof).1.connected = rcv.connected ∧ (Pair.deliver snd rcv seen eof).1.log = rcv.log ∧
    (Pair.deliver snd rcv seen eof).1.sent = rcv.sent := by
  unfold Pair.deliver
  split
  · exact ⟨rfl, rfl, rfl, rfl, rfl⟩
  · split <;> exact ⟨rfl, rfl, rfl, rfl, rfl⟩

/-- a delivery is invisible to the abstraction -/
theorem alpha_deliver (snd rcv : St) (seen oseen : Nat) (eof : Bool) :
    alphaSide snd (Pair.deliver snd rcv seen eof).1 (Pair.deliver snd rcv seen eof).2.1 = alphaSide snd rcv seen ∧
    alphaSide (Pair.deliver snd rcv seen eof).1 snd oseen = alphaSide rcv snd oseen := by
  obtain ⟨f1, f2, f3, f4, f5⟩ := deliver_fields snd rcv seen eof
  exact ⟨alphaSide_congr rfl rfl rfl rfl (deliver_inflight snd rcv seen eof),
    alphaSide_congr f1 f2 f3 f4 (by rw [undeliv_congr f5])⟩

/-- **every admissible product step without injected send failure is matched by zero or one abstract
transition**, unless a local user aborts while a confirmation is outstanding -/
theorem sim_step (p : Pair) (st : PStep) (h : PInv p) :
    alpha (Pair.step p st) = alpha p ∨ alpha (Pair.step p st) ∈ succs (alpha p) ∨
    abortedAwaiting (Pair.step p st).r = true ∨ abortedAwaiting (Pair.step p st).a = true := by
  cases st with
  | r st =>
    simp only [Pair.step]
    split
    · rename_i hal
      rcases side_sim p.r p.a st p.rSeen p.aSeen p.aEof h.r hal h.fifo.ra.le h.boxR h.eofA with ⟨h1, h2⟩ | hs | hab
      · left
        have hc : (Dul.step p.r st).connected = p.r.connected := congrArg ASide.conn h1
        have hup : (p.up || (Dul.step p.r st).connected) = p.up := by
          rw [hc]
          cases hcc : p.r.connected
          · simp
          · rw [h.upc hcc]; rfl
        show APair.mk (alphaSide (Dul.step p.r st) p.a p.rSeen) (alphaSide p.a (Dul.step p.r st) p.aSeen)
          (p.up || (Dul.step p.r st).connected) = alpha p
        rw [h1, h2, hup]; rfl
      · right; left
        rw [h.rreq] at hs
        unfold succs
        rw [List.mem_append]
        left
        rw [List.mem_map]
        exact ⟨_, hs, rfl⟩
      · exact Or.inr (Or.inr (Or.inl hab))
    · exact Or.inl rfl
  | a st =>
    simp only [Pair.step]
    split
    · rename_i hal
      simp only [Bool.and_eq_true] at hal
      rcases side_sim p.a p.r st p.aSeen p.rSeen p.rEof h.a hal.1 h.fifo.ar.le h.boxA h.eofR with ⟨h1, h2⟩ | hs | hab
      · left
        show APair.mk (alphaSide p.r (Dul.step p.a st) p.rSeen) (alphaSide (Dul.step p.a st) p.r p.aSeen) p.up = alpha p
        rw [h1, h2]; rfl
      · right; left
        rw [h.areq] at hs
        unfold succs
        rw [List.mem_append]
        right
        have hup : (alpha p).up = true := hal.2
        rw [hup]
        simp only [↓reduceIte, List.mem_map]
        refine ⟨_, hs, ?_⟩
        show APair.mk _ _ true = APair.mk _ _ p.up
        rw [hal.2]
      · exact Or.inr (Or.inr (Or.inr hab))
    · exact Or.inl rfl
  | deliverRA =>
    left
    simp only [Pair.step]
    split
    · obtain ⟨h1, h2⟩ := alpha_deliver p.r p.a p.rSeen p.aSeen p.rEof
      show APair.mk (alphaSide p.r _ _) (alphaSide _ p.r p.aSeen) p.up = alpha p
      rw [h1, h2]; rfl
    · rfl
  | deliverAR =>
    left
    simp only [Pair.step]
    split
    · obtain ⟨h1, h2⟩ := alpha_deliver p.a p.r p.aSeen p.rSeen p.aEof
      show APair.mk (alphaSide _ p.a p.rSeen) (alphaSide p.a _ _) p.up = alpha p
      rw [h1, h2]; rfl
    · rfl

/-! ### aborting while a confirmation is outstanding is never undone -/

theorem abortedAwaiting_mono {s t : St} {new : List Dispatch} (hl : t.log = new ++ s.log)
    (h : abortedAwaiting s = true) : abortedAwaiting t = true := by
  unfold abortedAwaiting at h ⊢
  rw [hl, List.any_append, h]; simp

theorem pair_step_logs (p : Pair) (st : PStep) :
    (∃ new, (Pair.step p st).r.log = new ++ p.r.log) ∧ (∃ new, (Pair.step p st).a.log = new ++ p.a.log) := by
  cases st with
  | r st =>
    simp only [Pair.step]
    split
    · exact ⟨step_log p.r st, [], rfl⟩
    · exact ⟨⟨[], rfl⟩, [], rfl⟩
  | a st =>
    simp only [Pair.step]
    split
    · exact ⟨⟨[], rfl⟩, step_log p.a st⟩
    · exact ⟨⟨[], rfl⟩, [], rfl⟩
  | deliverRA =>
    simp only [Pair.step]
    split
    · exact ⟨⟨[], rfl⟩, [], (deliver_fields ..).2.2.2.1⟩
    · exact ⟨⟨[], rfl⟩, [], rfl⟩
  | deliverAR =>
    simp only [Pair.step]
    split
    · exact ⟨⟨[], (deliver_fields ..).2.2.2.1⟩, [], rfl⟩
    · exact ⟨⟨[], rfl⟩, [], rfl⟩

/-- the invariant of the agreement proof -/
structure Good (p : Pair) : Prop where
  inv : PInv p
  abs : alpha p ∈ R ∨ abortedAwaiting p.r = true ∨ abortedAwaiting p.a = true

theorem good_init : Good Pair.init := ⟨pinv_init, Or.inl R_init⟩

theorem good_step (p : Pair) (st : PStep) (hok : Pair.stepOk p st = true) (hnb : Pair.noBreak st = true)
    (h : Good p) : Good (Pair.step p st) := by
  refine ⟨pinv_step p st hok hnb h.inv, ?_⟩
  obtain ⟨⟨nr, hr⟩, ⟨na, ha⟩⟩ := pair_step_logs p st
  rcases h.abs with hR | hab | hab
  · rcases sim_step p st h.inv with hs | hs | hs
    · left; rw [hs]; exact hR
    · left; exact R_closed hR hs
    · exact Or.inr hs
  · exact Or.inr (Or.inl (abortedAwaiting_mono hr hab))
  · exact Or.inr (Or.inr (abortedAwaiting_mono ha hab))

theorem good_run : ∀ (sched : List PStep) (p : Pair), Pair.runAdm p sched = true → Good p →
    Good (Pair.run p sched) := by
  intro sched
  induction sched with
  | nil => intro p _ h; exact h
  | cons st rest ih =>
    intro p hok h
    simp only [Pair.runAdm, Bool.and_eq_true] at hok
    exact ih _ hok.2 (good_step p st hok.1.1 hok.1.2 h)

end Abs
end PynetVerif
