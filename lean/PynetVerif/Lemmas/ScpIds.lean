import PynetVerif.Lemmas.ScpShape
/-!
Lemmas for C20_ids: every response carries the request's message id and context id,
provided no status dataset supplied by the handler contains a (0000,0120)
MessageIDBeingRespondedTo element (`validate_status` copies it into the response).
-/
namespace PynetVerif.Scp
open PynetVerif.Status (Category)

/-- every response of `o` goes out on context `cx` with MessageIDBeingRespondedTo = `m` -/
def IdsOK (cx m : Nat) (o : Out) : Prop := ∀ s ∈ o.rsps, s.cx = cx ∧ s.r.msgIdResp = m

def YieldVal.noMsgId : YieldVal → Bool
  | .pair s _ _ => s.noMsgId
  | .status s => s.noMsgId
  | _ => true

def VNoMsgId : Option YieldVal → Prop
  | some v => v.noMsgId = true
  | none => True

def Item.noMsgId : Item → Bool
  | .yield v _ => v.noMsgId
  | _ => true

/-- no status dataset the handler supplies contains MessageIDBeingRespondedTo -/
def Handler.noMsgId : Handler → Bool
  | .gen items => items.all Item.noMsgId
  | .fnVal v _ => v.noMsgId
  | _ => true

theorem stepVals_noMsgId : ∀ (items : List Item), items.all Item.noMsgId = true →
    ∀ v ∈ stepVals items, VNoMsgId v := by
  intro items
  induction items with
  | nil => intro _ v hv; cases hv
  | cons it rest ih =>
    intro h v hv
    simp only [List.all_cons, Bool.and_eq_true] at h
    cases it with
    | ret e => exact ih h.2 v (by simpa [stepVals] using hv)
    | raise te e =>
      simp only [stepVals, List.mem_cons] at hv
      rcases hv with hv | hv
      · subst hv; trivial
      · exact ih h.2 v hv
    | yield x e =>
      simp only [stepVals, List.mem_cons] at hv
      rcases hv with hv | hv
      · subst hv; exact h.1
      · exact ih h.2 v hv

theorem all_drop {α : Type} (p : α → Bool) (l : List α) (k : Nat) (h : l.all p = true) : (l.drop k).all p = true := by
  rw [List.all_eq_true] at h ⊢
  intro x hx
  exact h x (List.mem_of_mem_drop hx)

theorem IdsOK_nil (cx m : Nat) : IdsOK cx m Out.nil := by intro s hs; cases hs
theorem IdsOK_crash (cx m : Nat) : IdsOK cx m Out.crash := by intro s hs; cases hs
theorem IdsOK_send {cx m : Nat} {r : Rsp} (h : r.msgIdResp = m) : IdsOK cx m (send cx r) := by
  intro s hs
  simp only [send_rsps, List.mem_singleton] at hs
  subst hs; exact ⟨rfl, h⟩
theorem IdsOK_append {cx m : Nat} {a b : Out} (ha : IdsOK cx m a) (hb : IdsOK cx m b) : IdsOK cx m (a ++ b) := by
  intro s hs
  simp only [Out.append_rsps, List.mem_append] at hs
  rcases hs with hs | hs
  · exact ha s hs
  · exact hb s hs
theorem IdsOK_guard {cx m : Nat} {c : Bool} {o : Out} (h : IdsOK cx m o) :
    IdsOK cx m (if c then Out.nil else o) := by
  split
  · exact IdsOK_nil _ _
  · exact h

theorem unpack_noMsgId {exc : Int} {v : Option YieldVal} {s : StatusVal} {d : DsVal} {o : Outcome}
    (hv : VNoMsgId v) (h : unpack exc v = some (s, d, o)) : s.noMsgId = true := by
  cases v with
  | none => simp [unpack] at h; rw [← h.1]; rfl
  | some x =>
    cases x with
    | pair s' d' o' => simp [unpack, asPair] at h; rw [← h.1]; exact hv
    | status s' =>
      cases s' with
      | ds elems =>
        simp only [unpack, asPair] at h
        split at h
        · injection h with h; injection h with h _; rw [← h]; rfl
        · cases h
      | int c => simp [unpack, asPair] at h
      | bad => simp [unpack, asPair] at h
    | dest k => simp [unpack, asPair] at h
    | junk => simp [unpack, asPair] at h

/-! ### `_c_find_scp` -/

theorem findStep_ids {t : Table} {cx m : Nat} {est : Bool} {v : Option YieldVal} {r : Rsp}
    (hr : r.msgIdResp = m) (hv : VNoMsgId v) :
    match findStep t cx est v r with
    | .stop o => IdsOK cx m o
    | .cont o r' => IdsOK cx m o ∧ r'.msgIdResp = m
    | .brk _ => False := by
  unfold findStep
  cases hu : unpack 0xC311 v with
  | none => exact IdsOK_crash _ _
  | some x =>
    obtain ⟨s, d, o⟩ := x
    simp only
    have hs := unpack_noMsgId hv hu
    have hm : (validateStatus .find s r.clearIdent).msgIdResp = m := by
      rw [validateStatus_msgId _ _ _ hs]; exact hr
    cases est with
    | false => exact IdsOK_nil _ _
    | true =>
      simp only [Bool.not_true, Bool.false_eq_true, if_false]
      cases hc : tableCat t (validateStatus .find s r.clearIdent).status with
      | none => exact IdsOK_send hm
      | some cat =>
        cases cat with
        | success => exact IdsOK_send hm
        | failure => exact IdsOK_send hm
        | cancel => exact IdsOK_send hm
        | warning => exact ⟨IdsOK_send hm, hm⟩
        | unknown => exact ⟨IdsOK_nil _ _, hm⟩
        | pending =>
          simp only [findKnown]
          by_cases hd : d.encodes = true
          · simp only [hd, if_true]; exact ⟨IdsOK_send hm, hm⟩
          · simp only [hd, Bool.false_eq_true, if_false]; exact IdsOK_send hm

theorem findTail_ids {cx m : Nat} (st : St) {r : Rsp} (hr : r.msgIdResp = m) : IdsOK cx m (findTail cx st r) := by
  unfold findTail; split
  · exact IdsOK_nil _ _
  · exact IdsOK_send hr

theorem findLoop_ids (t : Table) (cx m : Nat) : ∀ (items : List Item) (st : St) (r : Rsp),
    r.msgIdResp = m → (∀ v ∈ stepVals items, VNoMsgId v) → IdsOK cx m (findLoop t cx items st r) := by
  intro items
  induction items with
  | nil => intro st r hr _; exact findTail_ids st hr
  | cons it rest ih =>
    intro st r hr hv
    cases it with
    | ret e => exact findTail_ids _ hr
    | raise te e =>
      have hs := findStep_ids (t := t) (cx := cx) (est := (st.apply e).est) hr (hv none (by simp [stepVals]))
      simp only [findLoop]
      split
      · next o heq => rw [heq] at hs; exact hs
      · next o r' heq => rw [heq] at hs; exact IdsOK_append hs.1 (findTail_ids _ hs.2)
      · next r' heq => rw [heq] at hs; exact hs.elim
    | yield x e =>
      have hs := findStep_ids (t := t) (cx := cx) (est := (st.apply e).est) hr (hv (some x) (by simp [stepVals]))
      simp only [findLoop]
      split
      · exact findTail_ids _ hr
      · split
        · next o heq => rw [heq] at hs; exact hs
        · next o r' heq =>
          rw [heq] at hs
          exact IdsOK_append hs.1 (ih _ r' hs.2 (fun v hv' => hv v (by simp [stepVals, hv'])))
        · next r' heq => rw [heq] at hs; exact hs.elim

theorem findScp_ids (t : Table) (cx m : Nat) (h : Handler) (hn : h.noMsgId = true) :
    IdsOK cx m (findScp t cx m h) := by
  have one : ∀ (items : List Item) (st : St), (∀ v ∈ stepVals items, VNoMsgId v) →
      IdsOK cx m (findLoop t cx items st { msgIdResp := m }) := fun items st hv => findLoop_ids t cx m items st _ rfl hv
  cases h with
  | gen items => exact one items _ (stepVals_noMsgId items hn)
  | fnRaise te e => exact IdsOK_send rfl
  | fnNone e => exact IdsOK_guard (one _ _ (by intro v hv; simp [stepVals] at hv; subst hv; rfl))
  | fnJunk e => exact IdsOK_guard (one _ _ (by intro v hv; simp [stepVals] at hv; subst hv; trivial))
  | fnVal v e => exact IdsOK_guard (one _ _ (by intro v hv; simp [stepVals] at hv; subst hv; trivial))

/-! ### `_get_scp` / `_move_scp` -/

theorem gmPending_msgId {cx : Nat} {r : Rsp} {d : DsVal} {o : Outcome} {g : GmSt} {out : Out} {g' : GmSt}
    (h : gmPending cx r d o g = .cont out g') : g'.rsp.msgIdResp = r.msgIdResp := by
  unfold gmPending at h
  by_cases h1 : d.truthy = true
  · by_cases h2 : d.isDataset = true
    · simp only [h1, h2, if_true, Bool.not_true, Bool.false_eq_true, if_false] at h
      injection h with _ h; subst h; rfl
    · simp only [h1, if_true, Bool.not_eq_true] at *
      simp only [h2, Bool.not_false, if_true] at h
      injection h with _ h; subst h; rfl
  · simp only [h1, Bool.false_eq_true, if_false] at h
    injection h with _ h; subst h; rfl

theorem gmStep_cont_msgId {p t cx exc est v g out g'} (h : gmStep p t cx exc est v g = .cont out g') :
    ∃ s d o, unpack exc v = some (s, d, o) ∧
      g'.rsp.msgIdResp = (validateStatus p s g.clearIdent.rsp).msgIdResp := by
  unfold gmStep at h
  split at h
  · cases h
  · next s d o hu =>
    split at h
    · cases h
    · split at h
      · cases h
      · refine ⟨s, d, o, hu, ?_⟩
        unfold gmDispatch at h
        split at h
        · cases h
        · unfold gmKnown at h
          split at h
          · cases h
          · cases h
          · cases h
          · cases h
          · exact gmPending_msgId h
          · injection h with _ h; subst h; rfl

theorem gmFinal_msgId (n : Nat) (g : GmSt) : (gmFinal n g).msgIdResp = g.rsp.msgIdResp := by
  unfold gmFinal
  by_cases h : (g.ctr.fail == 0 && g.ctr.warn == 0) = true <;> simp [h]

theorem gmSuccess_msgId (r : Rsp) (g : GmSt) : (gmSuccess r g).msgIdResp = r.msgIdResp := by
  unfold gmSuccess
  by_cases h : (g.ctr.fail != 0 || g.ctr.warn != 0) = true <;> simp [h]

theorem stopSpec_msgId {p : Prim} {t : Table} {g : GmSt} {s : StatusVal} {d : DsVal} {r : Rsp}
    (h : StopSpec p t g s d r) : r.msgIdResp = (validateStatus p s g.rsp).msgIdResp := by
  cases h with
  | unknown _ => rfl
  | cancel _ => rfl
  | failWarn _ => rfl
  | success _ => exact gmSuccess_msgId _ _

theorem gmLoop_ids (p : Prim) (t : Table) (cx n m : Nat) (exc : Int) (items : List Item) (st : St) (g : GmSt)
    (hg : g.rsp.msgIdResp = m) (hv : ∀ v ∈ stepVals items, VNoMsgId v) :
    IdsOK cx m (gmLoop p t cx n exc items st g) := by
  have tail : ∀ st g, g.rsp.msgIdResp = m → IdsOK cx m (gmTail cx n st g) := by
    intro st g hg
    unfold gmTail; split
    · exact IdsOK_nil _ _
    · exact IdsOK_send (by rw [gmFinal_msgId]; exact hg)
  refine gmLoop_induct p t cx n exc VNoMsgId (fun g out => g.rsp.msgIdResp = m → IdsOK cx m out)
    (fun st g => tail st g) ?_ ?_ ?_ items hv st g hg
  · intro est v g o hq h hg
    rcases gmStep_stop h with h | h | ⟨_, s, d, o', r, hu, ho, hspec⟩
    · subst h; exact IdsOK_crash _ _
    · subst h; exact IdsOK_nil _ _
    · subst ho
      refine IdsOK_send ?_
      rw [stopSpec_msgId hspec, validateStatus_msgId _ _ _ (unpack_noMsgId hq hu)]
      exact hg
  · intro est v g o g' o' hq h ih hg
    obtain ⟨s, d, oc, hu, hm⟩ := gmStep_cont_msgId h
    have hg' : g'.rsp.msgIdResp = m := by
      rw [hm, validateStatus_msgId _ _ _ (unpack_noMsgId hq hu)]; exact hg
    obtain ⟨_, s', d', oc', _, hcase⟩ := gmStep_cont h
    refine IdsOK_append ?_ (ih hg')
    rcases hcase with ⟨ho, _, _⟩ | ⟨_, ⟨ho, _, _⟩ | ⟨op, ho, _, _, _, _⟩⟩
    · subst ho; exact IdsOK_nil _ _
    · subst ho; exact IdsOK_nil _ _
    · subst ho
      intro s hs
      simp only [List.mem_singleton] at hs
      subst hs; exact ⟨rfl, hg'⟩
  · intro est v g g' st h hg
    obtain ⟨_, hgg⟩ := gmStep_brk h
    subst hgg
    exact tail st _ hg

theorem getScp_ids (t : Table) (cx m : Nat) (h : Handler) (hn : h.noMsgId = true) :
    IdsOK cx m (getScp t cx m h) := by
  have one : ∀ c : Int, IdsOK cx m (send cx ({ msgIdResp := m, status := c } : Rsp)) := fun c => IdsOK_send rfl
  cases h with
  | fnRaise te e => exact one _
  | fnNone e => exact IdsOK_guard (one _)
  | fnJunk e => exact IdsOK_guard (one _)
  | fnVal v e => exact IdsOK_guard (one _)
  | gen items =>
    cases items with
    | nil => exact one _
    | cons it rest =>
      cases it with
      | ret e => exact one _
      | raise te e => exact one _
      | yield v e =>
        simp only [getScp]
        cases hv : asCount v with
        | none => exact one _
        | some c =>
          simp only [getCounted]
          split
          · exact IdsOK_send rfl
          · split
            · exact one _
            · refine gmLoop_ids _ _ _ _ _ _ _ _ _ rfl ?_
              simp only [Handler.noMsgId, List.all_cons, Bool.and_eq_true] at hn
              exact stepVals_noMsgId rest hn.2

theorem moveScp_ids (t : Table) (cx m : Nat) (h : Handler) (hn : h.noMsgId = true) :
    IdsOK cx m (moveScp t cx m h) := by
  have one : ∀ c : Int, IdsOK cx m (send cx ({ msgIdResp := m, status := c } : Rsp)) := fun c => IdsOK_send rfl
  cases h with
  | fnRaise te e => exact one _
  | fnNone e => exact IdsOK_guard (one _)
  | fnJunk e => exact IdsOK_guard (one _)
  | fnVal v e => exact IdsOK_guard (one _)
  | gen items =>
    cases items with
    | nil => exact one _
    | cons it rest =>
      cases it with
      | ret e => exact one _
      | raise te e => exact one _
      | yield v e =>
        simp only [moveScp]
        split
        · exact IdsOK_nil _ _
        · split
          · exact one _
          · exact one _
          · next k _ =>
            cases rest with
            | nil => exact one _
            | cons it2 rest2 =>
              cases it2 with
              | ret e2 => exact one _
              | raise te2 e2 => exact one _
              | yield v2 e2 =>
                simp only [moveAfterDest]
                cases hv : asCount v2 with
                | none => exact one _
                | some c =>
                  simp only
                  split
                  · exact IdsOK_nil _ _
                  · split
                    · exact IdsOK_send rfl
                    · split
                      · exact one _
                      · cases k with
                        | raises => exact one _
                        | refused => exact one _
                        | unknown => exact one _
                        | ok =>
                          refine gmLoop_ids _ _ _ _ _ _ _ _ _ rfl ?_
                          simp only [Handler.noMsgId, List.all_cons, Bool.and_eq_true] at hn
                          exact stepVals_noMsgId rest2 hn.2.2

/-! ### the other services -/

theorem rpBody_ids (t : Table) (cx m : Nat) (st : St) (r : Rsp) (s : StatusVal) (d : DsVal)
    (hr : r.msgIdResp = m) (hs : s.noMsgId = true) : IdsOK cx m (rpBody t cx st r s d) := by
  unfold rpBody
  have hm : (validateStatus .find s r).msgIdResp = m := by rw [validateStatus_msgId _ _ _ hs]; exact hr
  split
  · exact IdsOK_nil _ _
  · split
    · exact IdsOK_send hm
    · exact IdsOK_send hm
    · exact IdsOK_send hm
    · exact IdsOK_send hm
    · split
      · exact IdsOK_append (IdsOK_send hm) (IdsOK_send hm)
      · exact IdsOK_send hm
    · exact IdsOK_nil _ _
    · exact IdsOK_nil _ _

theorem rpScp_ids (t : Table) (cx m : Nat) (h : Handler) (hn : h.noMsgId = true) :
    IdsOK cx m (rpScp t cx m h) := by
  have one : ∀ c : Int, IdsOK cx m (send cx ({ msgIdResp := m, status := c } : Rsp)) := fun c => IdsOK_send rfl
  have succ : ∀ st : St, IdsOK cx m (rpSuccess cx st { msgIdResp := m }) := by
    intro st; unfold rpSuccess; exact IdsOK_guard (IdsOK_send rfl)
  cases h with
  | fnRaise te e => simp only [rpScp]; split
                    · exact succ _
                    · exact one _
  | fnNone e => exact succ _
  | fnJunk e => exact succ _
  | fnVal v e => exact succ _
  | gen items =>
    cases items with
    | nil => exact succ _
    | cons it rest =>
      cases it with
      | ret e => exact succ _
      | raise te e => simp only [rpScp]; split
                      · exact succ _
                      · exact one _
      | yield v e =>
        simp only [Handler.noMsgId, List.all_cons, Bool.and_eq_true, Item.noMsgId] at hn
        cases v with
        | pair s d o => exact rpBody_ids t cx m _ _ s d rfl hn.1
        | status sv =>
          cases sv with
          | int c => exact succ _
          | bad => exact one _
          | ds elems => simp only [rpScp]; split
                        · exact rpBody_ids t cx m _ _ .bad .junkTruthy rfl rfl
                        · exact one _
        | dest k => exact one _
        | junk => exact succ _

theorem call_noMsgId (h : Handler) (hn : h.noMsgId = true) : (asStatus h.call.1).noMsgId = true := by
  cases h with
  | gen items => rfl
  | fnRaise te e => rfl
  | fnNone e => rfl
  | fnJunk e => rfl
  | fnVal v e =>
    cases v with
    | status s => exact hn
    | pair _ _ _ => rfl
    | dest _ => rfl
    | junk => rfl

theorem echoScp_ids (cx m : Nat) (h : Handler) (hn : h.noMsgId = true) : IdsOK cx m (echoScp cx m h) := by
  have hc := call_noMsgId h hn
  unfold echoScp
  generalize h.call = c at hc ⊢
  obtain ⟨res, e⟩ := c
  simp only at hc ⊢
  have key : ∀ sv : StatusVal, sv.noMsgId = true →
      IdsOK cx m
        (if !(({} : St).apply e).est then Out.nil else
          match sv with
          | .ds elems => if hasStatus elems then send cx (copyElems .echo elems { msgIdResp := m })
                         else send cx { msgIdResp := m, status := 0 }
          | .int c => send cx { msgIdResp := m, status := c }
          | .bad => send cx { msgIdResp := m, status := 0 }) := by
    intro sv hsv
    refine IdsOK_guard ?_
    cases sv with
    | int c => exact IdsOK_send rfl
    | bad => exact IdsOK_send rfl
    | ds elems =>
      simp only
      split
      · exact IdsOK_send (copyElems_msgId .echo elems _ hsv)
      · exact IdsOK_send rfl
  cases res with
  | raised => exact IdsOK_send rfl
  | value v => exact key _ hc
  | junk5 => exact key (.int 5) rfl
  | genObj => exact key .bad rfl

theorem statusOnlyScp_ids (p : Prim) (exc : Int) (cx m : Nat) (h : Handler) (hn : h.noMsgId = true) :
    IdsOK cx m (statusOnlyScp p exc cx m h) := by
  have hc := call_noMsgId h hn
  unfold statusOnlyScp
  generalize h.call = c at hc ⊢
  obtain ⟨res, e⟩ := c
  simp only at hc ⊢
  have key : ∀ res : FnResult, (asStatus res).noMsgId = true →
      IdsOK cx m (if !(({} : St).apply e).est then Out.nil
        else send cx (validateStatus p (asStatus res) { msgIdResp := m })) := by
    intro res hres
    exact IdsOK_guard (IdsOK_send (validateStatus_msgId _ _ _ hres))
  cases res with
  | raised => exact IdsOK_send rfl
  | value v => exact key _ hc
  | junk5 => exact key .junk5 rfl
  | genObj => exact key .genObj rfl

theorem fnPair_noMsgId (h : Handler) (hn : h.noMsgId = true) {s : StatusVal} {d : DsVal} {o : Outcome}
    (hp : fnPair h.call.1 = some (s, d, o)) : s.noMsgId = true := by
  cases h with
  | gen items => simp [Handler.call, fnPair] at hp
  | fnRaise te e => simp [Handler.call, fnPair] at hp
  | fnNone e => simp [Handler.call, fnPair, asPair] at hp
  | fnJunk e => simp [Handler.call, fnPair] at hp
  | fnVal v e =>
    have : unpack 0 (some v) = some (s, d, o) := hp
    exact unpack_noMsgId (v := some v) hn this

theorem nScp_ids (p : Prim) (t : Table) (cx m : Nat) (inst : Bool) (h : Handler) (hn : h.noMsgId = true) :
    IdsOK cx m (nScp p t cx m inst h) := by
  have hc := fun s d o => fnPair_noMsgId h hn (s := s) (d := d) (o := o)
  unfold nScp
  split
  · exact IdsOK_send rfl
  · next res hres =>
    refine IdsOK_guard ?_
    rcases nBody_spec p t cx m inst h.call.1 with ⟨_, h2⟩ | ⟨s, d, o, x, h1, h2, h3, _⟩
    · rw [h2]; exact IdsOK_crash _ _
    · rw [h2]
      refine IdsOK_send ?_
      rw [h3, validateStatus_msgId _ _ _ (hc s d o h1)]

end PynetVerif.Scp
