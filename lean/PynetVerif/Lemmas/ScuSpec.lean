import PynetVerif.Model.Scu
import PynetVerif.Spec.Scu
import PynetVerif.Lemmas.Scu
/-!
Lemmas relating the SCU model (`Model/Scu.lean`) to the specification (`Spec/Scu.lean`): per-message
facts about the steps and stops of both response loops, and the induction behind the partial
C-GET/C-MOVE theorem.  Used by `Props/C24.lean`.
-/
set_option linter.unusedSimpArgs false
namespace PynetVerif
open Scu Status Spec.Scu

theorem flatMap_toList_eq_filterMap {α β : Type} (f : α → Option β) (l : List α) :
    l.flatMap (fun a => (f a).toList) = l.filterMap f := by
  induction l with
  | nil => rfl
  | cons a as ih =>
    simp only [List.flatMap_cons, List.filterMap_cons, ih]
    cases f a <;> simp

theorem find_continues_eq (rq : Bool) : (find rq).continues = contFind rq := by
  funext m
  cases m with
  | none w => simp [Service.continues, find, isSubOp, response, contFind]
  | storeRq cx => simp [Service.continues, find, isSubOp, response, contFind]
  | rsp k valid st id =>
    cases k <;> cases valid <;> simp [Service.continues, find, isSubOp, response, contFind]

theorem stepFind_obs (rq : Bool) (m : PeerMsg) (h : contFind rq m = true) :
    observe sLoop (stepFind rq m) = ((find rq).pending m).toList ∧
      finalState sLoop (stepFind rq m) = sLoop := by
  cases m with
  | none w => simp [contFind] at h
  | storeRq cx => simp [contFind] at h
  | rsp k valid st id =>
    cases k <;> cases valid
    case find.true =>
      by_cases hb : (rq && st == 0xB001) = true
      · have hb' : rq = true ∧ st = 0xB001 := by simpa using hb
        simp [stepFind, hb, hb', observe, emit, St.step, finalState, sLoop, Service.pending, response, find]
      · simp only [Bool.not_eq_true] at hb
        have hb' : ¬(rq = true ∧ st = 0xB001) := by simpa using hb
        cases id <;>
          simp [stepFind, hb, hb', observe, emit, St.step, finalState, sLoop, Service.pending, response, find,
            decodeFind, decoded]
    all_goals simp [contFind] at h

/-- observation, final state, aborts, receives and raise flag of the stop step of C-FIND -/
theorem find_stop_facts (rq : Bool) (h : Option PeerMsg) (hh : ∀ m, h = some m → contFind rq m = false) :
    observe sLoop (wrapFind rq h.toList) = [(find rq).last h] ∧
    finalState sLoop (wrapFind rq h.toList) = St.init ∧
    recvs (wrapFind rq h.toList) = 1 ∧
    raised (wrapFind rq h.toList) = false ∧
    aborts (wrapFind rq h.toList) = (find rq).abortsAt h := by
  cases h with
  | none => clear hh; cases rq <;> decide
  | some m =>
    have hm := hh m rfl
    clear hh
    cases m with
    | none w => cases w <;> cases rq <;> decide
    | storeRq cx => cases cx <;> cases rq <;> decide
    | rsp k valid st id =>
      cases k <;> cases valid
      case find.true =>
        rw [contFind_eq] at hm
        simp only [Bool.or_eq_false_iff] at hm
        simp [wrapFind, hm.1, hm.2, observe, emit, St.step, finalState, sLoop, Service.last, response,
          find, St.init, recvs, isRecv, raised, isRaise, aborts, isAbort, Service.abortsAt, List.countP_cons, List.countP_nil]
      all_goals
        simp [wrapFind, giveUp, observe, emit, St.step, finalState, sLoop, Service.last, response,
          find, St.init, recvs, isRecv, raised, isRaise, aborts, isAbort, emptyYield, Service.abortsAt, List.countP_cons, List.countP_nil]

theorem stepFind_counts (rq : Bool) (m : PeerMsg) :
    aborts (stepFind rq m) = 0 ∧ raised (stepFind rq m) = false ∧
      (contFind rq m = true → recvs (stepFind rq m) = 1) := by
  cases m with
  | none w => simp [stepFind, aborts, raised, contFind]
  | storeRq cx => simp [stepFind, aborts, raised, contFind]
  | rsp k valid st id =>
    by_cases hb : (rq && st == 0xB001) = true
    · simp [stepFind, hb, aborts, isAbort, raised, isRaise, recvs, isRecv, List.countP_cons, List.countP_nil]
    · simp only [Bool.not_eq_true] at hb
      simp [stepFind, hb, aborts, isAbort, raised, isRaise, recvs, isRecv, List.countP_cons, List.countP_nil]

theorem gm_continues_eq (ek : Kind) (hek : ek = .get ∨ ek = .move) (m : PeerMsg)
    (hd : deviates ek m = false) : (retrieve ek).continues m = contGM m := by
  cases m with
  | none w => simp [Service.continues, retrieve, isSubOp, response, contGM]
  | storeRq cx => cases cx <;> simp [deviates] at hd <;> simp [Service.continues, retrieve, isSubOp, response, contGM]
  | rsp k valid st id =>
    rcases hek with rfl | rfl <;> cases k <;> cases valid <;> simp [deviates] at hd <;>
      simp [Service.continues, retrieve, isSubOp, response, contGM, scuFinal, bne]

theorem stepGM_obs (ek : Kind) (hek : ek = .get ∨ ek = .move) (m : PeerMsg) (hc : contGM m = true)
    (hd : deviates ek m = false) :
    observe sLoop (stepGM m) = ((retrieve ek).pending m).toList ∧ finalState sLoop (stepGM m) = sLoop ∧
      aborts (stepGM m) = 0 ∧ raised (stepGM m) = false := by
  cases m with
  | none w => simp [contGM] at hc
  | storeRq cx =>
    cases cx <;> simp [deviates] at hd <;> rcases hek with rfl | rfl <;> decide
  | rsp k valid st id =>
    rcases hek with rfl | rfl <;> cases k <;> cases valid <;> simp [deviates] at hd <;>
      simp [contGM] at hc <;>
      simp [stepGM, observe, emit, St.step, finalState, sLoop, Service.pending, response, retrieve,
        aborts, isAbort, raised, isRaise, List.countP_cons, List.countP_nil]

theorem stepGM_state (m : PeerMsg) (hc : contGM m = true) :
    finalState sLoop (stepGM m) = sLoop ∧ (∀ y ∈ observe sLoop (stepGM m), y.lockHeld = false) ∧
      raised (stepGM m) = false ∧ recvs (stepGM m) = 1 := by
  cases m with
  | none w => simp [contGM] at hc
  | storeRq cx => cases cx <;> simp [contGM] at hc <;> decide
  | rsp k valid st id =>
    cases k <;> cases valid <;> simp [contGM] at hc <;>
      simp [stepGM, cStoreScp, observe, emit, St.step, finalState, sLoop, raised, isRaise, recvs, isRecv,
        List.countP_cons, List.countP_nil]

theorem gm_stop_state (h : Option PeerMsg) (hh : ∀ m, h = some m → contGM m = false) :
    (∀ y ∈ observe sLoop (wrapGetMove h.toList), y.lockHeld = false) ∧
    (finalState sLoop (wrapGetMove h.toList)).lock = false ∧
    (finalState sLoop (wrapGetMove h.toList)).ckpt = !raised (wrapGetMove h.toList) ∧
    recvs (wrapGetMove h.toList) = 1 := by
  cases h with
  | none => decide
  | some m =>
    have hm := hh m rfl
    clear hh
    cases m with
    | none w => cases w <;> decide
    | storeRq cx => cases cx <;> simp [contGM] at hm <;> decide
    | rsp k valid st id =>
      cases k <;> cases valid <;> simp [contGM] at hm <;>
        (try simp [wrapGetMove, giveUp, observe, emit, St.step, finalState, sLoop, raised, isRaise, recvs,
          isRecv, List.countP_cons, List.countP_nil])
      all_goals
        generalize hcat : category st = c at hm
        cases c <;> cases id <;> simp at hm <;>
          simp [wrapGetMove, hcat, finalIdentGM, observe, emit, St.step, finalState, sLoop, raised, isRaise,
            recvs, isRecv, List.countP_cons, List.countP_nil]

theorem gm_stop_spec (ek : Kind) (hek : ek = .get ∨ ek = .move) (m : PeerMsg) (hc : contGM m = false)
    (hd : deviates ek m = false) :
    observe sLoop (wrapGetMove [m]) = [(retrieve ek).last (some m)] ∧
      aborts (wrapGetMove [m]) = (retrieve ek).abortsAt (some m) ∧ raised (wrapGetMove [m]) = false := by
  cases m with
  | none w => cases w <;> rcases hek with rfl | rfl <;> decide
  | storeRq cx => cases cx <;> simp [contGM] at hc <;> simp [deviates] at hd
  | rsp k valid st id =>
    rcases hek with rfl | rfl <;> cases k <;> cases valid <;> simp [deviates] at hd <;>
      simp [contGM] at hc <;>
      (try simp [wrapGetMove, giveUp, observe, emit, St.step, finalState, sLoop, raised, isRaise, aborts,
          isAbort, List.countP_cons, List.countP_nil, Service.last, Service.abortsAt, response, retrieve,
          emptyYield])
    all_goals
      generalize hcat : category st = c at hc
      cases c <;> cases id <;> simp at hc <;>
        simp [wrapGetMove, hcat, finalIdentGM, observe, emit, St.step, finalState, sLoop, raised, isRaise,
          aborts, isAbort, List.countP_cons, List.countP_nil, Service.last, Service.abortsAt, response,
          retrieve, decoded]

theorem getmove_partial (ek : Kind) (hek : ek = .get ∨ ek = .move) (peer : List PeerMsg)
    (h : ∀ m ∈ consumed (retrieve ek).continues peer, deviates ek m = false) :
    observe sLoop (wrapGetMove peer) = (retrieve ek).expectedYields peer ∧
      aborts (wrapGetMove peer) = (retrieve ek).expectedAborts peer ∧
      raised (wrapGetMove peer) = false := by
  induction peer with
  | nil => rcases hek with rfl | rfl <;> decide
  | cons m rest ih =>
    by_cases hc : (retrieve ek).continues m = true
    · have hd := h m (by rw [consumed_cons_true _ _ _ hc]; simp)
      have hcg : contGM m = true := by rw [← gm_continues_eq ek hek m hd]; exact hc
      have ih' := ih (fun x hx => h x (by rw [consumed_cons_true _ _ _ hc]; simp [hx]))
      obtain ⟨o1, o2, o3, o4⟩ := stepGM_obs ek hek m hcg hd
      rw [wrapGetMove_cont m rest hcg, observe_append, aborts_append, raised_append,
        o1, o2, o3, o4, ih'.1, ih'.2.1, ih'.2.2]
      refine ⟨?_, ?_, rfl⟩
      · simp only [Service.expectedYields, List.takeWhile_cons, hc, if_true, List.dropWhile_cons,
          List.filterMap_cons]
        cases (retrieve ek).pending m <;> simp
      · simp [Service.expectedAborts, List.dropWhile_cons, hc]
    · simp only [Bool.not_eq_true] at hc
      have hd := h m (by rw [consumed_cons_false _ _ _ hc]; simp)
      have hcg : contGM m = false := by rw [← gm_continues_eq ek hek m hd]; exact hc
      obtain ⟨o1, o2, o3⟩ := gm_stop_spec ek hek m hcg hd
      rw [wrapGetMove_stop m rest hcg, o1, o2, o3]
      simp [Service.expectedYields, Service.expectedAborts, List.takeWhile_cons, List.dropWhile_cons, hc]

theorem singleTail_quiet (svc : Svc) (peer : List PeerMsg) : (singleTail svc peer).all quiet = true := by
  cases peer with
  | nil => simp [singleTail, quiet]
  | cons m rest =>
    cases m with
    | none w => cases w <;> simp [singleTail, handleNoResponse, quiet]
    | storeRq cx => simp [singleTail, quiet]
    | rsp k valid st id =>
      cases valid
      · simp [singleTail, quiet]
      · generalize hcat : category st = c
        cases svc <;> cases c <;> cases k <;> cases id <;>
          simp [singleTail, Svc.reads, Kind.attr, hcat, quiet]


end PynetVerif
