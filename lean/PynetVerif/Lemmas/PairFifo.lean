import PynetVerif.Lemmas.Pair
/-!
The channel invariant of the product model: what has been delivered to a side — read or still in
its inbox — is exactly the image of the first `seen` PDUs the other side has sent.
-/
namespace PynetVerif
open Dul Fsm

/-- the PDU events of the first `seen` PDUs a reactor has sent -/
def delivered (snd : St) (seen : Nat) : List Nat := wireEvts ((snd.sent.reverse.take seen).map wireOf)

namespace PairL

structure Chan (snd rcv : St) (seen : Nat) : Prop where
  le : seen ≤ snd.sent.length
  eq : lineEvts rcv = delivered snd seen

theorem delivered_prefix (snd : St) (seen : Nat) : delivered snd seen <+: sentEvts snd := by
  unfold delivered sentEvts wireEvts
  exact ((List.take_prefix _ _).map _).filterMap _

theorem Chan.snd_step {snd rcv : St} {seen : Nat} (h : Chan snd rcv seen) (st : Step) :
    Chan (Dul.step snd st) rcv seen := by
  obtain ⟨new, hnew⟩ := step_sent snd st
  refine ⟨?_, ?_⟩
  · rw [hnew, List.length_append]; have := h.le; omega
  · rw [h.eq]; unfold delivered
    rw [hnew, List.reverse_append, List.take_append_of_le_length (by rw [List.length_reverse]; exact h.le)]

theorem Chan.snd_sent {snd snd' rcv : St} {seen : Nat} (h : Chan snd rcv seen) (hs : snd'.sent = snd.sent) :
    Chan snd' rcv seen := by
  refine ⟨by rw [hs]; exact h.le, ?_⟩
  rw [h.eq]; unfold delivered; rw [hs]

theorem Chan.rcv_step {snd rcv : St} {seen : Nat} (h : Chan snd rcv seen) (st : Step)
    (hal : Pair.allowed st = true) : Chan snd (Dul.step rcv st) seen :=
  ⟨h.le, by rw [step_lineEvts rcv st hal]; exact h.eq⟩

theorem Chan.deliver {snd rcv : St} {seen : Nat} (h : Chan snd rcv seen) (eof : Bool) :
    Chan snd (Pair.deliver snd rcv seen eof).1 (Pair.deliver snd rcv seen eof).2.1 := by
  unfold Pair.deliver
  split
  · rename_i f hf
    unfold Pair.nth at hf
    have hlt : seen < snd.sent.reverse.length := by
      rcases Nat.lt_or_ge seen snd.sent.reverse.length with h' | h'
      · exact h'
      · rw [List.getElem?_eq_none h'] at hf; cases hf
    refine ⟨by rw [List.length_reverse] at hlt; exact hlt, ?_⟩
    show lineEvts (env (.peer (wireOf f)) rcv) = _
    rw [peer_lineEvts, h.eq]
    unfold delivered
    rw [List.take_add_one, hf]
    simp only [Option.toList_some, List.map_append, wireEvts_append, List.map_cons, List.map_nil]
  · split
    · refine ⟨h.le, ?_⟩
      show lineEvts (env (.peer .eof) rcv) = _
      rw [peer_lineEvts, h.eq]
      simp [wireEvts]
    · exact h

theorem deliver_sent (snd rcv : St) (seen : Nat) (eof : Bool) : (Pair.deliver snd rcv seen eof).1.sent = rcv.sent := by
  unfold Pair.deliver
  split
  · rfl
  · split <;> rfl

/-- both channels -/
structure Fifo (p : Pair) : Prop where
  ra : Chan p.r p.a p.rSeen
  ar : Chan p.a p.r p.aSeen

theorem fifo_init : Fifo Pair.init := by
  refine ⟨⟨Nat.le_refl _, ?_⟩, ⟨Nat.le_refl _, ?_⟩⟩ <;> decide

theorem fifo_step (p : Pair) (st : PStep) (h : Fifo p) : Fifo (Pair.step p st) := by
  cases st with
  | r st =>
    simp only [Pair.step]
    split
    · rename_i hal
      exact ⟨h.ra.snd_step st, h.ar.rcv_step st hal⟩
    · exact h
  | a st =>
    simp only [Pair.step]
    split
    · rename_i hal
      simp only [Bool.and_eq_true] at hal
      exact ⟨h.ra.rcv_step st hal.1, h.ar.snd_step st⟩
    · exact h
  | deliverRA =>
    simp only [Pair.step]
    split
    · exact ⟨h.ra.deliver p.rEof, h.ar.snd_sent (deliver_sent ..)⟩
    · exact h
  | deliverAR =>
    simp only [Pair.step]
    split
    · exact ⟨h.ra.snd_sent (deliver_sent ..), h.ar.deliver p.aEof⟩
    · exact h

theorem fifo_run : ∀ (sched : List PStep) (p : Pair), Fifo p → Fifo (Pair.run p sched) := by
  intro sched
  induction sched with
  | nil => intro p h; exact h
  | cons st rest ih => intro p h; exact ih _ (fifo_step p st h)

/-! ### both logs -/

structure Logs (p : Pair) : Prop where
  r : LogOk p.r
  a : LogOk p.a

theorem logs_init : Logs Pair.init :=
  ⟨⟨(fun _ h => nomatch h), (fun _ h => nomatch h)⟩, ⟨(fun _ h => nomatch h), (fun _ h => nomatch h)⟩⟩

theorem deliver_logOk (snd rcv : St) (seen : Nat) (eof : Bool) (h : LogOk rcv) :
    LogOk (Pair.deliver snd rcv seen eof).1 := by
  unfold Pair.deliver
  split
  · exact step_logOk rcv (.env (.peer _)) h
  · split
    · exact step_logOk rcv (.env (.peer .eof)) h
    · exact h

theorem logs_step (p : Pair) (st : PStep) (h : Logs p) : Logs (Pair.step p st) := by
  cases st with
  | r st =>
    simp only [Pair.step]
    split
    · exact ⟨step_logOk _ st h.r, h.a⟩
    · exact h
  | a st =>
    simp only [Pair.step]
    split
    · exact ⟨h.r, step_logOk _ st h.a⟩
    · exact h
  | deliverRA =>
    simp only [Pair.step]
    split
    · exact ⟨h.r, deliver_logOk _ _ _ _ h.a⟩
    · exact h
  | deliverAR =>
    simp only [Pair.step]
    split
    · exact ⟨deliver_logOk _ _ _ _ h.r, h.a⟩
    · exact h

theorem logs_run : ∀ (sched : List PStep) (p : Pair), Logs p → Logs (Pair.run p sched) := by
  intro sched
  induction sched with
  | nil => intro p h; exact h
  | cons st rest ih => intro p h; exact ih _ (logs_step p st h)

/-! ### causality across the wire -/

theorem mem_dispatchedPdus {s : St} {d : Dispatch} (hd : d ∈ s.log) (he : pduEv d.evt = true) :
    d.evt ∈ dispatchedPdus s := by
  unfold dispatchedPdus
  rw [List.mem_filter]
  exact ⟨List.mem_map.mpr ⟨d, List.mem_reverse.mpr hd, rfl⟩, he⟩

theorem mem_sentEvts {s : St} {e : Nat} (h : e ∈ sentEvts s) : ∃ f ∈ s.sent, ∃ alt, wireOf f = .pdu e alt := by
  unfold sentEvts wireEvts at h
  rw [List.mem_filterMap] at h
  obtain ⟨w, hw, hwe⟩ := h
  rw [List.mem_map] at hw
  obtain ⟨f, hf, hfw⟩ := hw
  refine ⟨f, List.mem_reverse.mp hf, ?_⟩
  subst hfw
  split at hwe
  · rename_i e' alt heq
    split at hwe
    · simp only [Option.some.injEq] at hwe; subst hwe; exact ⟨alt, heq⟩
    · cases hwe
  · cases hwe

/-- **a dispatched PDU event was caused by an action of the other side**: if `rcv` has dispatched
the PDU event `e`, and what `rcv` dispatched is a prefix of what `snd` sent, then `snd` has
completed an action, recorded in its log, one of whose effects is a PDU carrying `e` -/
theorem caused {snd rcv : St} (hpre : dispatchedPdus rcv <+: sentEvts snd) (hl : LogOk snd)
    {d : Dispatch} (hd : d ∈ rcv.log) (he : pduEv d.evt = true) :
    ∃ f alt, wireOf f = .pdu d.evt alt ∧ ∃ d' ∈ snd.log, ∃ a, d'.action = some a ∧ d'.ok = true ∧ mayEmit a f = true := by
  obtain ⟨f, hf, alt, hw⟩ := mem_sentEvts (hpre.subset (mem_dispatchedPdus hd he))
  exact ⟨f, alt, hw, hl.sent f hf⟩

end PairL
end PynetVerif
