import PynetVerif.Lemmas.PairInv2
import PynetVerif.Lemmas.PairAbs
/-!
The abstraction map from the product model to its finite abstraction (`Lemmas/PairAbs.lean`) and the
simulation: every admissible step of the product without injected send failure is matched by zero or
one abstract transition — unless a local user aborts while a confirmation is outstanding.
-/
namespace PynetVerif
open Dul Fsm PairL

namespace Abs

/-! ### collapsing runs of P-DATA -/

theorem collapse_head (e : Nat) (l : List Nat) : (collapse (e :: l)).head? = some e := by
  simp only [collapse]
  split
  · rename_i h; rw [h.2, h.1]
  · rfl

/-- removing the head of the uncollapsed list: the head token goes, or — P-DATA followed by P-DATA —
the collapsed list stays the same -/
theorem collapse_cons (e : Nat) (l : List Nat) :
    collapse (e :: l) = e :: collapse l ∨ (e = 10 ∧ collapse (e :: l) = collapse l) := by
  simp only [collapse]
  split
  · rename_i h; exact Or.inr ⟨h.1, rfl⟩
  · exact Or.inl rfl

theorem push_head (y : Nat) (ys : List Nat) (t : Nat) : (push (y :: ys) t).head? = some y := by
  unfold push; split <;> rfl

/-- appending to the uncollapsed list is `push` on the collapsed one -/
theorem collapse_snoc (l : List Nat) (t : Nat) : collapse (l ++ [t]) = push (collapse l) t := by
  induction l with
  | nil => simp [collapse, push]
  | cons x xs ih =>
    simp only [List.cons_append, collapse, ih]
    cases hc : collapse xs with
    | nil =>
      by_cases hx : x = 10 <;> by_cases ht : t = 10 <;> simp [push, hx, ht]
    | cons y ys =>
      rw [push_head]
      by_cases hxy : x = 10 ∧ y = 10
      · simp [hxy]
      · have h1 : ¬(x = 10 ∧ some y = some 10) := by
          intro h; exact hxy ⟨h.1, by simpa using h.2⟩
        have h2 : ¬(x = 10 ∧ (y :: ys).head? = some 10) := h1
        simp only [h1, h2, ↓reduceIte]
        unfold push
        rw [List.getLast?_cons_cons]
        by_cases h : t = 10 ∧ (y :: ys).getLast? = some 10
        · simp only [h, and_self, ↓reduceIte]
        · simp only [h, ↓reduceIte, List.cons_append]

/-! ### the abstraction map -/

/-- the PDU events a reactor has sent that have not been delivered yet -/
def undeliv (x : St) (seen : Nat) : List Nat := wireEvts ((x.sent.reverse.drop seen).map wireOf)

def alphaSide (x y : St) (seen : Nat) : ASide :=
  { fsm := x.fsm, kill := x.kill, conn := x.connected,
    rel := didOk x .AR_3 || didOk x .AR_4,
    rej := didOk x .AE_4 || didOk x .AE_8 || x.log.any (fun d => d.action == some .AE_6 && d.ok && d.next == 13),
    out := collapse (pending y ++ undeliv x seen) }

def alpha (p : Pair) : APair :=
  { r := alphaSide p.r p.a p.rSeen, a := alphaSide p.a p.r p.aSeen, up := p.up }

theorem outcome_alpha (x y : St) (seen : Nat) : outcome (alphaSide x y seen) = provOutcome x := rfl

theorem alphaSide_congr {x x' y y' : St} {seen seen' : Nat} (hf : x'.fsm = x.fsm) (hk : x'.kill = x.kill)
    (hc : x'.connected = x.connected) (hl : x'.log = x.log)
    (ho : pending y' ++ undeliv x' seen' = pending y ++ undeliv x seen) :
    alphaSide x' y' seen' = alphaSide x y seen := by
  unfold alphaSide didOk
  rw [hf, hk, hc, hl, ho]

theorem pending_peer (x : St) (w : Wire) : pending (env (.peer w) x) = pending x ++ wireEvts [w] := by
  unfold pending
  show _ ++ wireEvts (x.inbox ++ [w]) = _
  rw [wireEvts_append, List.append_assoc]
  rfl

theorem wireEvts_cons (w : Wire) (l : List Wire) : wireEvts (w :: l) = wireEvts [w] ++ wireEvts l := by
  rw [← wireEvts_append]; rfl

/-- a delivery moves one PDU event from "not delivered" to the receiver's inbox: in flight all the same -/
theorem deliver_inflight (snd rcv : St) (seen : Nat) (eof : Bool) :
    pending (Pair.deliver snd rcv seen eof).1 ++ undeliv snd (Pair.deliver snd rcv seen eof).2.1 =
      pending rcv ++ undeliv snd seen := by
  unfold Pair.deliver
  split
  · rename_i f hf
    unfold Pair.nth at hf
    obtain ⟨hlt, hget⟩ := List.getElem?_eq_some_iff.mp hf
    show pending (env (.peer (wireOf f)) rcv) ++ undeliv snd (seen + 1) = _
    rw [pending_peer, List.append_assoc]
    congr 1
    unfold undeliv
    rw [List.drop_eq_getElem_cons hlt, hget, List.map_cons]
    exact (wireEvts_cons _ _).symm
  · split
    · show pending (env (.peer .eof) rcv) ++ undeliv snd seen = _
      rw [pending_peer]
      simp [wireEvts]
    · rfl

/-- new PDUs at the front of `sent` are appended to what is not delivered yet -/
theorem undeliv_sent {x x' : St} {seen : Nat} {new : List Eff} (hs : x'.sent = new ++ x.sent)
    (hle : seen ≤ x.sent.length) : undeliv x' seen = undeliv x seen ++ wireEvts (new.reverse.map wireOf) := by
  unfold undeliv
  rw [hs, List.reverse_append, List.drop_append_of_le_length (by rw [List.length_reverse]; exact hle),
    List.map_append, wireEvts_append]

/-! ### one completed action, abstractly -/

theorem aside_ext {x y : ASide} (h1 : x.fsm = y.fsm) (h2 : x.kill = y.kill) (h3 : x.conn = y.conn)
    (h4 : x.rel = y.rel) (h5 : x.rej = y.rej) (h6 : x.out = y.out) : x = y := by
  cases x; cases y; simp_all

theorem didOk_cons (x x' : St) (d : Dispatch) (hl : x'.log = d :: x.log) (A : Action) :
    didOk x' A = ((d.action == some A && d.ok) || didOk x A) := by
  unfold didOk; rw [hl]; rfl

theorem some_beq_some (a A : Action) : (some a == some A) = (a == A) := by
  cases h : (a == A)
  · have : a ≠ A := by simpa using h
    simp [this]
  · have : a = A := by simpa using h
    simp [this]

/-- the acting side after a completed action is `applyAct` of the acting side before -/
theorem alpha_acted_self {x x' y : St} {e : Nat} {rest : List Nat} {a : Action} {alt b : Bool} {seen : Nat}
    (A : Acted x x' e rest a alt b) (hle : seen ≤ x.sent.length) :
    alphaSide x' y seen = applyAct (alphaSide x y seen) a (usedEffs a (effB a x.requestor false false).1)
      (effB a x.requestor false false).2 (x.connected || x.connectOk) := by
  obtain ⟨i1, i2, i3, i4⟩ := effs_indep a (mem_allActions a) x.requestor (mem_bools _) alt (mem_bools _) b (mem_bools _) A.altAE6
  obtain ⟨r1, r2, _, _, _, _, _⟩ := runOk_table a x.requestor alt b x.connectOk x.connected
  apply aside_ext
  · show x'.fsm = _
    rw [A.fsm, i4]; rfl
  · show x'.kill = _
    rw [A.kill, i4]; rfl
  · show x'.connected = _
    rw [A.conn, r1, i2, i3]; rfl
  · show (didOk x' .AR_3 || didOk x' .AR_4) = _
    rw [didOk_cons x x' _ A.log, didOk_cons x x' _ A.log]
    simp only [some_beq_some, Bool.and_true]
    show _ = ((didOk x .AR_3 || didOk x .AR_4) || a == .AR_3 || a == .AR_4)
    cases (a == Action.AR_3) <;> cases (a == Action.AR_4) <;> cases didOk x .AR_3 <;> cases didOk x .AR_4 <;> rfl
  · show (didOk x' .AE_4 || didOk x' .AE_8 || x'.log.any (fun d => d.action == some .AE_6 && d.ok && d.next == 13)) = _
    rw [didOk_cons x x' _ A.log, didOk_cons x x' _ A.log, A.log]
    simp only [some_beq_some, Bool.and_true, List.any_cons, i4]
    show _ = ((didOk x .AE_4 || didOk x .AE_8 || x.log.any (fun d => d.action == some .AE_6 && d.ok && d.next == 13)) ||
      a == .AE_4 || a == .AE_8 || (a == .AE_6 && (effB a x.requestor false false).2 == 13))
    cases (a == Action.AE_4) <;> cases (a == Action.AE_8) <;> cases (a == Action.AE_6) <;>
      cases ((effB a x.requestor false false).2 == 13) <;> cases didOk x .AE_4 <;> cases didOk x .AE_8 <;>
      cases x.log.any (fun d => d.action == some .AE_6 && d.ok && d.next == 13) <;> rfl
  · show collapse (pending y ++ undeliv x' seen) = _
    rw [undeliv_sent A.sent hle, r2]
    show _ = (match (sendEff (usedEffs a (effB a x.requestor false false).1)).bind tokOf with
      | some t => if x.connected = true then push (collapse (pending y ++ undeliv x seen)) t
                  else collapse (pending y ++ undeliv x seen)
      | none => collapse (pending y ++ undeliv x seen))
    rw [← i1]
    cases hse : sendEff (usedEffs a (effB a x.requestor alt b).1) with
    | none => simp [wireEvts]
    | some f =>
      obtain ⟨t, alt', hw, hpe, htok, _⟩ := wireOf_send f (sendEff_isSend hse)
      simp only [Option.bind_some, htok]
      cases hc : x.connected
      · simp [wireEvts]
      · simp only [↓reduceIte, List.reverse_cons, List.reverse_nil, List.nil_append, List.map_cons, List.map_nil]
        have : wireEvts [wireOf f] = [t] := by rw [hw]; simp [wireEvts, hpe]
        rw [this, ← List.append_assoc, collapse_snoc]

theorem pending_acted {x x' : St} {e : Nat} {rest : List Nat} {a : Action} {alt b : Bool}
    (A : Acted x x' e rest a alt b) (hq : x.eventQ = e :: rest) :
    pending x = (if pduEv e = true then [e] else []) ++ pending x' := by
  obtain ⟨_, _, rq17, _, _, _, _⟩ := runOk_table a x.requestor alt b x.connectOk x.connected
  unfold pending
  rw [A.eventQ, A.inbox, hq, filter_pduEv_append_of_all _ _ (fun z hz => by rw [rq17 z hz]; rfl)]
  cases hpe : pduEv e <;> simp [List.filter, hpe]

/-! ### membership in the abstract successor list -/

theorem mem_disp {x x' : ASide} {req : Bool} {e : Nat} {okc : Bool} (h : dispatch x req e okc = some x') :
    x' ∈ disp x req e := by
  unfold disp
  rw [List.mem_filterMap]
  exact ⟨okc, by cases okc <;> simp, h⟩

theorem mem_sideSuccs {x y : ASide} {req : Bool} {q : ASide × ASide} (hk : x.kill = false)
    (h : q ∈ locals x y req ∨ q ∈ fromPeer x y req ∨ q ∈ onClose x y req ∨ q ∈ idleClose x y) :
    q ∈ sideSuccs x y req := by
  unfold sideSuccs
  rw [hk]
  simp only [Bool.false_eq_true, ↓reduceIte, List.mem_append]
  rcases h with h | h | h | h
  · exact Or.inl (Or.inl (Or.inl h))
  · exact Or.inl (Or.inl (Or.inr h))
  · exact Or.inl (Or.inr h)
  · exact Or.inr h

theorem dispatch_alpha {x y : St} {seen : Nat} {e : Nat} {a : Action}
    (hl : lookup Spec.Ps38.table e x.fsm = some a) (okc : Bool) :
    dispatch (alphaSide x y seen) x.requestor e okc =
      some (applyAct (alphaSide x y seen) a (usedEffs a (effB a x.requestor false false).1)
        (effB a x.requestor false false).2 okc) := by
  unfold dispatch
  show (match lookup Spec.Ps38.table e x.fsm with | none => none | some a => _) = _
  rw [hl]

theorem lookup_15_awaiting {st : Nat} {a : Action} (h : awaiting st = true)
    (hl : lookup Spec.Ps38.table 15 st = some a) : a = .AA_1 := by
  unfold awaiting at h
  simp only [Bool.or_eq_true, beq_iff_eq] at h
  have h5 : lookup Spec.Ps38.table 15 5 = some .AA_1 := by decide
  have h7 : lookup Spec.Ps38.table 15 7 = some .AA_1 := by decide
  have h11 : lookup Spec.Ps38.table 15 11 = some .AA_1 := by decide
  rcases h with (h | h) | h <;> subst h
  · rw [h5] at hl; cases hl; rfl
  · rw [h7] at hl; cases hl; rfl
  · rw [h11] at hl; cases hl; rfl

theorem local_event {e : Nat} (h1 : 1 ≤ e ∧ e ≤ 19) (hp : pduEv e = false) (h17 : e ≠ 17) (h19 : e ≠ 19) :
    e ∈ localEvents := by
  simp only [pduEv, Bool.or_eq_false_iff, beq_eq_false_iff_ne, ne_eq] at hp
  simp only [localEvents, List.mem_cons, List.not_mem_nil, or_false]
  omega

/-! ### the simulation, one side -/

/-- EOF at the head of the inbox: EOF has been delivered and nothing else is in the inbox -/
theorem inbox_eof_head {x : St} {eof : Bool} (hbox : InboxEof x eof) (hh : x.inbox.head? = some .eof) :
    eof = true ∧ x.inbox = [.eof] := by
  obtain ⟨l, hl, hi⟩ := hbox
  cases l with
  | nil =>
    cases eof
    · rw [hi] at hh; cases hh
    · exact ⟨rfl, by rw [hi]; rfl⟩
  | cons w ws =>
    exfalso
    rw [hi] at hh
    simp only [List.cons_append, List.head?_cons, Option.some.injEq] at hh
    exact hl w (List.mem_cons_self ..) hh

/-- the phase-B case: one completed action -/
theorem side_sim_acted (x y : St) (xSeen ySeen : Nat) (yEof : Bool) (hx : SInv x)
    (hle : xSeen ≤ x.sent.length) (hbox : InboxEof x yEof) (heof : EofOk y ySeen yEof)
    (e : Nat) (rest : List Nat) (a : Action) (hq : x.eventQ = e :: rest) (hk : x.kill = false)
    (hl : lookup Spec.Ps38.table e x.fsm = some a) (x' : St)
    (hx' : x' = act { x with eventQ := rest, phaseB := false } a e) :
    (alphaSide x' y xSeen, alphaSide y x' ySeen) ∈ sideSuccs (alphaSide x y xSeen) (alphaSide y x ySeen) x.requestor ∨
    abortedAwaiting x' = true := by
  obtain ⟨alt, b, A⟩ := acted_facts x hx.core hk e rest a hq hl
  rw [← hx'] at A
  have hself := alpha_acted_self (y := y) A hle
  have hdisp := dispatch_alpha (y := y) (seen := xSeen) hl (x.connected || x.connectOk)
  rw [← hself] at hdisp
  have hmem := mem_disp hdisp
  have hpend := pending_acted A hq
  have hkα : (alphaSide x y xSeen).kill = false := hk
  obtain ⟨_, _, _, _, _, hrange⟩ := rowOk2 hl
  -- the peer's side when the event is not a PDU event
  have hpeer_same : pduEv e = false → alphaSide y x' ySeen = alphaSide y x ySeen := by
    intro hpe
    apply alphaSide_congr rfl rfl rfl rfl
    rw [hpend, hpe]; rfl
  cases hpe : pduEv e with
  | true =>
    left
    apply mem_sideSuccs hkα
    right; left
    rw [hpe] at hpend
    have hout : (alphaSide y x ySeen).out = collapse (e :: (pending x' ++ undeliv y ySeen)) := by
      show collapse (pending x ++ undeliv y ySeen) = _
      rw [hpend]; rfl
    have hout' : (alphaSide y x' ySeen).out = collapse (pending x' ++ undeliv y ySeen) := rfl
    have hy' : alphaSide y x' ySeen = { alphaSide y x ySeen with out := collapse (pending x' ++ undeliv y ySeen) } := rfl
    rcases collapse_cons e (pending x' ++ undeliv y ySeen) with hc | ⟨he10, hc⟩
    · unfold fromPeer
      rw [hout, hc]
      simp only [List.mem_flatMap]
      refine ⟨_, hmem, ?_⟩
      rw [hy']
      split <;> simp
    · have hhead := collapse_head e (pending x' ++ undeliv y ySeen)
      rw [hc] at hhead
      cases hcm : collapse (pending x' ++ undeliv y ySeen) with
      | nil => rw [hcm] at hhead; cases hhead
      | cons t rest' =>
        rw [hcm] at hhead
        simp only [List.head?_cons, Option.some.injEq] at hhead
        have hsame : alphaSide y x' ySeen = alphaSide y x ySeen := by
          refine aside_ext (x := alphaSide y x' ySeen) (y := alphaSide y x ySeen) rfl rfl rfl rfl rfl ?_
          rw [hout, hout', hc]
        subst hhead
        unfold fromPeer
        rw [hout, hc, hcm]
        simp only [List.mem_flatMap]
        refine ⟨_, hmem, ?_⟩
        rw [hsame, he10]
        simp
  | false =>
    have hy := hpeer_same hpe
    rw [hy]
    by_cases h17 : e = 17
    · left
      apply mem_sideSuccs hkα
      right; right; left
      subst h17
      have hguard : (!(alphaSide x y xSeen).conn || (alphaSide x y xSeen).fsm == 4 ||
          (closed (alphaSide y x ySeen) && (alphaSide y x ySeen).out.isEmpty)) = true := by
        rcases hx.core.k hk [] rest (by rw [hq]; rfl) with d | d | ⟨d1, d2⟩
        · show (!x.connected || _ || _) = true; rw [d]; rfl
        · show (_ || x.fsm == 4 || _) = true; rw [d]; simp
        · obtain ⟨hy1, hy2⟩ := inbox_eof_head hbox d1
          obtain ⟨c1, _, c3⟩ := heof hy1
          have hout0 : (alphaSide y x ySeen).out = [] := by
            show collapse (pending x ++ undeliv y ySeen) = []
            have hp : pending x = [] := by
              unfold pending
              rw [hq, hy2]
              have : (17 :: rest).filter pduEv = [] := by
                rw [List.filter_eq_nil_iff]
                intro z hz
                rcases List.mem_cons.mp hz with h | h
                · subst h; decide
                · simp [d2 z h]
              rw [this]; rfl
            have hu : undeliv y ySeen = [] := by
              unfold undeliv
              rw [c3, List.drop_eq_nil_of_le (by simp)]; rfl
            rw [hp, hu]; rfl
          have hcl : closed (alphaSide y x ySeen) = true := c1
          rw [hcl, hout0]; simp
      unfold onClose
      rw [hguard]
      simp only [↓reduceIte, List.mem_map]
      exact ⟨_, hmem, rfl⟩
    · have h19 : e ≠ 19 := fun h => hx.core.n19 e (by rw [hq]; simp) h
      have hloc := local_event hrange hpe h17 h19
      by_cases hab : (e == 15 && awaiting x.fsm) = true
      · right
        simp only [Bool.and_eq_true, beq_iff_eq] at hab
        obtain ⟨he, haw⟩ := hab
        subst he
        have ha := lookup_15_awaiting haw hl
        subst ha
        unfold abortedAwaiting
        rw [A.log]
        simp only [List.any_cons, Bool.or_eq_true, Bool.and_eq_true]
        left
        refine ⟨by simp, ?_⟩
        unfold awaiting at haw
        simpa using haw
      · left
        apply mem_sideSuccs hkα
        left
        unfold locals
        simp only [List.mem_flatMap]
        refine ⟨e, hloc, ?_⟩
        have : (e == 15 && awaiting (alphaSide x y xSeen).fsm) = false := by
          show (e == 15 && awaiting x.fsm) = false
          simpa using hab
        rw [this]
        simp only [Bool.false_eq_true, ↓reduceIte, List.mem_map]
        exact ⟨_, hmem, rfl⟩

theorem undeliv_congr {x x' : St} (h : x'.sent = x.sent) (seen : Nat) : undeliv x' seen = undeliv x seen := by
  unfold undeliv; rw [h]

/-- **one side's step is matched by zero or one abstract transition of that side**, unless its user
aborts while a confirmation is outstanding -/
theorem side_sim (x y : St) (st : Step) (xSeen ySeen : Nat) (yEof : Bool) (hx : SInv x)
    (hal : Pair.allowed st = true) (hle : xSeen ≤ x.sent.length) (hbox : InboxEof x yEof)
    (heof : EofOk y ySeen yEof) :
    (alphaSide (Dul.step x st) y xSeen = alphaSide x y xSeen ∧
      alphaSide y (Dul.step x st) ySeen = alphaSide y x ySeen) ∨
    (alphaSide (Dul.step x st) y xSeen, alphaSide y (Dul.step x st) ySeen) ∈
      sideSuccs (alphaSide x y xSeen) (alphaSide y x ySeen) x.requestor ∨
    abortedAwaiting (Dul.step x st) = true := by
  cases st with
  | env e =>
    left
    cases e with
    | peer w => cases hal
    | breakConn => exact ⟨alphaSide_congr rfl rfl rfl rfl rfl, alphaSide_congr rfl rfl rfl rfl rfl⟩
    | artimFire => exact ⟨alphaSide_congr rfl rfl rfl rfl rfl, alphaSide_congr rfl rfl rfl rfl rfl⟩
    | «local» p => exact ⟨alphaSide_congr rfl rfl rfl rfl rfl, alphaSide_congr rfl rfl rfl rfl rfl⟩
    | connectWillFail => exact ⟨alphaSide_congr rfl rfl rfl rfl rfl, alphaSide_congr rfl rfl rfl rfl rfl⟩
  | a =>
    show (alphaSide (iterA x) y xSeen = _ ∧ alphaSide y (iterA x) ySeen = _) ∨ _ ∈ _ ∨ abortedAwaiting (iterA x) = true
    obtain ⟨hlog, hpend⟩ := iterA_pending x
    have hfsm := (iterA_log_fsm x).2
    have hkill := (iterA_closes_kill x).2
    have hsent := iterA_sent x
    have hy : alphaSide y (iterA x) ySeen = alphaSide y x ySeen :=
      alphaSide_congr rfl rfl rfl rfl (by rw [hpend])
    rcases iterA_connected x with hc | ⟨h13, hk, hc⟩
    · left
      exact ⟨alphaSide_congr hfsm hkill hc hlog (by rw [undeliv_congr hsent]), hy⟩
    · cases hconn : x.connected with
      | false =>
        left
        exact ⟨alphaSide_congr hfsm hkill (hc.trans hconn.symm) hlog (by rw [undeliv_congr hsent]), hy⟩
      | true =>
        right; left
        show (alphaSide (iterA x) y xSeen, alphaSide y (iterA x) ySeen) ∈ _
        rw [hy]
        apply mem_sideSuccs (show (alphaSide x y xSeen).kill = false from hk)
        right; right; right
        unfold idleClose
        have hg : ((alphaSide x y xSeen).fsm == 13 && (alphaSide x y xSeen).conn) = true := by
          show (x.fsm == 13 && x.connected) = true
          rw [h13, hconn]; rfl
        rw [hg]
        simp only [↓reduceIte, List.mem_singleton, Prod.mk.injEq, and_true]
        refine aside_ext (x := alphaSide (iterA x) y xSeen) hfsm hkill hc ?_ ?_ ?_
        · show (didOk (iterA x) .AR_3 || didOk (iterA x) .AR_4) = (didOk x .AR_3 || didOk x .AR_4)
          unfold didOk; rw [hlog]
        · show (didOk (iterA x) .AE_4 || didOk (iterA x) .AE_8 || (iterA x).log.any _) =
            (didOk x .AE_4 || didOk x .AE_8 || x.log.any _)
          unfold didOk; rw [hlog]
        · show collapse (pending y ++ undeliv (iterA x) xSeen) = collapse (pending y ++ undeliv x xSeen)
          rw [undeliv_congr hsent]
  | b =>
    show (alphaSide (iterB x) y xSeen = _ ∧ alphaSide y (iterB x) ySeen = _) ∨ _ ∈ _ ∨ abortedAwaiting (iterB x) = true
    have hpost := C05Inv.iterB_inv x hx.inv
    rcases iterB_cases x with hi | ⟨_, hi⟩ | hd | ⟨e, rest, a, hq, hk, hph, hl, hi⟩
    · left; rw [hi]; exact ⟨rfl, rfl⟩
    · left; rw [hi]; exact ⟨alphaSide_congr rfl rfl rfl rfl rfl, alphaSide_congr rfl rfl rfl rfl rfl⟩
    · rw [hpost.1] at hd; cases hd
    · right
      exact side_sim_acted x y xSeen ySeen yEof hx hle hbox heof e rest a hq hk hl (iterB x) hi

end Abs
end PynetVerif
