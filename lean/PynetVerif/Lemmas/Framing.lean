import PynetVerif.Model.Framing
namespace PynetVerif.Framing

theorem noTimeout_pop {ks : List RR} (h : NoTimeout ks) :
    (pop ks).1 ≠ .timeout ∧ NoTimeout (pop ks).2 := by
  cases ks with
  | nil => exact ⟨by simp [pop], fun r hr => by cases hr⟩
  | cons r ks => exact ⟨h r (by simp), fun r' hr' => h r' (List.mem_cons_of_mem _ hr')⟩

/-- The socket receive loop returns exactly the next `need` bytes (or all that is left), whatever
the sizes of the individual reads. -/
theorem recvN_take (fuel : Nat) : ∀ (rest : Bytes) (ks : List RR) (need : Nat) (acc : Bytes),
    need ≤ fuel → NoTimeout ks →
    ∃ ks', NoTimeout ks' ∧
      recvN fuel rest ks need acc = some (acc ++ rest.take need, rest.drop need, ks') := by
  induction fuel with
  | zero =>
    intro rest ks need acc h hnt
    have : need = 0 := by omega
    subst this; exact ⟨ks, hnt, by simp [recvN]⟩
  | succ fuel ih =>
    intro rest ks need acc h hnt
    unfold recvN
    by_cases hz : need = 0
    · subst hz; exact ⟨ks, hnt, by simp⟩
    · simp only [hz, ↓reduceIte]
      obtain ⟨hr, hnt'⟩ := noTimeout_pop hnt
      generalize pop ks = pk at hr hnt'
      obtain ⟨r, ks'⟩ := pk
      cases r with
      | timeout => exact absurd rfl hr
      | got k =>
        simp only [recv1]
        generalize hm : min (min (k + 1) (min 4096 need)) rest.length = m
        by_cases hb : rest.take m = []
        · simp only [hb, ↓reduceIte]
          have hrest : rest = [] := by
            cases rest with
            | nil => rfl
            | cons a t =>
              have hm0 : m = 0 := by
                rcases List.take_eq_nil_iff.mp hb with h | h
                · exact h
                · cases h
              simp at hm; omega
          subst hrest; exact ⟨ks', hnt', by simp⟩
        · simp only [hb, ↓reduceIte]
          have hmle : m ≤ need := by omega
          have hmlen : (rest.take m).length = m := by simp [List.length_take]; omega
          have hfuel : need - (rest.take m).length ≤ fuel := by
            have hmpos : 1 ≤ m := by
              cases m with
              | zero => simp at hb
              | succ n => omega
            rw [hmlen]; omega
          obtain ⟨ks'', hnt'', h'⟩ :=
            ih (rest.drop m) ks' (need - (rest.take m).length) (acc ++ rest.take m) hfuel hnt'
          refine ⟨ks'', hnt'', ?_⟩
          rw [h', hmlen]
          have e1 : rest.take m ++ (rest.drop m).take (need - m) = rest.take need := by
            rw [← List.take_add]; congr 1; omega
          have e2 : (rest.drop m).drop (need - m) = rest.drop need := by
            rw [List.drop_drop]; congr 1; omega
          simp [List.append_assoc, e1, e2]

theorem recv_take (rest : Bytes) (ks : List RR) (n : Nat) (hnt : NoTimeout ks) :
    ∃ ks', NoTimeout ks' ∧ recv rest ks n = some (rest.take n, rest.drop n, ks') := by
  obtain ⟨ks', h1, h2⟩ := recvN_take n rest ks n [] (Nat.le_refl _) hnt
  exact ⟨ks', h1, by simpa [recv] using h2⟩

theorem toNat_ofNat8 (x : Nat) : (UInt8.ofNat x).toNat = x % 256 := by
  simp [UInt8.toNat_ofNat']
theorem be32_mk (n : Nat) (h : n < 4294967296) :
    be32 (UInt8.ofNat (n / 16777216)) (UInt8.ofNat (n / 65536 % 256)) (UInt8.ofNat (n / 256 % 256))
      (UInt8.ofNat (n % 256)) = n := by
  simp only [be32, toNat_ofNat8]
  omega
theorem ofNat_toNat8 (a : UInt8) : UInt8.ofNat a.toNat = a := by
  simp
theorem be32_inv (a b c d : UInt8) :
    let n := be32 a b c d
    UInt8.ofNat (n / 16777216) = a ∧ UInt8.ofNat (n / 65536 % 256) = b ∧
    UInt8.ofNat (n / 256 % 256) = c ∧ UInt8.ofNat (n % 256) = d ∧ n < 4294967296 := by
  have ha := a.toNat_lt; have hb := b.toNat_lt; have hc := c.toNat_lt; have hd := d.toNat_lt
  simp only [be32]
  refine ⟨?_, ?_, ?_, ?_, by omega⟩
  · have : (((a.toNat * 256 + b.toNat) * 256 + c.toNat) * 256 + d.toNat) / 16777216 = a.toNat := by omega
    rw [this]; simp
  · have : (((a.toNat * 256 + b.toNat) * 256 + c.toNat) * 256 + d.toNat) / 65536 % 256 = b.toNat := by omega
    rw [this]; simp
  · have : (((a.toNat * 256 + b.toNat) * 256 + c.toNat) * 256 + d.toNat) / 256 % 256 = c.toNat := by omega
    rw [this]; simp
  · have : (((a.toNat * 256 + b.toNat) * 256 + c.toNat) * 256 + d.toNat) % 256 = d.toNat := by omega
    rw [this]; simp

theorem readPdu_mk (t r : UInt8) (body more : Bytes) (ks : List RR) (ht : validType t = true)
    (hl : body.length < 4294967296) (hnt : NoTimeout ks) :
    ∃ ks', NoTimeout ks' ∧ readPdu (mkPdu t r body ++ more) ks = (.pdu (mkPdu t r body), more, ks') := by
  obtain ⟨ks1, hnt1, h1⟩ := recv_take (mkPdu t r body ++ more) ks 6 hnt
  have hlen := be32_mk body.length hl
  obtain ⟨ks2, hnt2, h2⟩ := recv_take (body ++ more) ks1 body.length hnt1
  refine ⟨ks2, hnt2, ?_⟩
  unfold readPdu
  rw [h1]
  simp only [mkPdu, List.cons_append, List.nil_append, List.take_succ_cons, List.take_zero,
    List.drop_succ_cons, List.drop_zero, ht, ↓reduceIte, hlen]
  rw [h2]
  simp

/-- `_read_pdu_data` on an empty stream or any oracle: closed. -/
theorem readPdu_nil (ks : List RR) : (readPdu [] ks).1 = .closed := by
  unfold readPdu recv
  simp only [recvN]
  cases hp : pop ks with
  | mk r ks' =>
    cases r with
    | timeout => simp [recv1]
    | got k => simp [recv1]

theorem mkPdu_length (t r : UInt8) (body : Bytes) : (mkPdu t r body).length = 6 + body.length := by
  simp [mkPdu]; omega

/-- A connection that closes part-way through a PDU (header or body) is reported closed. -/
theorem readPdu_strict_prefix (t r : UInt8) (body pre suf : Bytes) (ks : List RR)
    (ht : validType t = true) (hl : body.length < 4294967296) (hs : suf ≠ [])
    (hp : pre ++ suf = mkPdu t r body) (hnt : NoTimeout ks) : (readPdu pre ks).1 = .closed := by
  obtain ⟨ks1, hnt1, h1⟩ := recv_take pre ks 6 hnt
  unfold readPdu
  rw [h1]
  by_cases h6 : pre.length < 6
  · -- short header: struct.error
    have : pre.take 6 = pre := List.take_of_length_le (by omega)
    rw [this]
    dsimp only
    split
    · simp at h6
    · rfl
  · -- header complete, body short
    have hsl : 0 < suf.length := List.length_pos_iff.mpr hs
    have htot : pre.length + suf.length = 6 + body.length := by
      rw [← List.length_append, hp, mkPdu_length]
    have hpre : pre = (mkPdu t r body).take pre.length := by
      rw [← hp]; simp
    have hlen := be32_mk body.length hl
    -- pre = 6 header bytes ++ body'
    have hsplit : pre = (mkPdu t r body).take 6 ++ ((mkPdu t r body).drop 6).take (pre.length - 6) := by
      rw [← List.take_add]
      have : 6 + (pre.length - 6) = pre.length := by omega
      rw [this]; exact hpre
    have hdrop : (mkPdu t r body).drop 6 = body := by simp [mkPdu]
    rw [hdrop] at hsplit
    have htake6 : (mkPdu t r body).take 6 = [t, r, UInt8.ofNat (body.length / 16777216),
        UInt8.ofNat (body.length / 65536 % 256), UInt8.ofNat (body.length / 256 % 256),
        UInt8.ofNat (body.length % 256)] := by simp [mkPdu]
    rw [htake6] at hsplit
    generalize hb' : body.take (pre.length - 6) = body' at hsplit
    have hb'len : body'.length < body.length := by
      rw [← hb', List.length_take]; omega
    subst hsplit
    simp only [List.cons_append, List.nil_append, List.take_succ_cons, List.take_zero,
      List.drop_succ_cons, List.drop_zero, ht, ↓reduceIte, hlen]
    obtain ⟨ks2, _, h2⟩ := recv_take body' ks1 body.length hnt1
    rw [h2]
    have : ¬ (min body.length body'.length = body.length) := by omega
    simp [this]


/-- For ANY oracle (timeouts included): what the loop returns is `acc` plus a prefix of the
stream of at most `need` bytes, and the rest of the stream is untouched. -/
theorem recvN_prefix (fuel : Nat) : ∀ (rest : Bytes) (ks : List RR) (need : Nat) (acc out rest' : Bytes)
    (ks' : List RR), recvN fuel rest ks need acc = some (out, rest', ks') →
    ∃ x, out = acc ++ x ∧ rest = x ++ rest' ∧ x.length ≤ need := by
  induction fuel with
  | zero =>
    intro rest ks need acc out rest' ks' h
    simp only [recvN, Option.some.injEq, Prod.mk.injEq] at h
    obtain ⟨h1, h2, _⟩ := h
    exact ⟨[], by simp [h1], by simp [h2], by simp⟩
  | succ fuel ih =>
    intro rest ks need acc out rest' ks' h
    unfold recvN at h
    by_cases hz : need = 0
    · simp only [hz, ↓reduceIte, Option.some.injEq, Prod.mk.injEq] at h
      obtain ⟨h1, h2, _⟩ := h
      exact ⟨[], by simp [h1], by simp [h2], by simp⟩
    · simp only [hz, ↓reduceIte] at h
      generalize pop ks = pk at h
      obtain ⟨r, ks1⟩ := pk
      cases r with
      | timeout => simp [recv1] at h
      | got k =>
        simp only [recv1] at h
        generalize hm : min (min (k + 1) (min 4096 need)) rest.length = m at h
        by_cases hb : rest.take m = []
        · simp only [hb, ↓reduceIte, Option.some.injEq, Prod.mk.injEq] at h
          obtain ⟨h1, h2, _⟩ := h
          refine ⟨[], by simp [h1], ?_, by simp⟩
          have := List.take_append_drop m rest
          rw [hb] at this; simp at this; rw [← h2]; simp
          exact this.symm
        · simp only [hb, ↓reduceIte] at h
          obtain ⟨x, hx1, hx2, hx3⟩ := ih _ _ _ _ _ _ _ h
          refine ⟨rest.take m ++ x, by simp [hx1], ?_, ?_⟩
          · rw [List.append_assoc, ← hx2, List.take_append_drop]
          · have hlt : (rest.take m).length = min m rest.length := List.length_take
            rw [List.length_append]; omega

theorem recv_prefix (rest : Bytes) (ks : List RR) (n : Nat) (out rest' : Bytes) (ks' : List RR)
    (h : recv rest ks n = some (out, rest', ks')) : rest = out ++ rest' ∧ out.length ≤ n := by
  obtain ⟨x, h1, h2, h3⟩ := recvN_prefix n rest ks n [] out rest' ks' h
  simp at h1; subst h1; exact ⟨h2, h3⟩

end PynetVerif.Framing
