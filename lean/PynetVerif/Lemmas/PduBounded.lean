import PynetVerif.Lemmas.PduRoundtrip
/-! What any decoder output satisfies (`bounded`), and `bounded ∧ normal ⇒ encOk ∧ canon = id`. -/
namespace PynetVerif.Pdu
open PynetVerif.Framing (be32)

theorem liftUid_ok {α : Type} {f : Bytes → α} {r : Except Err Bytes} {y : α} (h : liftUid f r = .ok y) :
    ∃ u, r = .ok u ∧ y = f u := by
  cases r with
  | error e => cases h
  | ok u => simp only [liftUid, Except.ok.injEq] at h; exact ⟨u, rfl, h.symm⟩

theorem toNat_lt8 (c : UInt8) : lt8 c.toNat = true := by
  have := c.toNat_lt; simp [lt8]; omega

/-! ## sub-items -/

theorem decSyn_bounded (k : Bool) (x : UInt8 × Bytes) (s : SynItem) (h : decSyn k x = .ok s) :
    synB k s = true := by
  obtain ⟨t, body⟩ := x
  simp only [decSyn] at h
  split at h
  · obtain ⟨u, hu, rfl⟩ := liftUid_ok h
    exact decUid_bounded hu
  · split at h
    · obtain ⟨u, hu, rfl⟩ := liftUid_ok h
      exact decUid_bounded hu
    · cases h

theorem decRelatedN_bounded : ∀ (fuel : Nat) (b : Bytes) (rel : List Bytes),
    decRelatedN fuel b = .ok rel → rel.all relB = true := by
  intro fuel
  induction fuel with
  | zero =>
    intro b rel h
    cases b with
    | nil => simp only [decRelatedN] at h; cases h; rfl
    | cons c cs => simp [decRelatedN] at h
  | succ fuel ih =>
    intro b rel h
    match b, h with
    | [], h => simp only [decRelatedN] at h; cases h; rfl
    | [_], h => simp [decRelatedN] at h
    | hh :: l :: rest, h =>
      simp only [decRelatedN] at h
      generalize hw : (if endsNul (rest.take (be16 hh l)) = true then be16 hh l - 1 else be16 hh l) = want at h
      by_cases ha : isAscii (stripNul (rest.take (be16 hh l))) = true
      · rw [if_pos ha] at h
        generalize huid : pyStrip (stripNul (rest.take (be16 hh l))) = uid at h
        by_cases hlw : uid.length = want
        · rw [if_pos hlw] at h
          by_cases hz : (decide (uid.length = 0) || Nat.blt 64 uid.length) = true
          · rw [if_pos hz] at h; cases h
          · rw [if_neg hz] at h
            cases htl : decRelatedN fuel (rest.drop (be16 hh l)) with
            | error e => rw [htl] at h; cases h
            | ok tl =>
              rw [htl] at h
              simp only [Except.ok.injEq] at h
              subst h
              simp only [Bool.or_eq_true, decide_eq_true_eq, not_or, Nat.blt_eq] at hz
              simp only [List.all_cons, Bool.and_eq_true]
              refine ⟨?_, ih _ _ htl⟩
              simp only [relB, uidB, Bool.and_eq_true, Bool.not_true, Bool.false_or, Nat.ble_eq,
                Bool.not_eq_true', List.isEmpty_eq_false_iff]
              subst huid
              refine ⟨⟨⟨isAscii_pyStrip ha, trimmed_pyStrip _⟩, by omega⟩, ?_⟩
              intro hnil; rw [hnil] at hz; exact hz.1 rfl
        · rw [if_neg hlw] at h; cases h
      · rw [if_neg ha] at h; cases h

theorem decRelated_bounded {b : Bytes} {rel : List Bytes} (h : decRelated b = .ok rel) :
    rel.all relB = true := decRelatedN_bounded _ _ _ h

theorem decImplVer_bounded {raw n : Bytes} (h : decImplVer raw = .ok n) : implVerOk n = true := by
  simp only [decImplVer] at h
  split at h
  · rename_i ha
    split at h
    · cases h
    · rename_i hl
      split at h
      · rename_i hc
        cases h
        simp only [implVerOk, ha, hc, Bool.true_and, Bool.and_true, Nat.ble_eq]
        simpa [Nat.blt_eq] using hl
      · cases h
  · cases h

theorem decUser_bounded (x : UInt8 × Bytes) (s : UserSub) (h : decUser x = .ok s) : userB s = true := by
  obtain ⟨t, body⟩ := x
  simp only [decUser] at h
  split at h
  · -- 0x51
    match body, h with
    | [a, b, c, d], h =>
      simp only [decMaxLen, Except.ok.injEq] at h; subst h
      simp only [userB, lt32_iff]; exact be32_lt a b c d
    | [], h => simp [decMaxLen] at h
    | [_], h => simp [decMaxLen] at h
    | [_, _], h => simp [decMaxLen] at h
    | [_, _, _], h => simp [decMaxLen] at h
    | _ :: _ :: _ :: _ :: _ :: _, h => simp [decMaxLen] at h
  · split at h
    · obtain ⟨u, hu, rfl⟩ := liftUid_ok h
      exact decUid_bounded hu
    · split at h
      · -- 0x53
        match body, h with
        | a :: b :: c :: d :: _, h =>
          simp only [decAsync, Except.ok.injEq] at h; subst h
          simp only [userB, Bool.and_eq_true, lt16_iff]; exact ⟨be16_lt a b, be16_lt c d⟩
        | [], h => simp [decAsync] at h
        | [_], h => simp [decAsync] at h
        | [_, _], h => simp [decAsync] at h
        | [_, _, _], h => simp [decAsync] at h
      · split at h
        · -- 0x54
          match body, h with
          | hh :: l :: rest, h =>
            simp only [decRole] at h
            split at h
            · cases h
            · rename_i u hu
              split at h
              · rename_i scu scp _ _
                split at h
                · rename_i hr
                  cases h
                  simp only [Bool.and_eq_true] at hr
                  simp only [userB, Bool.and_eq_true]
                  exact ⟨⟨decUid_bounded hu, hr.1⟩, hr.2⟩
                · cases h
              · cases h
          | [], h => simp [decRole] at h
          | [_], h => simp [decRole] at h
        · split at h
          · obtain ⟨u, hu, rfl⟩ := liftUid_ok h
            exact decImplVer_bounded hu
          · split at h
            · -- 0x56
              match body, h with
              | hh :: l :: rest, h =>
                simp only [decSopExt] at h
                split at h
                · cases h
                · rename_i u hu
                  cases h
                  exact decUid_bounded hu
              | [], h => simp [decSopExt] at h
              | [_], h => simp [decSopExt] at h
            · split at h
              · -- 0x57
                match body, h with
                | hh :: l :: rest, h =>
                  simp only [decCommon] at h
                  split at h
                  · cases h
                  · rename_i sop hsop
                    split at h
                    · rename_i h2 l2 rest2 _
                      split at h
                      · cases h
                      · rename_i svc hsvc
                        split at h
                        · cases h
                        · rename_i rel hrel
                          cases h
                          simp only [userB, Bool.and_eq_true, beq_self_eq_true, true_and]
                          exact ⟨⟨decUid_bounded hsop, decUid_bounded hsvc⟩, decRelated_bounded hrel⟩
                    · cases h
                | [], h => simp [decCommon] at h
                | [_], h => simp [decCommon] at h
              · split at h
                · -- 0x58
                  match body, h with
                  | ty :: rr :: hh :: l :: rest, h =>
                    simp only [decUserIdRq, Except.ok.injEq] at h; subst h
                    simp only [userB, Bool.and_eq_true]; exact ⟨toNat_lt8 ty, toNat_lt8 rr⟩
                  | [], h => simp [decUserIdRq] at h
                  | [_], h => simp [decUserIdRq] at h
                  | [_, _], h => simp [decUserIdRq] at h
                  | [_, _, _], h => simp [decUserIdRq] at h
                · split at h
                  · cases h; rfl
                  · cases h

/-! ## variable items -/

theorem decVar_bounded (x : UInt8 × Bytes) (v : VarItem) (h : decVar x = .ok v) : varB v = true := by
  obtain ⟨t, body⟩ := x
  simp only [decVar] at h
  split at h
  · obtain ⟨u, hu, rfl⟩ := liftUid_ok h
    exact decUid_bounded hu
  · split at h
    · match body, h with
      | id :: rest, h =>
        simp only [decPcRq] at h
        split at h
        · cases h
        · rename_i subs hs
          cases h
          simp only [varB, Bool.and_eq_true]
          exact ⟨toNat_lt8 id, decSubs_all (decSyn_bounded false) hs⟩
      | [], h => simp [decPcRq] at h
    · split at h
      · match body, h with
        | id :: _ :: res :: rest, h =>
          simp only [decPcAc] at h
          split at h
          · cases h
          · rename_i subs hs
            cases h
            simp only [varB, Bool.and_eq_true]
            have hne : (res != 0) = (res.toNat != 0) := by
              by_cases hz : res = 0
              · subst hz; rfl
              · have h1 : res.toNat ≠ 0 := fun hc => hz (UInt8.toNat_inj.mp (by simpa using hc))
                rw [bne_iff_ne.mpr hz, bne_iff_ne.mpr h1]
            rw [← hne]
            exact ⟨⟨toNat_lt8 id, toNat_lt8 res⟩, decSubs_all (decSyn_bounded _) hs⟩
        | [], h => simp [decPcAc] at h
        | [_], h => simp [decPcAc] at h
        | [_, _], h => simp [decPcAc] at h
      · split at h
        · simp only [decUserInfo] at h
          split at h
          · cases h
          · rename_i subs hs
            cases h
            exact decSubs_all decUser_bounded hs
        · cases h

/-! ## PDVs -/

theorem decPdvsN_bounded : ∀ (fuel : Nat) (b : Bytes) (pdvs : List PDV),
    decPdvsN fuel b = .ok pdvs → pdvs.all (fun p => lt8 p.id) = true := by
  intro fuel
  induction fuel with
  | zero =>
    intro b pdvs h
    cases b with
    | nil => simp only [decPdvsN] at h; cases h; rfl
    | cons c cs => simp [decPdvsN] at h
  | succ fuel ih =>
    intro b pdvs h
    match b, h with
    | [], h => simp only [decPdvsN] at h; cases h; rfl
    | [_], h => simp [decPdvsN] at h
    | [_, _], h => simp [decPdvsN] at h
    | [_, _, _], h => simp [decPdvsN] at h
    | [_, _, _, _], h => simp [decPdvsN] at h
    | a :: b2 :: c :: d :: id :: rest, h =>
      simp only [decPdvsN] at h
      split at h
      · cases h
      · split at h
        · cases h
        · split at h
          · rename_i tl htl
            cases h
            simp only [List.all_cons, Bool.and_eq_true]
            exact ⟨toNat_lt8 id, ih _ _ htl⟩
          · cases h

/-! ## AE titles -/

theorem decAeRq_bounded {raw v : Bytes} (h : decAeRq raw = .ok v) : (aeRqOk v && trimmed v) = true := by
  simp only [decAeRq] at h
  split at h
  · rename_i ha
    split at h
    · cases h
    · rename_i hne
      split at h
      · cases h
      · rename_i hl
        split at h
        · rename_i hc
          cases h
          have ht := trimmed_pyStrip raw
          have hl' : (pyStrip raw).length ≤ 16 := by simpa [Nat.blt_eq] using hl
          simp only [aeRqOk, Bool.and_eq_true, Nat.ble_eq, pyStrip_of_trimmed ht, Bool.not_eq_true']
          exact ⟨⟨⟨⟨isAscii_pyStrip ha, hl'⟩, by simpa using hne⟩, hc⟩, ht⟩
        · cases h
  · cases h

theorem slice_length_le (b : Bytes) (o n : Nat) : (slice b o n).length ≤ n := by
  simp [slice, List.length_take]; omega

theorem decAeAc_bounded (raw : Bytes) (hl : raw.length ≤ 16) : (aeAcOk (decAeAc raw) && trimmed (decAeAc raw)) = true := by
  simp only [decAeAc]
  split
  · rename_i ha
    have := length_pyStrip raw
    simp only [aeAcOk, Bool.and_eq_true, Nat.ble_eq]
    exact ⟨⟨isAscii_pyStrip ha, by omega⟩, trimmed_pyStrip raw⟩
  · rfl

/-! ## PDUs -/

theorem decVarItems_bounded {b : Bytes} {items : List VarItem} (h : decVarItems b = .ok items) :
    items.all varB = true := decSubs_all decVar_bounded h

/-- **whatever the decoder returns is bounded** -/
theorem decode_bounded (b : Bytes) (p : PDU) (h : decode b = .ok p) : bounded p = true := by
  cases b with
  | nil => simp [decode] at h
  | cons t x =>
    by_cases h1 : t = 1
    · subst h1
      rw [decode_type1] at h
      split at h
      · rename_i hh l _
        split at h
        · cases h
        · rename_i called hc
          split at h
          · cases h
          · rename_i calling hg
            split at h
            · cases h
            · rename_i items hi
              cases h
              have := decAeRq_bounded hc
              have := decAeRq_bounded hg
              simp only [bounded, Bool.and_eq_true, lt16_iff] at *
              exact ⟨⟨⟨be16_lt hh l, by assumption⟩, by assumption⟩, decVarItems_bounded hi⟩
      · cases h
    · by_cases h2 : t = 2
      · subst h2
        rw [decode_type2] at h
        split at h
        · rename_i hh l _
          split at h
          · cases h
          · rename_i items hi
            cases h
            have a1 := decAeAc_bounded (slice (2 :: x) 10 16) (slice_length_le _ _ _)
            have a2 := decAeAc_bounded (slice (2 :: x) 26 16) (slice_length_le _ _ _)
            simp only [bounded, Bool.and_eq_true, lt16_iff] at *
            exact ⟨⟨⟨be16_lt hh l, a1⟩, a2⟩, decVarItems_bounded hi⟩
        · cases h
      · by_cases h3 : t = 3
        · subst h3
          simp only [decode] at h
          simp at h
          split at h
          · rename_i r s d _ _
            cases h
            simp only [bounded, Bool.and_eq_true]
            exact ⟨⟨toNat_lt8 r, toNat_lt8 s⟩, toNat_lt8 d⟩
          · cases h
        · by_cases h4 : t = 4
          · subst h4
            rw [decode_type4] at h
            split at h
            · cases h
            · rename_i pdvs hp
              cases h
              exact decPdvsN_bounded _ _ _ hp
          · by_cases h5 : t = 5
            · subst h5; simp [decode] at h; subst h; rfl
            · by_cases h6 : t = 6
              · subst h6; simp [decode] at h; subst h; rfl
              · by_cases h7 : t = 7
                · subst h7
                  simp only [decode] at h
                  simp at h
                  split at h
                  · rename_i s r _ _
                    cases h
                    simp only [bounded, Bool.and_eq_true]
                    exact ⟨toNat_lt8 s, toNat_lt8 r⟩
                  · cases h
                · simp [decode, h1, h2, h3, h4, h5, h6, h7] at h

/-! ## bounded ∧ normal ⇒ encOk, and canon is the identity -/

theorem all_and {α : Type} {p q r : α → Bool} {xs : List α} (hpq : ∀ x, p x = true → q x = true → r x = true)
    (h1 : xs.all p = true) (h2 : xs.all q = true) : xs.all r = true := by
  rw [List.all_eq_true] at h1 h2 ⊢
  exact fun x hx => hpq x (h1 x hx) (h2 x hx)

theorem synOk_of_bn {k : Bool} {s : SynItem} (hb : synB k s = true) (hn : synN s = true) : synOk k s = true := by
  cases s with
  | abstract u =>
    simp only [synB, synN, synOk, uidOk, Bool.and_eq_true] at *
    exact ⟨⟨hb, hn.1⟩, hn.2⟩
  | transfer u =>
    simp only [synB, synN, synOk, uidOk, Bool.and_eq_true] at *
    exact ⟨⟨hb, hn.1.1⟩, hn.1.2⟩

theorem userOk_of_bn {s : UserSub} (hb : userB s = true) (hn : userN s = true) : userOk s = true := by
  cases s with
  | maxLen n => exact hb
  | implUid u => simp only [userB, userN, userOk, uidOk, Bool.and_eq_true] at *; exact ⟨hb, hn⟩
  | asyncOps i p => exact hb
  | role u scu scp =>
    simp only [userB, userN, userOk, uidOk, Bool.and_eq_true] at *
    exact ⟨⟨⟨hb.1.1, hn⟩, hb.1.2⟩, hb.2⟩
  | implVer n => exact hb
  | sopExt u info => simp only [userB, userN, userOk, uidOk, Bool.and_eq_true] at *; exact ⟨hb, hn⟩
  | commonExt v sop svc rel =>
    simp only [userB, userN, userOk, uidOk, Bool.and_eq_true] at *
    refine ⟨⟨⟨⟨hb.1.1.1, hb.1.1.2, hn.1.1.1⟩, hb.1.2, hn.1.1.2⟩, ?_⟩, hn.2⟩
    refine all_and (fun u h1 h2 => ?_) hb.2 hn.1.2
    simp only [relB, relOk, uidOk, Bool.and_eq_true] at *
    exact ⟨⟨h1.1, h2⟩, h1.2⟩
  | userIdRq t r p s =>
    simp only [userB, userN, userOk, Bool.and_eq_true] at *
    exact ⟨⟨hb, hn.1⟩, hn.2⟩
  | userIdAc r => exact hn

theorem varOk_of_bn {v : VarItem} (hb : varB v = true) (hn : varN v = true) : varOk v = true := by
  cases v with
  | appCtx u =>
    simp only [varB, varN, varOk, uidOk, Bool.and_eq_true] at *
    exact ⟨⟨hb, hn.1⟩, hn.2⟩
  | pcRq id subs =>
    simp only [varB, varN, varOk, Bool.and_eq_true] at *
    exact ⟨⟨hb.1, all_and (fun _ => synOk_of_bn) hb.2 hn.1⟩, hn.2⟩
  | pcAc id res subs =>
    simp only [varB, varN, varOk, Bool.and_eq_true] at *
    exact ⟨⟨⟨hb.1, all_and (fun _ => synOk_of_bn) hb.2 hn.1.1⟩, hn.1.2⟩, hn.2⟩
  | userInfo subs =>
    simp only [varB, varN, varOk, Bool.and_eq_true] at *
    refine ⟨all_and (fun s h1 h2 => ?_) hb hn.1, hn.2⟩
    simp only [Bool.and_eq_true] at h2 ⊢
    exact ⟨userOk_of_bn h1 h2.1, h2.2⟩

theorem encOk_of_bounded_normal (p : PDU) (hb : bounded p = true) (hn : normal p = true) :
    encOk p = true ∧ canon p = p := by
  cases p with
  | rq ver called calling items =>
    simp only [bounded, normal, encOk, canon, Bool.and_eq_true] at *
    refine ⟨⟨⟨⟨⟨hb.1.1.1, hb.1.1.2.1⟩, hb.1.2.1⟩, all_and (fun _ => varOk_of_bn) hb.2 hn.1⟩, hn.2⟩, ?_⟩
    rw [pyStrip_of_trimmed hb.1.1.2.2, pyStrip_of_trimmed hb.1.2.2]
  | ac ver called calling items =>
    simp only [bounded, normal, encOk, canon, Bool.and_eq_true] at *
    refine ⟨⟨⟨⟨⟨hb.1.1.1, hb.1.1.2.1⟩, hb.1.2.1⟩, all_and (fun _ => varOk_of_bn) hb.2 hn.1⟩, hn.2⟩, ?_⟩
    rw [pyStrip_of_trimmed hb.1.1.2.2, pyStrip_of_trimmed hb.1.2.2]
  | rj r s d => exact ⟨hb, rfl⟩
  | pdata pdvs =>
    simp only [bounded, normal, encOk, canon, Bool.and_eq_true] at *
    refine ⟨⟨all_and (fun p h1 h2 => ?_) hb hn.1, hn.2⟩, trivial⟩
    simp only [pdvOk, Bool.and_eq_true]; exact ⟨h1, h2⟩
  | relRq => exact ⟨rfl, rfl⟩
  | relRp => exact ⟨rfl, rfl⟩
  | abort s r => exact ⟨hb, rfl⟩

end PynetVerif.Pdu
