import PynetVerif.Lemmas.PairAbs
/-!
Kernel-checked facts about the computed abstract reachable set `Abs.R`: it contains the initial
state, it is closed under every abstract transition, and in every state of it in which both sides
have stopped the two provider outcomes agree.
-/
namespace PynetVerif
namespace Abs

set_option maxRecDepth 100000 in
set_option maxHeartbeats 8000000 in
theorem R_check : (R.contains init && R.all fun p => agreeEnded p && (succs p).all fun q => R.contains q) = true := by
  decide +kernel

theorem R_init : init ∈ R := by
  have := R_check
  simp only [Bool.and_eq_true] at this
  exact List.contains_iff_mem.mp this.1 |> fun h => h

theorem R_closed {p q : APair} (hp : p ∈ R) (hq : q ∈ succs p) : q ∈ R := by
  have := R_check
  simp only [Bool.and_eq_true, List.all_eq_true] at this
  have h := (this.2 p hp).2 q hq
  simpa using h

theorem R_agree {p : APair} (hp : p ∈ R) : agreeEnded p = true := by
  have := R_check
  simp only [Bool.and_eq_true, List.all_eq_true] at this
  exact (this.2 p hp).1

end Abs
end PynetVerif
