import PynetVerif.Props.C05
import PynetVerif.Model.DulAdmissible
/-!
Field-by-field lemmas about the reactor model (`Model/Dul.lean`): what `applyEff`, `popInputs`,
`act`, `readTransport`, `closeSock` and `iterA` change, and the finite facts about the PS3.8 table
(`Spec.Ps38.table`, `Spec.Ps38.effects`) that the invariant proof of `Props/C05Inv.lean` needs.
Nothing here changes the model.
-/
namespace PynetVerif.Dul
open PynetVerif.Fsm

/-! ### vocabulary -/

/-- events the transport side of the reactor queues: PDUs, invalid PDU (19), connection closed (17) -/
def tev (e : Nat) : Bool := pduEv e || e == 19 || e == 17
/-- number of PDU events in an event queue -/
def pduCount (q : List Nat) : Nat := q.countP pduEv

/-- ARTIM runs only in Sta2/Sta13 and is never "stopped after expiry" -/
def artimOk (fsm : Nat) : Artim → Bool
  | .off | .stoppedOk => true
  | .running | .runningExpired => fsm == 2 || fsm == 13
  | .stoppedExpired => false

def allArtim : List Artim := [.off, .running, .runningExpired, .stoppedOk, .stoppedExpired]
theorem mem_allArtim (ar : Artim) : ar ∈ allArtim := by cases ar <;> simp [allArtim]

def allPrims : List Prim :=
  [.assocRq, .connectOk, .connectFail, .accept, .reject, .pdata, .releaseRq, .releaseRp, .abort false, .abort true]
theorem mem_allPrims (p : Prim) : p ∈ allPrims := by
  cases p <;> simp [allPrims]

def Prim.isAbort : Prim → Bool | .abort _ => true | _ => false

def artimStep (ar : Artim) : Eff → Artim
  | .artimStart | .artimRestart => ar.start
  | .artimStop => ar.stop
  | _ => ar
def artimAfter (l : List Eff) (ar : Artim) : Artim := l.foldl artimStep ar

/-- `Spec.Ps38.effects` with the event abstracted to the one bit it is inspected for (`e = 15`) -/
def effB (a : Action) (req alt b : Bool) : List Eff × Nat :=
  Spec.Ps38.effects a (if b then 15 else 0) req alt
/-- the effects `act` really applies (AA-4, AA-5, AR-5 do not `close()` the socket object) -/
def usedEffs (a : Action) (l : List Eff) : List Eff :=
  if a = .AA_4 || a = .AA_5 || a = .AR_5 then l.filter (· != .close) else l

theorem tev_of_transport {e : Nat} (h : tev e = true) : transportPdu e = true ∨ e = 17 := by
  simp only [tev, pduEv, transportPdu, Bool.or_eq_true, beq_iff_eq] at *
  omega

theorem pduEv_tev {e : Nat} (h : pduEv e = true) : tev e = true := by simp [tev, h]

/-! ### the table -/

theorem lookup_mem {t : List (Nat × Nat × Action)} {e st : Nat} {a : Action}
    (h : lookup t e st = some a) : (e, st, a) ∈ t := by
  unfold lookup at h
  cases hf : t.find? (fun r => r.1 == e && r.2.1 == st) with
  | none => rw [hf] at h; cases h
  | some r =>
    rw [hf] at h
    simp only [Option.map_some, Option.some.injEq] at h
    have hm := List.mem_of_find?_eq_some hf
    have hp := List.find?_some hf
    simp only [Bool.and_eq_true, beq_iff_eq] at hp
    obtain ⟨r1, r2, r3⟩ := r
    simp only at hp h
    obtain ⟨h1, h2⟩ := hp
    subst h1 h2 h
    exact hm

/-- `effectsOf` is `Spec.Ps38.effects` at some (alt, e = 15?) -/
theorem effectsOf_eq (s : St) (a : Action) (e : Nat) :
    ∃ alt b, effectsOf s a e = effB a s.requestor alt b := by
  unfold effectsOf
  by_cases ha : a = .AA_1
  · subst ha
    simp only [↓reduceIte]
    split
    · exact ⟨true, true, rfl⟩
    · exact ⟨false, false, rfl⟩
  · simp only [ha, ↓reduceIte]
    refine ⟨altOf s a e, false, ?_⟩
    cases a <;> first | rfl | exact absurd rfl ha

/-- everything the invariant proof needs to know about one table row (event, state, action) -/
def RowOk (e st : Nat) (a : Action) : Prop :=
  (1 ≤ st ∧ st ≤ 13) ∧
  (popsPdu a = true → pduEv e = true) ∧
  ((tev e = true ∨ e = 5 ∨ e = 18) → popsPrim a = false) ∧
  (a = .AE_1 → e = 1 ∧ st = 1) ∧
  (∀ p ∈ allPrims, e = p.event → (a = .AA_1 → p.isAbort = true)) ∧
  ∀ req alt b : Bool,
    (1 ≤ (effB a req alt b).2 ∧ (effB a req alt b).2 ≤ 13) ∧
    (a ≠ .AE_1 → (usedEffs a (effB a req alt b).1).contains .connect = false ∧ (effB a req alt b).2 ≠ 4) ∧
    (e = 18 → (effB a req alt b).2 = 1) ∧
    (∀ ar ∈ allArtim, artimOk st ar = true → ar.expired = false → (effB a req alt b).2 = 1 ∨
      (artimOk (effB a req alt b).2 (artimAfter (usedEffs a (effB a req alt b).1) ar) = true ∧
       (artimAfter (usedEffs a (effB a req alt b).1) ar).expired = false)) ∧
    (∀ p ∈ allPrims, e = p.event → ((effB a req alt b).2 = 1 ∨ popsPrim a = true ∨ a = .AA_1))

instance (e st : Nat) (a : Action) : Decidable (RowOk e st a) := by unfold RowOk; infer_instance

theorem rowOk_all : ∀ row ∈ Spec.Ps38.table, RowOk row.1 row.2.1 row.2.2 := by decide +kernel

theorem rowOk {e st : Nat} {a : Action} (h : lookup Spec.Ps38.table e st = some a) : RowOk e st a :=
  rowOk_all (e, st, a) (lookup_mem h)

/-- no primitive the association code issues has a defined event in Sta2 or Sta13 -/
theorem userPrim_undefined_2_13 : ∀ p ∈ allPrims, p ≠ .connectOk → p ≠ .connectFail →
    lookup Spec.Ps38.table p.event 2 = none ∧ lookup Spec.Ps38.table p.event 13 = none := by decide +kernel


/-! ### what the effects change -/

/-- fields an effect never touches, and the only thing it does to the event queue: append Evt17 -/
structure EffFrame (s t : St) : Prop where
  fsm : t.fsm = s.fsm
  kill : t.kill = s.kill
  dead : t.dead = s.dead
  phaseB : t.phaseB = s.phaseB
  recvPdu : t.recvPdu = s.recvPdu
  requestor : t.requestor = s.requestor
  inbox : t.inbox = s.inbox
  evq : ∃ ex, t.eventQ = s.eventQ ++ ex ∧ ∀ x ∈ ex, x = 17

theorem EffFrame.refl (s : St) : EffFrame s s :=
  ⟨rfl, rfl, rfl, rfl, rfl, rfl, rfl, [], by simp, by simp⟩

theorem EffFrame.trans {s t u : St} (h1 : EffFrame s t) (h2 : EffFrame t u) : EffFrame s u := by
  obtain ⟨x1, hx1, hx1'⟩ := h1.evq
  obtain ⟨x2, hx2, hx2'⟩ := h2.evq
  refine ⟨h2.fsm.trans h1.fsm, h2.kill.trans h1.kill, h2.dead.trans h1.dead, h2.phaseB.trans h1.phaseB,
    h2.recvPdu.trans h1.recvPdu, h2.requestor.trans h1.requestor, h2.inbox.trans h1.inbox, x1 ++ x2, ?_, ?_⟩
  · rw [hx2, hx1, List.append_assoc]
  · intro x hx
    rcases List.mem_append.mp hx with h | h
    · exact hx1' x h
    · exact hx2' x h

theorem applyEff_frame (s : St) (f : Eff) : EffFrame s (applyEff s f) := by
  unfold applyEff closeSock
  repeat' split
  all_goals
    refine ⟨rfl, rfl, rfl, rfl, rfl, rfl, rfl, ?_⟩
    first
      | exact ⟨[], (List.append_nil _).symm, fun _ h => nomatch h⟩
      | exact ⟨[17], rfl, fun x h => by simpa using h⟩

theorem foldl_applyEff_frame (effs : List Eff) : ∀ s : St, EffFrame s (effs.foldl applyEff s) := by
  induction effs with
  | nil => intro s; exact EffFrame.refl s
  | cons f fs ih => intro s; exact (applyEff_frame s f).trans (ih _)

theorem applyEff_artim (s : St) (f : Eff) : (applyEff s f).artim = artimStep s.artim f := by
  cases f <;> simp [applyEff, isSend, isInd, artimStep, closeSock] <;> split <;> rfl

theorem foldl_applyEff_artim (effs : List Eff) : ∀ s : St,
    (effs.foldl applyEff s).artim = artimAfter effs s.artim := by
  induction effs with
  | nil => intro s; rfl
  | cons f fs ih => intro s; simp only [List.foldl_cons, artimAfter]; rw [ih, applyEff_artim]; rfl

theorem applyEff_provQ (s : St) (f : Eff) (h : f ≠ .connect) : (applyEff s f).provQ = s.provQ := by
  cases f <;> first | exact absurd rfl h | (simp [applyEff, isSend, isInd, closeSock] <;> split <;> rfl)

theorem foldl_applyEff_provQ (effs : List Eff) : ∀ s : St, effs.contains .connect = false →
    (effs.foldl applyEff s).provQ = s.provQ := by
  induction effs with
  | nil => intro s _; rfl
  | cons f fs ih =>
    intro s h
    simp only [List.contains_cons, Bool.or_eq_false_iff, beq_eq_false_iff_ne, ne_eq] at h
    simp only [List.foldl_cons]
    rw [ih _ h.2, applyEff_provQ s f (fun hc => h.1 hc.symm)]

/-- the T_CONNECT request of AE-1 queues its own result -/
theorem applyEff_connect (s : St) :
    (applyEff s .connect).provQ = s.provQ ++ [.connectOk] ∨ (applyEff s .connect).provQ = s.provQ ++ [.connectFail] := by
  simp only [applyEff, isSend, isInd]
  simp only [Bool.false_eq_true, ↓reduceIte]
  split
  · exact Or.inl rfl
  · exact Or.inr rfl


theorem applyEff_connect_eventQ (s : St) : (applyEff s .connect).eventQ = s.eventQ := by
  simp only [applyEff, isSend, isInd]
  simp only [Bool.false_eq_true, ↓reduceIte]
  split <;> rfl

/-! ### the queue pops -/

/-- `popInputs` only touches the provider queue and the received-PDU queue -/
structure PopFrame (s t : St) : Prop where
  fsm : t.fsm = s.fsm
  kill : t.kill = s.kill
  dead : t.dead = s.dead
  phaseB : t.phaseB = s.phaseB
  requestor : t.requestor = s.requestor
  inbox : t.inbox = s.inbox
  eventQ : t.eventQ = s.eventQ
  artim : t.artim = s.artim

theorem popInputs_frame (s : St) (a : Action) : PopFrame s (popInputs s a) := by
  have h1 : ∀ t : St, PopFrame t (popPrimQ t a) := by
    intro t; unfold popPrimQ; split <;> exact ⟨rfl, rfl, rfl, rfl, rfl, rfl, rfl, rfl⟩
  have h2 : ∀ t : St, PopFrame t (popAbortQ t a) := by
    intro t; unfold popAbortQ; split
    · split <;> exact ⟨rfl, rfl, rfl, rfl, rfl, rfl, rfl, rfl⟩
    · exact ⟨rfl, rfl, rfl, rfl, rfl, rfl, rfl, rfl⟩
  have h3 : ∀ t : St, PopFrame t (popPduQ t a) := by
    intro t; unfold popPduQ; split <;> exact ⟨rfl, rfl, rfl, rfl, rfl, rfl, rfl, rfl⟩
  unfold popInputs
  have a1 := h1 s
  have a2 := h2 (popPrimQ s a)
  have a3 := h3 (popAbortQ (popPrimQ s a) a)
  exact ⟨a3.fsm.trans (a2.fsm.trans a1.fsm), a3.kill.trans (a2.kill.trans a1.kill),
    a3.dead.trans (a2.dead.trans a1.dead), a3.phaseB.trans (a2.phaseB.trans a1.phaseB),
    a3.requestor.trans (a2.requestor.trans a1.requestor), a3.inbox.trans (a2.inbox.trans a1.inbox),
    a3.eventQ.trans (a2.eventQ.trans a1.eventQ), a3.artim.trans (a2.artim.trans a1.artim)⟩

theorem popInputs_recvPdu (s : St) (a : Action) :
    (popInputs s a).recvPdu = if popsPdu a then s.recvPdu.tail else s.recvPdu := by
  have h1 : ∀ t : St, (popPrimQ t a).recvPdu = t.recvPdu := by intro t; unfold popPrimQ; split <;> rfl
  have h2 : ∀ t : St, (popAbortQ t a).recvPdu = t.recvPdu := by
    intro t; unfold popAbortQ; split
    · split <;> rfl
    · rfl
  unfold popInputs popPduQ
  split
  · show (popAbortQ (popPrimQ s a) a).recvPdu.tail = _; rw [h2, h1]
  · rw [h2, h1]

theorem popInputs_provQ (s : St) (a : Action) :
    (popInputs s a).provQ = (popAbortQ (popPrimQ s a) a).provQ := by
  unfold popInputs popPduQ; split <;> rfl

theorem popInputs_provQ_nil (s : St) (a : Action) (h : s.provQ = []) : (popInputs s a).provQ = [] := by
  rw [popInputs_provQ]
  have h1 : (popPrimQ s a).provQ = [] := by unfold popPrimQ; split <;> simp [h]
  unfold popAbortQ
  split
  · split
    · rename_i heq; rw [h1] at heq; cases heq
    · exact h1
  · exact h1

theorem popInputs_provQ_single (s : St) (a : Action) (p : Prim) (h : s.provQ = [p])
    (hp : popsPrim a = true ∨ (a = .AA_1 ∧ p.isAbort = true)) : (popInputs s a).provQ = [] := by
  rw [popInputs_provQ]
  rcases hp with hp | ⟨ha, hab⟩
  · have h1 : (popPrimQ s a).provQ = [] := by unfold popPrimQ; simp [hp, h]
    unfold popAbortQ
    split
    · split
      · rename_i heq; rw [h1] at heq; cases heq
      · exact h1
    · exact h1
  · subst ha
    have h1 : (popPrimQ s .AA_1).provQ = [p] := by unfold popPrimQ; simp [popsPrim, h]
    unfold popAbortQ
    simp only [↓reduceIte]
    cases p <;> simp [Prim.isAbort] at hab
    rw [h1]

/-! ### the normal path of an action -/

/-- the tail of `act`: the Evt19 of an undecodable P-DATA payload, then the state change -/
def finish (s2 : St) (c : Bool) (n : Nat) (d : Dispatch) : St :=
  let s3 := if c then { s2 with eventQ := s2.eventQ ++ [19] } else s2
  { s3 with fsm := n, kill := s3.kill || n == 1, closes := s3.closes + (if (n == 1) = true then 1 else 0),
            log := d :: s3.log }

theorem act_unfold (s : St) (a : Action) (e : Nat) : act s a e =
    finish ((usedEffs a (effectsOf s a e).1).foldl applyEff (popInputs s a))
      ((a = .DT_2 || a = .AR_6) && altOf s a e) (effectsOf s a e).2
      ⟨e, s.fsm, some a, (effectsOf s a e).2, true⟩ := rfl

theorem finish_fields (s2 : St) (c : Bool) (n : Nat) (d : Dispatch) :
    (finish s2 c n d).fsm = n ∧ (finish s2 c n d).kill = (s2.kill || n == 1) ∧
    (finish s2 c n d).dead = s2.dead ∧ (finish s2 c n d).phaseB = s2.phaseB ∧
    (finish s2 c n d).inbox = s2.inbox ∧ (finish s2 c n d).artim = s2.artim ∧
    (finish s2 c n d).recvPdu = s2.recvPdu ∧ (finish s2 c n d).provQ = s2.provQ ∧
    (finish s2 c n d).eventQ = s2.eventQ ++ (if c then [19] else []) := by
  cases c <;> simp [finish]

/-- what `act` does, field by field, for some value of the input's `alt` bit -/
structure ActSpec (s : St) (a : Action) (t : St) (alt b : Bool) : Prop where
  fsm : t.fsm = (effB a s.requestor alt b).2
  kill : t.kill = (s.kill || (effB a s.requestor alt b).2 == 1)
  dead : t.dead = s.dead
  phaseB : t.phaseB = s.phaseB
  inbox : t.inbox = s.inbox
  artim : t.artim = artimAfter (usedEffs a (effB a s.requestor alt b).1) s.artim
  recvPdu : t.recvPdu = if popsPdu a then s.recvPdu.tail else s.recvPdu
  evq : ∃ ex, t.eventQ = s.eventQ ++ ex ∧ ∀ x ∈ ex, x = 17 ∨ x = 19
  provQ : (usedEffs a (effB a s.requestor alt b).1).contains .connect = false → t.provQ = (popInputs s a).provQ
  provQ1 : a = .AE_1 → t.provQ = (popInputs s a).provQ ++ [.connectOk] ∨ t.provQ = (popInputs s a).provQ ++ [.connectFail]
  evq1 : a = .AE_1 → t.eventQ = s.eventQ

theorem act_spec (s : St) (a : Action) (e : Nat) : ∃ alt b, ActSpec s a (act s a e) alt b := by
  obtain ⟨alt, b, hr⟩ := effectsOf_eq s a e
  refine ⟨alt, b, ?_⟩
  rw [act_unfold, hr]
  have hF := foldl_applyEff_frame (usedEffs a (effB a s.requestor alt b).1) (popInputs s a)
  have hA := foldl_applyEff_artim (usedEffs a (effB a s.requestor alt b).1) (popInputs s a)
  have hP := popInputs_frame s a
  obtain ⟨ex, hex, hex'⟩ := hF.evq
  obtain ⟨f1, f2, f3, f4, f5, f6, f7, f8, f9⟩ := finish_fields
    ((usedEffs a (effB a s.requestor alt b).1).foldl applyEff (popInputs s a))
    ((a = .DT_2 || a = .AR_6) && altOf s a e) (effB a s.requestor alt b).2
    ⟨e, s.fsm, some a, (effB a s.requestor alt b).2, true⟩
  refine ⟨f1, ?_, ?_, ?_, ?_, ?_, ?_, ?_, ?_, ?_, ?_⟩
  · rw [f2, hF.kill, hP.kill]
  · rw [f3, hF.dead, hP.dead]
  · rw [f4, hF.phaseB, hP.phaseB]
  · rw [f5, hF.inbox, hP.inbox]
  · rw [f6, hA, hP.artim]
  · rw [f7, hF.recvPdu, popInputs_recvPdu]
  · refine ⟨ex ++ (if ((a = .DT_2 || a = .AR_6) && altOf s a e) = true then [19] else []), ?_, ?_⟩
    · rw [f9, hex, hP.eventQ, List.append_assoc]
    · intro x hx
      rcases List.mem_append.mp hx with h | h
      · exact Or.inl (hex' x h)
      · split at h
        · right; simpa using h
        · cases h
  · intro hc
    rw [f8, foldl_applyEff_provQ _ _ hc]
  · intro ha
    subst ha
    rw [f8]
    exact applyEff_connect (popInputs s .AE_1)
  · intro ha
    subst ha
    rw [f9]
    show (applyEff (popInputs s .AE_1) .connect).eventQ ++ [] = s.eventQ
    rw [List.append_nil, applyEff_connect_eventQ, hP.eventQ]


/-! ### phase A -/

def InboxOk (s : St) : Prop := ∀ w ∈ s.inbox, wireOk w = true

/-- what reading the transport / closing the socket may do -/
structure SrcFrame (s t : St) : Prop where
  fsm : t.fsm = s.fsm
  provQ : t.provQ = s.provQ
  artim : t.artim = s.artim
  kill : t.kill = s.kill
  dead : t.dead = s.dead
  inbox : ∀ w ∈ t.inbox, w ∈ s.inbox
  conn : s.connected = false → t.connected = false
  ev : ∃ ex, t.eventQ = s.eventQ ++ ex ∧ (∀ x ∈ ex, tev x = true) ∧
    t.recvPdu.length = s.recvPdu.length + pduCount ex ∧ (s.connected = false → ex = [])

theorem SrcFrame.refl (s : St) : SrcFrame s s := by
  refine ⟨rfl, rfl, rfl, rfl, rfl, fun _ h => h, fun h => h, [], (List.append_nil _).symm, ?_, rfl, fun _ => rfl⟩
  intro x hx; cases hx

theorem readTransport_src (s : St) (hb : InboxOk s) (hc : s.connected = true) : SrcFrame s (readTransport s) := by
  unfold readTransport
  split
  · exact SrcFrame.refl s
  · rename_i e alt rest heq
    have hw : pduEv e = true := hb (.pdu e alt) (by rw [heq]; simp)
    refine ⟨rfl, rfl, rfl, rfl, rfl, ?_, ?_, [e], rfl, ?_, ?_, ?_⟩
    · intro w h; rw [heq]; exact List.mem_cons_of_mem _ h
    · intro h; rw [hc] at h; cases h
    · intro x hx; simp only [List.mem_singleton] at hx; subst hx; exact pduEv_tev hw
    · simp [pduCount, hw]
    · intro h; rw [hc] at h; cases h
  · rename_i rest heq
    refine ⟨rfl, rfl, rfl, rfl, rfl, ?_, ?_, [19], rfl, ?_, ?_, ?_⟩
    · intro w h; rw [heq]; exact List.mem_cons_of_mem _ h
    · intro h; rw [hc] at h; cases h
    · intro x hx; simp only [List.mem_singleton] at hx; subst hx; rfl
    · simp [pduCount, pduEv]
    · intro h; rw [hc] at h; cases h
  · refine ⟨rfl, rfl, rfl, rfl, rfl, fun _ h => h, ?_, [17], rfl, ?_, ?_, ?_⟩
    · intro h; rw [hc] at h; cases h
    · intro x hx; simp only [List.mem_singleton] at hx; subst hx; rfl
    · simp [pduCount, pduEv]
    · intro h; rw [hc] at h; cases h

theorem closeSock_src (s : St) : SrcFrame s (closeSock s) := by
  unfold closeSock
  split
  · rename_i hc
    refine ⟨rfl, rfl, rfl, rfl, rfl, fun _ h => h, fun _ => rfl, [17], rfl, ?_, ?_, ?_⟩
    · intro x hx; simp only [List.mem_singleton] at hx; subst hx; rfl
    · simp [pduCount, pduEv]
    · intro h; rw [hc] at h; cases h
  · exact SrcFrame.refl s

/-- the event source of phase A when the provider queue is empty -/
def readOrClose (s : St) : St :=
  if s.fsm = 13 then
    (if s.connected && !s.inbox.isEmpty then readTransport s else closeSock s)
  else if s.connected && !s.inbox.isEmpty then readTransport s else s

theorem readOrClose_src (s : St) (hb : InboxOk s) : SrcFrame s (readOrClose s) := by
  unfold readOrClose
  split
  · split
    · rename_i h; simp only [Bool.and_eq_true] at h; exact readTransport_src s hb h.1
    · exact closeSock_src s
  · split
    · rename_i h; simp only [Bool.and_eq_true] at h; exact readTransport_src s hb h.1
    · exact SrcFrame.refl s

def iterA1 (s : St) : St := if s.artim.expired then { s with eventQ := s.eventQ ++ [18] } else s
def iterA2 (s : St) : St :=
  match s.provQ with
  | p :: _ => { s with eventQ := s.eventQ ++ [p.event] }
  | [] => readOrClose s

theorem iterA_unfold (s : St) : iterA s =
    if !s.live || s.phaseB then s
    else { iterA2 (iterA1 s) with phaseB := !(iterA2 (iterA1 s)).eventQ.isEmpty } := rfl


end PynetVerif.Dul
