import PynetVerif.Lemmas.PduItems
/-! PDU-level round trip: `encOk p → decode (encode p) = ok (canon p)`; `wf p → encOk p`. -/
namespace PynetVerif.Pdu
open PynetVerif.Framing (be32)

theorem ljust_length {n : Nat} {b : Bytes} (h : b.length ≤ n) : (ljust n b).length = n := by
  simp [ljust]; omega

theorem isAscii_ljust {n : Nat} {b : Bytes} (h : isAscii b = true) : isAscii (ljust n b) = true := by
  simp [ljust, isAscii_append, h, isAscii_replicate_space]

/-- the fixed part of an A-ASSOCIATE-RQ/AC: what the decoder's slices see -/
theorem encAssoc_drop10 (t : UInt8) (ver : Nat) (c g : Bytes) (items : List VarItem) :
    (encAssoc t ver c g items).drop 10 =
      ljust 16 c ++ (ljust 16 g ++ (List.replicate 32 0 ++ items.flatMap encVar)) := rfl

theorem encAssoc_slice6 (t : UInt8) (ver : Nat) (c g : Bytes) (items : List VarItem) :
    slice (encAssoc t ver c g items) 6 2 = [u8 (ver / 256), u8 (ver % 256)] := rfl

theorem encAssoc_slices (t : UInt8) (ver : Nat) (c g : Bytes) (items : List VarItem)
    (hc : c.length ≤ 16) (hg : g.length ≤ 16) :
    slice (encAssoc t ver c g items) 10 16 = ljust 16 c ∧
    slice (encAssoc t ver c g items) 26 16 = ljust 16 g ∧
    (encAssoc t ver c g items).drop 74 = items.flatMap encVar := by
  have h26 : (encAssoc t ver c g items).drop 26 = ((encAssoc t ver c g items).drop 10).drop 16 := by
    rw [List.drop_drop]
  have h74 : (encAssoc t ver c g items).drop 74 = ((((encAssoc t ver c g items).drop 10).drop 16).drop 16).drop 32 := by
    simp only [List.drop_drop]
  refine ⟨?_, ?_, ?_⟩
  · simp only [slice, encAssoc_drop10, take_app' (ljust_length hc)]
  · simp only [slice, h26, encAssoc_drop10, drop_app' (ljust_length hc), take_app' (ljust_length hg)]
  · rw [h74, encAssoc_drop10, drop_app' (ljust_length hc), drop_app' (ljust_length hg),
      drop_app' (by simp : (List.replicate 32 (0 : UInt8)).length = 32)]

theorem decAeRq_ljust {a : Bytes} (h : aeRqOk a = true) : decAeRq (ljust 16 a) = .ok (pyStrip a) := by
  simp only [aeRqOk, Bool.and_eq_true, Nat.ble_eq, Bool.not_eq_true', List.isEmpty_eq_false_iff] at h
  obtain ⟨⟨⟨ha, hl⟩, hne⟩, hc⟩ := h
  have hlen : ¬ (16 < (pyStrip a).length) := by have := length_pyStrip a; omega
  have hblt : Nat.blt 16 (pyStrip a).length = false := by rw [Bool.eq_false_iff, ne_eq, Nat.blt_eq]; exact hlen
  have hemp : (pyStrip a).isEmpty = false := by simp [hne]
  simp only [decAeRq, isAscii_ljust ha, ↓reduceIte, pyStrip_ljust, hemp, Bool.false_eq_true, hblt, hc]

theorem decAeAc_ljust {a : Bytes} (h : aeAcOk a = true) : decAeAc (ljust 16 a) = pyStrip a := by
  simp only [aeAcOk, Bool.and_eq_true] at h
  simp only [decAeAc, isAscii_ljust h.1, ↓reduceIte, pyStrip_ljust]

theorem decode_type1 (x : Bytes) : decode (1 :: x) =
    (match slice (1 :: x) 6 2 with
      | [h, l] =>
        match decAeRq (slice (1 :: x) 10 16) with
        | .error e => .error e
        | .ok called =>
          match decAeRq (slice (1 :: x) 26 16) with
          | .error e => .error e
          | .ok calling =>
            match decVarItems ((1 :: x).drop 74) with
            | .error e => .error e
            | .ok items => .ok (.rq (be16 h l) called calling items)
      | _ => .error .struct) := by
  simp only [decode, ↓reduceIte]
  rfl

theorem decode_type2 (x : Bytes) : decode (2 :: x) =
    (match slice (2 :: x) 6 2 with
      | [h, l] =>
        match decVarItems ((2 :: x).drop 74) with
        | .error e => .error e
        | .ok items => .ok (.ac (be16 h l) (decAeAc (slice (2 :: x) 10 16)) (decAeAc (slice (2 :: x) 26 16)) items)
      | _ => .error .struct) := by
  simp [decode]
  rfl

theorem decode_type4 (x : Bytes) : decode (4 :: x) =
    (match decPdvs ((4 :: x).drop 6) with
      | .error e => .error e
      | .ok pdvs => .ok (.pdata pdvs)) := by
  simp [decode]
  rfl

/-- **decode ∘ encode** on every value whose fields are decodable and whose lengths fit -/
theorem decode_encode (p : PDU) (h : encOk p = true) : decode (encode p) = .ok (canon p) := by
  cases p with
  | rq ver called calling items =>
    simp only [encOk, Bool.and_eq_true, lt16_iff] at h
    obtain ⟨⟨⟨⟨hv, hc⟩, hg⟩, hi⟩, _⟩ := h
    have hcl : called.length ≤ 16 := by
      simp only [aeRqOk, Bool.and_eq_true, Nat.ble_eq] at hc; exact hc.1.1.2
    have hgl : calling.length ≤ 16 := by
      simp only [aeRqOk, Bool.and_eq_true, Nat.ble_eq] at hg; exact hg.1.1.2
    obtain ⟨s1, s2, s3⟩ := encAssoc_slices 1 ver called calling items hcl hgl
    have e : encode (.rq ver called calling items) = encAssoc 1 ver called calling items := rfl
    have e1 : encAssoc 1 ver called calling items = 1 :: (encAssoc 1 ver called calling items).tail := rfl
    have hd := decode_type1 (encAssoc 1 ver called calling items).tail
    rw [← e1] at hd
    rw [e, hd, encAssoc_slice6, s1, s2, s3, decAeRq_ljust hc, decAeRq_ljust hg, decVarItems_flatMap items hi]
    simp only [be16_u16 hv, canon]
  | ac ver called calling items =>
    simp only [encOk, Bool.and_eq_true, lt16_iff] at h
    obtain ⟨⟨⟨⟨hv, hc⟩, hg⟩, hi⟩, _⟩ := h
    have hcl : called.length ≤ 16 := by
      simp only [aeAcOk, Bool.and_eq_true, Nat.ble_eq] at hc; exact hc.2
    have hgl : calling.length ≤ 16 := by
      simp only [aeAcOk, Bool.and_eq_true, Nat.ble_eq] at hg; exact hg.2
    obtain ⟨s1, s2, s3⟩ := encAssoc_slices 2 ver called calling items hcl hgl
    have e : encode (.ac ver called calling items) = encAssoc 2 ver called calling items := rfl
    have e1 : encAssoc 2 ver called calling items = 2 :: (encAssoc 2 ver called calling items).tail := rfl
    have hd := decode_type2 (encAssoc 2 ver called calling items).tail
    rw [← e1] at hd
    rw [e, hd, encAssoc_slice6, s1, s2, s3, decAeAc_ljust hc, decAeAc_ljust hg, decVarItems_flatMap items hi]
    simp only [be16_u16 hv, canon]
  | rj r s d =>
    simp only [encOk, Bool.and_eq_true, lt8_iff] at h
    simp [encode, decode, u8_toNat h.1.1, u8_toNat h.1.2, u8_toNat h.2, canon]
  | pdata pdvs =>
    simp only [encOk, Bool.and_eq_true] at h
    have e1 : encode (.pdata pdvs) = 4 :: (encode (.pdata pdvs)).tail := rfl
    have e2 : (encode (.pdata pdvs)).drop 6 = pdvs.flatMap encPdv := rfl
    have hd := decode_type4 (encode (.pdata pdvs)).tail
    rw [← e1, e2] at hd
    rw [hd, decPdvs_flatMap pdvs h.1]; rfl
  | relRq => rfl
  | relRp => rfl
  | abort s r =>
    simp only [encOk, Bool.and_eq_true, lt8_iff] at h
    simp [encode, decode, u8_toNat h.1, u8_toNat h.2, canon]

/-! ## wf ⇒ encOk -/

theorem uidOk_of_wf {u : Bytes} (h : uidWf u = true) : uidOk true u = true := by
  simp only [uidWf, Bool.and_eq_true] at h; exact h.1

theorem uid_len_of_wf {u : Bytes} (h : uidWf u = true) : u.length ≤ 64 := by
  simp only [uidWf, uidOk, uidB, Bool.and_eq_true, Bool.not_true, Bool.false_or, Nat.ble_eq] at h
  exact h.1.1.2

theorem relOk_of_wf {u : Bytes} (h : uidWf u = true) : relOk u = true := h

theorem synOk_of_wf {s : SynItem} (h : synWf s = true) : synOk false s = true := by
  cases s with
  | abstract u =>
    have := uid_len_of_wf h
    simp only [synOk, uidOk_of_wf h, Bool.true_and, lt16_iff]; omega
  | transfer u =>
    have := uid_len_of_wf h
    simp only [synOk, Bool.not_false, uidOk_of_wf h, Bool.true_and, lt16_iff]; omega

/-- dropping the validation of a transfer syntax can only accept more -/
theorem synOk_skip {s : SynItem} (k : Bool) (h : synOk false s = true) : synOk k s = true := by
  cases s with
  | abstract u => exact h
  | transfer u =>
    cases k with
    | false => exact h
    | true =>
      simp only [synOk, uidOk, uidB, Bool.and_eq_true, Bool.not_true, Bool.not_false, Bool.false_or,
        Bool.true_or, Bool.and_true] at h ⊢
      exact ⟨⟨h.1.1.1, h.1.2⟩, h.2⟩

theorem all_imp {α : Type} {p q : α → Bool} {xs : List α} (hpq : ∀ x, p x = true → q x = true)
    (h : xs.all p = true) : xs.all q = true := by
  rw [List.all_eq_true] at h ⊢
  exact fun x hx => hpq x (h x hx)

theorem userOk_of_wf {s : UserSub} (h : userWf s = true) : userOk s = true := by
  cases s with
  | maxLen n => exact h
  | implUid u => exact uidOk_of_wf h
  | asyncOps i p => exact h
  | role u scu scp =>
    simp only [userWf, Bool.and_eq_true] at h
    simp only [userOk, Bool.and_eq_true]
    exact ⟨⟨uidOk_of_wf h.1.1, h.1.2⟩, h.2⟩
  | implVer n =>
    simp only [userWf, Bool.and_eq_true] at h
    exact h.1
  | sopExt u info => exact uidOk_of_wf h
  | commonExt v sop svc rel =>
    simp only [userWf, Bool.and_eq_true] at h
    simp only [userOk, Bool.and_eq_true]
    exact ⟨⟨⟨⟨h.1.1.1.1, uidOk_of_wf h.1.1.1.2⟩, uidOk_of_wf h.1.1.2⟩, all_imp (fun _ => relOk_of_wf) h.1.2⟩, h.2⟩
  | userIdRq t r p s =>
    simp only [userWf, Bool.and_eq_true, Nat.ble_eq] at h
    simp only [userOk, Bool.and_eq_true, lt8_iff]
    exact ⟨⟨⟨by omega, by omega⟩, h.1.2⟩, h.2⟩
  | userIdAc r => exact h

theorem ctxId_lt {id : Nat} (h : ctxIdOk id = true) : id < 256 := by
  simp only [ctxIdOk, Bool.and_eq_true, Nat.ble_eq] at h; omega

theorem varOk_of_wf {v : VarItem} (h : varWf v = true) : varOk v = true := by
  cases v with
  | appCtx u =>
    have := uid_len_of_wf h
    simp only [varOk, uidOk_of_wf h, Bool.true_and, lt16_iff]; omega
  | pcRq id subs =>
    simp only [varWf, Bool.and_eq_true] at h
    simp only [varOk, Bool.and_eq_true, lt8_iff]
    exact ⟨⟨ctxId_lt h.1.1.1, all_imp (fun _ => synOk_of_wf) h.1.1.2⟩, h.1.2⟩
  | pcAc id res subs =>
    simp only [varWf, Bool.and_eq_true, Nat.ble_eq] at h
    obtain ⟨⟨⟨hid, hres⟩, hs⟩, hshape⟩ := h
    match subs, hs, hshape with
    | [t], hs, _ =>
      simp only [List.all_cons, List.all_nil, Bool.and_true] at hs
      have hok := synOk_of_wf hs
      have hlen : (encSyn t).length < 65532 := by
        cases t with
        | abstract u => have := uid_len_of_wf hs; simp [encSyn, tlv_length]; omega
        | transfer u => have := uid_len_of_wf hs; simp [encSyn, tlv_length]; omega
      simp only [varOk, Bool.and_eq_true, lt8_iff, List.all_cons, List.all_nil, Bool.and_true,
        List.length_cons, List.length_nil, Nat.ble_eq, List.flatMap_cons, List.flatMap_nil,
        List.append_nil, Nat.blt_eq]
      exact ⟨⟨⟨⟨ctxId_lt hid, by omega⟩, synOk_skip _ hok⟩, by omega⟩, hlen⟩
  | userInfo subs =>
    simp only [varWf, Bool.and_eq_true] at h
    simp only [varOk, Bool.and_eq_true]
    refine ⟨all_imp (fun s hs => ?_) h.1, h.2⟩
    simp only [Bool.and_eq_true] at hs ⊢
    exact ⟨userOk_of_wf hs.1, hs.2⟩

theorem aeRqOk_of_wf {a : Bytes} (h : aeWf a = true) : aeRqOk a = true := by
  simp only [aeWf, Bool.and_eq_true, Nat.ble_eq] at h
  obtain ⟨⟨hl, hc⟩, hs⟩ := h
  have hasc : isAscii a = true := by
    simp only [isAscii, List.all_eq_true] at hc ⊢
    intro c hcm
    have := hc c hcm
    simp only [aeCharOk, Bool.and_eq_true, decide_eq_true_eq] at this ⊢
    omega
  -- a non-space legal character survives stripping
  have hne : pyStrip a ≠ [] := by
    obtain ⟨c, hcm, hcs⟩ := List.any_eq_true.mp hs
    have hcok := List.all_eq_true.mp hc c hcm
    have hnws : isWs c = false := by
      simp only [aeCharOk, Bool.and_eq_true, decide_eq_true_eq, bne_iff_ne, ne_eq] at hcok
      have hc32 : c.toNat ≠ 32 := by
        intro h32
        apply (bne_iff_ne.mp hcs)
        exact UInt8.toNat_inj.mp (by simpa using h32)
      simp only [isWs, Bool.or_eq_false_iff, Bool.and_eq_false_iff, decide_eq_false_iff_not]
      constructor
      · right; omega
      · right; omega
    intro hnil
    -- stripL keeps c; stripR keeps c
    have key : ∀ (l : Bytes), c ∈ l → c ∈ stripR (stripL l) := by
      have hL : ∀ (l : Bytes), c ∈ l → c ∈ stripL l := by
        intro l
        induction l with
        | nil => intro h; cases h
        | cons d ds ih =>
          intro hm
          simp only [stripL]
          by_cases hd : isWs d = true
          · simp only [hd, ↓reduceIte]
            rcases List.mem_cons.mp hm with rfl | hm'
            · rw [hnws] at hd; cases hd
            · exact ih hm'
          · simp only [hd]; exact hm
      have hR : ∀ (l : Bytes), c ∈ l → c ∈ stripR l := by
        intro l
        induction l with
        | nil => intro h; cases h
        | cons d ds ih =>
          intro hm
          rcases stripR_cases d ds with ⟨h1, hd, h2⟩ | ⟨h1, _⟩
          · rcases List.mem_cons.mp hm with rfl | hm'
            · rw [hnws] at hd; cases hd
            · have := ih hm'; rw [h2] at this; cases this
          · rw [h1]
            rcases List.mem_cons.mp hm with rfl | hm'
            · exact List.mem_cons_self
            · exact List.mem_cons_of_mem _ (ih hm')
      exact fun l hl => hR _ (hL l hl)
    have := key a hcm
    simp only [pyStrip] at hnil
    rw [hnil] at this; cases this
  simp only [aeRqOk, Bool.and_eq_true, Nat.ble_eq, Bool.not_eq_true', List.isEmpty_eq_false_iff]
  exact ⟨⟨⟨hasc, hl⟩, hne⟩, all_stripR (all_stripL hc)⟩

theorem encOk_of_wf (p : PDU) (h : wf p = true) : encOk p = true := by
  cases p with
  | rq ver called calling items =>
    simp only [wf, Bool.and_eq_true] at h
    simp only [encOk, Bool.and_eq_true]
    exact ⟨⟨⟨⟨h.1.1.1.1, aeRqOk_of_wf h.1.1.1.2⟩, aeRqOk_of_wf h.1.1.2⟩, all_imp (fun _ => varOk_of_wf) h.1.2⟩, h.2⟩
  | ac ver called calling items =>
    simp only [wf, Bool.and_eq_true] at h
    simp only [encOk, Bool.and_eq_true]
    exact ⟨⟨⟨⟨h.1.1.1.1, h.1.1.1.2⟩, h.1.1.2⟩, all_imp (fun _ => varOk_of_wf) h.1.2⟩, h.2⟩
  | rj r s d =>
    simp only [wf, rjWf, Bool.and_eq_true, Bool.or_eq_true, beq_iff_eq] at h
    simp only [encOk, Bool.and_eq_true, lt8_iff]
    omega
  | pdata pdvs =>
    simp only [wf, Bool.and_eq_true] at h
    simp only [encOk, Bool.and_eq_true]
    refine ⟨all_imp (fun p hp => ?_) h.1, h.2⟩
    simp only [pdvWf, Bool.and_eq_true] at hp
    simp only [pdvOk, Bool.and_eq_true, lt8_iff]
    exact ⟨ctxId_lt hp.1, hp.2⟩
  | relRq => rfl
  | relRp => rfl
  | abort s r =>
    simp only [wf, abortWf, Bool.and_eq_true, Bool.or_eq_true, beq_iff_eq, lt8_iff] at h
    simp only [encOk, Bool.and_eq_true, lt8_iff]
    omega

end PynetVerif.Pdu
