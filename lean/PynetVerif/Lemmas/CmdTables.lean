import PynetVerif.Lemmas.CmdRow
import PynetVerif.Gen.Cmd
import PynetVerif.Spec.Ps37
/-!
Decidable comparisons between the model tables (`Model/Cmd.lean`), the tables regenerated
from the source (`Gen/Cmd.lean`) and the standard (`Spec/Ps37.lean`); clean element values;
acceptance by the setters; direction.  Used by `Props/C17.lean`.
-/
namespace PynetVerif.Cmd

/-- one (class, tag) line of the setter probe: the model's `store` reproduces every observed outcome -/
def probeOk (e : String × Nat × List (Nat × Option Nat)) : Bool :=
  match classes.find? (fun c => c.name == e.1) with
  | none => false
  | some c =>
    match c.setter? e.2.1 with
    | none => false
    | some s => e.2.2.all (fun io =>
        match Gen.Cmd.probeVals[io.1]? with
        | none => false
        | some raw =>
          store s raw == (match io.2 with | none => none | some j => Gen.Cmd.probeVals[j]?))

/-- the attributes of every primitive class, and which of them have a setter -/
def attrsOk : Bool :=
  classes.length == Gen.Cmd.primAttrs.length &&
  Gen.Cmd.primAttrs.all (fun e =>
    match classes.find? (fun c => c.name == e.1) with
    | none => false
    | some c => c.attrs.length == e.2.length &&
        e.2.all (fun tp => match c.setter? tp.1 with
          | none => false
          | some s => (s != .plain) == tp.2))

/-- a fresh primitive: the non-None parameters are exactly those observed -/
def defaultsOk : Bool :=
  Gen.Cmd.defaults.all (fun e =>
    match classes.find? (fun c => c.name == e.1) with
    | none => false
    | some c => (emptyPrim c).par e.2.1 == e.2.2) &&
  (classes.flatMap (fun c => vrTable.filter (fun e => (emptyPrim c).par e.1 != none))).length == Gen.Cmd.defaults.length

/-- `send_msg`'s choice of message class -/
def kindOk : Bool :=
  Gen.Cmd.rqToMessage.all (fun e =>
    match classes.find? (fun c => c.name == e.1) with
    | none => false
    | some c => (kindOf c (emptyPrim c)).map (·.name) == some e.2) &&
  Gen.Cmd.rspToMessage.all (fun e =>
    match classes.find? (fun c => c.name == e.1) with
    | none => false
    | some c => (kindOf c ((emptyPrim c).setPar 0x0120 (some (.int 1)))).map (·.name) == some e.2) &&
  classes.all (fun c => (kindOf c (emptyPrim c)).isSome == Gen.Cmd.rqToMessage.any (fun e => e.1 == c.name)) &&
  classes.all (fun c => (kindOf c ((emptyPrim c).setPar 0x0120 (some (.int 1)))).isSome ==
    Gen.Cmd.rspToMessage.any (fun e => e.1 == c.name))

theorem rows_wf : ∀ r ∈ rows, r.wf = true := by decide

theorem rows_find : ∀ r ∈ rows, rows.find? (fun x => x.field == r.field) = some r := by decide

/-! ### clean element values: nothing for the reader to strip -/

def cleanStr : VR → Bytes → Prop
  | .UI, s => rstripPad s = s ∧ stripSp s = s
  | .AE, s => stripSp s = s
  | _, s => rstripPad s = s

/-- numbers in range; strings without delimiter, padding or removable spaces, and not the
lone empty string (which *is* the empty value) -/
def ValClean : VR → EVal → Prop
  | vr, .strs xs => ValOk vr (.strs xs) ∧ (∀ s ∈ xs, cleanStr vr s) ∧ xs ≠ [[]]
  | vr, .nums xs => ValOk vr (.nums xs)

theorem pyStrs_of_ne (xs : List Bytes) (h : xs ≠ [[]]) : pyStrs xs = xs := by
  unfold pyStrs
  split
  · exact absurd rfl h
  · rfl

theorem map_id_of (f : Bytes → Bytes) (xs : List Bytes) (h : ∀ s ∈ xs, f s = s) : xs.map f = xs := by
  induction xs with
  | nil => rfl
  | cons a r ih =>
    simp only [List.map_cons, h a List.mem_cons_self, ih (fun s hs => h s (List.mem_cons_of_mem _ hs))]

theorem normVal_clean (vr : VR) (v : EVal) (h : ValClean vr v) : normVal vr v = v := by
  cases v with
  | nums xs => exact normVal_nums vr xs
  | strs xs =>
    obtain ⟨_, hc, hne⟩ := h
    show EVal.strs (normStrs vr xs) = EVal.strs xs
    congr 1
    unfold normStrs
    by_cases hj : (joinBs xs).isEmpty = true
    · rw [if_pos hj]
      have : joinBs xs = [] := by simpa using hj
      rcases joinBs_eq_nil xs this with e | e
      · exact e.symm
      · exact absurd e hne
    · rw [if_neg hj]
      cases vr
      · exact (pyStrs_of_ne _ (by rw [map_id_of _ _ hc]; exact hne)).trans (map_id_of _ _ hc)
      · exact (pyStrs_of_ne _ (by rw [map_id_of _ _ hc]; exact hne)).trans (map_id_of _ _ hc)
      · have h1 : mapLast rstripPad xs = xs := mapLast_id _ _ (fun s hs => (hc s hs).1)
        have h2 : xs.map stripSp = xs := map_id_of _ _ (fun s hs => (hc s hs).2)
        simp only [h1, h2]
        exact pyStrs_of_ne _ hne
      · exact (pyStrs_of_ne _ (by rw [map_id_of _ _ hc]; exact hne)).trans (map_id_of _ _ hc)
      · exact (pyStrs_of_ne _ (by rw [map_id_of _ _ hc]; exact hne)).trans (map_id_of _ _ hc)
      · exact (pyStrs_of_ne _ (by rw [map_id_of _ _ hc]; exact hne)).trans (map_id_of _ _ hc)

theorem ValClean.ok (vr : VR) (v : EVal) (h : ValClean vr v) : ValOk vr v := by
  cases v with
  | nums xs => exact h
  | strs xs => exact h.1

def ElemClean (e : Elem) : Prop := ∃ vr, vrOf e.1 = some vr ∧ ValClean vr e.2

theorem normCmd_clean (c : List Elem) (h : ∀ e ∈ c, ElemClean e) : normCmd c = c := by
  induction c with
  | nil => rfl
  | cons e r ih =>
    obtain ⟨vr, hv, hc⟩ := h e List.mem_cons_self
    unfold normCmd at ih ⊢
    rw [List.map_cons, ih (fun x hx => h x (List.mem_cons_of_mem _ hx))]
    obtain ⟨t, ev⟩ := e
    rw [normElem_of_vr t vr ev hv, normVal_clean vr ev hc]

/-- encoded values have even length (PS3.5 §7.1.1) -/
theorem encodeVal_even (vr : VR) (v : EVal) (b : Bytes) (h : encodeVal vr v = some b) : b.length % 2 = 0 := by
  have pe : ∀ pad x, (padEven pad x).length % 2 = 0 := by
    intro pad x; unfold padEven; split
    · simp only [List.length_append, List.length_singleton]; omega
    · omega
  cases v with
  | nums xs =>
    cases vr <;> simp only [encodeVal] at h
    · have := (dec32s_enc xs b h).2; omega
    · have := (dec16s_enc xs b h).2; omega
    · exact absurd h (by simp)
    · exact absurd h (by simp)
    · exact absurd h (by simp)
    · have := (decATs_enc xs b h).2; omega
  | strs xs =>
    cases vr <;> simp only [encodeVal, Option.some.injEq] at h
    · exact absurd h (by simp)
    · exact absurd h (by simp)
    · rw [← h]; exact pe _ _
    · rw [← h]; exact pe _ _
    · rw [← h]; exact pe _ _
    · exact absurd h (by simp)

/-! ### in-range values are values the setters store unchanged -/

theorem parOk_accepted (s : Setter) (vr : VR) (v : Option Val) (h : ParOk s vr v) : store s v = some v := by
  cases v with
  | none => cases s <;> first | rfl | (cases vr <;> simp [ParOk] at h)
  | some v =>
    cases v with
    | int n =>
      cases s <;> cases vr <;> simp only [ParOk] at h <;> simp only [store] <;>
        first
        | rfl
        | (rw [if_pos h])
        | (rw [if_pos (by simp [tagOk, h])])
    | str x =>
      cases s <;> cases vr <;> simp only [ParOk] at h
      · rfl
      · exact store_uid_ok x h
      · simp only [store]
        cases x with
        | nil => rfl
        | cons c cs => simp only [List.isEmpty_cons, Bool.false_eq_true, if_false, h, if_true]
      · simp only [store]
        cases hx : stripSp x with
        | nil => exact absurd hx h.2
        | cons c cs => simp only [List.isEmpty_cons, Bool.false_eq_true, if_false, h.1, if_true]
    | list ts =>
      cases s <;> cases vr <;> simp only [ParOk] at h
      · rfl
      · match ts, h with
        | [], _ => rfl
        | [a], h => exact absurd rfl h.2.2
        | a :: b :: r, h => simp only [store]; rw [if_pos (all_tagOk _ h.1)]

/-! ### direction -/

theorem kindOf_congr (cls : PrimClass) (p q : Prim) (h : (p.par 0x0120).isNone = (q.par 0x0120).isNone) :
    kindOf cls p = kindOf cls q := by
  unfold kindOf; simp only [h]

/-- a message type carries MessageIDBeingRespondedTo iff it is a response or the C-CANCEL -/
def respondsOk (r : Row) : Bool :=
  if decide (0x8000 ≤ r.field) || r.cls.name == "C_CANCEL" then
    r.keywords.contains 0x0120 && (r.cls.setter? 0x0120 == some .us16)
  else true

theorem rows_responds : ∀ r ∈ rows, respondsOk r = true := by decide

end PynetVerif.Cmd
