import PynetVerif.Model.Dimse
/-!
Helper lemmas for C15 / C16: ceiling division, the slice loop, the emit loop
expressed by `mark`, the file reader, and the decoder over marked fragments and
over arbitrary groupings.
-/
namespace PynetVerif.Dimse

/-! ### ceiling division -/

theorem ceilDiv_mul_ge (a n : Nat) (hn : 0 < n) : a ≤ ceilDiv a n * n := by
  unfold ceilDiv
  have h1 := Nat.div_add_mod (a + n - 1) n
  have h2 := Nat.mod_lt (a + n - 1) hn
  have h3 : (a + n - 1) / n * n = n * ((a + n - 1) / n) := Nat.mul_comm _ _
  omega

theorem ceilDiv_zero (n : Nat) (hn : 0 < n) : ceilDiv 0 n = 0 := by
  unfold ceilDiv
  exact Nat.div_eq_of_lt (by omega)

theorem ceilDiv_pos (a n : Nat) (hn : 0 < n) (ha : 0 < a) : 0 < ceilDiv a n := by
  unfold ceilDiv
  exact Nat.div_pos (by omega) hn

theorem ceilDiv_pred_lt (a n : Nat) (hn : 0 < n) (ha : 0 < a) : (ceilDiv a n - 1) * n < a := by
  have hp := ceilDiv_pos a n hn ha
  unfold ceilDiv at *
  have h1 := Nat.div_add_mod (a + n - 1) n
  have h3 : ((a + n - 1) / n - 1) * n = n * ((a + n - 1) / n) - n := by
    rw [Nat.sub_mul, Nat.one_mul, Nat.mul_comm]
  have h4 : n ≤ n * ((a + n - 1) / n) := Nat.le_mul_of_pos_right n hp
  omega

/-- `ceilDiv` is the ceiling: the unique `k` with `(k-1)·n < a ≤ k·n` (`a > 0`). -/
theorem ceilDiv_unique (a n k : Nat) (hn : 0 < n) (h1 : a ≤ k * n) (h2 : (k - 1) * n < a) :
    ceilDiv a n = k := by
  have ha : 0 < a := by omega
  have g1 := ceilDiv_mul_ge a n hn
  have g2 := ceilDiv_pred_lt a n hn ha
  have gp := ceilDiv_pos a n hn ha
  generalize ceilDiv a n = c at *
  -- (c-1)·n < a ≤ k·n  ⇒ c-1 < k ;  (k-1)·n < a ≤ c·n ⇒ k-1 < c
  have hck : c - 1 < k := by
    apply Nat.lt_of_mul_lt_mul_right (a := n)
    omega
  have hkc : k - 1 < c := by
    apply Nat.lt_of_mul_lt_mul_right (a := n)
    omega
  omega

theorem ceilDiv_mul (k n : Nat) (hn : 0 < n) : ceilDiv (k * n) n = k := by
  cases k with
  | zero => simp [ceilDiv_zero n hn]
  | succ k =>
    apply ceilDiv_unique _ _ _ hn (Nat.le_refl _)
    simp only [Nat.add_sub_cancel, Nat.succ_mul]
    omega

/-! ### the slice loop -/

theorem length_sliceLoop (b : Bytes) (n : Nat) : ∀ k off, (sliceLoop b n off k).length = k := by
  intro k; induction k with
  | zero => intro off; rfl
  | succ k ih => intro off; simp [sliceLoop, ih]

theorem flatten_sliceLoop (b : Bytes) (n : Nat) :
    ∀ k off, (sliceLoop b n off k).flatten = (b.drop off).take (k * n) := by
  intro k; induction k with
  | zero => intro off; simp [sliceLoop]
  | succ k ih =>
    intro off
    simp only [sliceLoop, List.flatten_cons, ih]
    have : (k + 1) * n = n + k * n := by rw [Nat.succ_mul, Nat.add_comm]
    rw [this, List.take_add, List.drop_drop]

theorem mem_sliceLoop_le (b : Bytes) (n : Nat) :
    ∀ k off f, f ∈ sliceLoop b n off k → f.length ≤ n := by
  intro k; induction k with
  | zero => intro off f h; simp [sliceLoop] at h
  | succ k ih =>
    intro off f h
    simp only [sliceLoop, List.mem_cons] at h
    rcases h with h | h
    · subst h; simp [List.length_take]; omega
    · exact ih _ _ h

theorem mem_sliceLoop_full (b : Bytes) (n : Nat) :
    ∀ k off f, off + k * n ≤ b.length → f ∈ sliceLoop b n off k → f.length = n := by
  intro k; induction k with
  | zero => intro off f _ h; simp [sliceLoop] at h
  | succ k ih =>
    intro off f hle h
    rw [Nat.succ_mul] at hle
    simp only [sliceLoop, List.mem_cons] at h
    rcases h with h | h
    · subst h; simp [List.length_take]; omega
    · exact ih _ _ (by omega) h

theorem mem_sliceLoop_ne_nil (b : Bytes) (n : Nat) (hn : 0 < n) :
    ∀ k off f, off + k * n < b.length + n → f ∈ sliceLoop b n off k → f ≠ [] := by
  intro k; induction k with
  | zero => intro off f _ h; simp [sliceLoop] at h
  | succ k ih =>
    intro off f hle h
    rw [Nat.succ_mul] at hle
    simp only [sliceLoop, List.mem_cons] at h
    rcases h with h | h
    · subst h
      intro hnil
      have := congrArg List.length hnil
      simp [List.length_take] at this
      omega
    · exact ih _ _ (by omega) h

/-- the fragments of `b` for a legal maximum (0 or ≥ 7) -/
def chunksOf (b : Bytes) (max : Nat) : List Bytes :=
  if max = 0 then [b] else sliceLoop b (max - 6) 0 (ceilDiv b.length (max - 6))

theorem fragments_eq (b : Bytes) (max : Nat) (hm : max = 0 ∨ 7 ≤ max) :
    fragments b max = some (chunksOf b max) := by
  unfold fragments chunksOf
  rcases hm with h | h
  · simp [h]
  · have h1 : max ≠ 0 := by omega
    have h2 : ¬ max < 7 := by omega
    simp [h1, h2]

theorem flatten_chunksOf (b : Bytes) (max : Nat) (hm : max = 0 ∨ 7 ≤ max) :
    (chunksOf b max).flatten = b := by
  unfold chunksOf
  rcases hm with h | h
  · simp [h]
  · have h1 : max ≠ 0 := by omega
    simp only [h1, ↓reduceIte, flatten_sliceLoop, List.drop_zero]
    exact List.take_of_length_le (ceilDiv_mul_ge _ _ (by omega))

theorem length_chunksOf (b : Bytes) (max : Nat) :
    (chunksOf b max).length = if max = 0 then 1 else ceilDiv b.length (max - 6) := by
  unfold chunksOf
  split <;> simp [length_sliceLoop]

theorem chunksOf_ne_nil (b : Bytes) (max : Nat) (hm : max = 0 ∨ 7 ≤ max) (hb : b ≠ [] ∨ max = 0) :
    chunksOf b max ≠ [] := by
  intro h
  have hl := length_chunksOf b max
  rw [h] at hl
  rcases hm with h0 | h7
  · simp [h0] at hl
  · have h1 : max ≠ 0 := by omega
    simp only [h1, ↓reduceIte, List.length_nil] at hl
    rcases hb with hb | hb
    · have : 0 < b.length := List.length_pos_iff.mpr hb
      have := ceilDiv_pos b.length (max - 6) (by omega) this
      omega
    · omega

theorem mem_chunksOf_le (b : Bytes) (max : Nat) (h7 : 7 ≤ max) (f : Bytes) (hf : f ∈ chunksOf b max) :
    f.length ≤ max - 6 := by
  unfold chunksOf at hf
  have h1 : max ≠ 0 := by omega
  simp only [h1, ↓reduceIte] at hf
  exact mem_sliceLoop_le _ _ _ _ _ hf

theorem mem_chunksOf_ne_nil (b : Bytes) (max : Nat) (hm : max = 0 ∨ 7 ≤ max) (hb : b ≠ [])
    (f : Bytes) (hf : f ∈ chunksOf b max) : f ≠ [] := by
  unfold chunksOf at hf
  rcases hm with h0 | h7
  · simp [h0] at hf; subst hf; exact hb
  · have h1 : max ≠ 0 := by omega
    simp only [h1, ↓reduceIte] at hf
    have hpos : 0 < b.length := List.length_pos_iff.mpr hb
    have := ceilDiv_pred_lt b.length (max - 6) (by omega) hpos
    have hp := ceilDiv_pos b.length (max - 6) (by omega) hpos
    apply mem_sliceLoop_ne_nil b (max - 6) (by omega) _ 0 f _ hf
    have e : ceilDiv b.length (max - 6) * (max - 6)
        = (ceilDiv b.length (max - 6) - 1) * (max - 6) + (max - 6) := by
      rw [Nat.sub_mul, Nat.one_mul, Nat.sub_add_cancel]
      exact Nat.le_mul_of_pos_left _ hp
    omega

/-! ### the emit loop -/

/-- all fragments but the last get the "more" control byte, the last gets "last" -/
def mark (ctx more last : Nat) : List Bytes → List PDV
  | [] => []
  | [f] => [⟨ctx, last, f⟩]
  | f :: g :: fs => ⟨ctx, more, f⟩ :: mark ctx more last (g :: fs)

theorem emitPart_eq (ctx more last : Nat) : ∀ frs : List Bytes, frs ≠ [] →
    emitPart ctx more last (frs.length - 1) frs = (mark ctx more last frs, none) := by
  intro frs; induction frs with
  | nil => intro h; exact absurd rfl h
  | cons f fs ih =>
    intro _
    cases fs with
    | nil => rfl
    | cons g gs =>
      have ih' := ih (by simp)
      simp only [List.length_cons, Nat.add_sub_cancel] at ih' ⊢
      simp [emitPart, mark, ih']

theorem encodePart_eq (ctx more last : Nat) (b : Bytes) (max : Nat)
    (hm : max = 0 ∨ 7 ≤ max) (hb : b ≠ [] ∨ max = 0) :
    encodePart ctx more last b max = (mark ctx more last (chunksOf b max), none) := by
  have hne := chunksOf_ne_nil b max hm hb
  have hlen := length_chunksOf b max
  unfold encodePart
  rw [fragments_eq b max hm]
  have hnr : nrFragments b.length max = some (chunksOf b max).length := by
    unfold nrFragments
    rw [hlen]
    rcases hm with h | h
    · simp [h]
    · have h1 : max ≠ 0 := by omega
      have h2 : max ≠ 6 := by omega
      have h3 : ¬ max < 6 := by omega
      simp [h1, h2, h3]
  rw [hnr]
  exact emitPart_eq ctx more last _ hne

theorem map_payload_mark (ctx more last : Nat) : ∀ frs, (mark ctx more last frs).map (·.payload) = frs := by
  intro frs; induction frs with
  | nil => rfl
  | cons f fs ih =>
    cases fs with
    | nil => rfl
    | cons g gs => simp only [mark, List.map_cons, ih]

theorem map_ctl_mark (ctx more last : Nat) : ∀ frs, frs ≠ [] →
    (mark ctx more last frs).map (·.ctl) = List.replicate (frs.length - 1) more ++ [last] := by
  intro frs; induction frs with
  | nil => intro h; exact absurd rfl h
  | cons f fs ih =>
    intro _
    cases fs with
    | nil => rfl
    | cons g gs =>
      have ih' := ih (by simp)
      simp only [List.length_cons, Nat.add_sub_cancel] at ih' ⊢
      simp only [mark, List.map_cons, ih', List.replicate_succ, List.cons_append]

theorem length_mark (ctx more last : Nat) (frs : List Bytes) : (mark ctx more last frs).length = frs.length := by
  rw [← List.length_map (f := (·.payload)), map_payload_mark]

theorem mem_mark (ctx more last : Nat) : ∀ frs p, p ∈ mark ctx more last frs →
    p.ctx = ctx ∧ (p.ctl = more ∨ p.ctl = last) ∧ p.payload ∈ frs := by
  intro frs; induction frs with
  | nil => intro p h; simp [mark] at h
  | cons f fs ih =>
    intro p h
    cases fs with
    | nil => simp [mark] at h; subst h; simp
    | cons g gs =>
      simp only [mark, List.mem_cons] at h
      rcases h with h | h
      · subst h; simp
      · obtain ⟨a, b, c⟩ := ih p (by simpa [mark] using h)
        exact ⟨a, b, List.mem_cons_of_mem _ c⟩

theorem cmdFrags_mark_cmd (ctx : Nat) (frs : List Bytes) : cmdFrags (mark ctx 1 3 frs) = mark ctx 1 3 frs := by
  unfold cmdFrags
  apply List.filter_eq_self.mpr
  intro p hp
  obtain ⟨_, h, _⟩ := mem_mark _ _ _ _ _ hp
  rcases h with h | h <;> simp [isCmd, h]

theorem dataFrags_mark_cmd (ctx : Nat) (frs : List Bytes) : dataFrags (mark ctx 1 3 frs) = [] := by
  unfold dataFrags
  apply List.filter_eq_nil_iff.mpr
  intro p hp
  obtain ⟨_, h, _⟩ := mem_mark _ _ _ _ _ hp
  rcases h with h | h <;> simp [isCmd, h]

theorem cmdFrags_mark_data (ctx : Nat) (frs : List Bytes) : cmdFrags (mark ctx 0 2 frs) = [] := by
  unfold cmdFrags
  apply List.filter_eq_nil_iff.mpr
  intro p hp
  obtain ⟨_, h, _⟩ := mem_mark _ _ _ _ _ hp
  rcases h with h | h <;> simp [isCmd, h]

theorem dataFrags_mark_data (ctx : Nat) (frs : List Bytes) : dataFrags (mark ctx 0 2 frs) = mark ctx 0 2 frs := by
  unfold dataFrags
  apply List.filter_eq_self.mpr
  intro p hp
  obtain ⟨_, h, _⟩ := mem_mark _ _ _ _ _ hp
  rcases h with h | h <;> simp [isCmd, h]

theorem payloads_mark (ctx more last : Nat) (frs : List Bytes) : payloads (mark ctx more last frs) = frs.flatten := by
  unfold payloads; rw [map_payload_mark]

theorem mark_eq_nil (ctx more last : Nat) (frs : List Bytes) : mark ctx more last frs = [] ↔ frs = [] := by
  constructor
  · intro h
    have := congrArg List.length h
    rw [length_mark] at this
    exact List.length_eq_zero_iff.mp this
  · intro h; subst h; rfl

/-! ### the file reader -/

theorem fileLoop_eq (file : Bytes) (ctx n off : Nat) : ∀ c x,
    x + c * n ≤ (file.drop off).length →
    fileLoop file ctx n (off + x) c = mark ctx 0 2 (sliceLoop (file.drop off) n x (c + 1)) := by
  intro c; induction c with
  | zero => intro x _; simp [fileLoop, sliceLoop, mark, List.drop_drop]
  | succ c ih =>
    intro x hle
    rw [Nat.succ_mul] at hle
    have hlen : ((file.drop (off + x)).take n).length = n := by
      simp only [List.length_take, List.length_drop] at hle ⊢
      omega
    have ih' := ih (x + n) (by omega)
    rw [show off + (x + n) = off + x + n by omega] at ih'
    rw [fileLoop, hlen, ih']
    simp [sliceLoop, mark, List.drop_drop]

/-- the data fragments of a file-backed data set -/
def fileChunks (content : Bytes) (max : Nat) : List Bytes :=
  if content = [] then [[]] else chunksOf content max

theorem encodeFileData_eq (ctx : Nat) (file : Bytes) (off max : Nat) (hm : max = 0 ∨ 7 ≤ max)
    (hoff : off ≤ file.length) :
    encodeFileData ctx file off max = (mark ctx 0 2 (fileChunks (file.drop off) max), none) := by
  unfold encodeFileData fileChunks
  have hL : (file.drop off).length = file.length - off := List.length_drop
  rcases hm with h0 | h7
  · subst h0
    have hno : ¬ file.length + 1 < off := by omega
    simp only [↓reduceIte, hno]
    have e : (file.drop off).take (file.length - off) = file.drop off := by
      rw [← hL]; exact List.take_length
    by_cases hc : file.drop off = []
    · simp [fileLoop, mark, hc]
    · simp [fileLoop, mark, hc, chunksOf, e]
  · have h1 : max ≠ 0 := by omega
    have h2 : max ≠ 6 := by omega
    have h3 : ¬ max < 6 := by omega
    simp only [h1, ↓reduceIte, nrFragments, h2, h3]
    have hn : 0 < max - 6 := by omega
    by_cases hc : file.drop off = []
    · have hz : file.length - off = 0 := by rw [← hL, hc]; rfl
      simp only [hz, ceilDiv_zero _ hn, hc, ↓reduceIte]
      have := fileLoop_eq file ctx (max - 6) off 0 0 (by simp)
      simp only [Nat.add_zero] at this
      rw [show (0 : Nat) - 1 = 0 from rfl, this, hc]
      simp [sliceLoop]
    · simp only [hc, ↓reduceIte]
      have hpos : 0 < file.length - off := by
        rw [← hL]; exact List.length_pos_iff.mpr hc
      have hp := ceilDiv_pos _ _ hn hpos
      have hlt := ceilDiv_pred_lt _ _ hn hpos
      have := fileLoop_eq file ctx (max - 6) off (ceilDiv (file.length - off) (max - 6) - 1) 0
        (by rw [hL]; omega)
      simp only [Nat.add_zero] at this
      rw [this, Nat.sub_add_cancel hp]
      simp [chunksOf, h1, hL]

/-! ### the whole encoder in closed form -/

/-- the data-set fragments `encode_msg` sends for a message -/
def dataChunks (m : Msg) (max : Nat) : List Bytes :=
  match m.dataSet with
  | some d => if d = [] then [] else chunksOf d max
  | none =>
    match m.path with
    | none => []
    | some (file, off) => fileChunks (file.drop off) max

/-- the data-set bytes of a message -/
def Msg.bytes (m : Msg) : Bytes :=
  match m.dataSet with
  | some d => d
  | none =>
    match m.path with
    | none => []
    | some (file, off) => file.drop off

theorem encodeMsg_eq (ctx : Nat) (cmd : Bytes) (ds : Option Bytes) (max : Nat)
    (hm : max = 0 ∨ 7 ≤ max) (hc : cmd ≠ [] ∨ max = 0) :
    encodeMsg ctx cmd ds max =
      (mark ctx 1 3 (chunksOf cmd max) ++ mark ctx 0 2 (dataChunks ⟨false, ds, none⟩ max), none) := by
  unfold encodeMsg dataChunks
  rw [encodePart_eq ctx 1 3 cmd max hm hc]
  cases ds with
  | none => simp [mark]
  | some d =>
    by_cases hd : d = []
    · simp [hd, mark]
    · simp only [hd, ↓reduceIte]
      rw [encodePart_eq ctx 0 2 d max hm (Or.inl hd)]

theorem encodeMsgFull_eq (ctx : Nat) (cmd : Bytes) (m : Msg) (max : Nat)
    (hm : max = 0 ∨ 7 ≤ max) (hc : cmd ≠ [] ∨ max = 0) (hp : m.pathOk) :
    encodeMsgFull ctx cmd m max =
      (mark ctx 1 3 (chunksOf cmd max) ++ mark ctx 0 2 (dataChunks m max), none) := by
  unfold encodeMsgFull
  obtain ⟨flag, ds, path⟩ := m
  cases ds with
  | some d => simp only [encodeMsg_eq ctx cmd (some d) max hm hc, dataChunks]
  | none =>
    cases path with
    | none => simp only [encodeMsg_eq ctx cmd none max hm hc, dataChunks]
    | some fo =>
      obtain ⟨file, off⟩ := fo
      simp only [encodePart_eq ctx 1 3 cmd max hm hc, encodeFileData_eq ctx file off max hm (hp file off rfl),
        dataChunks]

theorem flatten_dataChunks (m : Msg) (max : Nat) (hm : max = 0 ∨ 7 ≤ max) :
    (dataChunks m max).flatten = m.bytes := by
  unfold dataChunks Msg.bytes
  obtain ⟨flag, ds, path⟩ := m
  cases ds with
  | some d =>
    by_cases hd : d = []
    · simp [hd]
    · simp [hd, flatten_chunksOf d max hm]
  | none =>
    cases path with
    | none => simp
    | some fo =>
      obtain ⟨file, off⟩ := fo
      simp only [fileChunks]
      by_cases hd : file.drop off = []
      · simp [hd]
      · simp [hd, flatten_chunksOf _ max hm]

theorem mem_dataChunks_le (m : Msg) (max : Nat) (h7 : 7 ≤ max) (f : Bytes) (hf : f ∈ dataChunks m max) :
    f.length ≤ max - 6 := by
  unfold dataChunks at hf
  obtain ⟨flag, ds, path⟩ := m
  cases ds with
  | some d =>
    by_cases hd : d = []
    · simp [hd] at hf
    · simp only [hd, ↓reduceIte] at hf; exact mem_chunksOf_le d max h7 f hf
  | none =>
    cases path with
    | none => simp at hf
    | some fo =>
      obtain ⟨file, off⟩ := fo
      simp only [fileChunks] at hf
      by_cases hd : file.drop off = []
      · simp [hd] at hf; subst hf; simp
      · simp only [hd, ↓reduceIte] at hf; exact mem_chunksOf_le _ max h7 f hf

theorem pathOk_none (flag : Bool) (ds : Option Bytes) : (Msg.mk flag ds none).pathOk := by
  intro file off h; cases h

theorem DsShape.pathOk_of_ok (s : DsShape) (hs : s.ok) : (primToMsg s.toPrim).pathOk := by
  intro file off h
  cases s with
  | noParam => cases h
  | absent => cases h
  | stream b => cases h
  | file c o =>
    simp only [DsShape.toPrim, primToMsg] at h
    cases h
    exact hs

theorem frags_encode (ctx : Nat) (cmd : Bytes) (m : Msg) (max : Nat)
    (hm : max = 0 ∨ 7 ≤ max) (hc : cmd ≠ []) (hp : m.pathOk) :
    cmdFrags (encodeMsgFull ctx cmd m max).1 = mark ctx 1 3 (chunksOf cmd max) ∧
    dataFrags (encodeMsgFull ctx cmd m max).1 = mark ctx 0 2 (dataChunks m max) := by
  rw [encodeMsgFull_eq ctx cmd m max hm (Or.inl hc) hp]
  constructor
  · have h1 := cmdFrags_mark_cmd ctx (chunksOf cmd max)
    have h2 := cmdFrags_mark_data ctx (dataChunks m max)
    unfold cmdFrags at *
    rw [List.filter_append, h1, h2, List.append_nil]
  · have h1 := dataFrags_mark_cmd ctx (chunksOf cmd max)
    have h2 := dataFrags_mark_data ctx (dataChunks m max)
    unfold dataFrags at *
    rw [List.filter_append, h1, h2, List.nil_append]

/-! ### the decoder -/

theorem decodePDVs_cons (noDS : Bytes → Option Bool) (st : DecState) (p : PDV) (rest : List PDV) :
    decodePDVs noDS st (p :: rest) =
      if p.ctl % 2 = 1 then
        if p.ctl / 2 % 2 = 1 then
          match noDS (st.cmdBuf ++ p.payload) with
          | none => ({ st with cmdBuf := st.cmdBuf ++ p.payload, ctx := some p.ctx,
                               cmd := some (st.cmdBuf ++ p.payload) }, .error, rest)
          | some true => ({ st with cmdBuf := st.cmdBuf ++ p.payload, ctx := some p.ctx,
                                    cmd := some (st.cmdBuf ++ p.payload) }, .complete, rest)
          | some false => decodePDVs noDS { st with cmdBuf := st.cmdBuf ++ p.payload, ctx := some p.ctx,
                                                    cmd := some (st.cmdBuf ++ p.payload) } rest
        else decodePDVs noDS { st with cmdBuf := st.cmdBuf ++ p.payload } rest
      else
        if p.ctl / 2 % 2 = 1 then ({ st with ds := st.ds ++ p.payload }, .complete, rest)
        else decodePDVs noDS { st with ds := st.ds ++ p.payload } rest := by
  simp only [decodePDVs]
  rfl

theorem decodePDVs_mark_cmd (noDS : Bytes → Option Bool) (ctx : Nat) (rest : List PDV) :
    ∀ (frs : List Bytes) (st : DecState), frs ≠ [] →
    decodePDVs noDS st (mark ctx 1 3 frs ++ rest) =
      (match noDS (st.cmdBuf ++ frs.flatten) with
       | none => ({ st with cmdBuf := st.cmdBuf ++ frs.flatten, ctx := some ctx,
                            cmd := some (st.cmdBuf ++ frs.flatten) }, .error, rest)
       | some true => ({ st with cmdBuf := st.cmdBuf ++ frs.flatten, ctx := some ctx,
                                 cmd := some (st.cmdBuf ++ frs.flatten) }, .complete, rest)
       | some false => decodePDVs noDS { st with cmdBuf := st.cmdBuf ++ frs.flatten, ctx := some ctx,
                                                 cmd := some (st.cmdBuf ++ frs.flatten) } rest) := by
  intro frs; induction frs with
  | nil => intro st h; exact absurd rfl h
  | cons f fs ih =>
    intro st _
    cases fs with
    | nil =>
      simp only [mark, List.cons_append, List.nil_append, decodePDVs_cons, Nat.reduceMod, Nat.reduceDiv,
        ↓reduceIte, List.flatten_cons, List.flatten_nil, List.append_nil]
    | cons g gs =>
      have ih' := ih { st with cmdBuf := st.cmdBuf ++ f } (by simp)
      simp only [mark, List.cons_append] at ih' ⊢
      rw [decodePDVs_cons]
      simp only [Nat.reduceMod, Nat.reduceDiv, ↓reduceIte, Nat.zero_ne_one]
      rw [ih']
      simp only [List.flatten_cons, List.append_assoc]

theorem decodePDVs_mark_data (noDS : Bytes → Option Bool) (ctx : Nat) (rest : List PDV) :
    ∀ (frs : List Bytes) (st : DecState), frs ≠ [] →
    decodePDVs noDS st (mark ctx 0 2 frs ++ rest) =
      ({ st with ds := st.ds ++ frs.flatten }, .complete, rest) := by
  intro frs; induction frs with
  | nil => intro st h; exact absurd rfl h
  | cons f fs ih =>
    intro st _
    cases fs with
    | nil =>
      simp only [mark, List.cons_append, List.nil_append, decodePDVs_cons, Nat.reduceMod, Nat.reduceDiv,
        ↓reduceIte, List.flatten_cons, List.flatten_nil, List.append_nil, Nat.zero_ne_one]
    | cons g gs =>
      have ih' := ih { st with ds := st.ds ++ f } (by simp)
      simp only [mark, List.cons_append] at ih' ⊢
      rw [decodePDVs_cons]
      simp only [Nat.reduceMod, Nat.reduceDiv, ↓reduceIte, Nat.zero_ne_one]
      rw [ih']
      simp only [List.flatten_cons, List.append_assoc]

/-- `decode_msg` consumes a PDV list left to right; a `more` result has
consumed everything. -/
theorem decodePDVs_more_rest (noDS : Bytes → Option Bool) : ∀ (l : List PDV) (st st' : DecState) (r : List PDV),
    decodePDVs noDS st l = (st', .more, r) → r = [] := by
  intro l; induction l with
  | nil => intro st st' r h; simp [decodePDVs] at h; exact h.2
  | cons p ps ih =>
    intro st st' r h
    rw [decodePDVs_cons] at h
    by_cases h1 : p.ctl % 2 = 1
    · by_cases h2 : p.ctl / 2 % 2 = 1
      · simp only [h1, h2, ↓reduceIte] at h
        cases h3 : noDS (st.cmdBuf ++ p.payload) with
        | none => simp [h3] at h
        | some v =>
          cases v with
          | true => simp [h3] at h
          | false => simp only [h3] at h; exact ih _ _ _ h
      · simp only [h1, h2, ↓reduceIte] at h; exact ih _ _ _ h
    · by_cases h2 : p.ctl / 2 % 2 = 1
      · simp [h1, h2] at h
      · simp only [h1, h2, ↓reduceIte] at h; exact ih _ _ _ h

theorem decodePDVs_append (noDS : Bytes → Option Bool) : ∀ (a b : List PDV) (st : DecState),
    decodePDVs noDS st (a ++ b) =
      (match decodePDVs noDS st a with
       | (st', .more, _) => decodePDVs noDS st' b
       | (st', o, r) => (st', o, r ++ b)) := by
  intro a; induction a with
  | nil => intro b st; simp [decodePDVs]
  | cons p ps ih =>
    intro b st
    simp only [List.cons_append]
    rw [decodePDVs_cons, decodePDVs_cons]
    by_cases h1 : p.ctl % 2 = 1
    · by_cases h2 : p.ctl / 2 % 2 = 1
      · simp only [h1, h2, ↓reduceIte]
        cases h3 : noDS (st.cmdBuf ++ p.payload) with
        | none => simp
        | some v =>
          cases v with
          | true => simp
          | false => simp only [ih]
      · simp only [h1, h2, ↓reduceIte, ih]
    · by_cases h2 : p.ctl / 2 % 2 = 1
      · simp [h1, h2]
      · simp only [h1, h2, ↓reduceIte, ih]

/-- state and outcome of feeding the groups one by one equal those of feeding
the concatenation: the grouping into P-DATA primitives is irrelevant. -/
theorem decodeMsg_flatten (noDS : Bytes → Option Bool) : ∀ (g : List (List PDV)) (st : DecState),
    (decodeMsg noDS st g).1 = (decodePDVs noDS st g.flatten).1 ∧
    (decodeMsg noDS st g).2.1 = (decodePDVs noDS st g.flatten).2.1 := by
  intro g; induction g with
  | nil => intro st; simp [decodeMsg, decodePDVs]
  | cons a gs ih =>
    intro st
    simp only [List.flatten_cons, decodePDVs_append]
    rw [decodeMsg]
    rcases h : decodePDVs noDS st a with ⟨st', o, r⟩
    cases o <;> simp [ih]

/-- if the concatenation completes exactly at its last PDV and no group is
empty, every primitive is consumed. -/
theorem decodeMsg_all_consumed (noDS : Bytes → Option Bool) : ∀ (g : List (List PDV)) (st st' : DecState) (o : Outcome),
    (∀ x ∈ g, x ≠ []) → o ≠ .more → decodePDVs noDS st g.flatten = (st', o, []) →
    decodeMsg noDS st g = (st', o, []) := by
  intro g; induction g with
  | nil => intro st st' o _ ho h; simp [decodePDVs] at h; exact absurd h.2.symm ho
  | cons a gs ih =>
    intro st st' o hne ho h
    simp only [List.flatten_cons, decodePDVs_append] at h
    rw [decodeMsg]
    rcases h1 : decodePDVs noDS st a with ⟨st1, o1, r1⟩
    rw [h1] at h
    cases o1 with
    | more =>
      simp only at h ⊢
      exact ih st1 st' o (fun x hx => hne x (List.mem_cons_of_mem _ hx)) ho h
    | complete =>
      simp only [Prod.mk.injEq, List.append_eq_nil_iff] at h ⊢
      obtain ⟨h1, h2, _, h4⟩ := h
      refine ⟨h1, h2, ?_⟩
      cases gs with
      | nil => rfl
      | cons b bs =>
        have := hne b (by simp)
        simp at h4
        exact absurd h4.1 this
    | error =>
      simp only [Prod.mk.injEq, List.append_eq_nil_iff] at h ⊢
      obtain ⟨h1, h2, _, h4⟩ := h
      refine ⟨h1, h2, ?_⟩
      cases gs with
      | nil => rfl
      | cons b bs =>
        have := hne b (by simp)
        simp at h4
        exact absurd h4.1 this

end PynetVerif.Dimse
