import PynetVerif.Lemmas.PduRoundtrip
/-! `encOk p → lengthsExact (encode p)`: every PDU length, item length and embedded sub-length of the
encoder output equals the number of bytes it governs (checked by the independent walker of
`Model/PduWf.lean`). -/
namespace PynetVerif.Pdu
open PynetVerif.Framing (be32)

theorem be16' {n : Nat} (h : n < 65536) : (u8 (n / 256)).toNat * 256 + (u8 (n % 256)).toNat = n := be16_u16 h

/-! ## walkers: fuel and TLV -/

theorem walk_fuel (check : UInt8 → Bytes → Bool) : ∀ (f1 f2 : Nat) (b : Bytes), b.length ≤ f1 → b.length ≤ f2 →
    walk check f1 b = walk check f2 b := by
  intro f1
  induction f1 with
  | zero =>
    intro f2 b h1 _
    have : b = [] := List.eq_nil_of_length_eq_zero (by omega)
    subst this; cases f2 <;> rfl
  | succ f1 ih =>
    intro f2 b h1 h2
    cases b with
    | nil => cases f2 <;> rfl
    | cons t tl =>
      cases f2 with
      | zero => simp at h2
      | succ f2 =>
        match tl with
        | [] => rfl
        | [_] => rfl
        | [_, _] => rfl
        | r :: h :: l :: rest =>
          simp only [walk]
          have hd : (rest.drop (h.toNat * 256 + l.toNat)).length ≤ rest.length := by simp
          simp only [List.length_cons] at h1 h2
          rw [ih f2 (rest.drop (h.toNat * 256 + l.toNat)) (by omega) (by omega)]

theorem walk_tlv (check : UInt8 → Bytes → Bool) (t r : UInt8) (body rest : Bytes) (h : body.length < 65536) :
    walk check (tlv t r body ++ rest).length (tlv t r body ++ rest) =
      (check t body && walk check rest.length rest) := by
  have hb := be16' h
  have hle : Nat.ble body.length (body.length + rest.length) = true := by simp
  simp only [tlv, u16, List.cons_append, List.nil_append, List.length_cons, List.length_append, walk, hb,
    take_app, drop_app, hle, Bool.true_and]
  rw [walk_fuel check (body.length + rest.length + 1 + 1 + 1) rest.length rest (by omega) (Nat.le_refl _)]

theorem walk_flatMap {α : Type} (check : UInt8 → Bytes → Bool) (enc : α → Bytes) (xs : List α)
    (h : ∀ x ∈ xs, ∃ t r body, enc x = tlv t r body ∧ body.length < 65536 ∧ check t body = true) :
    walk check (xs.flatMap enc).length (xs.flatMap enc) = true := by
  induction xs with
  | nil => rfl
  | cons x xs ih =>
    obtain ⟨t, r, body, he, hl, hc⟩ := h x (by simp)
    simp only [List.flatMap_cons, he, walk_tlv check t r body _ hl, hc, Bool.true_and]
    exact ih (fun y hy => h y (by simp [hy]))

theorem walkRel_fuel : ∀ (f1 f2 : Nat) (b : Bytes), b.length ≤ f1 → b.length ≤ f2 → walkRel f1 b = walkRel f2 b := by
  intro f1
  induction f1 with
  | zero =>
    intro f2 b h1 _
    have : b = [] := List.eq_nil_of_length_eq_zero (by omega)
    subst this; cases f2 <;> rfl
  | succ f1 ih =>
    intro f2 b h1 h2
    cases b with
    | nil => cases f2 <;> rfl
    | cons t tl =>
      cases f2 with
      | zero => simp at h2
      | succ f2 =>
        match tl with
        | [] => rfl
        | l :: rest =>
          simp only [walkRel]
          have hd : (rest.drop (t.toNat * 256 + l.toNat)).length ≤ rest.length := by simp
          simp only [List.length_cons] at h1 h2
          rw [ih f2 (rest.drop (t.toNat * 256 + l.toNat)) (by omega) (by omega)]

theorem walkRel_enc (rel : List Bytes) (h : (encRelated rel).length < 65536) :
    walkRel (encRelated rel).length (encRelated rel) = true := by
  induction rel with
  | nil => rfl
  | cons u us ih =>
    have e : encRelated (u :: us) = u16 u.length ++ u ++ encRelated us := by
      simp [encRelated, List.flatMap_cons]
    rw [e] at h ⊢
    simp only [List.length_append, u16_length] at h
    have hb := be16' (by omega : u.length < 65536)
    have hle : Nat.ble u.length (u.length + (encRelated us).length) = true := by simp
    simp only [u16, List.cons_append, List.nil_append, List.length_cons, List.length_append, walkRel, hb,
      drop_app, hle, Bool.true_and]
    rw [walkRel_fuel (u.length + (encRelated us).length + 1) (encRelated us).length _ (by omega) (Nat.le_refl _)]
    exact ih (by omega)

theorem walkPdv_fuel : ∀ (f1 f2 : Nat) (b : Bytes), b.length ≤ f1 → b.length ≤ f2 → walkPdv f1 b = walkPdv f2 b := by
  intro f1
  induction f1 with
  | zero =>
    intro f2 b h1 _
    have : b = [] := List.eq_nil_of_length_eq_zero (by omega)
    subst this; cases f2 <;> rfl
  | succ f1 ih =>
    intro f2 b h1 h2
    cases b with
    | nil => cases f2 <;> rfl
    | cons t tl =>
      cases f2 with
      | zero => simp at h2
      | succ f2 =>
        match tl with
        | [] => rfl
        | [_] => rfl
        | [_, _] => rfl
        | b2 :: c :: d :: rest =>
          simp only [walkPdv]
          have hd : (rest.drop (be32 t b2 c d)).length ≤ rest.length := by simp
          simp only [List.length_cons] at h1 h2
          rw [ih f2 (rest.drop (be32 t b2 c d)) (by omega) (by omega)]

theorem walkPdv_flatMap (pdvs : List PDV) (h : pdvs.all pdvOk = true) :
    walkPdv (pdvs.flatMap encPdv).length (pdvs.flatMap encPdv) = true := by
  induction pdvs with
  | nil => rfl
  | cons p ps ih =>
    simp only [List.all_cons, Bool.and_eq_true] at h
    have hp := h.1
    simp only [pdvOk, Bool.and_eq_true, lt8_iff, Nat.blt_eq] at hp
    have hb := be32_u32 (by omega : 1 + p.data.length < 4294967296)
    have e : encPdv p ++ ps.flatMap encPdv =
        u8 ((1 + p.data.length) / 16777216) :: u8 ((1 + p.data.length) / 65536 % 256) ::
        u8 ((1 + p.data.length) / 256 % 256) :: u8 ((1 + p.data.length) % 256) ::
        ((u8 p.id :: p.data) ++ ps.flatMap encPdv) := by simp [encPdv, u32]
    have hlen : (u8 p.id :: p.data).length = 1 + p.data.length := by simp; omega
    simp only [List.flatMap_cons, e, List.length_cons, walkPdv, hb, drop_app' hlen]
    have h1 : Nat.ble 1 (1 + p.data.length) = true := by simp
    have h2 : Nat.ble (1 + p.data.length) ((u8 p.id :: p.data) ++ ps.flatMap encPdv).length = true := by
      simp; omega
    rw [h1, h2, Bool.true_and, Bool.true_and]
    rw [walkPdv_fuel _ (ps.flatMap encPdv).length _ (by simp only [List.length_append, List.length_cons]; omega)
      (Nat.le_refl _)]
    exact ih h.2

/-! ## items -/

theorem checkUser_enc (s : UserSub) (h : userOk s = true) (hf : userFits s = true) :
    ∃ t r body, encUser s = tlv t r body ∧ body.length < 65536 ∧ checkUser t body = true := by
  have hfit : (encUser s).length < 65540 := by simpa [userFits] using hf
  cases s with
  | maxLen n => exact ⟨0x51, 0, u32 n, rfl, by simp, by simp [checkUser]⟩
  | implUid u =>
    exact ⟨0x52, 0, u, rfl, by simp [encUser, tlv_length] at hfit; omega, by simp [checkUser]⟩
  | asyncOps i p => exact ⟨0x53, 0, u16 i ++ u16 p, rfl, by simp, by simp [checkUser]⟩
  | role u scu scp =>
    have hl : u.length < 65536 := by simp [encUser, tlv_length] at hfit; omega
    refine ⟨0x54, 0, _, rfl, by simp [encUser, tlv_length] at hfit ⊢; omega, ?_⟩
    simp [checkUser, u16, be16' hl]
  | implVer n =>
    exact ⟨0x55, 0, n, rfl, by simp [encUser, tlv_length] at hfit; omega, by simp [checkUser]⟩
  | sopExt u info =>
    have hl : u.length < 65536 := by simp [encUser, tlv_length] at hfit; omega
    refine ⟨0x56, 0, _, rfl, by simp [encUser, tlv_length] at hfit ⊢; omega, ?_⟩
    simp [checkUser, u16, be16' hl]
  | commonExt v sop svc rel =>
    simp only [userOk, Bool.and_eq_true, lt16_iff] at h
    have hrl := h.2
    have hlen : 4 + (2 + sop.length + (2 + svc.length + (2 + (encRelated rel).length))) < 65540 := by
      simp [encUser, tlv_length] at hfit; omega
    refine ⟨0x57, u8 v, _, rfl, by simp; omega, ?_⟩
    have h1 := be16' (by omega : sop.length < 65536)
    have h2 := be16' (by omega : svc.length < 65536)
    have h3 := be16' hrl
    simp only [checkUser, u16, List.cons_append, List.nil_append, h1, drop_app, h2, h3,
      walkRel_enc rel hrl, List.length_append, List.length_cons]
    simp
  | userIdRq t r p s =>
    simp only [userOk, Bool.and_eq_true, lt16_iff] at h
    refine ⟨0x58, 0, _, rfl, by simp [encUser, tlv_length] at hfit ⊢; omega, ?_⟩
    simp [checkUser, u16, be16' h.1.2, be16' h.2]
  | userIdAc resp =>
    have hl : resp.length < 65536 := by simp [encUser, tlv_length] at hfit; omega
    refine ⟨0x59, 0, _, rfl, by simp [encUser, tlv_length] at hfit ⊢; omega, ?_⟩
    simp [checkUser, u16, be16' hl]

theorem encVar_pcAc_tlv (id res : Nat) {subs : List SynItem} (h1 : subs.length ≤ 1) :
    encVar (.pcAc id res subs) = tlv 0x21 0 (u8 id :: 0 :: u8 res :: 0 :: subs.flatMap encSyn) := by
  simp only [encVar, tlv, firstLen_of_le_one h1, List.length_cons]
  have : 4 + (subs.flatMap encSyn).length = (subs.flatMap encSyn).length + 1 + 1 + 1 + 1 := by omega
  rw [this]

theorem walk_syn (k : Bool) (subs : List SynItem) (hs : subs.all (synOk k) = true) (f : Nat)
    (hf : (subs.flatMap encSyn).length ≤ f) :
    walk (fun _ _ => true) f (subs.flatMap encSyn) = true := by
  rw [walk_fuel _ f (subs.flatMap encSyn).length _ hf (Nat.le_refl _)]
  exact walk_flatMap _ encSyn subs (fun x hx => by
    obtain ⟨t, r, body, he, hl, _⟩ := synRt k x (List.all_eq_true.mp hs x hx)
    exact ⟨t, r, body, he, hl, rfl⟩)

theorem checkVar_10 (b : Bytes) : checkVar 0x10 b = true := by simp [checkVar]
theorem checkVar_20 (b : Bytes) : checkVar 0x20 b = (Nat.ble 4 b.length && walk (fun _ _ => true) b.length (b.drop 4)) := by
  simp [checkVar]
theorem checkVar_21 (b : Bytes) : checkVar 0x21 b = (Nat.ble 4 b.length && walk (fun _ _ => true) b.length (b.drop 4)) := by
  simp [checkVar]
theorem checkVar_50 (b : Bytes) : checkVar 0x50 b = walk checkUser b.length b := by simp [checkVar]

theorem checkVar_enc (v : VarItem) (h : varOk v = true) :
    ∃ t r body, encVar v = tlv t r body ∧ body.length < 65536 ∧ checkVar t body = true := by
  cases v with
  | appCtx u =>
    simp only [varOk, Bool.and_eq_true, lt16_iff] at h
    exact ⟨0x10, 0, u, rfl, h.2, checkVar_10 u⟩
  | pcRq id subs =>
    simp only [varOk, Bool.and_eq_true, lt8_iff, Nat.blt_eq] at h
    obtain ⟨⟨_, hs⟩, hl⟩ := h
    refine ⟨0x20, 0, _, rfl, by simp only [List.length_cons]; omega, ?_⟩
    have hw := walk_syn false subs hs ((subs.flatMap encSyn).length + 1 + 1 + 1 + 1) (by omega)
    rw [checkVar_20]
    simp only [List.length_cons, List.drop_succ_cons, List.drop_zero, hw, Bool.and_true, Nat.ble_eq]
    omega
  | pcAc id res subs =>
    simp only [varOk, Bool.and_eq_true, lt8_iff, Nat.blt_eq, Nat.ble_eq] at h
    obtain ⟨⟨⟨⟨_, _⟩, hs⟩, h1⟩, hl⟩ := h
    refine ⟨0x21, 0, _, encVar_pcAc_tlv id res h1, by simp only [List.length_cons]; omega, ?_⟩
    have hw := walk_syn (res != 0) subs hs ((subs.flatMap encSyn).length + 1 + 1 + 1 + 1) (by omega)
    rw [checkVar_21]
    simp only [List.length_cons, List.drop_succ_cons, List.drop_zero, hw, Bool.and_true, Nat.ble_eq]
    omega
  | userInfo subs =>
    simp only [varOk, Bool.and_eq_true, lt16_iff] at h
    refine ⟨0x50, 0, _, rfl, h.2, ?_⟩
    have hw := walk_flatMap checkUser encUser subs (fun x hx => by
      have := List.all_eq_true.mp h.1 x hx
      simp only [Bool.and_eq_true] at this
      exact checkUser_enc x this.1 this.2)
    rw [checkVar_50, hw]

/-! ## PDUs -/

theorem lengthsExact_cons6 (t r a b c d : UInt8) (body : Bytes) :
    lengthsExact (t :: r :: a :: b :: c :: d :: body) =
      (body.length == be32 a b c d &&
        (if t = 1 || t = 2 then Nat.ble 68 body.length && walk checkVar body.length (body.drop 68)
         else if t = 4 then walkPdv body.length body
         else body.length == 4)) := rfl

theorem encAssoc_body (t : UInt8) (ver : Nat) (c g : Bytes) (items : List VarItem)
    (hc : c.length ≤ 16) (hg : g.length ≤ 16) :
    ∃ body, encAssoc t ver c g items =
        t :: 0 :: u8 ((68 + (items.map lenVar).sum) / 16777216) :: u8 ((68 + (items.map lenVar).sum) / 65536 % 256) ::
          u8 ((68 + (items.map lenVar).sum) / 256 % 256) :: u8 ((68 + (items.map lenVar).sum) % 256) :: body ∧
      body.length = 68 + (items.flatMap encVar).length ∧ body.drop 68 = items.flatMap encVar := by
  refine ⟨(encAssoc t ver c g items).drop 6, rfl, ?_, ?_⟩
  · have : (encAssoc t ver c g items).drop 6 = u16 ver ++ (0 :: 0 :: (ljust 16 c ++ (ljust 16 g ++
        (List.replicate 32 0 ++ items.flatMap encVar)))) := rfl
    rw [this]
    simp only [List.length_append, u16_length, List.length_cons, ljust_length hc, ljust_length hg,
      List.length_replicate]
    omega
  · rw [List.drop_drop]
    exact (encAssoc_slices t ver c g items hc hg).2.2

theorem lengthsExact_assoc (t : UInt8) (ht : t = 1 ∨ t = 2) (ver : Nat) (c g : Bytes) (items : List VarItem)
    (hc : c.length ≤ 16) (hg : g.length ≤ 16) (hi : items.all varOk = true)
    (hl : (items.flatMap encVar).length < 4294967228) :
    lengthsExact (encAssoc t ver c g items) = true := by
  obtain ⟨body, he, hbl, hbd⟩ := encAssoc_body t ver c g items hc hg
  have hsum := sum_lenVar items hi
  have hb := be32_u32 (by omega : 68 + (items.map lenVar).sum < 4294967296)
  have hw := walk_flatMap checkVar encVar items (fun x hx => checkVar_enc x (List.all_eq_true.mp hi x hx))
  rw [he, lengthsExact_cons6, hb, hbd, hbl, hsum]
  have ht' : (t = 1 || t = 2) = true := by rcases ht with rfl | rfl <;> rfl
  rw [walk_fuel checkVar (68 + (items.flatMap encVar).length) (items.flatMap encVar).length _ (by omega)
    (Nat.le_refl _), hw]
  simp [ht']

/-- **every length field of the encoder output is exact** -/
theorem lengthsExact_encode (p : PDU) (h : encOk p = true) : lengthsExact (encode p) = true := by
  cases p with
  | rq ver called calling items =>
    simp only [encOk, Bool.and_eq_true, Nat.blt_eq] at h
    obtain ⟨⟨⟨⟨_, hc⟩, hg⟩, hi⟩, hl⟩ := h
    have hcl : called.length ≤ 16 := by
      simp only [aeRqOk, Bool.and_eq_true, Nat.ble_eq] at hc; exact hc.1.1.2
    have hgl : calling.length ≤ 16 := by
      simp only [aeRqOk, Bool.and_eq_true, Nat.ble_eq] at hg; exact hg.1.1.2
    exact lengthsExact_assoc 1 (Or.inl rfl) ver called calling items hcl hgl hi hl
  | ac ver called calling items =>
    simp only [encOk, Bool.and_eq_true, Nat.blt_eq] at h
    obtain ⟨⟨⟨⟨_, hc⟩, hg⟩, hi⟩, hl⟩ := h
    have hcl : called.length ≤ 16 := by
      simp only [aeAcOk, Bool.and_eq_true, Nat.ble_eq] at hc; exact hc.2
    have hgl : calling.length ≤ 16 := by
      simp only [aeAcOk, Bool.and_eq_true, Nat.ble_eq] at hg; exact hg.2
    exact lengthsExact_assoc 2 (Or.inr rfl) ver called calling items hcl hgl hi hl
  | rj r s d => simp [encode, lengthsExact, be32]
  | pdata pdvs =>
    simp only [encOk, Bool.and_eq_true, lt32_iff] at h
    have hsum : (pdvs.map (fun p => 5 + p.data.length)).sum = (pdvs.flatMap encPdv).length := by
      clear h
      induction pdvs with
      | nil => rfl
      | cons p ps ih =>
        simp only [List.map_cons, List.sum_cons, List.flatMap_cons, List.length_append, ih]
        simp [encPdv]; omega
    have e : encode (.pdata pdvs) = 4 :: 0 :: u8 ((pdvs.flatMap encPdv).length / 16777216) ::
        u8 ((pdvs.flatMap encPdv).length / 65536 % 256) :: u8 ((pdvs.flatMap encPdv).length / 256 % 256) ::
        u8 ((pdvs.flatMap encPdv).length % 256) :: pdvs.flatMap encPdv := by
      simp only [encode, hsum, u32, List.cons_append, List.nil_append]
    rw [e, lengthsExact_cons6, be32_u32 h.2, walkPdv_flatMap pdvs h.1]
    simp
  | relRq => simp [encode, lengthsExact, be32]
  | relRp => simp [encode, lengthsExact, be32]
  | abort s r => simp [encode, lengthsExact, be32]

end PynetVerif.Pdu
