import PynetVerif.Lemmas.PairStep
/-!
The single-reactor invariant the agreement proof of the product model rests on (`SInv`): under
synchronously-admissible local behaviour, no injected send failure, and a peer that delivers only
well-formed PDUs (`GoodWire`: what `wireOf` produces) or EOF —
* no Evt19 is ever queued, the received-PDU queue stays aligned with the PDU events of the event
  queue (outside Sta13), and only A-ABORT PDUs carry the `alt` bit;
* every queued Evt17 is justified: the socket object is closed, or the connect failed (Sta4), or EOF
  is at the head of the inbox and no PDU event is queued behind it;
* `connectOk`/`connectFail` are only ever queued in Sta4.
-/
namespace PynetVerif
open Dul Fsm

namespace PairL

/-- a readable item the other reactor can produce: EOF, or a PDU whose `alt` bit is only set on A-ABORT -/
def GoodWire (w : Wire) : Prop := w = .eof ∨ ∃ e alt, w = .pdu e alt ∧ pduEv e = true ∧ (alt = true → e = 16)

theorem goodWire_wireOk {w : Wire} (h : GoodWire w) : wireOk w = true := by
  rcases h with h | ⟨e, alt, h, he, _⟩ <;> subst h
  · rfl
  · exact he

/-- every queued Evt17 is justified -/
def K (x : St) : Prop :=
  x.kill = false → ∀ pre post, x.eventQ = pre ++ 17 :: post →
    x.connected = false ∨ x.fsm = 4 ∨ (x.inbox.head? = some .eof ∧ ∀ z ∈ post, pduEv z = false)

structure Core (x : St) : Prop where
  nb : x.broken = false
  p4 : x.kill = false → ∀ p ∈ x.provQ, userPrim p = false → x.fsm = 4
  n19 : ∀ z ∈ x.eventQ, z ≠ 19
  box : ∀ w ∈ x.inbox, GoodWire w
  rcv : ∀ q ∈ x.recvPdu, q.2 = true → q.1 = 16
  al : x.kill = false → x.fsm ≠ 13 → x.recvPdu.map (·.1) = x.eventQ.filter pduEv
  nr : x.kill = false → x.fsm = 1 → x.connected = !x.requestor
  snt : ∀ f ∈ x.sent, isSend f = true
  k : K x

structure SInv (x : St) : Prop where
  inv : C05Inv.Inv x
  core : Core x

theorem core_init (requestor : Bool) : Core (if requestor then initRequestor else initAcceptor) := by
  cases requestor
  · refine { nb := rfl, p4 := ?_, n19 := ?_, box := ?_, rcv := ?_, al := ?_, nr := ?_, snt := ?_, k := ?_ }
    · intro _ p hp; cases hp
    · intro z hz; simp [initAcceptor] at hz; omega
    · intro w hw; cases hw
    · intro q hq; cases hq
    · intro _ _; rfl
    · intro _ _; rfl
    · intro f hf; cases hf
    · intro _ pre post h
      exfalso
      have h' : initAcceptor.eventQ = pre ++ 17 :: post := h
      have : (17 : Nat) ∈ initAcceptor.eventQ := by rw [h']; simp
      simp [initAcceptor] at this
  · refine { nb := rfl, p4 := ?_, n19 := ?_, box := ?_, rcv := ?_, al := ?_, nr := ?_, snt := ?_, k := ?_ }
    · intro _ p hp; cases hp
    · intro z hz; cases hz
    · intro w hw; cases hw
    · intro q hq; cases hq
    · intro _ _; rfl
    · intro _ _; rfl
    · intro f hf; cases hf
    · intro _ pre post h
      exfalso
      have h' : initRequestor.eventQ = pre ++ 17 :: post := h
      have : (17 : Nat) ∈ initRequestor.eventQ := by rw [h']; simp
      simp [initRequestor] at this

/-! ### list helpers -/

theorem append_eq_split {α : Type} {l1 l2 pre post : List α} {x : α} (h : l1 ++ l2 = pre ++ x :: post) :
    (∃ post1, l1 = pre ++ x :: post1 ∧ post = post1 ++ l2) ∨ (∃ pre2, pre = l1 ++ pre2 ∧ l2 = pre2 ++ x :: post) := by
  rcases List.append_eq_append_iff.mp h with ⟨a', h1, h2⟩ | ⟨c', h1, h2⟩
  · -- pre = l1 ++ a', l2 = a' ++ x :: post
    exact Or.inr ⟨a', h1, h2⟩
  · -- l1 = pre ++ c', x :: post = c' ++ l2
    cases c' with
    | nil =>
      simp only [List.nil_append] at h2
      exact Or.inr ⟨[], by simpa using h1.symm ▸ (by simp), h2.symm⟩
    | cons y ys =>
      simp only [List.cons_append, List.cons.injEq] at h2
      obtain ⟨hy, hp⟩ := h2
      subst hy
      exact Or.inl ⟨ys, h1, hp⟩

/-! ### environment steps -/

theorem core_env_peer (x : St) (w : Wire) (hw : GoodWire w) (h : Core x) : Core (env (.peer w) x) := by
  refine { nb := h.nb, p4 := h.p4, n19 := h.n19, box := ?_, rcv := h.rcv, al := h.al, nr := h.nr, snt := h.snt, k := ?_ }
  · intro w' hw'
    rcases List.mem_append.mp hw' with h' | h'
    · exact h.box w' h'
    · simp only [List.mem_singleton] at h'; subst h'; exact hw
  · intro hk pre post hq
    rcases h.k hk pre post hq with d | d | ⟨d1, d2⟩
    · exact Or.inl d
    · exact Or.inr (Or.inl d)
    · refine Or.inr (Or.inr ⟨?_, d2⟩)
      show (x.inbox ++ [w]).head? = some .eof
      cases hi : x.inbox with
      | nil => rw [hi] at d1; cases d1
      | cons y ys => rw [hi] at d1; simpa using d1

theorem core_env_local (x : St) (p : Prim) (hp : userPrim p = true) (h : Core x) : Core (env (.local p) x) := by
  refine { nb := h.nb, p4 := ?_, n19 := h.n19, box := h.box, rcv := h.rcv, al := h.al, nr := h.nr, snt := h.snt, k := h.k }
  intro hk q hq hu
  rcases List.mem_append.mp hq with h' | h'
  · exact h.p4 hk q h' hu
  · simp only [List.mem_singleton] at h'; subst h'; rw [hp] at hu; cases hu

theorem core_env (x : St) (e : Env) (hok : stepOkSync x (.env e) = true) (hnb : e ≠ .breakConn)
    (hpeer : ∀ w, e = .peer w → GoodWire w) (h : Core x) : Core (env e x) := by
  cases e with
  | peer w => exact core_env_peer x w (hpeer w rfl) h
  | breakConn => exact absurd rfl hnb
  | artimFire => exact ⟨h.nb, h.p4, h.n19, h.box, h.rcv, h.al, h.nr, h.snt, h.k⟩
  | connectWillFail => exact ⟨h.nb, h.p4, h.n19, h.box, h.rcv, h.al, h.nr, h.snt, h.k⟩
  | «local» p =>
    simp only [stepOkSync, Bool.and_eq_true] at hok
    exact core_env_local x p hok.1.2 h

/-! ### phase A -/

/-- queuing an event that is neither a PDU event nor Evt17/Evt19 -/
theorem core_push_other (x : St) (z : Nat) (hz : pduEv z = false) (h17 : z ≠ 17) (h19 : z ≠ 19) (h : Core x) :
    Core { x with eventQ := x.eventQ ++ [z] } := by
  refine { nb := h.nb, p4 := h.p4, n19 := ?_, box := h.box, rcv := h.rcv, al := ?_, nr := h.nr, snt := h.snt, k := ?_ }
  · intro y hy
    rcases List.mem_append.mp hy with h' | h'
    · exact h.n19 y h'
    · simp only [List.mem_singleton] at h'; subst h'; exact h19
  · intro hk h13
    show x.recvPdu.map (·.1) = (x.eventQ ++ [z]).filter pduEv
    rw [filter_pduEv_append_single _ _ hz]; exact h.al hk h13
  · intro hk pre post hq
    rcases append_eq_split (show x.eventQ ++ [z] = pre ++ 17 :: post from hq) with ⟨post1, h1, h2⟩ | ⟨pre2, _, h2⟩
    · rcases h.k hk pre post1 h1 with d | d | ⟨d1, d2⟩
      · exact Or.inl d
      · exact Or.inr (Or.inl d)
      · refine Or.inr (Or.inr ⟨d1, ?_⟩)
        intro y hy; rw [h2] at hy
        rcases List.mem_append.mp hy with h' | h'
        · exact d2 y h'
        · simp only [List.mem_singleton] at h'; subst h'; exact hz
    · exfalso
      cases pre2 with
      | nil => simp only [List.nil_append, List.cons.injEq] at h2; exact h17 h2.1
      | cons y ys => simp at h2

/-- queuing a justified Evt17 -/
theorem core_push_17 (x : St) (hj : x.connected = false ∨ x.fsm = 4 ∨ x.inbox.head? = some .eof) (h : Core x) :
    Core { x with eventQ := x.eventQ ++ [17] } := by
  refine { nb := h.nb, p4 := h.p4, n19 := ?_, box := h.box, rcv := h.rcv, al := ?_, nr := h.nr, snt := h.snt, k := ?_ }
  · intro y hy
    rcases List.mem_append.mp hy with h' | h'
    · exact h.n19 y h'
    · simp only [List.mem_singleton] at h'; subst h'; decide
  · intro hk h13
    show x.recvPdu.map (·.1) = (x.eventQ ++ [17]).filter pduEv
    rw [filter_pduEv_append_single _ _ (by decide)]; exact h.al hk h13
  · intro hk pre post hq
    rcases append_eq_split (show x.eventQ ++ [17] = pre ++ 17 :: post from hq) with ⟨post1, h1, h2⟩ | ⟨pre2, _, h2⟩
    · rcases h.k hk pre post1 h1 with d | d | ⟨d1, d2⟩
      · exact Or.inl d
      · exact Or.inr (Or.inl d)
      · refine Or.inr (Or.inr ⟨d1, ?_⟩)
        intro y hy; rw [h2] at hy
        rcases List.mem_append.mp hy with h' | h'
        · exact d2 y h'
        · simp only [List.mem_singleton] at h'; subst h'; decide
    · have hpost : post = [] := by
        cases pre2 with
        | nil => simp only [List.nil_append, List.cons.injEq] at h2; exact h2.2.symm
        | cons y ys => simp at h2
      subst hpost
      rcases hj with d | d | d
      · exact Or.inl d
      · exact Or.inr (Or.inl d)
      · exact Or.inr (Or.inr ⟨d, fun _ hy => nomatch hy⟩)

theorem core_phaseB (x : St) (b : Bool) (h : Core x) : Core { x with phaseB := b } :=
  ⟨h.nb, h.p4, h.n19, h.box, h.rcv, h.al, h.nr, h.snt, h.k⟩

theorem core_readTransport (x : St) (h : Core x) : Core (readTransport x) := by
  unfold readTransport
  split
  · exact h
  · rename_i e alt rest heq
    have hg : GoodWire (.pdu e alt) := h.box _ (by rw [heq]; simp)
    obtain ⟨hpe, halt⟩ : pduEv e = true ∧ (alt = true → e = 16) := by
      rcases hg with hg | ⟨e', alt', hg, h1, h2⟩
      · cases hg
      · cases hg; exact ⟨h1, h2⟩
    refine { nb := h.nb, p4 := h.p4, n19 := ?_, box := ?_, rcv := ?_, al := ?_, nr := h.nr, snt := h.snt, k := ?_ }
    · intro y hy
      rcases List.mem_append.mp hy with h' | h'
      · exact h.n19 y h'
      · simp only [List.mem_singleton] at h'; subst h'; intro h19; rw [h19] at hpe; cases hpe
    · intro w hw; exact h.box w (by rw [heq]; exact List.mem_cons_of_mem _ hw)
    · intro q hq
      rcases List.mem_append.mp hq with h' | h'
      · exact h.rcv q h'
      · simp only [List.mem_singleton] at h'; subst h'; exact halt
    · intro hk h13
      show (x.recvPdu ++ [(e, alt)]).map (·.1) = (x.eventQ ++ [e]).filter pduEv
      rw [List.map_append, List.filter_append, h.al hk h13]
      simp [List.filter, hpe]
    · intro hk pre post hq
      rcases append_eq_split (show x.eventQ ++ [e] = pre ++ 17 :: post from hq) with ⟨post1, h1, h2⟩ | ⟨pre2, _, h2⟩
      · rcases h.k hk pre post1 h1 with d | d | ⟨d1, _⟩
        · exact Or.inl d
        · exact Or.inr (Or.inl d)
        · rw [heq] at d1; cases d1
      · exfalso
        cases pre2 with
        | nil =>
          simp only [List.nil_append, List.cons.injEq] at h2
          rw [h2.1] at hpe; cases hpe
        | cons y ys => simp at h2
  · rename_i rest heq
    exfalso
    rcases h.box .invalid (by rw [heq]; simp) with hg | ⟨_, _, hg, _⟩ <;> cases hg
  · rename_i rest heq
    exact core_push_17 x (Or.inr (Or.inr (by rw [heq]; rfl))) h

theorem core_disconnect (x : St) (h1 : x.kill = true ∨ x.fsm ≠ 1) (h : Core x) : Core { x with connected := false } := by
  refine { nb := h.nb, p4 := h.p4, n19 := h.n19, box := h.box, rcv := h.rcv, al := h.al, nr := ?_, snt := h.snt, k := ?_ }
  · intro hk hf
    rcases h1 with h1 | h1
    · rw [hk] at h1; cases h1
    · exact absurd hf h1
  · intro _ _ _ _; exact Or.inl rfl

theorem core_closeSock (x : St) (h1 : x.kill = true ∨ x.fsm ≠ 1) (h : Core x) : Core (closeSock x) := by
  unfold closeSock
  split
  · exact core_push_17 { x with connected := false } (Or.inl rfl) (core_disconnect x h1 h)
  · exact h

theorem prim_event_ne_19 (p : Prim) : p.event ≠ 19 := by cases p <;> simp [Prim.event]

theorem prim_event_17 {p : Prim} (h : p.event = 17) : p = .connectFail := by
  cases p <;> first | rfl | (simp [Prim.event] at h)

theorem core_iterA (x : St) (h : Core x) : Core (iterA x) := by
  rw [iterA_unfold]
  split
  · exact h
  rename_i hlive
  have hk : x.kill = false := by
    cases hkk : x.kill with
    | false => rfl
    | true => simp [St.live, hkk] at hlive
  apply core_phaseB
  have h1 : Core (iterA1 x) := by
    unfold iterA1
    split
    · exact core_push_other x 18 (by decide) (by decide) (by decide) h
    · exact h
  have e1 : (iterA1 x).kill = x.kill ∧ (iterA1 x).fsm = x.fsm ∧ (iterA1 x).provQ = x.provQ := by
    unfold iterA1; split <;> exact ⟨rfl, rfl, rfl⟩
  generalize iterA1 x = y at h1 e1
  obtain ⟨ek, ef, ep⟩ := e1
  unfold iterA2
  split
  · rename_i p ps heq
    by_cases h17 : p.event = 17
    · have hp := prim_event_17 h17
      have h4 : y.fsm = 4 := h1.p4 (ek.trans hk) p (by rw [heq]; simp) (by rw [hp]; rfl)
      rw [h17]
      exact core_push_17 y (Or.inr (Or.inl h4)) h1
    · exact core_push_other y p.event (C05Inv.pduEv_prim p) h17 (prim_event_ne_19 p) h1
  · unfold readOrClose
    split
    · rename_i h13
      split
      · exact core_readTransport y h1
      · exact core_closeSock y (Or.inr (by rw [h13]; decide)) h1
    · split
      · exact core_readTransport y h1
      · exact h1

/-! ### phase B: table facts and helpers -/

/-- further facts about one table row -/
def RowOk2 (e st : Nat) (a : Action) : Prop :=
  (pduEv e = true → st ≠ 13 → ∀ req alt b : Bool,
    (effB a req alt b).2 = 13 ∨ (effB a req alt b).2 = 1 ∨ popsPdu a = true) ∧
  (st = 13 → ∀ req alt b : Bool, (effB a req alt b).2 = 13 ∨ (effB a req alt b).2 = 1) ∧
  ((a = .DT_2 ∨ a = .AR_6) → e = 10 ∧ st ≠ 13 ∧ popsPdu a = true) ∧
  (a = .AE_6 → e = 6 ∧ st = 2 ∧ popsPdu a = true) ∧
  (st = 4 → popsPrim a = true ∨ ∀ req alt b : Bool, (effB a req alt b).2 = 1) ∧
  (1 ≤ e ∧ e ≤ 19)

instance (e st : Nat) (a : Action) : Decidable (RowOk2 e st a) := by unfold RowOk2; infer_instance

theorem rowOk2_all : ∀ row ∈ Spec.Ps38.table, RowOk2 row.1 row.2.1 row.2.2 := by decide +kernel

theorem rowOk2 {e st : Nat} {a : Action} (h : lookup Spec.Ps38.table e st = some a) : RowOk2 e st a :=
  rowOk2_all (e, st, a) (lookup_mem h)

theorem popInputs_provQ_subset (s : St) (a : Action) : ∀ p ∈ (popInputs s a).provQ, p ∈ s.provQ := by
  rw [popInputs_provQ]
  have h1 : ∀ p ∈ (popPrimQ s a).provQ, p ∈ s.provQ := by
    unfold popPrimQ; split
    · intro p hp; exact List.mem_of_mem_tail hp
    · intro p hp; exact hp
  intro p hp
  apply h1
  unfold popAbortQ at hp
  split at hp
  · split at hp
    · rename_i heq; rw [heq]; exact List.mem_cons_of_mem _ hp
    · exact hp
  · exact hp

/-- in Sta4, and in Sta1 unless the acceptor's Evt5 is at the head, a live reactor in phase B has
exactly one pending primitive and exactly its event queued -/
theorem shape_14 (s : St) (hL : C05Inv.Live s) (hph : s.phaseB = true)
    (h : s.fsm = 4 ∨ (s.fsm = 1 ∧ s.eventQ.head? ≠ some 5)) : ∃ p, s.provQ = [p] ∧ s.eventQ = [p.event] := by
  obtain ⟨_, _, art, _, shape⟩ := hL
  cases shape with
  | loc p hp _ _ hq =>
    rcases hq with ⟨hb, _⟩ | ⟨_, hq⟩
    · rw [hph] at hb; cases hb
    · exact ⟨p, hp, hq⟩
  | tr _ _ h1 h4 _ =>
    rcases h with h | ⟨h, _⟩
    · exact absurd h h4
    · exact absurd h h1
  | acc _ _ h1 r hq _ =>
    rcases h with h | ⟨_, h⟩
    · rw [h1] at h; cases h
    · rw [hq] at h; exact absurd rfl h
  | req _ _ _ _ _ hb => rw [hph] at hb; cases hb
  | exp _ he _ =>
    obtain ⟨_, h213⟩ := C05Inv.artimOk_expired art he
    rcases h with h | ⟨h, _⟩ <;> rcases h213 with h' | h' <;> rw [h] at h' <;> cases h'

/-- the PDU at the head of the received-PDU queue belongs to the PDU event being dispatched, and only
A-ABORT PDUs carry the `alt` bit -/
theorem altOf_false (s : St) (hs : Core s) (hk : s.kill = false) (h13 : s.fsm ≠ 13) (e : Nat) (rest : List Nat)
    (hq : s.eventQ = e :: rest) (hpe : pduEv e = true) (h16 : e ≠ 16) (a : Action) :
    altOf { s with eventQ := rest, phaseB := false } a e = false := by
  unfold altOf
  split
  · have hal := hs.al hk h13
    rw [hq] at hal
    simp only [List.filter, hpe] at hal
    show (match s.recvPdu with | (_, alt) :: _ => alt | [] => false) = false
    cases hr : s.recvPdu with
    | nil => rfl
    | cons q qs =>
      rw [hr] at hal
      simp only [List.map_cons, List.cons.injEq] at hal
      obtain ⟨q1, q2⟩ := q
      simp only at hal ⊢
      cases hq2 : q2 with
      | false => rfl
      | true =>
        have := hs.rcv (q1, q2) (by rw [hr]; simp) hq2
        simp only at this
        rw [hal.1] at this
        exact absurd this h16
  · rfl

/-- everything the product-model proofs need to know about one completed action: `t` is the state
after the action `a` on event `e` popped from `s`'s event queue (`rest` remains) -/
structure Acted (s t : St) (e : Nat) (rest : List Nat) (a : Action) (alt b : Bool) : Prop where
  fsm : t.fsm = (effB a s.requestor alt b).2
  kill : t.kill = (s.kill || (effB a s.requestor alt b).2 == 1)
  inbox : t.inbox = s.inbox
  recvPdu : t.recvPdu = if popsPdu a then s.recvPdu.tail else s.recvPdu
  requestor : t.requestor = s.requestor
  conn : t.connected = (runP s.connectOk s.connected (usedEffs a (effB a s.requestor alt b).1)).conn
  sent : t.sent = (runP s.connectOk s.connected (usedEffs a (effB a s.requestor alt b).1)).sent ++ s.sent
  eventQ : t.eventQ = rest ++ (runP s.connectOk s.connected (usedEffs a (effB a s.requestor alt b).1)).q
  broken : t.broken = false
  log : t.log = ⟨e, s.fsm, some a, (effB a s.requestor alt b).2, true⟩ :: s.log
  altAE6 : a = .AE_6 → alt = false

theorem acted_facts (s : St) (hs : Core s) (hk : s.kill = false) (e : Nat) (rest : List Nat) (a : Action)
    (hq : s.eventQ = e :: rest) (hl : lookup Spec.Ps38.table e s.fsm = some a) :
    ∃ alt b, Acted s (act { s with eventQ := rest, phaseB := false } a e) e rest a alt b := by
  obtain ⟨alt, b, heff, halt⟩ := effectsOf_eq' { s with eventQ := rest, phaseB := false } a e
  obtain ⟨c1, c2, _, _, c5, c6, c7⟩ := act_core { s with eventQ := rest, phaseB := false } a e
  obtain ⟨p1, p2, p3, p4, _⟩ := act_proj { s with eventQ := rest, phaseB := false } a e hs.nb
  obtain ⟨_, _, t3, t4, _, _⟩ := rowOk2 hl
  have hc19 : ((a = .DT_2 || a = .AR_6) && altOf { s with eventQ := rest, phaseB := false } a e) = false := by
    by_cases ha : a = .DT_2 ∨ a = .AR_6
    · obtain ⟨he, h13, _⟩ := t3 ha
      rw [altOf_false s hs hk h13 e rest hq (by rw [he]; rfl) (by rw [he]; decide) a]
      simp
    · have : (decide (a = .DT_2) || decide (a = .AR_6)) = false := by
        simp only [not_or] at ha
        simp [ha.1, ha.2]
      rw [this]; rfl
  have heffs : effsOf { s with eventQ := rest, phaseB := false } a e = usedEffs a (effB a s.requestor alt b).1 := by
    unfold effsOf; rw [heff]
  rw [heffs] at p1 p2 p3
  rw [hc19] at p3
  refine ⟨alt, b, ?_⟩
  refine { fsm := by rw [c1, heff], kill := by rw [c2, heff], inbox := c5, recvPdu := c6, requestor := c7,
           conn := p1, sent := p2, eventQ := ?_, broken := p4, log := by rw [act_log, heff], altAE6 := ?_ }
  · rw [p3]; simp
  · intro ha
    obtain ⟨he, h2, _⟩ := t4 ha
    rw [halt (by rw [ha]; decide)]
    exact altOf_false s hs hk (by rw [h2]; decide) e rest hq (by rw [he]; rfl) (by rw [he]; decide) a

theorem core_acted (s : St) (hs : Core s) (hL : C05Inv.Live s) (hph : s.phaseB = true) (hk : s.kill = false)
    (e : Nat) (rest : List Nat) (a : Action) (hq : s.eventQ = e :: rest)
    (hl : lookup Spec.Ps38.table e s.fsm = some a) :
    Core (act { s with eventQ := rest, phaseB := false } a e) := by
  obtain ⟨alt, b, A⟩ := acted_facts s hs hk e rest a hq hl
  obtain ⟨_, hpdu, _, hae1, _, hR⟩ := rowOk hl
  have hprovQ : a ≠ .AE_1 → (act { s with eventQ := rest, phaseB := false } a e).provQ =
      (popInputs { s with eventQ := rest, phaseB := false } a).provQ := by
    intro ha
    obtain ⟨alt', b', A'⟩ := act_spec { s with eventQ := rest, phaseB := false } a e
    exact A'.provQ ((hR s.requestor alt' b').2.1 ha).1
  generalize act { s with eventQ := rest, phaseB := false } a e = t at A hprovQ
  obtain ⟨r1, r2, rq17, rqc, rcf, _, _⟩ := runOk_table a s.requestor alt b s.connectOk s.connected
  obtain ⟨t1, t2, _, _, t5, _⟩ := rowOk2 hl
  have hn1 : t.kill = false → (effB a s.requestor alt b).2 ≠ 1 := by
    intro h hn; rw [A.kill, hn] at h; simp at h
  -- AE-1 is only dispatched with nothing else queued
  have hae1' : a = .AE_1 → rest = [] := by
    intro ha
    obtain ⟨he, hst⟩ := hae1 ha
    obtain ⟨p, _, hp2⟩ := shape_14 s hL hph (Or.inr ⟨hst, by rw [hq, he]; simp⟩)
    rw [hq] at hp2
    simp only [List.cons.injEq] at hp2
    exact hp2.2
  refine { nb := A.broken, p4 := ?_, n19 := ?_, box := ?_, rcv := ?_, al := ?_, nr := ?_, snt := ?_, k := ?_ }
  · -- connect primitives only in Sta4
    intro hk' p hp hu
    rw [A.fsm]
    by_cases ha : a = .AE_1
    · subst ha; rfl
    · exfalso
      rw [hprovQ ha] at hp
      have hp' := popInputs_provQ_subset _ a p hp
      have h4 : s.fsm = 4 := hs.p4 hk p hp' hu
      obtain ⟨p', hp1, _⟩ := shape_14 s hL hph (Or.inl h4)
      rcases t5 h4 with hpp | h1
      · rw [popInputs_provQ_single { s with eventQ := rest, phaseB := false } a p' hp1 (Or.inl hpp)] at hp
        cases hp
      · exact hn1 hk' (h1 _ _ _)
  · intro z hz
    rw [A.eventQ] at hz
    rcases List.mem_append.mp hz with h' | h'
    · exact hs.n19 z (by rw [hq]; exact List.mem_cons_of_mem _ h')
    · rw [rq17 z h']; decide
  · rw [A.inbox]; exact hs.box
  · intro q hq'
    rw [A.recvPdu] at hq'
    split at hq'
    · exact hs.rcv q (List.mem_of_mem_tail hq')
    · exact hs.rcv q hq'
  · -- alignment
    intro hk' h13
    have hnq : (rest ++ (runP s.connectOk s.connected (usedEffs a (effB a s.requestor alt b).1)).q).filter pduEv =
        rest.filter pduEv := by
      apply filter_pduEv_append_of_all
      intro z hz; rw [rq17 z hz]; rfl
    rw [A.eventQ, hnq, A.recvPdu]
    rw [A.fsm] at h13
    have hn1' := hn1 hk'
    have hs13 : s.fsm ≠ 13 := by
      intro h; rcases t2 h s.requestor alt b with h' | h'
      · exact h13 h'
      · exact hn1' h'
    have hal := hs.al hk hs13
    rw [hq] at hal
    cases hpe : pduEv e with
    | true =>
      have hpp : popsPdu a = true := by
        rcases t1 hpe hs13 s.requestor alt b with h' | h' | h'
        · exact absurd h' h13
        · exact absurd h' hn1'
        · exact h'
      simp only [hpp, ↓reduceIte, List.filter, hpe] at hal ⊢
      rw [List.map_tail, hal]; rfl
    | false =>
      have hpp : popsPdu a = false := by
        cases h : popsPdu a with
        | false => rfl
        | true => rw [hpdu h] at hpe; cases hpe
      simp only [hpp, List.filter, hpe] at hal ⊢
      exact hal
  · intro hk' h1
    rw [A.fsm] at h1
    exact absurd h1 (hn1 hk')
  · intro f hf
    rw [A.sent, r2] at hf
    rcases List.mem_append.mp hf with h' | h'
    · split at h'
      · rename_i f' hf'
        split at h'
        · simp only [List.mem_singleton] at h'; subst h'; exact sendEff_isSend hf'
        · cases h'
      · cases h'
    · exact hs.snt f h'
  · -- Evt17 justification
    intro hk' pre post hq'
    rw [A.eventQ] at hq'
    rcases append_eq_split hq' with ⟨post1, h1, h2⟩ | ⟨pre2, _, h2⟩
    · have hne : a ≠ .AE_1 := by
        intro ha; have := hae1' ha; rw [this] at h1; simp at h1
      rcases hs.k hk (e :: pre) post1 (by rw [hq, h1]; rfl) with d | d | ⟨d1, d2⟩
      · left; rw [A.conn]; exact rcf hne d
      · exfalso
        obtain ⟨p, _, hp2⟩ := shape_14 s hL hph (Or.inl d)
        rw [hq] at hp2
        simp only [List.cons.injEq] at hp2
        rw [hp2.2] at h1; simp at h1
      · refine Or.inr (Or.inr ⟨by rw [A.inbox]; exact d1, ?_⟩)
        intro z hz; rw [h2] at hz
        rcases List.mem_append.mp hz with h' | h'
        · exact d2 z h'
        · rw [rq17 z h']; rfl
    · left
      rw [A.conn]
      apply rqc
      intro hnil; rw [hnil] at h2; simp at h2

theorem core_iterB (x : St) (hinv : C05Inv.Inv x) (h : Core x) : Core (iterB x) := by
  have hpost := C05Inv.iterB_inv x hinv
  rcases iterB_cases x with hi | ⟨_, hi⟩ | hd | ⟨e, rest, a, hq, hk, hph, hl, hi⟩
  · rw [hi]; exact h
  · rw [hi]; exact core_phaseB x false h
  · rw [hpost.1] at hd; cases hd
  · rw [hi]
    have hL : C05Inv.Live x := by
      rcases hinv.2 with h' | h'
      · rw [hk] at h'; cases h'
      · exact h'
    exact core_acted x h hL hph hk e rest a hq hl

/-- **the single-reactor invariant is preserved by every admissible step**: the local user
synchronously admissible, no injected send failure, the peer delivering only what a reactor can send -/
theorem sinv_step (x : St) (st : Step) (hok : stepOkSync x st = true) (hnb : st ≠ .env .breakConn)
    (hpeer : ∀ w, st = .env (.peer w) → GoodWire w) (h : SInv x) : SInv (Dul.step x st) := by
  refine ⟨C05Inv.step_inv x st hok h.inv, ?_⟩
  cases st with
  | env e => exact core_env x e hok (fun he => hnb (by rw [he])) (fun w hw => hpeer w (by rw [hw])) h.core
  | a => exact core_iterA x h.core
  | b => exact core_iterB x h.inv h.core

theorem sinv_init (requestor : Bool) : SInv (if requestor then initRequestor else initAcceptor) :=
  ⟨C05Inv.inv_init requestor, core_init requestor⟩

/-! ### a reactor that has closed stays closed and sends nothing more -/

/-- the reactor has stopped or has left Sta1 (it will not connect again) -/
def Started (x : St) : Prop := x.kill = true ∨ x.fsm ≠ 1

theorem iterB_started (x : St) (hinv : C05Inv.Inv x) (hs : Core x) (h : Started x) : Started (iterB x) := by
  have hpost := C05Inv.iterB_inv x hinv
  rcases iterB_cases x with hi | ⟨_, hi⟩ | hd | ⟨e, rest, a, hq, hk, hph, hl, hi⟩
  · rw [hi]; exact h
  · rw [hi]; exact h
  · rw [hpost.1] at hd; cases hd
  · rw [hi]
    obtain ⟨alt, b, A⟩ := acted_facts x hs hk e rest a hq hl
    by_cases h1 : (effB a x.requestor alt b).2 = 1
    · left; rw [A.kill, h1]; simp
    · right; rw [A.fsm]; exact h1

theorem step_started (x : St) (st : Step) (hok : stepOkSync x st = true) (hx : SInv x) (h : Started x) :
    Started (Dul.step x st) := by
  cases st with
  | env e => cases e <;> exact h
  | a =>
    show Started (iterA x)
    unfold Started
    rw [(iterA_closes_kill x).2, (iterA_log_fsm x).2]; exact h
  | b => exact iterB_started x hx.inv hx.core h

/-- **closed is stable**: once the socket object is closed (or the reactor has stopped), and the
reactor has left Sta1, no step reopens it or puts anything on the wire -/
theorem step_frozen (x : St) (st : Step) (hx : SInv x) (hc : Pair.closed x = true) (hst : Started x) :
    Pair.closed (Dul.step x st) = true ∧ (Dul.step x st).sent = x.sent := by
  cases st with
  | env e => cases e <;> exact ⟨hc, rfl⟩
  | a =>
    show Pair.closed (iterA x) = true ∧ (iterA x).sent = x.sent
    refine ⟨?_, iterA_sent x⟩
    unfold Pair.closed at hc ⊢
    rw [(iterA_closes_kill x).2]
    rcases iterA_connected x with h | ⟨_, _, h⟩
    · rw [h]; exact hc
    · rw [h]; rfl
  | b =>
    show Pair.closed (iterB x) = true ∧ (iterB x).sent = x.sent
    have hpost := C05Inv.iterB_inv x hx.inv
    rcases iterB_cases x with hi | ⟨_, hi⟩ | hd | ⟨e, rest, a, hq, hk, hph, hl, hi⟩
    · rw [hi]; exact ⟨hc, rfl⟩
    · rw [hi]; exact ⟨hc, rfl⟩
    · rw [hpost.1] at hd; cases hd
    · rw [hi]
      obtain ⟨alt, b, A⟩ := acted_facts x hx.core hk e rest a hq hl
      obtain ⟨_, r2, _, _, rcf, _, _⟩ := runOk_table a x.requestor alt b x.connectOk x.connected
      obtain ⟨_, _, _, hae1, _, _⟩ := rowOk hl
      have hconn : x.connected = false := by
        unfold Pair.closed at hc
        rw [hk] at hc
        simpa using hc
      have hne : a ≠ .AE_1 := by
        intro ha
        rcases hst with h | h
        · rw [hk] at h; cases h
        · exact h (hae1 ha).2
      refine ⟨?_, ?_⟩
      · unfold Pair.closed
        rw [A.conn, rcf hne hconn]; rfl
      · rw [A.sent, r2, hconn]
        split <;> simp

/-- what a reactor's own step does to its inbox: nothing, or the head — not EOF — is consumed -/
theorem step_inbox (x : St) (st : Step) (hal : Pair.allowed st = true) :
    (Dul.step x st).inbox = x.inbox ∨ ∃ w, w ≠ .eof ∧ x.inbox = w :: (Dul.step x st).inbox := by
  have hr : ∀ t : St, (readTransport t).inbox = t.inbox ∨ ∃ w, w ≠ .eof ∧ t.inbox = w :: (readTransport t).inbox := by
    intro t; unfold readTransport
    split
    · exact Or.inl rfl
    · rename_i e alt rest heq; exact Or.inr ⟨_, by simp, heq⟩
    · rename_i rest heq; exact Or.inr ⟨_, by simp, heq⟩
    · exact Or.inl rfl
  have hc : ∀ t : St, (closeSock t).inbox = t.inbox := by intro t; unfold closeSock; split <;> rfl
  cases st with
  | env e =>
    cases e with
    | peer w => cases hal
    | _ => exact Or.inl rfl
  | a =>
    show (iterA x).inbox = x.inbox ∨ ∃ w, w ≠ .eof ∧ x.inbox = w :: (iterA x).inbox
    rw [iterA_unfold]
    split
    · exact Or.inl rfl
    have h1 : (iterA1 x).inbox = x.inbox := by unfold iterA1; split <;> rfl
    show (iterA2 (iterA1 x)).inbox = x.inbox ∨ ∃ w, w ≠ .eof ∧ x.inbox = w :: (iterA2 (iterA1 x)).inbox
    rw [← h1]
    generalize iterA1 x = y
    unfold iterA2
    split
    · exact Or.inl rfl
    · unfold readOrClose
      split
      · split
        · exact hr y
        · exact Or.inl (hc y)
      · split
        · exact hr y
        · exact Or.inl rfl
  | b =>
    left
    show (iterB x).inbox = x.inbox
    unfold iterB
    split
    · rfl
    split
    · rfl
    · exact dispatch_inbox _ _

end PairL
end PynetVerif
