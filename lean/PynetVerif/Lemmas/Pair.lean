import PynetVerif.Model.Pair
import PynetVerif.Lemmas.Dul
import PynetVerif.Props.C27
import PynetVerif.Props.C05Inv
/-!
Single-reactor lemmas for the product model (`Model/Pair.lean`): what a reactor step does to the
sequence of PDU events it has read (`lineEvts`), to what it has sent (`St.sent` only grows, at the
front) and to its dispatch log.
-/
namespace PynetVerif
open Dul Fsm

namespace PairL

theorem filter_pduEv_append_single (l : List Nat) (e : Nat) (h : pduEv e = false) :
    (l ++ [e]).filter pduEv = l.filter pduEv := by
  simp [List.filter_append, h]

theorem filter_pduEv_append_of_all (l ex : List Nat) (h : ∀ x ∈ ex, pduEv x = false) :
    (l ++ ex).filter pduEv = l.filter pduEv := by
  rw [List.filter_append]
  have : ex.filter pduEv = [] := by
    rw [List.filter_eq_nil_iff]; intro x hx; simp [h x hx]
  rw [this, List.append_nil]

theorem wireEvts_append (l1 l2 : List Wire) : wireEvts (l1 ++ l2) = wireEvts l1 ++ wireEvts l2 := by
  unfold wireEvts; exact List.filterMap_append

/-! ### the log -/

theorem finish_log (s2 : St) (c : Bool) (n : Nat) (d : Dispatch) : (finish s2 c n d).log = d :: s2.log := by
  cases c <;> rfl

theorem act_log (s : St) (a : Action) (e : Nat) :
    (act s a e).log = ⟨e, s.fsm, some a, (effectsOf s a e).2, true⟩ :: s.log := by
  rw [act_unfold, finish_log, (foldl_applyEff_log_fsm _ _).1, (popInputs_log_fsm _ _).1]

/-- every dispatch logs exactly one entry, for the dispatched event -/
theorem dispatch_log (s : St) (e : Nat) : ∃ d, (dispatch s e).log = d :: s.log ∧ d.evt = e ∧ d.state = s.fsm ∧
    d.action = lookup Spec.Ps38.table e s.fsm := by
  unfold dispatch
  split
  · rename_i h; exact ⟨_, rfl, rfl, rfl, h.symm⟩
  · rename_i a h
    split
    · exact ⟨_, rfl, rfl, rfl, h.symm⟩
    · exact ⟨_, act_log s a e, rfl, rfl, h.symm⟩

/-- what a dispatch does to the event queue: Evt17 / Evt19 appended, nothing else -/
theorem dispatch_eventQ (s : St) (e : Nat) :
    ∃ ex, (dispatch s e).eventQ = s.eventQ ++ ex ∧ ∀ x ∈ ex, x = 17 ∨ x = 19 := by
  unfold dispatch
  split
  · exact ⟨[], (List.append_nil _).symm, fun _ h => nomatch h⟩
  · rename_i a _
    split
    · exact ⟨[], (List.append_nil _).symm, fun _ h => nomatch h⟩
    · obtain ⟨alt, b, A⟩ := act_spec s a e
      exact A.evq

theorem dispatch_inbox (s : St) (e : Nat) : (dispatch s e).inbox = s.inbox := by
  unfold dispatch
  split
  · rfl
  · rename_i a _
    split
    · rfl
    · obtain ⟨alt, b, A⟩ := act_spec s a e
      exact A.inbox

/-! ### the line of delivered PDU events is only touched by deliveries -/

/-- the part of `lineEvts` that is not yet dispatched -/
def pending (s : St) : List Nat := s.eventQ.filter pduEv ++ wireEvts s.inbox

theorem lineEvts_eq (s : St) : lineEvts s = dispatchedPdus s ++ pending s := by
  unfold lineEvts readEvts pending; rw [List.append_assoc]

theorem lineEvts_congr {s t : St} (hl : t.log = s.log) (hp : pending t = pending s) : lineEvts t = lineEvts s := by
  rw [lineEvts_eq, lineEvts_eq, hp]; unfold dispatchedPdus; rw [hl]

theorem readTransport_pending (s : St) : (readTransport s).log = s.log ∧ pending (readTransport s) = pending s := by
  unfold readTransport
  split
  · exact ⟨rfl, rfl⟩
  · rename_i e alt rest heq
    refine ⟨rfl, ?_⟩
    unfold pending
    simp only [heq, List.filter_append, List.append_assoc]
    congr 1
    cases h : pduEv e <;> simp [wireEvts, h]
  · rename_i rest heq
    refine ⟨rfl, ?_⟩
    unfold pending
    simp only [heq]
    rw [filter_pduEv_append_single _ 19 (by decide)]
    simp [wireEvts]
  · refine ⟨rfl, ?_⟩
    unfold pending
    simp only
    rw [filter_pduEv_append_single _ 17 (by decide)]

theorem closeSock_pending (s : St) : (closeSock s).log = s.log ∧ pending (closeSock s) = pending s := by
  unfold closeSock
  split
  · refine ⟨rfl, ?_⟩
    unfold pending
    simp only
    rw [filter_pduEv_append_single _ 17 (by decide)]
  · exact ⟨rfl, rfl⟩

theorem readOrClose_pending (s : St) : (readOrClose s).log = s.log ∧ pending (readOrClose s) = pending s := by
  unfold readOrClose
  split
  · split
    · exact readTransport_pending s
    · exact closeSock_pending s
  · split
    · exact readTransport_pending s
    · exact ⟨rfl, rfl⟩

theorem iterA_pending (s : St) : (iterA s).log = s.log ∧ pending (iterA s) = pending s := by
  rw [iterA_unfold]
  split
  · exact ⟨rfl, rfl⟩
  have h1 : (iterA1 s).log = s.log ∧ pending (iterA1 s) = pending s := by
    unfold iterA1
    split
    · refine ⟨rfl, ?_⟩
      unfold pending
      simp only
      rw [filter_pduEv_append_single _ 18 (by decide)]
    · exact ⟨rfl, rfl⟩
  have h2 : ∀ t : St, (iterA2 t).log = t.log ∧ pending (iterA2 t) = pending t := by
    intro t
    unfold iterA2
    split
    · rename_i p _ _
      refine ⟨rfl, ?_⟩
      unfold pending
      simp only
      rw [filter_pduEv_append_single _ p.event (C05Inv.pduEv_prim p)]
    · exact readOrClose_pending t
  obtain ⟨a1, a2⟩ := h2 (iterA1 s)
  exact ⟨a1.trans h1.1, a2.trans h1.2⟩

theorem iterB_lineEvts (s : St) : lineEvts (iterB s) = lineEvts s := by
  unfold iterB
  split
  · rfl
  split
  · exact lineEvts_congr rfl rfl
  · rename_i e rest heq
    obtain ⟨d, hd, hde, _, _⟩ := dispatch_log { s with eventQ := rest, phaseB := false } e
    obtain ⟨ex, hex, hex'⟩ := dispatch_eventQ { s with eventQ := rest, phaseB := false } e
    have hin := dispatch_inbox { s with eventQ := rest, phaseB := false } e
    have hexp : ∀ x ∈ ex, pduEv x = false := by
      intro x hx; rcases hex' x hx with h | h <;> subst h <;> rfl
    rw [lineEvts_eq, lineEvts_eq]
    unfold dispatchedPdus pending
    rw [hd, hex, hin, filter_pduEv_append_of_all _ _ hexp, heq]
    simp only [List.reverse_cons, List.map_append, List.map_cons, List.map_nil, List.filter_append, hde,
      List.append_assoc]
    congr 1
    cases h : pduEv e <;> simp [List.filter, h]

/-- **a reactor's own steps never touch the line of PDU events delivered to it** -/
theorem step_lineEvts (s : St) (st : Step) (h : Pair.allowed st = true) : lineEvts (Dul.step s st) = lineEvts s := by
  cases st with
  | env e =>
    cases e with
    | peer w => cases h
    | _ => rfl
  | a => exact lineEvts_congr (iterA_pending s).1 (iterA_pending s).2
  | b => exact iterB_lineEvts s

/-- a delivery appends the delivered item's event -/
theorem peer_lineEvts (s : St) (w : Wire) : lineEvts (env (.peer w) s) = lineEvts s ++ wireEvts [w] := by
  unfold lineEvts readEvts
  show _ ++ wireEvts (s.inbox ++ [w]) = _
  rw [wireEvts_append]
  simp only [List.append_assoc]
  rfl

/-! ### what is sent: only actions send, only at the front of `sent` -/

theorem applyEff_sent (s : St) (f : Eff) :
    (applyEff s f).sent = if (isSend f && s.connected && !s.broken) = true then f :: s.sent else s.sent := by
  unfold applyEff
  by_cases hs : isSend f = true
  · simp only [hs, ↓reduceIte, Bool.true_and]
    split <;> rfl
  · have hs' : isSend f = false := by simpa using hs
    simp only [hs', Bool.false_eq_true, ↓reduceIte, Bool.false_and]
    split
    · rfl
    · unfold closeSock
      repeat' split
      all_goals rfl

/-- `sent` grows at the front, by effects of the list that are send effects -/
theorem foldl_applyEff_sent (effs : List Eff) : ∀ s : St,
    ∃ new, (effs.foldl applyEff s).sent = new ++ s.sent ∧ ∀ f ∈ new, f ∈ effs ∧ isSend f = true := by
  induction effs with
  | nil => intro s; exact ⟨[], rfl, fun _ h => nomatch h⟩
  | cons f fs ih =>
    intro s
    obtain ⟨new, hnew, hmem⟩ := ih (applyEff s f)
    simp only [List.foldl_cons]
    rw [hnew, applyEff_sent]
    split
    · rename_i hc
      refine ⟨new ++ [f], by simp, ?_⟩
      intro g hg
      rcases List.mem_append.mp hg with h | h
      · exact ⟨List.mem_cons_of_mem _ (hmem g h).1, (hmem g h).2⟩
      · simp only [List.mem_singleton] at h; subst h
        simp only [Bool.and_eq_true] at hc
        exact ⟨List.mem_cons_self .., hc.1.1⟩
    · exact ⟨new, rfl, fun g hg => ⟨List.mem_cons_of_mem _ (hmem g hg).1, (hmem g hg).2⟩⟩

theorem popInputs_sent (s : St) (a : Action) : (popInputs s a).sent = s.sent := by
  have h1 : ∀ t : St, (popPrimQ t a).sent = t.sent := by intro t; unfold popPrimQ; split <;> rfl
  have h2 : ∀ t : St, (popAbortQ t a).sent = t.sent := by
    intro t; unfold popAbortQ; split
    · split <;> rfl
    · rfl
  have h3 : ∀ t : St, (popPduQ t a).sent = t.sent := by intro t; unfold popPduQ; split <;> rfl
  unfold popInputs; rw [h3, h2, h1]

theorem finish_sent (s2 : St) (c : Bool) (n : Nat) (d : Dispatch) : (finish s2 c n d).sent = s2.sent := by
  cases c <;> rfl

theorem act_sent (s : St) (a : Action) (e : Nat) :
    ∃ new, (act s a e).sent = new ++ s.sent ∧
      ∀ f ∈ new, f ∈ usedEffs a (effectsOf s a e).1 ∧ isSend f = true := by
  rw [act_unfold, finish_sent]
  obtain ⟨new, h1, h2⟩ := foldl_applyEff_sent (usedEffs a (effectsOf s a e).1) (popInputs s a)
  exact ⟨new, by rw [h1, popInputs_sent], h2⟩

theorem iterA_sent (s : St) : (iterA s).sent = s.sent := by
  have hr : ∀ t : St, (readTransport t).sent = t.sent := by
    intro t; unfold readTransport; split <;> rfl
  have hc : ∀ t : St, (closeSock t).sent = t.sent := by
    intro t; unfold closeSock; split <;> rfl
  unfold iterA
  split
  · rfl
  · simp only
    split <;> split
    all_goals (try split)
    all_goals (try split)
    all_goals first
      | rfl
      | exact hr _
      | exact hc _

/-- whatever the step, what a reactor has sent stays sent: new PDUs go to the front -/
theorem step_sent (s : St) (st : Step) : ∃ new, (Dul.step s st).sent = new ++ s.sent := by
  cases st with
  | env e => cases e <;> exact ⟨[], rfl⟩
  | a => exact ⟨[], iterA_sent s⟩
  | b =>
    show ∃ new, (iterB s).sent = new ++ s.sent
    unfold iterB
    split
    · exact ⟨[], rfl⟩
    split
    · exact ⟨[], rfl⟩
    · rename_i e rest _
      unfold dispatch
      split
      · exact ⟨[], rfl⟩
      · split
        · exact ⟨[], rfl⟩
        · obtain ⟨new, h, _⟩ := act_sent { s with eventQ := rest, phaseB := false } _ e
          exact ⟨new, h⟩

/-! ### provenance: every PDU on the wire was put there by a logged action -/

/-- the effect lists an action can produce (`Spec.Ps38.effects` over all its parameters) contain `f` -/
def mayEmit (a : Action) (f : Eff) : Bool :=
  [(false, false, false), (false, false, true), (false, true, false), (false, true, true),
   (true, false, false), (true, false, true), (true, true, false), (true, true, true)].any
    fun x => (effB a x.1 x.2.1 x.2.2).1.contains f

theorem mayEmit_of_mem {a : Action} {f : Eff} {req alt b : Bool} (h : f ∈ (effB a req alt b).1) :
    mayEmit a f = true := by
  unfold mayEmit
  rw [List.any_eq_true]
  refine ⟨(req, alt, b), ?_, by simpa using h⟩
  cases req <;> cases alt <;> cases b <;> simp

structure LogOk (s : St) : Prop where
  /-- every log entry records the table's answer for its (event, state) -/
  rows : ∀ d ∈ s.log, d.action = lookup Spec.Ps38.table d.evt d.state
  /-- every PDU sent is an effect of an action that completed and is in the log -/
  sent : ∀ f ∈ s.sent, ∃ d ∈ s.log, ∃ a, d.action = some a ∧ d.ok = true ∧ mayEmit a f = true

theorem logOk_of_eq {s t : St} (hl : t.log = s.log) (hs : t.sent = s.sent) (h : LogOk s) : LogOk t :=
  ⟨by rw [hl]; exact h.rows, by rw [hl, hs]; exact h.sent⟩

theorem iterA_log (s : St) : (iterA s).log = s.log := (iterA_log_fsm s).1

theorem dispatch_logOk (s : St) (e : Nat) (h : LogOk s) : LogOk (dispatch s e) := by
  obtain ⟨d, hd, hde, hds, hda⟩ := dispatch_log s e
  refine ⟨?_, ?_⟩
  · intro d' hd'
    rw [hd] at hd'
    rcases List.mem_cons.mp hd' with h' | h'
    · subst h'; rw [hda, hde, hds]
    · exact h.rows d' h'
  · unfold dispatch
    split
    · intro f hf
      obtain ⟨d', hd', r⟩ := h.sent f hf
      exact ⟨d', List.mem_cons_of_mem _ hd', r⟩
    · rename_i a _
      split
      · intro f hf
        obtain ⟨d', hd', r⟩ := h.sent f hf
        exact ⟨d', List.mem_cons_of_mem _ hd', r⟩
      · intro f hf
        obtain ⟨new, hnew, hmem⟩ := act_sent s a e
        rw [act_log]
        rw [hnew] at hf
        rcases List.mem_append.mp hf with h' | h'
        · obtain ⟨alt, b, hr⟩ := effectsOf_eq s a e
          have hin : f ∈ (effB a s.requestor alt b).1 := by
            have := (hmem f h').1
            rw [hr] at this
            unfold usedEffs at this
            split at this
            · exact (List.mem_filter.mp this).1
            · exact this
          exact ⟨_, List.mem_cons_self .., a, rfl, rfl, mayEmit_of_mem hin⟩
        · obtain ⟨d', hd', r⟩ := h.sent f h'
          exact ⟨d', List.mem_cons_of_mem _ hd', r⟩

theorem step_logOk (s : St) (st : Step) (h : LogOk s) : LogOk (Dul.step s st) := by
  cases st with
  | env e => cases e <;> exact logOk_of_eq (s := s) rfl rfl h
  | a => exact logOk_of_eq (iterA_log s) (iterA_sent s) h
  | b =>
    show LogOk (iterB s)
    unfold iterB
    split
    · exact h
    split
    · exact logOk_of_eq (s := s) rfl rfl h
    · rename_i e rest _
      exact dispatch_logOk { s with eventQ := rest, phaseB := false } e (logOk_of_eq (s := s) rfl rfl h)

/-- the log only grows -/
theorem step_log (s : St) (st : Step) : ∃ new, (Dul.step s st).log = new ++ s.log := by
  cases st with
  | env e => cases e <;> exact ⟨[], rfl⟩
  | a => exact ⟨[], iterA_log s⟩
  | b =>
    show ∃ new, (iterB s).log = new ++ s.log
    unfold iterB
    split
    · exact ⟨[], rfl⟩
    split
    · exact ⟨[], rfl⟩
    · rename_i e rest _
      obtain ⟨d, hd, _⟩ := dispatch_log { s with eventQ := rest, phaseB := false } e
      exact ⟨[d], hd⟩

end PairL
end PynetVerif
