import PynetVerif.Model.Path
/-! Helper lemmas for C30: `split`, `join`, `resolve`, `sanitise`. -/
namespace PynetVerif.Path

theorem split_ne_nil : ∀ p, split p ≠ []
  | [] => by simp [split]
  | c :: cs => by
    unfold split
    by_cases h : c = '/'
    · simp [h]
    · simp only [h, if_false]
      cases hs : split cs with
      | nil => simp
      | cons a t => simp

/-- splitting distributes over a separator -/
theorem split_append_sep (a b : Str) : split (a ++ '/' :: b) = split a ++ split b := by
  induction a with
  | nil => simp [split]
  | cons c cs ih =>
    by_cases h : c = '/'
    · subst h; simp [split, ih]
    · simp only [List.cons_append, split, h, if_false, ih]
      cases hs : split cs with
      | nil => exact absurd hs (split_ne_nil cs)
      | cons x t => simp

/-- a string without separator is one component -/
theorem split_noSep (n : Str) (h : '/' ∉ n) : split n = [n] := by
  induction n with
  | nil => rfl
  | cons c cs ih =>
    have hc : c ≠ '/' := by intro e; subst e; simp at h
    have hcs : '/' ∉ cs := by intro e; exact h (List.mem_cons_of_mem _ e)
    simp [split, hc, ih hcs]

theorem split_nil : split [] = [[]] := rfl

/-- a string ending in '/' is something followed by '/' -/
theorem eq_append_of_getLast? {a : Str} (h : a.getLast? = some '/') : ∃ a', a = a' ++ ['/'] := by
  have hne : a ≠ [] := by intro e; subst e; simp at h
  refine ⟨a.dropLast, ?_⟩
  have := List.dropLast_concat_getLast hne
  rw [List.getLast?_eq_some_getLast hne] at h
  have h' : a.getLast hne = '/' := by simpa using h
  rw [h'] at this
  exact this.symm

theorem head?_append_of_ne_nil {a b : Str} (h : a ≠ []) : (a ++ b).head? = a.head? := by
  cases a with
  | nil => exact absurd rfl h
  | cons x xs => rfl

/-! ### sanitise -/

theorem sanitise_length (d : Char → Bool) (s : Str) : (sanitise d s).length = s.length := by
  simp [sanitise]

theorem mem_sanitise {d : Char → Bool} {s : Str} {c : Char} (h : c ∈ sanitise d s) :
    keep d c = true ∨ c = '_' := by
  simp only [sanitise, List.mem_map] at h
  obtain ⟨x, _, hx⟩ := h
  by_cases hk : keep d x = true
  · simp only [hk, if_true] at hx; subst hx; exact Or.inl hk
  · simp only [hk] at hx; right; simpa using hx.symm

theorem sep_not_mem_sanitise (d : Char → Bool) (hd : d '/' = false) (s : Str) : '/' ∉ sanitise d s := by
  intro h
  rcases mem_sanitise h with h | h
  · simp [keep, hd] at h
  · exact absurd h (by decide)

theorem nul_not_mem_sanitise (d : Char → Bool) (hd : d nul = false) (s : Str) : nul ∉ sanitise d s := by
  intro h
  rcases mem_sanitise h with h | h
  · have : (nul == '.') = false := by decide
    simp [keep, hd, this] at h
  · exact absurd h (by decide)

theorem sanitise_eq_nil (d : Char → Bool) (s : Str) : sanitise d s = [] ↔ s = [] := by
  simp [sanitise]

/-- the sanitiser produces a '.' only from a '.' -/
theorem sanitise_char_dot (d : Char → Bool) (c : Char) :
    (if keep d c then c else '_') = '.' ↔ c = '.' := by
  constructor
  · intro h
    by_cases hk : keep d c = true
    · simpa [hk] using h
    · simp [hk] at h
  · intro h; subst h; simp [keep]

theorem sanitise_eq_dot (d : Char → Bool) (s : Str) : sanitise d s = ['.'] ↔ s = ['.'] := by
  constructor
  · intro h
    match s, h with
    | [c], h =>
      simp only [sanitise, List.map_cons, List.map_nil, List.cons.injEq, and_true] at h
      rw [(sanitise_char_dot d c).mp h]
    | [], h => simp [sanitise] at h
    | _ :: _ :: _, h => simp [sanitise] at h
  · intro h; subst h; simp [sanitise, keep]

theorem sanitise_eq_dotdot (d : Char → Bool) (s : Str) : sanitise d s = ['.', '.'] ↔ s = ['.', '.'] := by
  constructor
  · intro h
    match s, h with
    | [a, b], h =>
      simp only [sanitise, List.map_cons, List.map_nil, List.cons.injEq, and_true] at h
      rw [(sanitise_char_dot d a).mp h.1, (sanitise_char_dot d b).mp h.2]
    | [], h => simp [sanitise] at h
    | [_], h => simp [sanitise] at h
    | _ :: _ :: _ :: _, h => simp [sanitise] at h
  · intro h; subst h; simp [sanitise, keep]

/-! ### join / resolve -/

theorem join_of_rel {a b : Str} (hb : b.head? ≠ some '/') :
    join a b = if a.isEmpty || a.getLast? == some '/' then a ++ b else a ++ '/' :: b := by
  unfold join
  have : (b.head? == some '/') = false := by simpa using hb
  simp [this]

theorem head?_ne_of_not_mem {b : Str} (h : '/' ∉ b) : b.head? ≠ some '/' := by
  cases b with
  | nil => simp
  | cons x xs =>
    intro e
    simp only [List.head?_cons, Option.some.injEq] at e
    subst e; simp at h

/-- The components walked for `join dir name` are those of `dir` followed by
`name` (modulo one empty component, which resolution ignores). -/
theorem resolve_join (dir name : Str) (hsep : '/' ∉ name) :
    resolve (join dir name) = (normStep (isAbs dir) (resolve dir).reverse name).reverse := by
  have hrel := head?_ne_of_not_mem hsep
  rw [join_of_rel hrel]
  by_cases he : dir = []
  · subst he
    simp [resolve, split_noSep name hsep, split, isAbs, normStep]
    cases name with
    | nil => simp
    | cons x xs =>
      have : x ≠ '/' := by intro e; subst e; simp at hsep
      simp [this]
  · have hemp : dir.isEmpty = false := by simpa using he
    by_cases hl : dir.getLast? = some '/'
    · obtain ⟨d', rfl⟩ := eq_append_of_getLast? hl
      have habs : isAbs ((d' ++ ['/']) ++ name) = isAbs (d' ++ ['/']) := by
        unfold isAbs; rw [head?_append_of_ne_nil (by simp)]
      simp only [hemp, hl, beq_self_eq_true, Bool.or_true, if_true]
      unfold resolve
      rw [habs]
      have e1 : (d' ++ ['/']) ++ name = d' ++ '/' :: name := by simp
      have e2 : d' ++ ['/'] = d' ++ '/' :: [] := rfl
      rw [e1, split_append_sep, split_noSep name hsep, e2, split_append_sep, split_nil]
      simp [List.foldl_append, normStep]
    · have hl' : (dir.getLast? == some '/') = false := by simpa using hl
      have habs : isAbs (dir ++ '/' :: name) = isAbs dir := by
        unfold isAbs; rw [head?_append_of_ne_nil he]
      simp only [hemp, hl', Bool.or_self, Bool.false_eq_true, if_false]
      unfold resolve
      rw [habs, split_append_sep, split_noSep name hsep]
      simp [List.foldl_append]

theorem normStep_proper (abs : Bool) (st : List Str) (n : Str) (h : properName n) :
    normStep abs st n = n :: st := by
  obtain ⟨h1, h2, h3⟩ := h
  simp [normStep, h1, h2, h3]

end PynetVerif.Path
