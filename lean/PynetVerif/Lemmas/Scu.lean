import PynetVerif.Model.Scu
/-!
Helper lemmas for C24: traces compose (`observe`/`finalState`/counters over `++`), both response
loops have the closed form  "one step per continuing message, then the stop step on the first
non-continuing message (or on silence)", and the per-message facts about steps and stops.
-/
set_option linter.unusedSimpArgs false
namespace PynetVerif.Scu
open PynetVerif.Status

/-! ### traces compose -/

theorem finalState_nil (s : St) : finalState s [] = s := rfl
theorem finalState_cons (s : St) (e : Ev) (es : List Ev) :
    finalState s (e :: es) = finalState (s.step e) es := rfl

theorem finalState_append (s : St) (a b : List Ev) :
    finalState s (a ++ b) = finalState (finalState s a) b := by
  simp [finalState, List.foldl_append]

theorem observe_append (s : St) (a b : List Ev) :
    observe s (a ++ b) = observe s a ++ observe (finalState s a) b := by
  induction a generalizing s with
  | nil => rfl
  | cons e es ih => simp [observe, finalState_cons, ih, List.append_assoc]

theorem aborts_append (a b : List Ev) : aborts (a ++ b) = aborts a + aborts b := by
  simp [aborts, List.countP_append]
theorem recvs_append (a b : List Ev) : recvs (a ++ b) = recvs a + recvs b := by
  simp [recvs, List.countP_append]
theorem raised_append (a b : List Ev) : raised (a ++ b) = (raised a || raised b) := by
  simp [raised, List.any_append]

/-- the state inside both loops: reactor paused by the prologue, lock free -/
def sLoop : St := ⟨false, false⟩

theorem finalState_prologue : finalState St.init prologue = sLoop := rfl
theorem observe_prologue : observe St.init prologue = [] := rfl

/-! ### the closed form of a receive loop -/

theorem head?_dropWhile_false (c : PeerMsg → Bool) (l : List PeerMsg) (m : PeerMsg)
    (h : (l.dropWhile c).head? = some m) : c m = false := by
  induction l with
  | nil => simp at h
  | cons x xs ih =>
    by_cases hx : c x = true
    · simp [List.dropWhile_cons, hx] at h; exact ih h
    · simp only [Bool.not_eq_true] at hx
      simp [List.dropWhile_cons, hx] at h; subst h; exact hx

theorem mem_takeWhile_true (c : PeerMsg → Bool) (l : List PeerMsg) (m : PeerMsg)
    (h : m ∈ l.takeWhile c) : c m = true := by
  induction l with
  | nil => simp at h
  | cons x xs ih =>
    by_cases hx : c x = true
    · simp only [List.takeWhile_cons, hx, if_true, List.mem_cons] at h
      rcases h with h | h
      · subst h; exact hx
      · exact ih h
    · simp only [Bool.not_eq_true] at hx
      simp [List.takeWhile_cons, hx] at h

/-- the messages a loop with continuation test `c` consumes: the continuing prefix and the message
that stops it (nothing if the peer falls silent) -/
def consumed (c : PeerMsg → Bool) (peer : List PeerMsg) : List PeerMsg :=
  peer.takeWhile c ++ (peer.dropWhile c).head?.toList

theorem consumed_cons_true (c : PeerMsg → Bool) (m : PeerMsg) (rest : List PeerMsg) (h : c m = true) :
    consumed c (m :: rest) = m :: consumed c rest := by
  simp [consumed, List.takeWhile_cons, List.dropWhile_cons, h]

theorem consumed_cons_false (c : PeerMsg → Bool) (m : PeerMsg) (rest : List PeerMsg) (h : c m = false) :
    consumed c (m :: rest) = [m] := by
  simp [consumed, List.takeWhile_cons, List.dropWhile_cons, h]

theorem loop_closed_form (w : List PeerMsg → List Ev) (c : PeerMsg → Bool) (step : PeerMsg → List Ev)
    (hc : ∀ m rest, c m = true → w (m :: rest) = step m ++ w rest)
    (hs : ∀ m rest, c m = false → w (m :: rest) = w [m]) (peer : List PeerMsg) :
    w peer = (peer.takeWhile c).flatMap step ++ w (peer.dropWhile c).head?.toList := by
  induction peer with
  | nil => simp
  | cons m rest ih =>
    by_cases h : c m = true
    · rw [hc m rest h, ih]
      simp [List.takeWhile_cons, List.dropWhile_cons, h, List.append_assoc]
    · simp only [Bool.not_eq_true] at h
      rw [hs m rest h]
      simp [List.takeWhile_cons, List.dropWhile_cons, h]

/-- observation of a sequence of steps that each leave the state unchanged -/
theorem observe_steps (step : PeerMsg → List Ev) (y : PeerMsg → List Yield) (s : St)
    (l : List PeerMsg) (t : List Ev)
    (h : ∀ m ∈ l, observe s (step m) = y m ∧ finalState s (step m) = s) :
    observe s (l.flatMap step ++ t) = l.flatMap y ++ observe s t ∧
      finalState s (l.flatMap step ++ t) = finalState s t := by
  induction l with
  | nil => simp
  | cons m ms ih =>
    have hm := h m (by simp)
    have hms := ih (fun x hx => h x (by simp [hx]))
    simp only [List.flatMap_cons, List.append_assoc]
    rw [observe_append, finalState_append, hm.1, hm.2, hms.1, hms.2]
    simp

theorem count_steps (f : List Ev → Nat) (hf : ∀ a b, f (a ++ b) = f a + f b) (step : PeerMsg → List Ev)
    (n : Nat) (l : List PeerMsg) (t : List Ev) (h : ∀ m ∈ l, f (step m) = n) :
    f (l.flatMap step ++ t) = n * l.length + f t := by
  induction l with
  | nil => simp
  | cons m ms ih =>
    have hm := h m (by simp)
    have hms := ih (fun x hx => h x (by simp [hx]))
    simp only [List.flatMap_cons, List.append_assoc, List.length_cons]
    rw [hf, hm, hms, Nat.mul_succ]; omega

theorem raised_steps (step : PeerMsg → List Ev) (l : List PeerMsg) (t : List Ev)
    (h : ∀ m ∈ l, raised (step m) = false) : raised (l.flatMap step ++ t) = raised t := by
  induction l with
  | nil => simp
  | cons m ms ih =>
    have hm := h m (by simp)
    have hms := ih (fun x hx => h x (by simp [hx]))
    simp only [List.flatMap_cons, List.append_assoc]
    rw [raised_append, hm, hms]; simp

/-! ### C-FIND -/

/-- a message after which `_wrap_find_responses` asks for another one: a valid C-FIND response whose
status is not final -/
def contFind (rq : Bool) : PeerMsg → Bool
  | .rsp .find true st _ => !scuFinal rq st
  | _ => false

/-- what one continuing message makes the generator do -/
def stepFind (rq : Bool) : PeerMsg → List Ev
  | .rsp _ _ st id =>
    if rq && st == 0xB001 then [.recv, .yield (some st) .none]
    else [.recv, .acquire, .release, .yield (some st) (decodeFind id)]
  | _ => []

theorem contFind_eq (rq : Bool) (st : Nat) (id : Ident) :
    contFind rq (.rsp .find true st id) = ((rq && st == 0xB001) || category st == .pending) := by
  simp only [contFind, scuFinal]
  by_cases h : (rq && st == 0xB001) = true
  · simp [h]
  · simp only [Bool.not_eq_true] at h; simp [h, bne]

theorem wrapFind_cont (rq : Bool) (m : PeerMsg) (rest : List PeerMsg) (h : contFind rq m = true) :
    wrapFind rq (m :: rest) = stepFind rq m ++ wrapFind rq rest := by
  cases m with
  | none w => simp [contFind] at h
  | storeRq cx => simp [contFind] at h
  | rsp k valid st id =>
    cases k <;> cases valid
    case find.true =>
      rw [contFind_eq] at h
      by_cases hb : (rq && st == 0xB001) = true
      · simp [wrapFind, stepFind, hb]
      · simp only [Bool.not_eq_true] at hb
        simp only [hb, Bool.false_or] at h
        simp [wrapFind, stepFind, hb, h]
    all_goals simp [contFind] at h

theorem wrapFind_stop (rq : Bool) (m : PeerMsg) (rest : List PeerMsg) (h : contFind rq m = false) :
    wrapFind rq (m :: rest) = wrapFind rq [m] := by
  cases m with
  | none w => simp [wrapFind]
  | storeRq cx => simp [wrapFind]
  | rsp k valid st id =>
    cases k <;> cases valid
    case find.true =>
      rw [contFind_eq] at h
      simp only [Bool.or_eq_false_iff] at h
      simp [wrapFind, h.1, h.2]
    all_goals simp [wrapFind]

theorem wrapFind_closed (rq : Bool) (peer : List PeerMsg) :
    wrapFind rq peer = (peer.takeWhile (contFind rq)).flatMap (stepFind rq) ++
      wrapFind rq (peer.dropWhile (contFind rq)).head?.toList :=
  loop_closed_form (wrapFind rq) (contFind rq) (stepFind rq) (wrapFind_cont rq) (wrapFind_stop rq) peer

/-! ### C-GET / C-MOVE -/

/-- a message after which `_wrap_get_move_responses` asks for another one: any C-STORE primitive whose
sub-operation does not raise, or a valid Pending C-GET *or* C-MOVE response -/
def contGM : PeerMsg → Bool
  | .rsp k valid st _ =>
    k == .store || ((k == .get || k == .move) && valid && category st == .pending)
  | .storeRq cx => cx != .noClass
  | .none _ => false

def stepGM : PeerMsg → List Ev
  | .rsp k _ st _ => if k == .store then .recv :: cStoreScp .accepted else [.recv, .yield (some st) .none]
  | .storeRq cx => .recv :: cStoreScp cx
  | .none _ => []

theorem wrapGetMove_cont (m : PeerMsg) (rest : List PeerMsg) (h : contGM m = true) :
    wrapGetMove (m :: rest) = stepGM m ++ wrapGetMove rest := by
  cases m with
  | none w => simp [contGM] at h
  | storeRq cx => cases cx <;> simp [contGM] at h <;> simp [wrapGetMove, stepGM]
  | rsp k valid st id =>
    cases k <;> cases valid <;> simp [contGM] at h <;> simp [wrapGetMove, stepGM, h]

theorem wrapGetMove_stop (m : PeerMsg) (rest : List PeerMsg) (h : contGM m = false) :
    wrapGetMove (m :: rest) = wrapGetMove [m] := by
  cases m with
  | none w => simp [wrapGetMove]
  | storeRq cx => cases cx <;> simp [contGM] at h <;> simp [wrapGetMove]
  | rsp k valid st id =>
    cases k <;> cases valid <;> simp [contGM] at h <;> simp [wrapGetMove, h]

theorem wrapGetMove_closed (peer : List PeerMsg) :
    wrapGetMove peer = (peer.takeWhile contGM).flatMap stepGM ++
      wrapGetMove (peer.dropWhile contGM).head?.toList :=
  loop_closed_form wrapGetMove contGM stepGM wrapGetMove_cont wrapGetMove_stop peer

/-- the messages on which `_wrap_get_move_responses`, used for the retrieve service whose response
class is `ek`, departs from the property: any C-STORE primitive carrying a Status (a C-STORE
*response*) is served as if it were a sub-operation request; a valid response of the *other*
retrieve service is taken for the awaited one; a C-STORE request without Affected SOP Class UID
makes `_c_store_scp` raise -/
def deviates (ek : Kind) : PeerMsg → Bool
  | .rsp k valid _ _ => k == .store || ((k == .get || k == .move) && k != ek && valid)
  | .storeRq cx => cx == .noClass
  | .none _ => false

/-- the events of the tail of a single-response call: they touch neither the lock nor the
checkpoint, receive nothing and yield nothing -/
def quiet : Ev → Bool
  | .abort | .ret _ _ | .raise => true
  | _ => false

theorem quiet_facts (s : St) (es : List Ev) (h : es.all quiet = true) :
    finalState s es = s ∧ recvs es = 0 ∧ observe s es = [] := by
  induction es with
  | nil => exact ⟨rfl, rfl, rfl⟩
  | cons e es ih =>
    simp only [List.all_cons, Bool.and_eq_true] at h
    obtain ⟨i1, i2, i3⟩ := ih h.2
    have h1 : s.step e = s := by cases e <;> simp [quiet] at h <;> rfl
    have h2 : isRecv e = false := by cases e <;> simp [quiet] at h <;> rfl
    have h3 : emit s e = [] := by cases e <;> simp [quiet] at h <;> rfl
    refine ⟨by rw [finalState_cons, h1]; exact i1, ?_, by simp [observe, h1, h3, i3]⟩
    simp only [recvs] at i2 ⊢
    simp [List.countP_cons, h2, i2]

end PynetVerif.Scu
