import PynetVerif.Lemmas.NegoStruct
import PynetVerif.Lemmas.NegoTable
/-!
Lemmas for C11: the acceptor side in either mode, the requestor's view of the
acceptor's answer, the role items the requestor looks up.
-/
namespace PynetVerif.Nego

/-- which loop body of the acceptor side produced a result, in either mode -/
inductive SideStep (u : Bool) (sl : Nat → Bool) (ac : List Cx) (roles : Roles) (p : Cx) (r : AccCx) : Prop
  | normal : u = false → (∃ ro, AccStep ac roles p r ro) → SideStep u sl ac roles p r
  | unrNon : u = true → sl p.abs = false → (∃ ro, AccStep ac roles p r ro) → SideStep u sl ac roles p r
  | unrSto : u = true → sl p.abs = true → (∃ ro, UnrStep roles p r ro) → SideStep u sl ac roles p r

theorem SideStep.id_abs {u : Bool} {sl : Nat → Bool} {ac : List Cx} {roles : Roles} {p : Cx} {r : AccCx}
    (h : SideStep u sl ac roles p r) : r.id = p.id ∧ r.abs = p.abs := by
  cases h with
  | normal _ h => obtain ⟨_, h⟩ := h; exact h.id_abs
  | unrNon _ _ h => obtain ⟨_, h⟩ := h; exact h.id_abs
  | unrSto _ _ h => obtain ⟨_, h⟩ := h; exact h.id_abs

theorem side_view {u : Bool} {sl : Nat → Bool} {rq ac : List Cx} {roles : Roles} {res : List AccCx} {reply : List RoleItem}
    (hd : DistinctIds rq) (hok : acceptorSide u sl rq ac roles = .ok (res, reply)) :
    (res.map fun r => (r.id, r.abs)).Perm (rq.map fun p => (p.id, p.abs)) ∧
    (∀ r ∈ res, ∃ p ∈ rq, SideStep u sl ac roles p r) ∧
    (∀ p ∈ rq, ∃ r ∈ res, SideStep u sl ac roles p r) := by
  unfold acceptorSide at hok
  cases u with
  | false =>
    simp only [Bool.false_eq_true, ↓reduceIte] at hok
    obtain ⟨h1, h2, h3, _, _⟩ := acc_view hd hok
    refine ⟨h1, ?_, ?_⟩
    · intro r hr
      obtain ⟨p, hp, hs⟩ := h2 r hr
      exact ⟨p, hp, .normal rfl hs⟩
    · intro p hp
      obtain ⟨r, hr, hs⟩ := h3 p hp
      exact ⟨r, hr, .normal rfl hs⟩
  | true =>
    simp only [↓reduceIte] at hok
    obtain ⟨h1, h2, h3, _, _⟩ := unr_view hd hok
    refine ⟨h1, ?_, ?_⟩
    · intro r hr
      obtain ⟨p, hp, hs⟩ := h2 r hr
      rcases hs with ⟨hsl, hs⟩ | ⟨hsl, hs⟩
      · exact ⟨p, hp, .unrSto rfl hsl hs⟩
      · exact ⟨p, hp, .unrNon rfl hsl hs⟩
    · intro p hp
      obtain ⟨r, hr, hs⟩ := h3 p hp
      rcases hs with ⟨hsl, hs⟩ | ⟨hsl, hs⟩
      · exact ⟨r, hr, .unrSto rfl hsl hs⟩
      · exact ⟨r, hr, .unrNon rfl hsl hs⟩

theorem applyOne_fields (roles : Roles) (p : Cx) :
    (applyOne roles p).id = p.id ∧ (applyOne roles p).abs = p.abs ∧ (applyOne roles p).ts = p.ts := by
  unfold applyOne
  split <;> exact ⟨rfl, rfl, rfl⟩

theorem applyRoles_distinct {roles : Roles} {rq : List Cx} (hd : DistinctIds rq) : DistinctIds (applyRoles roles rq) := by
  unfold DistinctIds applyRoles
  rw [List.map_map]
  have : ((fun c : Cx => c.id) ∘ applyOne roles) = fun c : Cx => c.id := by
    funext p; exact (applyOne_fields roles p).1
  rw [this]
  exact hd

/-- The requestor, fed the acceptor's result contexts over the wire, pairs every proposal with
the acceptor's result of the same id and copies result and transfer syntax from it. -/
theorem assoc_pairing {rq : List Cx} {rqRoles rr : Roles} {res : List AccCx} {out : List ReqCx}
    (hd : DistinctIds rq) (hperm : (res.map fun r => (r.id, r.abs)).Perm (rq.map fun p => (p.id, p.abs)))
    (hreq : negotiateAsRequestor (applyRoles rqRoles rq) (res.map wireCx) rr = .ok out) :
    (out.map fun q => (q.id, q.abs)).Perm (rq.map fun p => (p.id, p.abs)) ∧
    (∀ q ∈ out, ∃ r ∈ res, ∃ p ∈ rq, p.id = r.id ∧ r.id = q.id ∧ r.abs = q.abs ∧ q.result = r.result ∧ q.ts = [r.ts] ∧
      ReqStep (res.map wireCx) rr (applyOne rqRoles p) q) ∧
    (∀ r ∈ res, ∃ q ∈ out, r.id = q.id) := by
  obtain ⟨hp, hq, hpq⟩ := req_view (applyRoles_distinct hd) hreq
  have hmapeq : (applyRoles rqRoles rq).map (fun p => (p.id, p.abs)) = rq.map (fun p => (p.id, p.abs)) := by
    unfold applyRoles
    rw [List.map_map]
    apply List.map_congr_left
    intro p _
    simp [(applyOne_fields rqRoles p).1, (applyOne_fields rqRoles p).2.1]
  have hnodup : (res.map (·.id)).Nodup := by
    have h2 := hperm.map Prod.fst
    simp only [List.map_map, Function.comp_def] at h2
    exact h2.symm.nodup hd
  have hfind : ∀ p ∈ rq, ∃ r ∈ res, r.id = p.id ∧ r.abs = p.abs := by
    intro p hp'
    have : (p.id, p.abs) ∈ res.map (fun r => (r.id, r.abs)) :=
      hperm.mem_iff.mpr (List.mem_map.mpr ⟨p, hp', rfl⟩)
    obtain ⟨r, hr, he⟩ := List.mem_map.mp this
    simp only [Prod.mk.injEq] at he
    exact ⟨r, hr, he.1, he.2⟩
  have hstep : ∀ p ∈ rq, ∀ q, ReqStep (res.map wireCx) rr (applyOne rqRoles p) q →
      ∃ r ∈ res, p.id = r.id ∧ r.id = q.id ∧ r.abs = q.abs ∧ q.result = r.result ∧ q.ts = [r.ts] := by
    intro p hp' q hs
    obtain ⟨r, hr, hid, habs⟩ := hfind p hp'
    have hl : wireLookup (res.map wireCx) (applyOne rqRoles p).id = some (wireCx r) := by
      rw [(applyOne_fields rqRoles p).1, ← hid]
      exact wireLookup_of_nodup hnodup hr
    have hia := hs.id_abs
    rw [(applyOne_fields rqRoles p).1, (applyOne_fields rqRoles p).2.1] at hia
    refine ⟨r, hr, hid.symm, by rw [hia.1, hid], by rw [hia.2, habs], ?_⟩
    cases hs with
    | missing t rest hnone => rw [hl] at hnone; cases hnone
    | byTable a x y o hla h0 =>
      rw [hl] at hla
      cases hla
      exact ⟨by simpa [wireCx] using h0.symm, by simp [wireCx]⟩
    | default a hla =>
      rw [hl] at hla
      cases hla
      exact ⟨by simp [wireCx], by simp [wireCx]⟩
  refine ⟨hmapeq ▸ hp, ?_, ?_⟩
  · intro q hq'
    obtain ⟨p', hp', hs⟩ := hq q hq'
    obtain ⟨p, hpr, rfl⟩ := List.mem_map.mp hp'
    obtain ⟨r, hr, h1, h2, h3, h4, h5⟩ := hstep p hpr q hs
    exact ⟨r, hr, p, hpr, h1, h2, h3, h4, h5, hs⟩
  · intro r hr
    have : (r.id, r.abs) ∈ rq.map (fun p => (p.id, p.abs)) :=
      hperm.mem_iff.mp (List.mem_map.mpr ⟨r, hr, rfl⟩)
    obtain ⟨p, hp', he⟩ := List.mem_map.mp this
    simp only [Prod.mk.injEq] at he
    obtain ⟨q, hq', hs⟩ := hpq (applyOne rqRoles p) (List.mem_map.mpr ⟨p, hp', rfl⟩)
    exact ⟨q, hq', by rw [hs.id_abs.1, (applyOne_fields rqRoles p).1, he.1]⟩

theorem rqRolesOnWire_lookup (roles : Roles) (a : Nat) :
    (rqRolesOnWire roles).lookup a = (roles.lookup a).map fun v => (some (v.1.getD false), some (v.2.getD false)) := by
  unfold rqRolesOnWire
  exact lookup_map_val (fun v : RolePair => ((some (v.1.getD false), some (v.2.getD false)) : RolePair)) a roles

/-- every role item of the acceptor's answer is the one value determined by its uid -/
theorem reply_lookup_some {reply : List RoleItem} {a : Nat} {it : RoleItem}
    (hex : ∃ it' ∈ reply, it'.uid = a) (hall : ∀ it' ∈ reply, it'.uid = a → it' = it) :
    (acRolesOnWire reply).lookup a = some (some it.scu, some it.scp) := by
  apply lookup_some_of_forall
  · obtain ⟨it', h1, h2⟩ := hex
    exact ⟨(it'.uid, (some it'.scu, some it'.scp)), List.mem_map.mpr ⟨it', h1, rfl⟩, h2⟩
  · intro kv hkv hk
    obtain ⟨it', h1, rfl⟩ := List.mem_map.mp hkv
    rw [hall it' h1 hk]

theorem reply_lookup_none {reply : List RoleItem} {a : Nat} (hall : ∀ it' ∈ reply, it'.uid ≠ a) :
    (acRolesOnWire reply).lookup a = none := by
  apply lookup_none_of_forall
  intro kv hkv
  obtain ⟨it', h1, rfl⟩ := List.mem_map.mp hkv
  exact hall it' h1

/-! ### totality and per-id access (C10) -/
section
variable {rq ac : List Cx} {roles : Roles} {res : List AccCx} {reply : List RoleItem}

theorem lookup_bool {roles : Roles} (hb : BoolRoles roles) {a : Nat} {v : RolePair} (h : roles.lookup a = some v) :
    ∃ x y, v = (some x, some y) := hb (a, v) (lookup_mem a v roles h)

theorem negOne_total (hb : BoolRoles roles) {p : Cx} (hts : p.ts ≠ []) : ∃ x, negOne ac roles p = .ok x := by
  unfold negOne
  cases hts' : p.ts with
  | nil => exact absurd hts' hts
  | cons t rest =>
    cases acLookup ac p.abs with
    | none => simp [rejected, tsHead, hts']
    | some c =>
      simp only
      cases firstCommon c.ts (t :: rest) with
      | none => simp [rejected, tsHead, hts']
      | some t' =>
        simp only
        cases hcu : c.scu with
        | none => simp
        | some cu =>
          cases hcp : c.scp with
          | none => simp
          | some cp =>
            simp only
            have : ∃ o, tableLookup ((roles.lookup p.abs).getD (none, none)) (some cu, some cp) = .ok o := by
              cases hl : roles.lookup p.abs with
              | none => exact ⟨_, table_none (some cu, some cp) (by cases cu <;> cases cp <;> decide)⟩
              | some v =>
                obtain ⟨x, y, rfl⟩ := lookup_bool hb hl
                obtain ⟨oc, _, h⟩ := table_bool x y cu cp
                exact ⟨_, h⟩
            obtain ⟨o, ho⟩ := this
            rw [ho]
            simp only
            split <;> exact ⟨_, rfl⟩

/-- the proposal a result answers (the one with its id) went through the loop body with that result -/
theorem acc_step_of_id (hd : DistinctIds rq) (hok : negotiateAsAcceptor rq ac roles = .ok (res, reply))
    {r : AccCx} (hr : r ∈ res) {p : Cx} (hp : p ∈ rq) (hid : p.id = r.id) : ∃ ro, AccStep ac roles p r ro := by
  obtain ⟨p', hp', ro, hs⟩ := (acc_view hd hok).2.1 r hr
  have : p' = p := eq_of_nodup_map (fun c : Cx => c.id) (show (rq.map (·.id)).Nodup from hd) p' hp' p hp
    (by show p'.id = p.id; rw [← hs.id_abs.1, hid])
  exact ⟨ro, this ▸ hs⟩

end

/-! ### the composition (C11) -/
section
variable {u : Bool} {sl : Nat → Bool} {rq ac : List Cx} {rqRoles : Roles} {res : List AccCx} {out : List ReqCx}

theorem associate_ok (hok : associate u sl rq rqRoles ac = .ok (res, out)) :
    ∃ reply, acceptorSide u sl rq ac (rqRolesOnWire rqRoles) = .ok (res, reply) ∧
      negotiateAsRequestor (applyRoles rqRoles rq) (res.map wireCx) (acRolesOnWire reply) = .ok out := by
  unfold associate at hok
  cases ha : acceptorSide u sl rq ac (rqRolesOnWire rqRoles) with
  | error e => simp [ha] at hok
  | ok x =>
    obtain ⟨res', reply⟩ := x
    simp only [ha] at hok
    cases hr : negotiateAsRequestor (applyRoles rqRoles rq) (res'.map wireCx) (acRolesOnWire reply) with
    | error e => simp [hr] at hok
    | ok out' =>
      simp [hr] at hok
      obtain ⟨rfl, rfl⟩ := hok
      exact ⟨reply, rfl, hr⟩

/-- the requestor's evaluation of one accepted context against the acceptor's role answer,
given what that answer is for the context's abstract syntax -/
theorem req_roles_default {acs : List WireCx} {rr : Roles} {p : Cx} {q : ReqCx}
    (hs : ReqStep acs rr p q) (h0 : q.result = 0) (hl : rr.lookup p.abs = none) :
    q.asScu = true ∧ q.asScp = false := by
  cases hs with
  | missing => simp at h0
  | byTable a x y o _ _ hroles => simp [acRolesOf, hl] at hroles
  | default => exact ⟨rfl, rfl⟩

theorem req_roles_table {acs : List WireCx} {rr : Roles} {p : Cx} {q : ReqCx} {x y : Bool}
    (hs : ReqStep acs rr p q) (h0 : q.result = 0) (hl : rr.lookup p.abs = some (some x, some y)) :
    ∃ o, tableLookup (p.scu, p.scp) (some x, some y) = .ok o ∧ q.asScu = o.1 ∧ q.asScp = o.2.1 := by
  cases hs with
  | missing => simp at h0
  | byTable a x' y' o _ _ hroles ht =>
    simp only [acRolesOf, hl, Option.getD_some, Prod.mk.injEq, Option.some.injEq] at hroles
    obtain ⟨rfl, rfl⟩ := hroles
    exact ⟨o, ht, rfl, rfl⟩
  | default a _ hn =>
    exfalso
    apply hn
    simp only [acRolesOf, hl]
    exact ⟨h0, rfl, rfl⟩

end

end PynetVerif.Nego
