import PynetVerif.Spec.Match
import PynetVerif.Model.QrMatch
/-! Helper lemmas for C29: the executable wild-card matcher vs its relational
definition, SQLite LIKE vs wild-card matching, lexicographic vs numeric order. -/
namespace PynetVerif
open Spec.Match

namespace Spec.Match

theorem anySuffix_of_self {f : Str → Bool} {s : Str} (h : f s = true) : anySuffix f s = true := by
  cases s with
  | nil => simpa [anySuffix] using h
  | cons d s => simp [anySuffix, h]

theorem anySuffix_true {f : Str → Bool} : ∀ {s : Str}, anySuffix f s = true → ∃ a b, s = a ++ b ∧ f b = true
  | [], h => ⟨[], [], rfl, by simpa [anySuffix] using h⟩
  | d :: s, h => by
    simp only [anySuffix, Bool.or_eq_true] at h
    rcases h with h | h
    · exact ⟨[], d :: s, rfl, h⟩
    · obtain ⟨a, b, e, hb⟩ := anySuffix_true h
      exact ⟨d :: a, b, by simp [e], hb⟩

theorem Wild.star_append {p b : Str} (h : Wild p b) : ∀ a : Str, Wild ('*' :: p) (a ++ b)
  | [] => Wild.starEmpty h
  | _ :: a => Wild.starMore (Wild.star_append h a)

theorem wild_sound : ∀ (p s : Str), wild p s = true → Wild p s
  | [], s, h => by
    have : s = [] := by simpa [wild] using h
    subst this; exact Wild.nil
  | c :: p, s, h => by
    unfold wild at h
    by_cases hc : c = '*'
    · subst hc
      simp only [if_true] at h
      obtain ⟨a, b, e, hb⟩ := anySuffix_true h
      subst e
      exact Wild.star_append (wild_sound p b hb) a
    · simp only [hc, if_false] at h
      cases s with
      | nil => simp at h
      | cons d s' =>
        simp only [Bool.and_eq_true, Bool.or_eq_true, beq_iff_eq] at h
        obtain ⟨h1, h2⟩ := h
        rcases h1 with h1 | h1
        · subst h1; exact Wild.any (wild_sound p s' h2)
        · subst h1
          by_cases hq : c = '?'
          · subst hq; exact Wild.any (wild_sound p s' h2)
          · exact Wild.lit hc hq (wild_sound p s' h2)

theorem wild_complete {p s : Str} (h : Wild p s) : wild p s = true := by
  induction h with
  | nil => simp [wild]
  | starEmpty _ ih => simp only [wild, if_true]; exact anySuffix_of_self ih
  | starMore _ ih =>
    simp only [wild, if_true] at ih ⊢
    simp [anySuffix, ih]
  | any _ ih =>
    have : ('?' : Char) ≠ '*' := by decide
    simp [wild, this, ih]
  | lit h1 h2 _ ih => simp [wild, h1, ih]

theorem wild_iff_Wild (p s : Str) : wild p s = true ↔ Wild p s := ⟨wild_sound p s, wild_complete⟩

/-- a pattern without '*' and '?' matches exactly itself -/
theorem wild_literal : ∀ (p s : Str), (∀ c ∈ p, c ≠ '*' ∧ c ≠ '?') → (wild p s = true ↔ p = s)
  | [], s, _ => by cases s <;> simp [wild]
  | c :: p, s, h => by
    have hc := h c (List.mem_cons_self)
    have ih := fun s' => wild_literal p s' (fun x hx => h x (List.mem_cons_of_mem _ hx))
    cases s with
    | nil => simp [wild, hc.1]
    | cons d s' =>
      simp only [wild, hc.1, if_false, Bool.and_eq_true, Bool.or_eq_true, beq_iff_eq, ih s',
        List.cons.injEq]
      constructor
      · rintro ⟨h1 | h1, h2⟩
        · exact absurd h1 hc.2
        · exact ⟨h1, h2⟩
      · rintro ⟨h1, h2⟩; exact ⟨Or.inr h1, h2⟩

theorem wild_star_all (s : Str) : wild ['*'] s = true := by
  simp only [wild, if_true]
  induction s with
  | nil => simp [anySuffix]
  | cons d s ih => simp [anySuffix, ih]

end Spec.Match

namespace QrMatch

theorem anySuffix_congr {f g : Str → Bool} : ∀ (v : Str),
    (∀ t : Str, (∀ d ∈ t, d ∈ v) → f t = g t) → QrMatch.anySuffix f v = Spec.Match.anySuffix g v
  | [], h => by simp [QrMatch.anySuffix, Spec.Match.anySuffix, h [] (by simp)]
  | d :: s, h => by
    have h1 := h (d :: s) (fun x hx => hx)
    have h2 := anySuffix_congr s (fun t ht => h t (fun x hx => List.mem_cons_of_mem _ (ht x hx)))
    simp only [QrMatch.anySuffix, Spec.Match.anySuffix, h1]
    rw [h2]

/-- On patterns free of '_' and '%' and when no pattern character is equal to
a different value character up to ASCII case, SQLite's LIKE on the translated
pattern is PS3.4 wild-card matching. -/
theorem like_toLike_eq_wild : ∀ (p v : Str),
    (∀ c ∈ p, c ≠ '_' ∧ c ≠ '%') →
    (∀ c ∈ p, ∀ d ∈ v, lowerAscii c = lowerAscii d → c = d) →
    like (toLike p) v = Spec.Match.wild p v
  | [], v, _, _ => by simp [toLike, like, Spec.Match.wild]
  | c :: p, v, hp, hc => by
    have hpc := hp c (List.mem_cons_self)
    have hp' : ∀ x ∈ p, x ≠ '_' ∧ x ≠ '%' := fun x hx => hp x (List.mem_cons_of_mem _ hx)
    have ih := fun (t : Str) (ht : ∀ d ∈ t, d ∈ v) => like_toLike_eq_wild p t hp'
      (fun x hx d hd => hc x (List.mem_cons_of_mem _ hx) d (ht d hd))
    have e : toLike (c :: p) = (if c = '*' then '%' else if c = '?' then '_' else c) :: toLike p := rfl
    rw [e]
    by_cases h1 : c = '*'
    · subst h1
      simp only [if_true, like, Spec.Match.wild]
      exact anySuffix_congr (f := like (toLike p)) (g := Spec.Match.wild p) v ih
    · by_cases h2 : c = '?'
      · subst h2
        have n1 : ('_' : Char) ≠ '%' := by decide
        have n2 : ('?' : Char) ≠ '*' := by decide
        simp only [h1, if_false, if_true, like, n1, Spec.Match.wild]
        cases v with
        | nil => rfl
        | cons d s' =>
          have := ih s' (fun x hx => List.mem_cons_of_mem _ hx)
          simp [this]
      · simp only [h1, h2, if_false, like, hpc.2, Spec.Match.wild]
        cases v with
        | nil => rfl
        | cons d s' =>
          have := ih s' (fun x hx => List.mem_cons_of_mem _ hx)
          have hcd : (lowerAscii c == lowerAscii d) = (c == d) := by
            by_cases hh : c = d
            · subst hh; simp
            · have : lowerAscii c ≠ lowerAscii d := fun e =>
                hh (hc c (List.mem_cons_self) d (List.mem_cons_self) e)
              rw [beq_eq_false_iff_ne.mpr this, beq_eq_false_iff_ne.mpr hh]
          have hu : (c == '_') = false := by simpa using hpc.1
          have hq : (c == '?') = false := by simpa using h2
          simp [this, hcd, hu, hq]

/-! ### lexicographic (SQLite BINARY collation) vs numeric order on digit strings -/

theorem valDigits_lt : ∀ (a : Str), a.all isDigit = true → valDigits a < 10 ^ a.length
  | [], _ => by simp [valDigits]
  | c :: cs, h => by
    simp only [List.all_cons, Bool.and_eq_true] at h
    have ih := valDigits_lt cs h.2
    have hd : c.toNat - 48 ≤ 9 := by
      have := h.1; simp only [isDigit, Bool.and_eq_true, Nat.ble_eq] at this; omega
    simp only [valDigits, List.length_cons, Nat.pow_succ]
    have : (c.toNat - 48) * 10 ^ cs.length ≤ 9 * 10 ^ cs.length := Nat.mul_le_mul_right _ hd
    omega

theorem lexLe_eq_numeric : ∀ (a b : Str), a.length = b.length →
    a.all isDigit = true → b.all isDigit = true →
    lexLe a b = Nat.ble (valDigits a) (valDigits b)
  | [], [], _, _, _ => by simp [lexLe, valDigits]
  | [], _ :: _, h, _, _ => by simp at h
  | _ :: _, [], h, _, _ => by simp at h
  | x :: as, y :: bs, hl, ha, hb => by
    simp only [List.all_cons, Bool.and_eq_true] at ha hb
    have hl' : as.length = bs.length := by simpa using hl
    have ih := lexLe_eq_numeric as bs hl' ha.2 hb.2
    have la := valDigits_lt as ha.2
    have lb := valDigits_lt bs hb.2
    rw [hl'] at la
    have dx := ha.1; have dy := hb.1
    simp only [isDigit, Bool.and_eq_true, Nat.ble_eq] at dx dy
    simp only [lexLe, valDigits, ih, hl']
    generalize 10 ^ bs.length = k at *
    generalize valDigits as = va at *
    generalize valDigits bs = vb at *
    by_cases hlt : x.toNat < y.toNat
    · have h1 : (x.toNat - 48 + 1) * k ≤ (y.toNat - 48) * k := Nat.mul_le_mul_right _ (by omega)
      rw [Nat.add_mul, Nat.one_mul] at h1
      have : Nat.blt x.toNat y.toNat = true := by simpa [Nat.blt_eq] using hlt
      have h2 : Nat.ble ((x.toNat - 48) * k + va) ((y.toNat - 48) * k + vb) = true := by
        rw [Nat.ble_eq]; omega
      simp [this, h2]
    · have nb : Nat.blt x.toNat y.toNat = false := by
        cases hb' : Nat.blt x.toNat y.toNat with
        | false => rfl
        | true => exact absurd (by simpa [Nat.blt_eq] using hb') hlt
      by_cases heq : x = y
      · subst heq
        simp only [nb, Bool.false_or, beq_self_eq_true, Bool.true_and]
        cases hc : Nat.ble va vb with
        | true =>
          have : va ≤ vb := by simpa [Nat.ble_eq] using hc
          symm; rw [Nat.ble_eq]; omega
        | false =>
          have : ¬ va ≤ vb := by intro h; rw [← Nat.ble_eq] at h; rw [h] at hc; cases hc
          cases hd : Nat.ble ((x.toNat - 48) * k + va) ((x.toNat - 48) * k + vb) with
          | false => rfl
          | true => rw [Nat.ble_eq] at hd; omega
      · have hne : x.toNat ≠ y.toNat := fun e => heq (Char.toNat_inj.mp e)
        have hgt : y.toNat < x.toNat := by omega
        have h1 : (y.toNat - 48 + 1) * k ≤ (x.toNat - 48) * k := Nat.mul_le_mul_right _ (by omega)
        rw [Nat.add_mul, Nat.one_mul] at h1
        have hb2 : (x == y) = false := by simpa using heq
        simp only [nb, hb2, Bool.false_and, Bool.or_false]
        cases hd : Nat.ble ((x.toNat - 48) * k + va) ((y.toNat - 48) * k + vb) with
        | false => rfl
        | true => rw [Nat.ble_eq] at hd; omega

end QrMatch

/-! ### `value.split("-")` of the code and the spec's reading of a range key -/

theorem digits_no_dash {a : Str} (h : a.all isDigit = true) : '-' ∉ a := by
  intro hm
  have := List.all_eq_true.mp h '-' hm
  exact absurd this (by decide)

theorem splitDashes_ne_nil : ∀ s, QrMatch.splitDashes s ≠ []
  | [] => by simp [QrMatch.splitDashes]
  | c :: cs => by
    unfold QrMatch.splitDashes
    by_cases h : c = '-'
    · simp [h]
    · simp only [h, if_false]
      cases QrMatch.splitDashes cs <;> simp

theorem splitDashes_noDash : ∀ (b : Str), '-' ∉ b → QrMatch.splitDashes b = [b]
  | [], _ => rfl
  | c :: cs, h => by
    have hc : c ≠ '-' := by intro e; subst e; simp at h
    have := splitDashes_noDash cs (fun e => h (List.mem_cons_of_mem _ e))
    simp [QrMatch.splitDashes, hc, this]

theorem splitDashes_append : ∀ (a b : Str), '-' ∉ a → '-' ∉ b → QrMatch.splitDashes (a ++ '-' :: b) = [a, b]
  | [], b, _, hb => by simp [QrMatch.splitDashes, splitDashes_noDash b hb]
  | c :: cs, b, ha, hb => by
    have hc : c ≠ '-' := by intro e; subst e; simp at ha
    have := splitDashes_append cs b (fun e => ha (List.mem_cons_of_mem _ e)) hb
    simp [QrMatch.splitDashes, hc, this]

theorem splitDash_append : ∀ (a b : Str), '-' ∉ a → '-' ∉ b → splitDash (a ++ '-' :: b) = some (a, b)
  | [], b, _, hb => by
    have : b.contains '-' = false := by
      cases h : b.contains '-' with
      | false => rfl
      | true => exact absurd (List.contains_iff_mem.mp h) hb
    simp [splitDash, hb]
  | c :: cs, b, ha, hb => by
    have hc : c ≠ '-' := by intro e; subst e; simp at ha
    have := splitDash_append cs b (fun e => ha (List.mem_cons_of_mem _ e)) hb
    simp [splitDash, hc, this]

/-! ### C29: how an identifier reaches `build_query`; helper lemmas for the whole-`search` theorem -/

namespace C29

/-- what `build_query` sees when `search()` is called with the identifier as an SCU
builds it in Python (`None` for a zero-length key) -/
def seenDirect : Key → QrMatch.Val
  | [] => .none
  | [v] => .str v
  | vs => .multi vs

/-- what `build_query` sees after the identifier went over the wire (pydicom decodes a
zero-length string element as `''`, a zero-length IS/DS as `None`) -/
def seenWire (vr : VRClass) : Key → QrMatch.Val
  | [] => if vr = .other then .none else .str []
  | [v] => .str v
  | vs => .multi vs

def kindToSpec : QrMatch.CodeKind → Kind
  | .single => .single | .universal => .universal | .uidList => .uidList
  | .wildcard => .wildcard | .range => .range | .skipped => .multi

theorem dispatch_one (vr : String) (v : Str) :
    kindToSpec (QrMatch.buildKind vr (.str v)) = kindOf (classOf vr) [v] ∨ vr = "SQ" := by
  by_cases hsq : vr = "SQ"
  · exact Or.inr hsq
  left
  by_cases h : vr ∈ ["PN", "AE", "CS", "LO", "LT", "SH", "ST", "UC", "UR", "UT", "UI", "DA", "TM", "DT"]
  · simp only [List.mem_cons, List.mem_nil_iff, or_false] at h
    rcases h with h | h | h | h | h | h | h | h | h | h | h | h | h | h <;> subst h <;>
      simp [QrMatch.buildKind, QrMatch.Val.has, QrMatch.textVR, kindOf, classOf, hasWild, kindToSpec] <;>
      (try (by_cases a : '*' ∈ v <;> by_cases b : '?' ∈ v <;> by_cases c : '-' ∈ v <;> simp [a, b, c]))
  · simp only [List.mem_cons, List.mem_nil_iff, or_false, not_or] at h
    obtain ⟨h1, h2, h3, h4, h5, h6, h7, h8, h9, h10, h11, h12, h13, h14⟩ := h
    simp [QrMatch.buildKind, QrMatch.Val.has, QrMatch.textVR, kindOf, classOf, kindToSpec, *]

def mroot : Root → QrMatch.Root
  | .patientRoot => .patientRoot
  | .studyRoot => .studyRoot

theorem any_fst {α : Type} (keys : List (Nat × α)) (c : Nat) :
    keys.any (fun k => k.1 == c) = (keys.map (·.1)).any (· == c) := by
  induction keys with
  | nil => rfl
  | cons k ks ih => simp [ih]

theorem find?_of_nodup {α : Type} : ∀ (l : List (Nat × α)) (k : Nat × α),
    (l.map (·.1)).Nodup → k ∈ l → l.find? (fun x => x.1 == k.1) = some k
  | [], _, _, h => by simp at h
  | x :: xs, k, hn, h => by
    simp only [List.map_cons, List.nodup_cons] at hn
    rcases List.mem_cons.mp h with h | h
    · subst h; simp [List.find?]
    · have hx : x.1 ≠ k.1 := by
        intro e
        exact hn.1 (e ▸ List.mem_map_of_mem (f := (·.1)) h)
      have : (x.1 == k.1) = false := by simpa using hx
      simp only [List.find?, this]
      exact find?_of_nodup xs k hn.2 h

/-- every supported column lies at or above the level, or below it -/
theorem covered (root : Root) (q : String) (L : Level) (hq : parseLevel q = some L)
    (hL : (levelsOf root).contains L = true) (c : Nat) (hc : c < 12) :
    c ∈ QrMatch.columnsUpTo q (QrMatch.levelsOf (mroot root)) ∨ c ∈ columnsBelow root L := by
  have hc' : c = 0 ∨ c = 1 ∨ c = 2 ∨ c = 3 ∨ c = 4 ∨ c = 5 ∨ c = 6 ∨ c = 7 ∨ c = 8 ∨ c = 9 ∨ c = 10 ∨ c = 11 := by omega
  by_cases h : q ∈ ["PATIENT", "STUDY", "SERIES", "IMAGE"]
  · simp only [List.mem_cons, List.mem_nil_iff, or_false] at h
    rcases h with h | h | h | h <;> subst h <;> simp [parseLevel] at hq <;> subst hq <;> cases root <;>
      (first
        | (simp [levelsOf] at hL; done)
        | (rcases hc' with h | h | h | h | h | h | h | h | h | h | h | h <;> subst h <;> decide))
  · simp only [List.mem_cons, List.mem_nil_iff, or_false, not_or] at h
    obtain ⟨h1, h2, h3, h4⟩ := h
    simp [parseLevel, h1, h2, h3, h4] at hq

/-- the list of SQL conditions `_search_qr` accumulates is one condition per key -/
theorem filters_all (mkeys : List (Nat × QrMatch.Val)) (colsUpTo : List Nat) (has : Nat → Bool)
    (G : Nat → Nat × QrMatch.Val → QrMatch.Filter)
    (hhas : ∀ k ∈ mkeys, has k.1 = true)
    (hn : (mkeys.map (·.1)).Nodup) (hin : ∀ k ∈ mkeys, k.1 ∈ colsUpTo) (P : Nat × QrMatch.Filter → Bool) :
    ((colsUpTo.filter has).filterMap (fun c =>
        (mkeys.find? (fun k => k.1 == c)).map (fun k => (c, G c k)))).all P =
      mkeys.all (fun k => P (k.1, G k.1 k)) := by
  rw [Bool.eq_iff_iff, List.all_eq_true, List.all_eq_true]
  constructor
  · intro h k hk
    apply h
    rw [List.mem_filterMap]
    refine ⟨k.1, List.mem_filter.mpr ⟨hin k hk, hhas k hk⟩, ?_⟩
    rw [find?_of_nodup mkeys k hn hk]; rfl
  · intro h f hf
    rw [List.mem_filterMap] at hf
    obtain ⟨c, _, hg⟩ := hf
    cases hfind : mkeys.find? (fun k => k.1 == c) with
    | none => simp [hfind] at hg
    | some k =>
      simp only [hfind, Option.map_some, Option.some.injEq] at hg
      have hk : k ∈ mkeys := List.mem_of_find?_eq_some hfind
      have hc : k.1 = c := by simpa using List.find?_some hfind
      subst hg; subst hc; exact h k hk

theorem filterMap_congr' {α β : Type} {f g : α → Option β} : ∀ (l : List α),
    (∀ x ∈ l, f x = g x) → l.filterMap f = l.filterMap g
  | [], _ => rfl
  | x :: xs, h => by
    have hx := h x (List.mem_cons_self)
    have ih := filterMap_congr' xs (fun y hy => h y (List.mem_cons_of_mem _ hy))
    simp only [List.filterMap_cons, hx, ih]

theorem attrs_some (c : Nat) (hc : c < 12) : ∃ a, attrs[c]? = some a := by
  have : c < attrs.length := by simpa [attrs] using hc
  exact ⟨attrs[c], List.getElem?_eq_getElem this⟩

theorem vr_class (c : Nat) (hc : c < 12) :
    ∃ a, attrs[c]? = some a ∧ classOf ((QrMatch.vrs[c]?).getD "UN") = a.vr ∧ (QrMatch.vrs[c]?).getD "UN" ≠ "SQ" ∧
      (a.vr = .dateTime → c = 3 ∨ c = 4) := by
  have hc' : c = 0 ∨ c = 1 ∨ c = 2 ∨ c = 3 ∨ c = 4 ∨ c = 5 ∨ c = 6 ∨ c = 7 ∨ c = 8 ∨ c = 9 ∨ c = 10 ∨ c = 11 := by omega
  rcases hc' with h | h | h | h | h | h | h | h | h | h | h | h <;> subst h <;> exact ⟨_, rfl, by decide⟩

end C29
end PynetVerif
