import PynetVerif.Lemmas.Scp
/-!
Definitions and helper lemmas for C22 (C-GET / C-MOVE sub-operation counters):
what is required of a retrieve status table, the prescribed final status and
failed-UID list, facts about `gmFinal`, `gmSuccess` and the loop-body effects.
-/
namespace PynetVerif.Scp
open PynetVerif.Status (Category)

/-- What the theorems need of the status table of a retrieve service. -/
structure RetrieveTable (t : Table) : Prop where
  pending : ∀ c, tableCat t c = some Category.pending → c = 0xFF00 ∨ c = 0xFF01
  success : tableCat t 0 = some Category.success
  successOnly : ∀ c, tableCat t c = some Category.success → c = 0
  allFailed : tableCat t 0xA702 = some Category.failure
  warning : tableCat t 0xB000 = some Category.warning

/-- a response whose status the service's table classifies as Pending -/
def isPending (t : Table) (s : Snap) : Bool := tableCat t s.r.status == some Category.pending

/-- the sub-operation outcome attached to a yielded value is one the property quantifies over -/
def Quantified : Option YieldVal → Prop
  | some (.pair _ _ o) => o ≠ Outcome.cancel
  | _ => True

/-- the loop of `_get_scp/_move_scp` entered with `n` announced sub-operations -/
def retrieveOut (p : Prim) (t : Table) (cx n : Nat) (exc : Int) (items : List Item) (st : St) (r0 : Rsp) : Out :=
  gmLoop p t cx n exc items st { ctr := { rem := n }, rsp := r0 }

/-- the final status the property prescribes -/
def finalStatusSpec (n fail warn : Nat) : Int :=
  if fail = 0 ∧ warn = 0 then 0x0000 else if fail = n then 0xA702 else 0xB000

/-- the UIDs the final response must list: the instances whose sub-operation failed, in
order; an invalid object contributes the empty UID (as the code does); an instance without
a SOP Instance UID cannot be listed -/
def failedSpec : List SubOp → List (Option Nat)
  | [] => []
  | .invalid :: rest => none :: failedSpec rest
  | .store uid o :: rest =>
    (if o.isFail then (match uid with | some u => [some u] | none => []) else []) ++ failedSpec rest

/-! ### helper lemmas -/

theorem lookup_some_mem : ∀ (t : Table) (n v : Nat), Status.lookup t n = some v →
    ∃ r ∈ t, r.1 ≤ n ∧ n ≤ r.2.1 ∧ r.2.2 = v := by
  intro t
  induction t with
  | nil => intro n v h; simp [Status.lookup] at h
  | cons x xs ih =>
    obtain ⟨lo, hi, w⟩ := x
    intro n v h
    simp only [Status.lookup] at h
    split at h
    · next hc => injection h with h; exact ⟨(lo, hi, w), List.mem_cons_self, hc.1, hc.2, h⟩
    · obtain ⟨r, hr, h1⟩ := ih n v h
      exact ⟨r, List.mem_cons_of_mem _ hr, h1⟩

theorem ofCode_pending (v : Nat) (h : Category.ofCode v = Category.pending) : v = 4 := by
  unfold Category.ofCode at h
  split at h <;> first | rfl | cases h

/-- a table whose Pending runs lie inside 0xFF00..0xFF01 -/
theorem pending_of_runs (t : Table)
    (h : t.all (fun r => r.2.2 != 4 || (Nat.ble 0xFF00 r.1 && Nat.ble r.2.1 0xFF01)) = true) :
    ∀ c, tableCat t c = some Category.pending → c = 0xFF00 ∨ c = 0xFF01 := by
  intro c hc
  cases c with
  | negSucc k => simp [tableCat] at hc
  | ofNat k =>
    simp only [tableCat, Option.map_eq_some_iff] at hc
    obtain ⟨v, hv, hp⟩ := hc
    have := ofCode_pending v hp
    subst this
    obtain ⟨r, hr, h1, h2, h3⟩ := lookup_some_mem t k 4 hv
    have hr' := List.all_eq_true.mp h r hr
    simp only [h3, bne_self_eq_false, Bool.false_or, Bool.and_eq_true, Nat.ble_eq] at hr'
    have : k = 0xFF00 ∨ k = 0xFF01 := by omega
    rcases this with h | h
    · left; subst h; rfl
    · right; subst h; rfl

theorem ofCode_success (v : Nat) (h : Category.ofCode v = Category.success) : v = 0 := by
  unfold Category.ofCode at h
  split at h <;> first | rfl | cases h

/-- a table whose only Success run is 0..0 -/
theorem success_of_runs (t : Table)
    (h : t.all (fun r => r.2.2 != 0 || (Nat.ble r.1 0 && Nat.ble r.2.1 0)) = true) :
    ∀ c, tableCat t c = some Category.success → c = 0 := by
  intro c hc
  cases c with
  | negSucc k => simp [tableCat] at hc
  | ofNat k =>
    simp only [tableCat, Option.map_eq_some_iff] at hc
    obtain ⟨v, hv, hp⟩ := hc
    have := ofCode_success v hp
    subst this
    obtain ⟨r, hr, h1, h2, h3⟩ := lookup_some_mem t k 0 hv
    have hr' := List.all_eq_true.mp h r hr
    simp only [h3, bne_self_eq_false, Bool.false_or, Bool.and_eq_true, Nat.ble_eq] at hr'
    have : k = 0 := by omega
    subst this; rfl

theorem retrieveTable_get : RetrieveTable (tableNamed "QR_GET_SERVICE_CLASS_STATUS") :=
  ⟨pending_of_runs _ (by decide), by decide, success_of_runs _ (by decide), by decide, by decide⟩

theorem retrieveTable_move : RetrieveTable (tableNamed "QR_MOVE_SERVICE_CLASS_STATUS") :=
  ⟨pending_of_runs _ (by decide), by decide, success_of_runs _ (by decide), by decide, by decide⟩

theorem not_pending_of {t : Table} (ht : RetrieveTable t) {c : Int} (h1 : c ≠ 0xFF00) (h2 : c ≠ 0xFF01) :
    tableCat t c ≠ some Category.pending := by
  intro h; rcases ht.pending c h with h | h <;> contradiction

theorem gmFinal_status (n : Nat) (g : GmSt) :
    (gmFinal n g).status = finalStatusSpec n g.ctr.fail g.ctr.warn := by
  unfold gmFinal finalStatusSpec
  by_cases h : g.ctr.fail = 0 ∧ g.ctr.warn = 0
  · simp [h]
  · have : (g.ctr.fail == 0 && g.ctr.warn == 0) = false := by
      simp only [Bool.and_eq_false_iff, beq_eq_false_iff_ne]; omega
    by_cases h2 : n = g.ctr.fail
    · simp [this, h, h2]
    · have h3 : ¬ g.ctr.fail = n := fun e => h2 e.symm
      simp [this, h, h2, h3]

theorem gmFinal_counters (n : Nat) (g : GmSt) :
    (gmFinal n g).fail = some g.ctr.fail ∧ (gmFinal n g).warn = some g.ctr.warn ∧
    (gmFinal n g).comp = some g.ctr.comp := by
  unfold gmFinal; exact ⟨rfl, rfl, rfl⟩

theorem gmFinal_ident (n : Nat) (g : GmSt) :
    (gmFinal n g).ident = if g.ctr.fail = 0 ∧ g.ctr.warn = 0 then Ident.none else Ident.failed g.failed := by
  unfold gmFinal
  by_cases h : g.ctr.fail = 0 ∧ g.ctr.warn = 0
  · simp [h]
  · have : (g.ctr.fail == 0 && g.ctr.warn == 0) = false := by
      simp only [Bool.and_eq_false_iff, beq_eq_false_iff_ne]; omega
    simp [this, h]

theorem finalStatusSpec_not_pending {t : Table} (ht : RetrieveTable t) (n f w : Nat) :
    tableCat t (finalStatusSpec n f w) ≠ some Category.pending := by
  unfold finalStatusSpec
  split
  · rw [ht.success]; simp
  · split
    · rw [ht.allFailed]; simp
    · rw [ht.warning]; simp

theorem finalStatusSpec_known {t : Table} (ht : RetrieveTable t) (n f w : Nat) :
    tableCat t (finalStatusSpec n f w) ≠ none := by
  unfold finalStatusSpec
  split
  · rw [ht.success]; simp
  · split
    · rw [ht.allFailed]; simp
    · rw [ht.warning]; simp

theorem gmSuccess_status (r : Rsp) (g : GmSt) :
    (gmSuccess r g).status = if g.ctr.fail = 0 ∧ g.ctr.warn = 0 then r.status else 0xB000 := by
  unfold gmSuccess
  by_cases h : g.ctr.fail = 0 ∧ g.ctr.warn = 0
  · simp [h]
  · have : (g.ctr.fail != 0 || g.ctr.warn != 0) = true := by
      simp only [Bool.or_eq_true, bne_iff_ne]; omega
    simp [this, h]

theorem gmSuccess_counters (r : Rsp) (g : GmSt) :
    (gmSuccess r g).fail = some g.ctr.fail ∧ (gmSuccess r g).warn = some g.ctr.warn ∧
    (gmSuccess r g).comp = some g.ctr.comp := by
  unfold gmSuccess; exact ⟨rfl, rfl, rfl⟩

theorem gmSuccess_ident (r : Rsp) (g : GmSt) :
    (gmSuccess r g).ident = if g.ctr.fail = 0 ∧ g.ctr.warn = 0 then Ident.none else Ident.failed g.failed := by
  unfold gmSuccess
  by_cases h : g.ctr.fail = 0 ∧ g.ctr.warn = 0
  · simp [h]
  · have : (g.ctr.fail != 0 || g.ctr.warn != 0) = true := by
      simp only [Bool.or_eq_true, bne_iff_ne]; omega
    simp [this, h]

/-- the handler's own final Success: the prescribed status, except that "all failed" is
reported as Warning 0xB000 instead of 0xA702 -/
theorem gmSuccess_spec (r : Rsp) (g : GmSt) (n : Nat) (h0 : r.status = 0) :
    (gmSuccess r g).status = finalStatusSpec n g.ctr.fail g.ctr.warn ∨
    (g.ctr.fail = n ∧ (gmSuccess r g).status = 0xB000) := by
  rw [gmSuccess_status, h0]
  unfold finalStatusSpec
  by_cases hz : g.ctr.fail = 0 ∧ g.ctr.warn = 0
  · left; simp only [if_pos hz]
  · by_cases hn : g.ctr.fail = n
    · right; exact ⟨hn, by simp only [if_neg hz]⟩
    · left; simp only [if_neg hz, if_neg hn]

/-- no response sent by a returning loop body is Pending -/
theorem stopSpec_not_pending {p : Prim} {t : Table} (ht : RetrieveTable t) {g : GmSt} {s : StatusVal}
    {d : DsVal} {r : Rsp} (h : StopSpec p t g s d r) : tableCat t r.status ≠ some Category.pending := by
  cases h with
  | unknown hc => rw [hc]; simp
  | cancel hc => show tableCat t (validateStatus p s g.rsp).status ≠ _; rw [hc]; simp
  | failWarn hc => show tableCat t (validateStatus p s g.rsp).status ≠ _; rcases hc with hc | hc <;> (rw [hc]; simp)
  | success hc =>
    rw [gmSuccess_status]
    split
    · rw [hc]; simp
    · rw [ht.warning]; simp

theorem unpack_quantified {exc : Int} {v : Option YieldVal} {s : StatusVal} {d : DsVal} {o : Outcome}
    (hq : Quantified v) (h : unpack exc v = some (s, d, o)) : o ≠ Outcome.cancel := by
  cases v with
  | none => simp [unpack] at h; rw [← h.2.2]; simp
  | some x =>
    have hx := hq
    cases x with
    | pair s' d' o' => simp [unpack, asPair] at h; rw [← h.2.2]; exact hx
    | status s' =>
      cases s' with
      | ds elems =>
        simp only [unpack, asPair] at h
        split at h
        · injection h with h; injection h with _ h; injection h with _ h; rw [← h]; simp
        · cases h
      | int c => simp [unpack, asPair] at h
      | bad => simp [unpack, asPair] at h
    | dest k => simp [unpack, asPair] at h
    | junk => simp [unpack, asPair] at h

theorem effect_sum {g g' : GmSt} {d : DsVal} {o : Outcome} {op : SubOp} (hrem : g.ctr.rem ≠ 0)
    (ho : o ≠ Outcome.cancel) (he : PendingEffect g d o op g') : g'.ctr.sum = g.ctr.sum := by
  rcases he with ⟨_, hc, _⟩ | ⟨_, hc, _⟩
  · rw [hc]; simp only [Ctr.sum]; omega
  · rw [hc]; cases o <;> simp only [Ctr.afterStore, Ctr.sum] <;> first | omega | contradiction

theorem effect_mono {g g' : GmSt} {d : DsVal} {o : Outcome} {op : SubOp}
    (he : PendingEffect g d o op g') :
    g'.ctr.rem ≤ g.ctr.rem ∧ g.ctr.fail ≤ g'.ctr.fail ∧ g.ctr.warn ≤ g'.ctr.warn ∧ g.ctr.comp ≤ g'.ctr.comp := by
  rcases he with ⟨_, hc, _⟩ | ⟨_, hc, _⟩
  · rw [hc]; refine ⟨?_, ?_, ?_, ?_⟩ <;> simp only <;> omega
  · rw [hc]; cases o <;> simp only [Ctr.afterStore] <;> (refine ⟨?_, ?_, ?_, ?_⟩ <;> omega)

theorem effect_sum_le {g g' : GmSt} {d : DsVal} {o : Outcome} {op : SubOp} (hrem : g.ctr.rem ≠ 0)
    (he : PendingEffect g d o op g') : g'.ctr.sum ≤ g.ctr.sum := by
  rcases he with ⟨_, hc, _⟩ | ⟨_, hc, _⟩
  · rw [hc]; simp only [Ctr.sum]; omega
  · rw [hc]; cases o <;> simp only [Ctr.afterStore, Ctr.sum] <;> omega

theorem isPending_iff (t : Table) (s : Snap) :
    isPending t s = true ↔ tableCat t s.r.status = some Category.pending := by
  unfold isPending; exact beq_iff_eq

theorem gmTail_rsps (cx n : Nat) (st : St) (g : GmSt) :
    (gmTail cx n st g).rsps = [] ∨ (gmTail cx n st g).rsps = [⟨cx, gmFinal n g⟩] := by
  unfold gmTail; split
  · left; rfl
  · right; rfl

theorem gmTail_subops (cx n : Nat) (st : St) (g : GmSt) : (gmTail cx n st g).subops = [] := by
  unfold gmTail; split <;> rfl

theorem gmFinal_clearIdent (n : Nat) (g : GmSt) : gmFinal n g.clearIdent = gmFinal n g := by
  unfold gmFinal GmSt.clearIdent
  by_cases h : (g.ctr.fail == 0 && g.ctr.warn == 0) = true <;> simp [h]

/-- counters `b` are "later" than `a`: remaining did not increase, the others did not decrease -/
def Ctr.later (a b : Ctr) : Prop := b.rem ≤ a.rem ∧ a.fail ≤ b.fail ∧ a.warn ≤ b.warn ∧ a.comp ≤ b.comp

/-- response `b` carries counters later than those of response `a` -/
def Snap.later (a b : Snap) : Prop := ∃ ca cb, a.r.ctr? = some ca ∧ b.r.ctr? = some cb ∧ ca.later cb


theorem setAttr_ident (r : Rsp) (k : Kw) (v : Nat) : (r.setAttr k v).ident = r.ident := by
  cases k <;> rfl

theorem copyElems_ident (p : Prim) : ∀ (elems : List (Kw × Nat)) (r : Rsp), (copyElems p elems r).ident = r.ident := by
  intro elems
  induction elems with
  | nil => intro r; rfl
  | cons e es ih =>
    intro r
    simp only [copyElems, List.foldl_cons] at ih ⊢
    rw [ih]
    split
    · exact setAttr_ident _ _ _
    · rfl

/-- `validate_status` never touches the data set of the response -/
theorem validateStatus_ident (p : Prim) (s : StatusVal) (r : Rsp) : (validateStatus p s r).ident = r.ident := by
  cases s with
  | int c => rfl
  | bad => rfl
  | ds elems =>
    simp only [validateStatus]
    split
    · exact copyElems_ident p elems r
    · rfl

theorem failedSpec_append : ∀ (a b : List SubOp), failedSpec (a ++ b) = failedSpec a ++ failedSpec b := by
  intro a
  induction a with
  | nil => intro b; rfl
  | cons x xs ih =>
    intro b
    cases x with
    | invalid => simp [failedSpec, ih]
    | store uid o => simp [failedSpec, ih]

theorem effect_failed {g g' : GmSt} {d : DsVal} {o : Outcome} {op : SubOp} {pre : List SubOp}
    (he : PendingEffect g d o op g') (hf : g.failed = failedSpec pre) :
    g'.failed = failedSpec (pre ++ [op]) := by
  rw [failedSpec_append, ← hf]
  rcases he with ⟨h1, _, h3⟩ | ⟨h1, _, h3⟩
  · rw [h1, h3]; rfl
  · rw [h1, h3]
    simp only [failedAfterStore, failedSpec, List.append_nil]
    cases o.isFail <;> cases d.uid <;> simp

/-- the yielded value is a `(status, dataset)` pair whose status is an int the table calls Pending,
or an int the table calls Success (the handler's own final Success) -/
def PendingOrSuccessYield (t : Table) : Option YieldVal → Prop
  | some (.pair (.int c) _ _) => tableCat t c = some Category.pending ∨ tableCat t c = some Category.success
  | _ => False

theorem pendingYield_unpack {t : Table} {exc : Int} {v : Option YieldVal} {s : StatusVal} {d : DsVal}
    {o : Outcome} (hq : PendingOrSuccessYield t v) (h : unpack exc v = some (s, d, o)) :
    ∃ c, s = StatusVal.int c ∧
      (tableCat t c = some Category.pending ∨ tableCat t c = some Category.success) := by
  cases v with
  | none => exact absurd hq (by simp [PendingOrSuccessYield])
  | some x =>
    cases x with
    | pair s' d' o' =>
      cases s' with
      | int c =>
        simp only [unpack, asPair, Option.some.injEq, Prod.mk.injEq] at h
        exact ⟨c, h.1.symm, hq⟩
      | ds _ => exact absurd hq (by simp [PendingOrSuccessYield])
      | bad => exact absurd hq (by simp [PendingOrSuccessYield])
    | status _ => exact absurd hq (by simp [PendingOrSuccessYield])
    | dest _ => exact absurd hq (by simp [PendingOrSuccessYield])
    | junk => exact absurd hq (by simp [PendingOrSuccessYield])

/-- the number of sub-operations `_get_scp` reads from the handler, when it is valid -/
def announcedGet : Handler → Option Nat
  | .gen (.yield (.status (.int c)) _ :: _) => if 1 ≤ c ∧ c ≤ 65535 then some c.toNat else none
  | _ => none

/-- the number of sub-operations `_move_scp` reads from the handler (second value), when it is valid -/
def announcedMove : Handler → Option Nat
  | .gen (.yield _ _ :: .yield (.status (.int c)) _ :: _) => if 1 ≤ c ∧ c ≤ 65535 then some c.toNat else none
  | _ => none

/-- the generator items left when the loop starts -/
def Handler.itemsFrom (k : Nat) : Handler → List Item
  | .gen items => items.drop k
  | _ => []

end PynetVerif.Scp
