import PynetVerif.Model.Scp
/-!
Lemmas about M-Scp used by C20/C21/C22: `Out` algebra, the induction principle
of the C-GET/C-MOVE loop, the counter invariant.
-/
namespace PynetVerif.Scp

@[simp] theorem Out.append_rsps (a b : Out) : (a ++ b).rsps = a.rsps ++ b.rsps := rfl
@[simp] theorem Out.append_subops (a b : Out) : (a ++ b).subops = a.subops ++ b.subops := rfl
@[simp] theorem Out.append_crashed (a b : Out) : (a ++ b).crashed = (a.crashed || b.crashed) := rfl
@[simp] theorem Out.nil_rsps : Out.nil.rsps = [] := rfl
@[simp] theorem Out.nil_subops : Out.nil.subops = [] := rfl
@[simp] theorem Out.nil_crashed : Out.nil.crashed = false := rfl
@[simp] theorem Out.crash_rsps : Out.crash.rsps = [] := rfl
@[simp] theorem Out.crash_subops : Out.crash.subops = [] := rfl
@[simp] theorem Out.crash_crashed : Out.crash.crashed = true := rfl
@[simp] theorem send_rsps (cx : Nat) (r : Rsp) : (send cx r).rsps = [⟨cx, r⟩] := rfl
@[simp] theorem send_subops (cx : Nat) (r : Rsp) : (send cx r).subops = [] := rfl
@[simp] theorem send_crashed (cx : Nat) (r : Rsp) : (send cx r).crashed = false := rfl
@[simp] theorem Out.nil_append (o : Out) : Out.nil ++ o = o := by
  cases o; show Out.append _ _ = _; simp [Out.append, Out.nil]

/-- what the loop bodies are run on: `some v` for a yielded value, `none` for the
`(None, exc_info)` tuple of a raise -/
def stepVals : List Item → List (Option YieldVal)
  | [] => []
  | .yield v _ :: rest => some v :: stepVals rest
  | .raise _ _ :: rest => none :: stepVals rest
  | .ret _ :: rest => stepVals rest

/-- Induction principle for the loop of `_get_scp/_move_scp`: to show `P g out` for the
output of the loop started in state `g`, show it for the computed final, for a body that
returns, for a body that continues (given `P` of the rest), and for `break`.  `Q` is a
predicate every value the body is run on satisfies. -/
theorem gmLoop_induct (p : Prim) (t : Table) (cx n : Nat) (exc : Int) (Q : Option YieldVal → Prop)
    (P : GmSt → Out → Prop)
    (hTail : ∀ st g, P g (gmTail cx n st g))
    (hStop : ∀ est v g o, Q v → gmStep p t cx exc est v g = .stop o → P g o)
    (hCont : ∀ est v g o g' o', Q v → gmStep p t cx exc est v g = .cont o g' → P g' o' → P g (o ++ o'))
    (hBrk : ∀ est v g g' st, gmStep p t cx exc est v g = .brk g' → P g (gmTail cx n st g')) :
    ∀ items, (∀ x ∈ stepVals items, Q x) → ∀ st g, P g (gmLoop p t cx n exc items st g) := by
  intro items
  induction items with
  | nil => intro _ st g; exact hTail st g
  | cons it rest ih =>
    intro hq st g
    cases it with
    | ret e => exact hTail _ g
    | raise te e =>
      have hv : Q none := hq none (by simp [stepVals])
      simp only [gmLoop]
      split
      · next o h => exact hStop _ _ _ _ hv h
      · next o g' h => exact hCont _ _ _ _ _ _ hv h (hTail _ g')
      · next g' h => exact hBrk _ _ _ _ _ h
    | yield v e =>
      have hv : Q (some v) := hq (some v) (by simp [stepVals])
      have hrest : ∀ x ∈ stepVals rest, Q x := by
        intro x hx; exact hq x (by simp [stepVals, hx])
      simp only [gmLoop]
      split
      · exact hTail _ g
      · split
        · next o h => exact hStop _ _ _ _ hv h
        · next o g' h => exact hCont _ _ _ _ _ _ hv h (ih hrest _ g')
        · next g' h => exact hBrk _ _ _ _ _ h

/-! ### The loop body, case by case -/

def Ctr.sum (c : Ctr) : Nat := c.rem + c.fail + c.warn + c.comp

/-- the four counters of a response, when all are present -/
def Rsp.ctr? (r : Rsp) : Option Ctr :=
  match r.rem, r.fail, r.warn, r.comp with
  | some a, some b, some c, some d => some ⟨a, b, c, d⟩
  | _, _, _, _ => none

@[simp] theorem setCounters_ctr (r : Rsp) (c : Ctr) : (r.setCounters c).ctr? = some c := by
  cases c; simp [Rsp.setCounters, Rsp.ctr?]

@[simp] theorem setCounters_status (r : Rsp) (c : Ctr) : (r.setCounters c).status = r.status := rfl
@[simp] theorem setCounters_ident (r : Rsp) (c : Ctr) : (r.setCounters c).ident = r.ident := rfl

/-- the two state-changing outcomes of the Pending branch -/
def PendingEffect (g : GmSt) (d : DsVal) (o : Outcome) (op : SubOp) (g' : GmSt) : Prop :=
  (op = .invalid ∧ g'.ctr = { g.ctr with rem := g.ctr.rem - 1, fail := g.ctr.fail + 1 } ∧
      g'.failed = g.failed ++ [none]) ∨
  (op = .store d.uid o ∧ g'.ctr = g.ctr.afterStore o ∧ g'.failed = failedAfterStore g.failed d.uid o)

/-- a `continue` either changes nothing but `rsp`, or performs one sub-operation and sends one
response that carries the updated counters -/
def ContSpec (cx : Nat) (status : Int) (g : GmSt) (d : DsVal) (o : Outcome) (out : Out) (g' : GmSt) : Prop :=
  (out = Out.nil ∧ g'.ctr = g.ctr ∧ g'.failed = g.failed) ∨
  (∃ op, out = { rsps := [⟨cx, g'.rsp⟩], subops := [op] } ∧ g'.rsp.ctr? = some g'.ctr ∧
      g'.rsp.status = status ∧ g'.rsp.ident = Ident.none ∧ PendingEffect g d o op g')

theorem gmPending_spec (cx : Nat) (r : Rsp) (d : DsVal) (o : Outcome) (g : GmSt) :
    ∃ out g', gmPending cx r d o g = .cont out g' ∧ ContSpec cx r.status g d o out g' := by
  unfold gmPending ContSpec PendingEffect
  by_cases h1 : d.truthy = true
  · by_cases h2 : d.isDataset = true
    · simp only [h1, h2, if_true, Bool.not_true, Bool.false_eq_true, if_false]
      exact ⟨_, _, rfl, Or.inr ⟨_, rfl, by simp, rfl, rfl, Or.inr ⟨rfl, rfl, rfl⟩⟩⟩
    · simp only [h1, if_true, Bool.not_eq_true] at *
      simp only [h2, Bool.not_false, if_true]
      exact ⟨_, _, rfl, Or.inr ⟨_, rfl, by simp, rfl, rfl, Or.inl ⟨rfl, rfl, rfl⟩⟩⟩
  · simp only [h1, Bool.false_eq_true, if_false]
    exact ⟨_, _, rfl, Or.inl ⟨rfl, rfl, rfl⟩⟩


/-- the final responses a loop body can send -/
inductive StopSpec (p : Prim) (t : Table) (g : GmSt) (s : StatusVal) (d : DsVal) : Rsp → Prop
  | unknown : tableCat t (validateStatus p s g.rsp).status = none →
      StopSpec p t g s d (validateStatus p s g.rsp)
  | cancel : tableCat t (validateStatus p s g.rsp).status = some .cancel →
      StopSpec p t g s d { (validateStatus p s g.rsp).setCounters g.ctr with ident := finalIdent d g.failed }
  | failWarn : (tableCat t (validateStatus p s g.rsp).status = some .failure ∨
        tableCat t (validateStatus p s g.rsp).status = some .warning) →
      StopSpec p t g s d { validateStatus p s g.rsp with
        fail := some (g.ctr.fail + g.ctr.rem), warn := some g.ctr.warn, comp := some g.ctr.comp,
        ident := finalIdent d g.failed }
  | success : tableCat t (validateStatus p s g.rsp).status = some .success →
      StopSpec p t g s d (gmSuccess (validateStatus p s g.rsp) g)

theorem gmStep_stop {p t cx exc est v g out} (h : gmStep p t cx exc est v g = .stop out) :
    out = Out.crash ∨ out = Out.nil ∨
    (g.ctr.rem ≠ 0 ∧ ∃ s d o r, unpack exc v = some (s, d, o) ∧ out = send cx r ∧
      StopSpec p t g.clearIdent s d r) := by
  unfold gmStep at h
  split at h
  · injection h with h; exact Or.inl h.symm
  · next s d o hu =>
    split at h
    · injection h with h; exact Or.inr (Or.inl h.symm)
    · split at h
      · cases h
      · next hrem =>
        have hrem' : g.ctr.rem ≠ 0 := by simpa using hrem
        refine Or.inr (Or.inr ⟨hrem', s, d, o, ?_⟩)
        unfold gmDispatch at h
        split at h
        · next hc =>
          injection h with h
          exact ⟨_, hu, h.symm, StopSpec.unknown hc⟩
        · next cat hc =>
          unfold gmKnown at h
          split at h
          · injection h with h; exact ⟨_, hu, h.symm, StopSpec.cancel hc⟩
          · injection h with h; exact ⟨_, hu, h.symm, StopSpec.failWarn (Or.inl hc)⟩
          · injection h with h; exact ⟨_, hu, h.symm, StopSpec.failWarn (Or.inr hc)⟩
          · injection h with h; exact ⟨_, hu, h.symm, StopSpec.success hc⟩
          · obtain ⟨o', g', he, _⟩ := gmPending_spec cx (validateStatus p s g.clearIdent.rsp) d o g.clearIdent
            rw [he] at h; cases h
          · cases h

theorem gmStep_cont {p t cx exc est v g out g'} (h : gmStep p t cx exc est v g = .cont out g') :
    g.ctr.rem ≠ 0 ∧ ∃ s d o, unpack exc v = some (s, d, o) ∧
      ((out = Out.nil ∧ g'.ctr = g.ctr ∧ g'.failed = g.failed) ∨
       (tableCat t (validateStatus p s g.clearIdent.rsp).status = some .pending ∧
        ContSpec cx (validateStatus p s g.clearIdent.rsp).status g.clearIdent d o out g')) := by
  unfold gmStep at h
  split at h
  · cases h
  · next s d o hu =>
    split at h
    · cases h
    · split at h
      · cases h
      · next hrem =>
        have hrem' : g.ctr.rem ≠ 0 := by simpa using hrem
        refine ⟨hrem', s, d, o, hu, ?_⟩
        unfold gmDispatch at h
        split at h
        · cases h
        · next cat hc =>
          unfold gmKnown at h
          split at h
          · cases h
          · cases h
          · cases h
          · cases h
          · obtain ⟨o', g'', he, hs⟩ := gmPending_spec cx (validateStatus p s g.clearIdent.rsp) d o g.clearIdent
            rw [he] at h
            injection h with h1 h2
            subst h1 h2
            exact Or.inr ⟨hc, hs⟩
          · injection h with h1 h2
            subst h1 h2
            exact Or.inl ⟨rfl, rfl, rfl⟩

theorem gmStep_brk {p t cx exc est v g g'} (h : gmStep p t cx exc est v g = .brk g') :
    g.ctr.rem = 0 ∧ g' = g.clearIdent := by
  unfold gmStep at h
  split at h
  · cases h
  · split at h
    · cases h
    · split at h
      · next hrem =>
        injection h with h
        exact ⟨by simpa using hrem, h.symm⟩
      · next s d o _ _ _ =>
        exfalso
        unfold gmDispatch at h
        split at h
        · cases h
        · unfold gmKnown at h
          split at h
          · cases h
          · cases h
          · cases h
          · cases h
          · obtain ⟨o', g'', he, _⟩ := gmPending_spec cx (validateStatus p s g.clearIdent.rsp) d o g.clearIdent
            rw [he] at h; cases h
          · cases h

@[simp] theorem clearIdent_ctr (g : GmSt) : g.clearIdent.ctr = g.ctr := rfl
@[simp] theorem clearIdent_failed (g : GmSt) : g.clearIdent.failed = g.failed := rfl

end PynetVerif.Scp
