import PynetVerif.Lemmas.ScpIds
import PynetVerif.Spec.ScpStatus
/-!
Glue between M-Scp and Spec.ScpStatus for C21: the documented shape of a status object, the
service family of a primitive, field access on the response primitive.
-/
namespace PynetVerif.Scp
open PynetVerif.Status (Category)
open PynetVerif.Spec.ScpStatus (Svc StatusShape Result)

/-- the documented shape of a status object -/
def shapeOf : StatusVal → StatusShape
  | .int c => .int c
  | .bad => .wrongType
  | .ds elems =>
    match lastStatus elems with
    | some v => .dsWith v
    | none => .dsWithout

/-- the failure-code family of a response primitive -/
def svcOf : Prim → Svc
  | .echo => .echo
  | .store => .store
  | .find => .find
  | .get => .get
  | .move => .move
  | _ => .n

theorem statusCode_spec (svc : Svc) (s : StatusVal) (h : svc ≠ .echo) :
    statusCode s = Spec.ScpStatus.statusOf svc (shapeOf s) := by
  cases s with
  | int c => rfl
  | bad => simp [statusCode, shapeOf, Spec.ScpStatus.statusOf, h]
  | ds elems =>
    simp only [statusCode, shapeOf]
    cases lastStatus elems with
    | some v => rfl
    | none => simp [Spec.ScpStatus.statusOf, h]

/-- the status of the response a loop body sends, if it sends one -/
def stepStatus {σ : Type} : Step σ → Option Int
  | .stop o => o.rsps.head?.map (·.r.status)
  | .cont o _ => o.rsps.head?.map (·.r.status)
  | .brk _ => none

/-- the value of field `k` of a response primitive -/
def Rsp.field (r : Rsp) : Kw → Option Int
  | .status => some r.status
  | .msgIdResp => some r.msgIdResp
  | .nRem => r.rem.map Int.ofNat
  | .nFail => r.fail.map Int.ofNat
  | .nWarn => r.warn.map Int.ofNat
  | .nComp => r.comp.map Int.ofNat
  | .errorComment => r.errorComment.map Int.ofNat
  | .offendingElement => r.offendingElement.map Int.ofNat
  | .errorID => r.errorID.map Int.ofNat
  | .affClass => r.affClass.map Int.ofNat
  | .affInst => r.affInst.map Int.ofNat
  | .other => none

/-- the value of the last element with keyword `k` -/
def lastVal (k : Kw) : List (Kw × Nat) → Option Nat
  | [] => none
  | e :: es =>
    match lastVal k es with
    | some v => some v
    | none => if e.1 == k then some e.2 else none

theorem setAttr_field_same (r : Rsp) (k : Kw) (v : Nat) (hk : k ≠ .other) : (r.setAttr k v).field k = some (v : Int) := by
  cases k <;> first | rfl | exact absurd rfl hk

theorem setAttr_field_ne (r : Rsp) (k k' : Kw) (v : Nat) (h : k' ≠ k) : (r.setAttr k' v).field k = r.field k := by
  cases k' <;> cases k <;> first | rfl | exact absurd rfl h

/-- `validate_status`'s copy loop, field by field: field `k` ends up with the value of the last
element of keyword `k` if the primitive has such an attribute, and is untouched otherwise -/
theorem copyElems_field (p : Prim) (k : Kw) (hk : k ≠ .other) : ∀ (elems : List (Kw × Nat)) (r : Rsp),
    (copyElems p elems r).field k =
      match lastVal k elems with
      | some v => if hasAttr p k then some (v : Int) else r.field k
      | none => r.field k := by
  intro elems
  induction elems with
  | nil => intro r; rfl
  | cons e es ih =>
    intro r
    rw [copyElems_cons, ih]
    simp only [lastVal]
    cases hl : lastVal k es with
    | some v =>
      simp only
      by_cases ha : hasAttr p k = true
      · simp [ha]
      · simp only [ha, Bool.false_eq_true, if_false]
        by_cases he : e.1 = k
        · rw [he]; simp [ha]
        · split
          · exact setAttr_field_ne r k e.1 e.2 he
          · rfl
    | none =>
      simp only
      by_cases he : e.1 = k
      · have hb : (e.1 == k) = true := by simp [he]
        simp only [hb, if_true]
        rw [he]
        by_cases ha : hasAttr p k = true
        · simp only [ha, if_true]; exact setAttr_field_same r k e.2 hk
        · simp [ha]
      · have hb : (e.1 == k) = false := by simp [he]
        simp only [hb, Bool.false_eq_true, if_false]
        split
        · exact setAttr_field_ne r k e.1 e.2 he
        · rfl

end PynetVerif.Scp
