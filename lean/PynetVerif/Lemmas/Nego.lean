import PynetVerif.Model.Nego
/-!
Helper lemmas for C10/C11: the Python building blocks (`mapE`, `dictBy`, the
sorts, the dict lookups) and a case characterisation of each loop body of
M-Nego.  Core Lean only.
-/
namespace PynetVerif.Nego

/-! ### generic list facts -/

theorem nodup_of_nodup_map {α β : Type} (f : α → β) {l : List α} (h : (l.map f).Nodup) : l.Nodup := by
  unfold List.Nodup at *
  rw [List.pairwise_map] at h
  exact h.imp (fun hne heq => hne (by rw [heq]))

theorem eq_of_nodup_map {α β : Type} (f : α → β) : ∀ {l : List α}, (l.map f).Nodup →
    ∀ a ∈ l, ∀ b ∈ l, f a = f b → a = b := by
  intro l
  induction l with
  | nil => intro _ a ha; cases ha
  | cons x xs ih =>
    intro h a ha b hb hab
    rw [List.map_cons, List.nodup_cons] at h
    obtain ⟨hx, hxs⟩ := h
    rcases List.mem_cons.mp ha with rfl | ha' <;> rcases List.mem_cons.mp hb with rfl | hb'
    · rfl
    · exact absurd (List.mem_map.mpr ⟨b, hb', hab.symm⟩) hx
    · exact absurd (List.mem_map.mpr ⟨a, ha', hab⟩) hx
    · exact ih hxs a ha' b hb' hab

/-! ### `mapE` -/

theorem mapE_cons_ok {α β ε : Type} {f : α → Except ε β} {a : α} {as : List α} {rs : List β}
    (h : mapE f (a :: as) = .ok rs) : ∃ b bs, f a = .ok b ∧ mapE f as = .ok bs ∧ rs = b :: bs := by
  unfold mapE at h
  split at h
  · cases h
  · rename_i b hb
    split at h
    · cases h
    · rename_i bs hbs
      cases h
      exact ⟨b, bs, hb, hbs, rfl⟩

theorem mapE_ok_mem_right {α β ε : Type} {f : α → Except ε β} : ∀ {l : List α} {rs : List β},
    mapE f l = .ok rs → ∀ b ∈ rs, ∃ a ∈ l, f a = .ok b := by
  intro l
  induction l with
  | nil => intro rs h b hb; simp [mapE] at h; subst h; cases hb
  | cons a as ih =>
    intro rs h b hb
    obtain ⟨b0, bs, h1, h2, rfl⟩ := mapE_cons_ok h
    rcases List.mem_cons.mp hb with rfl | hb'
    · exact ⟨a, List.mem_cons_self, h1⟩
    · obtain ⟨a', ha', hf⟩ := ih h2 b hb'
      exact ⟨a', List.mem_cons_of_mem _ ha', hf⟩

theorem mapE_ok_mem_left {α β ε : Type} {f : α → Except ε β} : ∀ {l : List α} {rs : List β},
    mapE f l = .ok rs → ∀ a ∈ l, ∃ b ∈ rs, f a = .ok b := by
  intro l
  induction l with
  | nil => intro rs _ a ha; cases ha
  | cons a as ih =>
    intro rs h a' ha'
    obtain ⟨b0, bs, h1, h2, rfl⟩ := mapE_cons_ok h
    rcases List.mem_cons.mp ha' with rfl | ha''
    · exact ⟨b0, List.mem_cons_self, h1⟩
    · obtain ⟨b, hb, hf⟩ := ih h2 a' ha''
      exact ⟨b, List.mem_cons_of_mem _ hb, hf⟩

theorem mapE_ok_map {α β ε γ : Type} {f : α → Except ε β} (g : β → γ) (k : α → γ)
    (H : ∀ a b, f a = .ok b → g b = k a) : ∀ {l : List α} {rs : List β},
    mapE f l = .ok rs → rs.map g = l.map k := by
  intro l
  induction l with
  | nil => intro rs h; simp [mapE] at h; subst h; rfl
  | cons a as ih =>
    intro rs h
    obtain ⟨b0, bs, h1, h2, rfl⟩ := mapE_cons_ok h
    simp only [List.map_cons, H a b0 h1, ih h2]

theorem mapE_total {α β ε : Type} {f : α → Except ε β} : ∀ {l : List α},
    (∀ a ∈ l, ∃ b, f a = .ok b) → ∃ rs, mapE f l = .ok rs := by
  intro l
  induction l with
  | nil => intro _; exact ⟨[], rfl⟩
  | cons a as ih =>
    intro h
    obtain ⟨b, hb⟩ := h a List.mem_cons_self
    obtain ⟨bs, hbs⟩ := ih (fun x hx => h x (List.mem_cons_of_mem _ hx))
    exact ⟨b :: bs, by simp [mapE, hb, hbs]⟩

/-! ### Python dicts -/

section dict
variable {α κ : Type} [BEq κ] [LawfulBEq κ] (key : α → κ)

theorem dictSet_of_not_mem (x : α) : ∀ (d : List α), key x ∉ d.map key → dictSet key x d = d ++ [x] := by
  intro d
  induction d with
  | nil => intro _; rfl
  | cons y ys ih =>
    intro h
    simp only [List.map_cons, List.mem_cons, not_or] at h
    have hne : (key y == key x) = false := by
      rw [beq_eq_false_iff_ne]; exact fun e => h.1 e.symm
    simp [dictSet, hne, ih h.2]

omit [LawfulBEq κ] in
theorem mem_dictSet {x y : α} : ∀ {d : List α}, y ∈ dictSet key x d → y = x ∨ y ∈ d := by
  intro d
  induction d with
  | nil => intro h; simp [dictSet] at h; exact Or.inl h
  | cons z zs ih =>
    intro h
    unfold dictSet at h
    split at h
    · rcases List.mem_cons.mp h with h | h
      · exact Or.inl h
      · exact Or.inr (List.mem_cons_of_mem _ h)
    · rcases List.mem_cons.mp h with h | h
      · exact Or.inr (h ▸ List.mem_cons_self)
      · rcases ih h with h | h
        · exact Or.inl h
        · exact Or.inr (List.mem_cons_of_mem _ h)

/-- every key already present, and the key just set, is present afterwards -/
theorem key_mem_dictSet (x : α) : ∀ (d : List α) (k : κ), (k = key x ∨ k ∈ d.map key) → k ∈ (dictSet key x d).map key := by
  intro d
  induction d with
  | nil =>
    intro k h
    rcases h with h | h
    · simp [dictSet, h]
    · cases h
  | cons z zs ih =>
    intro k h
    unfold dictSet
    by_cases hz : (key z == key x) = true
    · simp only [hz, ↓reduceIte, List.map_cons, List.mem_cons]
      have hzx : key z = key x := eq_of_beq hz
      rcases h with h | h
      · exact Or.inl h
      · simp only [List.map_cons, List.mem_cons] at h
        rcases h with h | h
        · exact Or.inl (h.trans hzx)
        · exact Or.inr h
    · simp only [hz, Bool.false_eq_true, ↓reduceIte, List.map_cons, List.mem_cons]
      rcases h with h | h
      · exact Or.inr (ih k (Or.inl h))
      · simp only [List.map_cons, List.mem_cons] at h
        rcases h with h | h
        · exact Or.inl h
        · exact Or.inr (ih k (Or.inr h))

theorem foldl_dictSet_nodup : ∀ (l acc : List α), ((acc ++ l).map key).Nodup →
    l.foldl (fun d x => dictSet key x d) acc = acc ++ l := by
  intro l
  induction l with
  | nil => intro acc _; simp
  | cons x xs ih =>
    intro acc h
    have hx : key x ∉ acc.map key := by
      rw [List.map_append, List.map_cons] at h
      have := (List.nodup_append.mp h).2.2
      intro hmem
      exact this _ hmem _ List.mem_cons_self rfl
    rw [List.foldl_cons, dictSet_of_not_mem key x acc hx, ih (acc ++ [x]) (by simpa using h)]
    simp

/-- a dict comprehension over distinct keys is the list itself -/
theorem dictBy_of_nodup {l : List α} (h : (l.map key).Nodup) : dictBy key l = l := by
  have := foldl_dictSet_nodup key l [] (by simpa using h)
  simpa [dictBy] using this

omit [LawfulBEq κ] in
theorem mem_foldl_dictSet {y : α} : ∀ (l acc : List α), y ∈ l.foldl (fun d x => dictSet key x d) acc → y ∈ acc ∨ y ∈ l := by
  intro l
  induction l with
  | nil => intro acc h; exact Or.inl h
  | cons x xs ih =>
    intro acc h
    rw [List.foldl_cons] at h
    rcases ih _ h with h | h
    · rcases mem_dictSet key h with h | h
      · exact Or.inr (h ▸ List.mem_cons_self)
      · exact Or.inl h
    · exact Or.inr (List.mem_cons_of_mem _ h)

omit [LawfulBEq κ] in
theorem mem_dictBy {y : α} {l : List α} (h : y ∈ dictBy key l) : y ∈ l := by
  rcases mem_foldl_dictSet key l [] h with h | h
  · cases h
  · exact h

theorem key_mem_foldl_dictSet : ∀ (l acc : List α) (k : κ), (k ∈ acc.map key ∨ k ∈ l.map key) →
    k ∈ (l.foldl (fun d x => dictSet key x d) acc).map key := by
  intro l
  induction l with
  | nil =>
    intro acc k h
    rcases h with h | h
    · exact h
    · cases h
  | cons x xs ih =>
    intro acc k h
    rw [List.foldl_cons]
    apply ih
    rcases h with h | h
    · exact Or.inl (key_mem_dictSet key x acc k (Or.inr h))
    · simp only [List.map_cons, List.mem_cons] at h
      rcases h with h | h
      · exact Or.inl (key_mem_dictSet key x acc k (Or.inl h))
      · exact Or.inr h

/-- every key of the input is a key of the dict -/
theorem key_mem_dictBy {x : α} {l : List α} (h : x ∈ l) : ∃ y ∈ dictBy key l, key y = key x := by
  have := key_mem_foldl_dictSet key l [] (key x) (Or.inr (List.mem_map.mpr ⟨x, h, rfl⟩))
  obtain ⟨y, hy, hk⟩ := List.mem_map.mp this
  exact ⟨y, hy, hk⟩

end dict

/-! ### association-list lookup (`roles[uid]`) -/

theorem lookup_none_of_forall {β : Type} (a : Nat) : ∀ (l : List (Nat × β)), (∀ kv ∈ l, kv.1 ≠ a) → l.lookup a = none := by
  intro l
  induction l with
  | nil => intro _; rfl
  | cons x xs ih =>
    intro h
    obtain ⟨k, v⟩ := x
    have hk : k ≠ a := h (k, v) List.mem_cons_self
    have : (a == k) = false := by rw [beq_eq_false_iff_ne]; exact fun e => hk e.symm
    simp only [List.lookup_cons, this]
    exact ih (fun kv hkv => h kv (List.mem_cons_of_mem _ hkv))

theorem lookup_some_of_forall {β : Type} (a : Nat) (v : β) : ∀ (l : List (Nat × β)), (∃ kv ∈ l, kv.1 = a) →
    (∀ kv ∈ l, kv.1 = a → kv.2 = v) → l.lookup a = some v := by
  intro l
  induction l with
  | nil => intro ⟨_, h, _⟩; cases h
  | cons x xs ih =>
    intro hex hall
    obtain ⟨k, w⟩ := x
    by_cases hk : k = a
    · have : (a == k) = true := by rw [beq_iff_eq]; exact hk.symm
      simp only [List.lookup_cons, this]
      exact congrArg some (hall (k, w) List.mem_cons_self hk)
    · have : (a == k) = false := by rw [beq_eq_false_iff_ne]; exact fun e => hk e.symm
      simp only [List.lookup_cons, this]
      apply ih
      · obtain ⟨kv, hkv, hkva⟩ := hex
        rcases List.mem_cons.mp hkv with rfl | h
        · exact absurd hkva hk
        · exact ⟨kv, h, hkva⟩
      · exact fun kv hkv => hall kv (List.mem_cons_of_mem _ hkv)

theorem lookup_mem {β : Type} (a : Nat) (v : β) : ∀ (l : List (Nat × β)), l.lookup a = some v → (a, v) ∈ l := by
  intro l
  induction l with
  | nil => intro h; cases h
  | cons x xs ih =>
    obtain ⟨k, w⟩ := x
    intro h
    simp only [List.lookup_cons] at h
    split at h
    · rename_i hk
      have hk' : a = k := eq_of_beq hk
      cases h; subst hk'; exact List.mem_cons_self
    · exact List.mem_cons_of_mem _ (ih h)

theorem lookup_map_val {β γ : Type} (f : β → γ) (a : Nat) : ∀ (l : List (Nat × β)),
    (l.map fun kv => (kv.1, f kv.2)).lookup a = (l.lookup a).map f := by
  intro l
  induction l with
  | nil => rfl
  | cons x xs ih =>
    obtain ⟨k, w⟩ := x
    simp only [List.map_cons, List.lookup_cons]
    split <;> simp [ih]


/-! ### sorting and lookups of the model -/

theorem insertBy_perm {α : Type} (key : α → Nat) (x : α) : ∀ l : List α, (insertBy key x l).Perm (x :: l) := by
  intro l
  induction l with
  | nil => exact List.Perm.refl _
  | cons y ys ih =>
    unfold insertBy
    split
    · exact List.Perm.refl _
    · exact ((List.Perm.cons y ih).trans (List.Perm.swap x y ys))

theorem sortBy_perm {α : Type} (key : α → Nat) : ∀ l : List α, (sortBy key l).Perm l := by
  intro l
  induction l with
  | nil => exact List.Perm.refl _
  | cons x xs ih => exact (insertBy_perm key x _).trans (List.Perm.cons x ih)

theorem insertBy_sorted {α : Type} (key : α → Nat) (x : α) : ∀ l : List α,
    l.Pairwise (fun a b => key a ≤ key b) → (insertBy key x l).Pairwise (fun a b => key a ≤ key b) := by
  intro l
  induction l with
  | nil => intro _; simp [insertBy]
  | cons y ys ih =>
    intro h
    unfold insertBy
    split
    · rename_i hle
      have hle' : key x ≤ key y := Nat.le_of_ble_eq_true hle
      refine List.Pairwise.cons ?_ h
      intro z hz
      rcases List.mem_cons.mp hz with rfl | hz'
      · exact hle'
      · exact Nat.le_trans hle' ((List.pairwise_cons.mp h).1 z hz')
    · rename_i hle
      have hlt : key y ≤ key x := by
        have : ¬ key x ≤ key y := fun h' => hle (Nat.ble_eq_true_of_le h')
        omega
      refine List.Pairwise.cons ?_ (ih (List.pairwise_cons.mp h).2)
      intro z hz
      rcases List.mem_cons.mp ((insertBy_perm key x ys).mem_iff.mp hz) with rfl | hz'
      · exact hlt
      · exact (List.pairwise_cons.mp h).1 z hz'

theorem sortBy_sorted {α : Type} (key : α → Nat) : ∀ l : List α, (sortBy key l).Pairwise (fun a b => key a ≤ key b) := by
  intro l
  induction l with
  | nil => exact List.Pairwise.nil
  | cons x xs ih => exact insertBy_sorted key x _ ih

theorem sortAcc_perm (l : List AccCx) : (sortAcc l).Perm l := sortBy_perm _ _
theorem sortReq_perm (l : List ReqCx) : (sortReq l).Perm l := sortBy_perm _ _
theorem sortRoles_perm (l : List RoleItem) : (sortRoles l).Perm l := sortBy_perm _ _

theorem acLookup_some {ac : List Cx} {a : Nat} {c : Cx} (h : acLookup ac a = some c) : c ∈ ac ∧ c.abs = a := by
  unfold acLookup at h
  exact ⟨List.mem_reverse.mp (List.mem_of_find?_eq_some h), by simpa using List.find?_some h⟩

theorem acLookup_none {ac : List Cx} {a : Nat} : acLookup ac a = none ↔ ∀ c ∈ ac, c.abs ≠ a := by
  unfold acLookup
  rw [List.find?_eq_none]
  simp only [List.mem_reverse, beq_iff_eq]

theorem acLookup_nil (a : Nat) : acLookup [] a = none := rfl

/-- with distinct ids, `{cx.context_id: cx}` finds exactly the context with that id -/
theorem wireLookup_of_nodup {res : List AccCx} (hn : (res.map (·.id)).Nodup) {r : AccCx} (hr : r ∈ res) :
    wireLookup (res.map wireCx) r.id = some (wireCx r) := by
  unfold wireLookup
  cases hf : List.find? (fun c => c.id == r.id) (res.map wireCx).reverse with
  | none =>
    rw [List.find?_eq_none] at hf
    have := hf (wireCx r) (List.mem_reverse.mpr (List.mem_map.mpr ⟨r, hr, rfl⟩))
    simp [wireCx] at this
  | some w =>
    have hw := List.mem_reverse.mp (List.mem_of_find?_eq_some hf)
    obtain ⟨r', hr', rfl⟩ := List.mem_map.mp hw
    have hid : r'.id = r.id := by simpa [wireCx] using List.find?_some hf
    rw [eq_of_nodup_map (·.id) hn r' hr' r hr hid]

theorem wireLookup_none {acs : List WireCx} {i : Nat} : wireLookup acs i = none ↔ ∀ c ∈ acs, c.id ≠ i := by
  unfold wireLookup
  rw [List.find?_eq_none]
  simp only [List.mem_reverse, beq_iff_eq]

/-- `firstCommon` is the acceptor's first transfer syntax among the proposed ones -/
theorem firstCommon_some {acTs rqTs : List Nat} {t : Nat} (h : firstCommon acTs rqTs = some t) :
    t ∈ rqTs ∧ ∃ pre post, acTs = pre ++ t :: post ∧ ∀ x ∈ pre, x ∉ rqTs := by
  unfold firstCommon at h
  obtain ⟨ht, pre, post, heq, hpre⟩ := List.find?_eq_some_iff_append.mp h
  refine ⟨by simpa using ht, pre, post, heq, ?_⟩
  intro x hx
  simpa using hpre x hx

theorem firstCommon_none {acTs rqTs : List Nat} : firstCommon acTs rqTs = none ↔ ∀ t ∈ acTs, t ∉ rqTs := by
  unfold firstCommon
  rw [List.find?_eq_none]
  simp

end PynetVerif.Nego
