import PynetVerif.Lemmas.Cmd
/-!
The generic round trip of one message type (`Row`): everything here is proved for an
arbitrary row that passes the decidable well-formedness check `Row.wf`; `Props/C17.lean`
instantiates it for the 23 rows by `decide`.
-/
namespace PynetVerif.Cmd

def sortedB : List Nat → Bool
  | [] => true
  | [_] => true
  | a :: b :: r => decide (a < b) && sortedB (b :: r)

theorem sortedB_pairwise (l : List Nat) (h : sortedB l = true) : l.Pairwise (· < ·) := by
  induction l with
  | nil => exact List.Pairwise.nil
  | cons a r ih =>
    cases r with
    | nil => simp
    | cons b r' =>
      simp only [sortedB, Bool.and_eq_true, decide_eq_true_eq] at h
      have ih' := ih h.2
      rw [List.pairwise_cons] at ih' ⊢
      refine ⟨?_, List.pairwise_cons.mpr ih'⟩
      intro x hx
      simp only [List.mem_cons] at hx
      rcases hx with hx | hx
      · rw [hx]; exact h.1
      · have := ih'.1 x hx; omega

/-- what the conversion needs of a row of the table (all decidable) -/
def Row.wf (r : Row) : Bool :=
  (initCmd r == r.keywords.map (fun t => (t, emptyVal t))) && sortedB r.keywords &&
  decide (r.keywords.length ≤ 12) && decide (r.field < 65536) &&
  (r.cls.setter? 0).isNone && (r.cls.setter? 0x100).isNone && (r.cls.setter? 0x800).isNone &&
  r.keywords.all (fun t => (vrOf t).isSome) &&
  (match r.cls.setter? 0x700 with | some s => s == .priority | none => true)

/-- **In range**: every parameter of the message type holds an in-range stored value
(`ParOk`, per setter and VR).  Parameters that are not part of the message type and the
data set are unconstrained. -/
def InRange (r : Row) (p : Prim) : Prop :=
  ∀ t ∈ r.keywords, ∀ s vr, r.cls.setter? t = some s → vrOf t = some vr → ParOk s vr (p.par t)

/-- the element a keyword contributes in `primitive_to_message` (`none` = deleted) -/
def parElem (cls : PrimClass) (p : Prim) (t : Nat) : Option EVal :=
  match cls.setter? t with
  | none => some (emptyVal t)
  | some _ =>
    match p.par t with
    | none => none
    | some v =>
      match vrOf t with
      | none => none
      | some vr => toEVal vr v

theorem fillElems_map (cls : PrimClass) (p : Prim) (ks : List Nat)
    (hconv : ∀ t ∈ ks, ∀ s v, cls.setter? t = some s → p.par t = some v →
      ∃ vr ev, vrOf t = some vr ∧ toEVal vr v = some ev) :
    fillElems cls p (ks.map (fun t => (t, emptyVal t))) =
      some (ks.filterMap (fun t => (parElem cls p t).map (fun ev => (t, ev)))) := by
  induction ks with
  | nil => rfl
  | cons t ks ih =>
    have ih' := ih (fun x hx => hconv x (List.mem_cons_of_mem _ hx))
    simp only [List.map_cons, fillElems, ih', List.filterMap_cons]
    cases hs : cls.setter? t with
    | none => simp [parElem, hs]
    | some s =>
      cases hp : p.par t with
      | none => simp [parElem, hs, hp]
      | some v =>
        obtain ⟨vr, ev, hvr, hev⟩ := hconv t List.mem_cons_self s v hs hp
        simp [parElem, hs, hp, hvr, hev]

theorem get_filterMap (g : Nat → Option EVal) (ks : List Nat) (t : Nat) :
    Cmd.get (ks.filterMap (fun k => (g k).map (fun ev => (k, ev)))) t = if t ∈ ks then g t else none := by
  induction ks with
  | nil => rfl
  | cons k ks ih =>
    rw [List.filterMap_cons]
    cases hg : g k with
    | none =>
      simp only [Option.map_none, ih, List.mem_cons]
      by_cases h : t = k
      · subst h; simp [hg]
      · simp [h]
    | some ev =>
      simp only [Option.map_some]
      rw [Cmd.get_cons, ih]
      by_cases h : t = k
      · subst h; simp [hg]
      · simp [h]

theorem mem_filterMap_key (g : Nat → Option EVal) (ks : List Nat) (e : Elem)
    (h : e ∈ ks.filterMap (fun k => (g k).map (fun ev => (k, ev)))) : e.1 ∈ ks ∧ g e.1 = some e.2 := by
  rw [List.mem_filterMap] at h
  obtain ⟨k, hk, hg⟩ := h
  cases hgk : g k with
  | none => simp [hgk] at hg
  | some ev =>
    simp only [hgk, Option.map_some, Option.some.injEq] at hg
    subst hg
    exact ⟨hk, hgk⟩

theorem sorted_filterMap (g : Nat → Option EVal) (ks : List Nat) (h : ks.Pairwise (· < ·)) :
    Sorted (ks.filterMap (fun k => (g k).map (fun ev => (k, ev)))) := by
  induction ks with
  | nil => exact List.Pairwise.nil
  | cons k ks ih =>
    rw [List.pairwise_cons] at h
    rw [List.filterMap_cons]
    cases hg : g k with
    | none => exact ih h.2
    | some ev =>
      simp only [Option.map_some]
      unfold Sorted
      rw [List.pairwise_cons]
      refine ⟨?_, ih h.2⟩
      intro a ha
      exact h.1 _ (mem_filterMap_key g ks a ha).1

theorem Cmd.set_length (c : Cmd) (t : Nat) (v : EVal) : (c.set t v).length ≤ c.length + 1 := by
  induction c with
  | nil => simp [Cmd.set]
  | cons x r ih =>
    obtain ⟨k, w⟩ := x
    simp only [Cmd.set]
    split
    · simp
    · split
      · simp
      · simp only [List.length_cons]; omega

theorem emptyOf_good (t : Nat) (vr : VR) (hv : vrOf t = some vr) : GoodElem (t, emptyOf vr) := by
  refine good_of_val t vr _ [] hv ?_ ?_ (by simp)
  · cases vr <;> simp [emptyOf, ValOk]
  · cases vr <;> rfl

theorem vrOf_0100 : vrOf 0x0100 = some .US := by decide
theorem vrOf_0800 : vrOf 0x0800 = some .US := by decide
theorem vrOf_0000 : vrOf 0x0000 = some .UL := by decide

theorem us_good (t n : Nat) (hv : vrOf t = some .US) (hn : n < 65536) : GoodElem (t, .nums [n]) := by
  refine good_of_val t .US _ (le16 n ++ []) hv ?_ ?_ ?_
  · intro x hx; simp only [List.mem_singleton] at hx; rw [hx]; exact hn
  · simp [encodeVal, encNums, wUS, hn]
  · simp [le16_length]

def cdstOf (r : Row) (p : Prim) : Nat := if hasData r p then 0x0001 else 0x0101

/-- the elements `primitive_to_message` leaves in the command set, by tag -/
def cmdGet (r : Row) (p : Prim) (t : Nat) : Option EVal :=
  if t = 0 then none
  else if t = 0x0800 then some (.nums [cdstOf r p])
  else if t = 0x0100 then some (.nums [r.field])
  else if t ∈ r.keywords then parElem r.cls p t else none

structure WfFacts (r : Row) : Prop where
  init : initCmd r = r.keywords.map (fun t => (t, emptyVal t))
  sorted : r.keywords.Pairwise (· < ·)
  len : r.keywords.length ≤ 12
  field : r.field < 65536
  s0 : r.cls.setter? 0 = none
  s100 : r.cls.setter? 0x100 = none
  s800 : r.cls.setter? 0x800 = none
  vrs : ∀ t ∈ r.keywords, ∃ vr, vrOf t = some vr
  prio : ∀ s, r.cls.setter? 0x700 = some s → s = .priority

theorem Row.wf_facts (r : Row) (h : r.wf = true) : WfFacts r := by
  simp only [Row.wf, Bool.and_eq_true, decide_eq_true_eq, beq_iff_eq, Option.isNone_iff_eq_none,
    List.all_eq_true] at h
  obtain ⟨⟨⟨⟨⟨⟨⟨⟨h1, h2⟩, h3⟩, h4⟩, h5⟩, h6⟩, h7⟩, h8⟩, h9⟩ := h
  refine ⟨h1, sortedB_pairwise _ h2, h3, h4, h5, h6, h7, ?_, ?_⟩
  · intro t ht
    exact Option.isSome_iff_exists.mp (h8 t ht)
  · intro s hs
    rw [hs] at h9
    simpa using h9

/-- the encode side: the command set built from an in-range primitive -/
theorem primToCmd_spec (r : Row) (hwf : r.wf = true) (p : Prim) (h : InRange r p) :
    ∃ c4 rest, primToCmd r p = some ((0, .nums [rest.length]) :: c4) ∧ encodeCmd c4 = some rest ∧
      rest.length < 4294967296 ∧ Sorted c4 ∧ (∀ e ∈ c4, e.1 ≠ 0 ∧ GoodElem e) ∧
      (∀ t, Cmd.get c4 t = cmdGet r p t) := by
  have W := r.wf_facts hwf
  -- every present parameter converts
  have hconv : ∀ t ∈ r.keywords, ∀ s v, r.cls.setter? t = some s → p.par t = some v →
      ∃ vr ev, vrOf t = some vr ∧ toEVal vr v = some ev ∧ GoodElem (t, ev) := by
    intro t ht s v hs hp
    obtain ⟨vr, hvr⟩ := W.vrs t ht
    have hok := h t ht s vr hs hvr
    rw [hp] at hok
    obtain ⟨ev, hev, hg⟩ := par_encodable s vr v t hvr hok
    exact ⟨vr, ev, hvr, hev, hg⟩
  let g := parElem r.cls p
  let c1 : Cmd := r.keywords.filterMap (fun t => (g t).map (fun ev => (t, ev)))
  have hfill : fillElems r.cls p (initCmd r) = some c1 := by
    rw [W.init]
    exact fillElems_map r.cls p r.keywords (fun t ht s v hs hp => by
      obtain ⟨vr, ev, h1, h2, _⟩ := hconv t ht s v hs hp; exact ⟨vr, ev, h1, h2⟩)
  have hs1 : Sorted c1 := sorted_filterMap g r.keywords W.sorted
  let c2 := c1.set 0x0100 (.nums [r.field])
  let c3 := c2.set 0x0800 (.nums [cdstOf r p])
  let c4 := c3.del 0x0000
  have hs2 : Sorted c2 := Cmd.set_sorted c1 hs1 _ _
  have hs3 : Sorted c3 := Cmd.set_sorted c2 hs2 _ _
  have hs4 : Sorted c4 := Cmd.del_sorted c3 hs3 _
  have hget : ∀ t, Cmd.get c4 t = cmdGet r p t := by
    intro t
    show (c3.del 0).get t = _
    rw [Cmd.get_del]
    show (if t = 0 then none else (c2.set 0x0800 _).get t) = _
    rw [Cmd.get_set c2 hs2]
    show (if t = 0 then none else if t = 0x0800 then _ else (c1.set 0x0100 _).get t) = _
    rw [Cmd.get_set c1 hs1, get_filterMap g r.keywords t]
    rfl
  -- every element is well-formed and encodes within the bound
  have hgood : ∀ e ∈ c4, e.1 ≠ 0 ∧ GoodElem e := by
    intro e he
    obtain ⟨he3, hne⟩ := Cmd.mem_del c3 0 e he
    refine ⟨hne, ?_⟩
    rcases Cmd.mem_set c2 _ _ e he3 with e1 | he2
    · rw [e1]; exact us_good _ _ vrOf_0800 (by unfold cdstOf; split <;> omega)
    · rcases Cmd.mem_set c1 _ _ e he2 with e1 | he1
      · rw [e1]; exact us_good _ _ vrOf_0100 W.field
      · obtain ⟨hk, hg⟩ := mem_filterMap_key g r.keywords e he1
        obtain ⟨t, ev⟩ := e
        simp only at hk hg
        show GoodElem (t, ev)
        cases hs : r.cls.setter? t with
        | none =>
          obtain ⟨vr, hvr⟩ := W.vrs t hk
          have : g t = some (emptyVal t) := by simp [g, parElem, hs]
          rw [this] at hg
          simp only [Option.some.injEq] at hg
          subst hg
          unfold emptyVal
          rw [hvr]
          exact emptyOf_good t vr hvr
        | some s =>
          cases hp : p.par t with
          | none => simp [g, parElem, hs, hp] at hg
          | some v =>
            obtain ⟨vr, ev', h1, h2, h3⟩ := hconv t hk s v hs hp
            have : g t = some ev' := by simp [g, parElem, hs, hp, h1, h2]
            rw [this] at hg
            simp only [Option.some.injEq] at hg
            subst hg
            exact h3
  have hlen : c4.length ≤ 14 := by
    have a1 : c1.length ≤ r.keywords.length := List.length_filterMap_le _ _
    have a2 : c2.length ≤ c1.length + 1 := Cmd.set_length c1 0x0100 (.nums [r.field])
    have a3 : c3.length ≤ c2.length + 1 := Cmd.set_length c2 0x0800 (.nums [cdstOf r p])
    have a4 : c4.length ≤ c3.length := List.length_filter_le _ _
    have := W.len
    omega
  obtain ⟨rest, hrest, hbound⟩ := encodeElems_bound 65545 c4 (fun e he => (hgood e he).2.2)
  refine ⟨c4, rest, ?_, hrest, ?_, hs4, hgood, hget⟩
  · unfold primToCmd
    simp only [hfill]
    show (match encodeCmd c4 with | none => none | some rest => some (c4.set 0 (.nums [rest.length]))) = _
    have : encodeCmd c4 = some rest := hrest
    rw [this]
    simp only
    rw [Cmd.set_zero c4 _ (fun e he => (hgood e he).1)]
  · have : c4.length * 65545 ≤ 14 * 65545 := Nat.mul_le_mul_right _ hlen
    omega

/-! ### the decode side -/

/-- the value `message_to_primitive` leaves in parameter `t` -/
def decodedPar (cls : PrimClass) (c : Cmd) (q0 : Prim) (t : Nat) : Option Val :=
  match Cmd.get c t, cls.setter? t with
  | some ev, some s => (store s (pyVal t ev)).getD none
  | _, _ => q0.par t

theorem applyElems_spec (cls : PrimClass) (c : Cmd) (hs : Sorted c) :
    ∀ q0 : Prim,
    (∀ t ev s, Cmd.get c t = some ev → cls.setter? t = some s → ∃ v, store s (pyVal t ev) = some v) →
    ∃ q, applyElems cls c q0 = some q ∧ q.data = q0.data ∧ ∀ t, q.par t = decodedPar cls c q0 t := by
  induction c with
  | nil => intro q0 _; exact ⟨q0, rfl, rfl, fun t => by simp [decodedPar, Cmd.get]⟩
  | cons x r ih =>
    obtain ⟨k, w⟩ := x
    intro q0 hst
    have hs' := hs
    unfold Sorted at hs'
    rw [List.pairwise_cons] at hs'
    have hk : Cmd.get r k = none := Cmd.get_none_of_lt r k (fun e he => hs'.1 e he)
    have hst' : ∀ t ev s, Cmd.get r t = some ev → cls.setter? t = some s → ∃ v, store s (pyVal t ev) = some v := by
      intro t ev s hg hsx
      have hne : t ≠ k := by intro e; rw [e, hk] at hg; simp at hg
      exact hst t ev s (by rw [Cmd.get_cons, if_neg hne]; exact hg) hsx
    cases hsk : cls.setter? k with
    | none =>
      obtain ⟨q, hq, hd, hp⟩ := ih hs'.2 q0 hst'
      refine ⟨q, by simp only [applyElems, hsk]; exact hq, hd, ?_⟩
      intro t
      rw [hp t]
      unfold decodedPar
      rw [Cmd.get_cons]
      by_cases ht : t = k
      · subst ht; simp [hk, hsk]
      · simp [ht]
    | some s =>
      obtain ⟨v, hv⟩ := hst k w s (by rw [Cmd.get_cons, if_pos rfl]) hsk
      obtain ⟨q, hq, hd, hp⟩ := ih hs'.2 (q0.setPar k v) hst'
      refine ⟨q, by simp only [applyElems, hsk, hv]; exact hq, hd, ?_⟩
      intro t
      rw [hp t]
      unfold decodedPar
      rw [Cmd.get_cons]
      by_cases ht : t = k
      · subst ht; simp [hk, hsk, hv, Prim.setPar]
      · simp only [ht, if_false]
        cases Cmd.get r t <;> cases cls.setter? t <;> simp [Prim.setPar, ht]

theorem at_multivalue (t : Nat) (h : vrOf t = some .AT) : multivalueTags.contains t = true := by
  have hm := lookup_mem t VR.AT vrTable h
  have hall : vrTable.all (fun e => e.2 != .AT || multivalueTags.contains e.1) = true := by decide
  have := List.all_eq_true.mp hall _ hm
  simpa using this

theorem normElem_of_vr (t : Nat) (vr : VR) (ev : EVal) (h : vrOf t = some vr) :
    normElem (t, ev) = (t, normVal vr ev) := by
  unfold normElem; simp only [h]

theorem encodeElem_group_length (n : Nat) (hn : n < 4294967296) :
    encodeElem (0, .nums [n]) = some (leTag 0 ++ le32 4 ++ le32 n) := by
  unfold encodeElem
  simp only [vrOf_0000, encodeVal, encNums, wUL, hn, if_true, List.append_nil]
  rfl

theorem Prim.ext' (a b : Prim) (h1 : ∀ t, a.par t = b.par t) (h2 : a.data = b.data) : a = b := by
  cases a; cases b
  simp only [Prim.mk.injEq]
  exact ⟨funext h1, h2⟩

theorem Cmd.del_of_ne (c : Cmd) (t : Nat) (h : ∀ e ∈ c, e.1 ≠ t) : c.del t = c := by
  unfold Cmd.del
  rw [List.filter_eq_self]
  intro e he
  simpa using h e he

/-- **The generic round trip.**  For a well-formed row that is found under its own command
field, an in-range primitive encodes, and the bytes decode to the same row and the canonical
form of the primitive; the first element is the group length of the rest. -/
theorem roundtrip_generic (rs : List Row) (r : Row) (hwf : r.wf = true)
    (hfind : rs.find? (fun x => x.field == r.field) = some r) (p : Prim) (h : InRange r p) :
    ∃ c rest, primToCmd r p = some c ∧
      Cmd.get c 0 = some (.nums [rest.length]) ∧ encodeCmd (c.del 0) = some rest ∧
      encodeCmd c = some (leTag 0 ++ le32 4 ++ le32 rest.length ++ rest) ∧
      decodeCmd (leTag 0 ++ le32 4 ++ le32 rest.length ++ rest) = some (normCmd c) ∧
      encodeMsg r p = some (leTag 0 ++ le32 4 ++ le32 rest.length ++ rest, if r.dataset then p.data.getD [] else []) ∧
      decodeMsg rs (leTag 0 ++ le32 4 ++ le32 rest.length ++ rest) (if r.dataset then p.data.getD [] else []) =
        some (r, canon r p) := by
  have W := r.wf_facts hwf
  obtain ⟨c4, rest, hprim, hrest, hlen, hs4, hgood, hget4⟩ := primToCmd_spec r hwf p h
  let c : Cmd := (0, .nums [rest.length]) :: c4
  have hsc : Sorted c := by
    unfold Sorted
    rw [List.pairwise_cons]
    exact ⟨fun e he => by have := (hgood e he).1; simp only; omega, hs4⟩
  have hget : ∀ t, Cmd.get c t = if t = 0 then some (.nums [rest.length]) else cmdGet r p t := by
    intro t; show Cmd.get ((0, _) :: c4) t = _; rw [Cmd.get_cons, hget4]
  have hdel : c.del 0 = c4 := by
    show Cmd.del ((0, _) :: c4) 0 = c4
    unfold Cmd.del
    rw [List.filter_cons]
    simp only [bne_self_eq_false, Bool.false_eq_true, if_false]
    exact Cmd.del_of_ne c4 0 (fun e he => (hgood e he).1)
  have henc : encodeCmd c = some (leTag 0 ++ le32 4 ++ le32 rest.length ++ rest) := by
    show encodeElems ((0, _) :: c4) = _
    have : encodeElems c4 = some rest := hrest
    simp only [encodeElems, encodeElem_group_length rest.length hlen, this]
  have hok : ∀ e ∈ c, ElemOk e := by
    intro e he
    simp only [c, List.mem_cons] at he
    rcases he with e0 | he
    · rw [e0]
      exact ⟨.UL, vrOf_0000, fun x hx => by simp only [List.mem_singleton] at hx; rw [hx]; exact hlen⟩
    · exact (hgood e he).2.1
  have hdec := decodeCmd_encodeCmd c hsc hok _ henc
  have hsc' : Sorted (normCmd c) := Sorted.map_normElem c hsc
  -- the decoded command set, by tag
  have hget' : ∀ t, Cmd.get (normCmd c) t =
      (if t = 0 then some (.nums [rest.length]) else cmdGet r p t).map (fun ev => (normElem (t, ev)).2) := by
    intro t; rw [Cmd.get_map_normElem, hget]
  have hfield : Cmd.get (normCmd c) 0x0100 = some (.nums [r.field]) := by
    rw [hget']
    simp only [cmdGet, show ¬ (0x0100 = 0) by decide, show ¬ (0x0100 = 0x0800) by decide, if_false, if_true,
      Option.map_some, normElem_of_vr _ _ _ vrOf_0100, normVal_nums]
  have hcdst : Cmd.get (normCmd c) 0x0800 = some (.nums [cdstOf r p]) := by
    rw [hget']
    simp only [cmdGet, show ¬ (0x0800 = 0) by decide, if_false, if_true,
      Option.map_some, normElem_of_vr _ _ _ vrOf_0800, normVal_nums]
  -- parameters with a setter: what the decoded command set holds for them
  have hpar : ∀ t s, r.cls.setter? t = some s →
      Cmd.get (normCmd c) t = if t ∈ r.keywords then
        (parElem r.cls p t).map (fun ev => (normElem (t, ev)).2) else none := by
    intro t s hs
    have h0 : t ≠ 0 := by intro e; rw [e, W.s0] at hs; simp at hs
    have h1 : t ≠ 0x0100 := by intro e; rw [e, W.s100] at hs; simp at hs
    have h8 : t ≠ 0x0800 := by intro e; rw [e, W.s800] at hs; simp at hs
    rw [hget']
    simp only [cmdGet, h0, h1, h8, if_false]
    split <;> rfl
  -- every setter call of message_to_primitive succeeds with the canonical value
  have hstore : ∀ t s, r.cls.setter? t = some s → t ∈ r.keywords → ∀ v, p.par t = some v →
      ∃ vr ev, vrOf t = some vr ∧ Cmd.get (normCmd c) t = some (normVal vr ev) ∧
        store s (pyVal t (normVal vr ev)) = some (canonVal vr v) := by
    intro t s hs hk v hp
    obtain ⟨vr, hvr⟩ := W.vrs t hk
    have hok := h t hk s vr hs hvr
    rw [hp] at hok
    obtain ⟨ev, hev, _⟩ := par_encodable s vr v t hvr hok
    refine ⟨vr, ev, hvr, ?_, par_roundtrip s vr v t ev hok hev (fun e => at_multivalue t (e ▸ hvr))⟩
    rw [hpar t s hs, if_pos hk]
    simp only [parElem, hs, hp, hvr, hev, Option.map_some, normElem_of_vr _ _ _ hvr]
  have hst : ∀ t ev s, Cmd.get (normCmd c) t = some ev → r.cls.setter? t = some s →
      ∃ v, store s (pyVal t ev) = some v := by
    intro t ev s hg hs
    rw [hpar t s hs] at hg
    by_cases hk : t ∈ r.keywords
    · rw [if_pos hk] at hg
      cases hp : p.par t with
      | none => simp [parElem, hs, hp] at hg
      | some v =>
        obtain ⟨vr, ev', hvr, hg', hstv⟩ := hstore t s hs hk v hp
        rw [hpar t s hs, if_pos hk] at hg'
        rw [hg'] at hg
        simp only [Option.some.injEq] at hg
        subst hg
        exact ⟨_, hstv⟩
    · rw [if_neg hk] at hg; simp at hg
  obtain ⟨q, hq, hqd, hqp⟩ := applyElems_spec r.cls (normCmd c) hsc' (emptyPrim r.cls) hst
  -- pointwise: the decoded parameters are the canonical ones
  have hcanon : ∀ t, q.par t = (canon r p).par t := by
    intro t
    rw [hqp t]
    unfold decodedPar
    show _ = (if r.keywords.contains t && (r.cls.setter? t).isSome then
        match p.par t, vrOf t with
        | some v, some vr => canonVal vr v
        | _, _ => none
      else (emptyPrim r.cls).par t)
    cases hs : r.cls.setter? t with
    | none =>
      simp only [Option.isSome_none, Bool.and_false, Bool.false_eq_true, if_false]
      cases Cmd.get (normCmd c) t <;> rfl
    | some s =>
      rw [hpar t s hs]
      by_cases hk : t ∈ r.keywords
      · have hk' : r.keywords.contains t = true := List.contains_iff_mem.mpr hk
        simp only [hk, if_true, hk', Option.isSome_some, Bool.and_self]
        cases hp : p.par t with
        | none =>
          simp only [parElem, hs, hp, Option.map_none]
          -- absent parameter: stays at its default, which is None unless it is Priority
          show (emptyPrim r.cls).par t = none
          unfold emptyPrim
          simp only
          by_cases h7 : t = 0x0700
          · subst h7
            obtain ⟨vr, hvr⟩ := W.vrs _ hk
            have hok := h _ hk s vr hs hvr
            rw [hp, W.prio s hs] at hok
            cases vr <;> simp [ParOk] at hok
          · simp [h7]
        | some v =>
          obtain ⟨vr, ev, hvr, hg, hstv⟩ := hstore t s hs hk v hp
          rw [hpar t s hs, if_pos hk] at hg
          rw [hg]
          simp only [hstv, Option.getD_some, hvr]
      · have hk' : r.keywords.contains t = false := by
          cases hc : r.keywords.contains t with
          | false => rfl
          | true => exact absurd (List.contains_iff_mem.mp hc) hk
        simp only [hk, if_false, hk', Bool.false_and, Bool.false_eq_true]
  refine ⟨c, rest, hprim, ?_, ?_, henc, hdec, ?_, ?_⟩
  · rw [hget]; rfl
  · rw [hdel]; exact hrest
  · unfold encodeMsg
    have henc' : encodeCmd ((0, EVal.nums [rest.length]) :: c4) = _ := henc
    simp only [hprim, henc']
  · unfold decodeMsg
    simp only [hdec, hfield, hfind, hcdst]
    unfold cmdToPrim
    simp only [hq, Option.map_some]
    congr 2
    apply Prim.ext'
    · intro t
      split <;> exact hcanon t
    · show (if r.dataset then _ else q).data = (if r.dataset then some (p.data.getD []) else none)
      cases hd : r.dataset with
      | false => simp only [Bool.false_eq_true, if_false, hqd]; rfl
      | true =>
        simp only [if_true]
        unfold cdstOf hasData
        simp only [hd, Bool.true_and]
        cases hp : p.data with
        | none => simp
        | some d =>
          cases d with
          | nil => simp
          | cons x xs => simp

end PynetVerif.Cmd
