import PynetVerif.Lemmas.PduClassify
/-!
Fourth instability of the decoder (found by the C02 harness): decoders that ignore an embedded
length field accept items whose re-encoding is LONGER than what was received.  Witness: a User
Information item of exactly 65535 bytes made of a User Identity AC sub-item WITHOUT its 2-byte
server-response-length (`59 00 00 00`) and a 65531-byte SOP Class Extended Negotiation sub-item.
It is accepted; re-encoded, the user data needs 65537 bytes, which no longer fits the u16 item
length (pynetdicom's `encode()` raises `struct.error`; the value is not `normal`).

The proofs are symbolic (TLV lemma + item decoders), never by evaluating the 65 KB list: the
kernel would otherwise compare two differently represented 65 KB lists cell by cell.
-/
namespace PynetVerif.Pdu

def ovInfo : Bytes := List.replicate 65524 7
theorem ovInfo_length : ovInfo.length = 65524 := List.length_replicate
def ovUser : Bytes := tlv 0x59 0 [] ++ tlv 0x56 0 (u16 1 ++ [0x31] ++ ovInfo)
theorem ovUser_length : ovUser.length = 65535 := by
  simp only [ovUser, tlv_length, List.length_append, u16_length, List.length_cons, List.length_nil, ovInfo_length]

/-- bytes 2..74 of the A-ASSOCIATE-RQ: reserved, PDU length 65607 = 68 + 4 + 65535, version 1, titles "A", "B" -/
def ovHead : Bytes :=
  [0, 0, 1, 0, 71, 0, 1, 0, 0] ++ (0x41 :: List.replicate 15 0x20) ++ (0x42 :: List.replicate 15 0x20) ++
    List.replicate 32 0
def witnessOverflow : Bytes := 1 :: (ovHead ++ tlv 0x50 0 ovUser)
def pOverflow : PDU := .rq 1 [0x41] [0x42] [.userInfo [.userIdAc [], .sopExt [0x31] ovInfo]]

theorem ov_h1 : ovUser = tlv 0x59 0 [] ++ (tlv 0x56 0 (u16 1 ++ [0x31] ++ ovInfo) ++ []) := by
  simp only [ovUser, List.append_nil]
theorem ov_hl : (u16 1 ++ [0x31] ++ ovInfo).length < 65536 := by
  simp only [List.length_append, u16_length, List.length_cons, List.length_nil, ovInfo_length]; decide
theorem ov_hs : decSopExt (u16 1 ++ [0x31] ++ ovInfo) = .ok (.sopExt [0x31] ovInfo) := by
  have hu : decUid true [0x31] = .ok [0x31] := by decide
  have hb : be16 (u8 (1 / 256)) (u8 (1 % 256)) = 1 := by decide
  simp only [u16, List.cons_append, List.nil_append, decSopExt, hb, List.take_succ_cons, List.take_zero,
    List.drop_succ_cons, List.drop_zero, hu]
theorem ov_split : split ovUser = .ok [(0x59, []), (0x56, u16 1 ++ [0x31] ++ ovInfo)] := by
  rw [ov_h1, split_tlv 0x59 0 [] _ (by decide), split_tlv 0x56 0 _ [] ov_hl, split_nil]
theorem ov_mapE : mapE decUser [(0x59, []), (0x56, u16 1 ++ [0x31] ++ ovInfo)] =
    .ok [.userIdAc [], .sopExt [0x31] ovInfo] := by
  simp only [mapE, decUser_59, decUser_56, ov_hs, List.drop_nil]
/-! generic composition lemmas (stated with variables, so that no proof term mentions the big list
inside a rewriting motive) -/
theorem decSubs_of {α : Type} (dec : UInt8 × Bytes → Except Err α) (b : Bytes) (raw : List (UInt8 × Bytes))
    (ys : List α) (h1 : split b = .ok raw) (h2 : mapE dec raw = .ok ys) : decSubs dec b = .ok ys := by
  simp only [decSubs, h1, h2]
theorem decUserInfo_of (b : Bytes) (ys : List UserSub) (h : decSubs decUser b = .ok ys) :
    decUserInfo b = .ok (.userInfo ys) := by
  simp only [decUserInfo, h]
theorem mapE_one {α : Type} (dec : UInt8 × Bytes → Except Err α) (x : UInt8 × Bytes) (y : α) (h : dec x = .ok y) :
    mapE dec [x] = .ok [y] := by
  simp only [mapE, h]
theorem split_one (t : UInt8) (body : Bytes) (h : body.length < 65536) : split (tlv t 0 body) = .ok [(t, body)] := by
  have e : tlv t 0 body = tlv t 0 body ++ [] := (List.append_nil _).symm
  rw [e, split_tlv t 0 body [] h, split_nil]
theorem decode_rq_of (x : Bytes) (h l : UInt8) (c g c' g' : Bytes) (items : Bytes) (vs : List VarItem)
    (s6 : slice (1 :: x) 6 2 = [h, l]) (s10 : slice (1 :: x) 10 16 = c) (s26 : slice (1 :: x) 26 16 = g)
    (s74 : (1 :: x).drop 74 = items) (a1 : decAeRq c = .ok c') (a2 : decAeRq g = .ok g')
    (hv : decVarItems items = .ok vs) : decode (1 :: x) = .ok (.rq (be16 h l) c' g' vs) := by
  rw [decode_type1, s6, s10, s26, s74, a1, a2, hv]
theorem accept_of (b : Bytes) (p : PDU) (a : Prim) (h1 : decode b = .ok p) (h2 : toPrim p = .ok a) :
    accept b = .ok p := by
  simp only [accept, h1, h2]

theorem ov_userInfo : decUserInfo ovUser = .ok (.userInfo [.userIdAc [], .sopExt [0x31] ovInfo]) :=
  decUserInfo_of _ _ (decSubs_of _ _ _ _ ov_split ov_mapE)

theorem ov_items : decVarItems (tlv 0x50 0 ovUser) = .ok [.userInfo [.userIdAc [], .sopExt [0x31] ovInfo]] :=
  decSubs_of decVar _ _ _ (split_one 0x50 ovUser (by rw [ovUser_length]; decide))
    (mapE_one decVar _ _ (by rw [decVar_50]; exact ov_userInfo))

theorem ov_decode : decode witnessOverflow = .ok pOverflow :=
  decode_rq_of (ovHead ++ tlv 0x50 0 ovUser) 0 1 (0x41 :: List.replicate 15 0x20) (0x42 :: List.replicate 15 0x20)
    [0x41] [0x42] (tlv 0x50 0 ovUser) _ rfl rfl rfl
    (by rw [List.drop_succ_cons]; exact drop_app' (by decide)) (by decide) (by decide) ov_items

/-- the witness passes `_decode_pdu` (decode + to_primitive) … -/
theorem accept_witnessOverflow : accept witnessOverflow = .ok pOverflow :=
  accept_of _ _ (.assocRq [0x42] [0x41] none [] [.userIdAc [], .sopExt [0x31] ovInfo]) ov_decode rfl

/-- … but its re-encoding needs 65537 bytes of user data: it does not fit the u16 item length -/
theorem pOverflow_not_normal : normal pOverflow = false := by
  have hlen : ([UserSub.userIdAc [], UserSub.sopExt [0x31] ovInfo].flatMap encUser).length = 65537 := by
    simp only [List.flatMap_cons, List.flatMap_nil, List.append_nil, encUser, tlv_length, List.length_append,
      u16_length, List.length_cons, List.length_nil, ovInfo_length]
  have h16 : lt16 65537 = false := by decide
  simp only [normal, pOverflow, List.all_cons, List.all_nil, varN, hlen, h16, Bool.and_false, Bool.false_and]

/-- an item list whose first item does not decode does not decode (whatever the split of the rest gives) -/
theorem decSubs_first_bad {α : Type} (dec : UInt8 × Bytes → Except Err α) (t r h l : UInt8) (rest : Bytes)
    (hbad : ∃ e, dec (t, rest.take (be16 h l)) = .error e) :
    ∃ e, decSubs dec (t :: r :: h :: l :: rest) = .error e := by
  obtain ⟨e0, he0⟩ := hbad
  simp only [decSubs, split, List.length_cons, splitItems]
  by_cases hlt : rest.length < be16 h l
  · simp only [hlt, ↓reduceIte]; exact ⟨_, rfl⟩
  · simp only [hlt, ↓reduceIte]
    cases hs : splitItems (rest.length + 1 + 1 + 1) (rest.drop (be16 h l)) with
    | error e => exact ⟨e, rfl⟩
    | ok tl => exact ⟨e0, by simp only [mapE, he0]⟩

theorem ov_body_eq : [UserSub.userIdAc [], UserSub.sopExt [0x31] ovInfo].flatMap encUser =
    0x59 :: ([0, 0, 2, 0, 0] ++ tlv 0x56 0 (u16 1 ++ [0x31] ++ ovInfo)) := by
  simp only [List.flatMap_cons, List.flatMap_nil, List.append_nil, encUser, tlv, u16, List.length_nil,
    List.cons_append, List.nil_append, List.length_cons]
  rfl

/-- … and the re-encoded PDU does not decode at all (the wrapped item length 65537 mod 65536 = 1 cuts
the user data after its first byte) -/
theorem ov_reencode_fails : ∃ e, decode (encode pOverflow) = .error e := by
  have hc : aeRqOk [0x41] = true := by decide
  have hg : aeRqOk [0x42] = true := by decide
  obtain ⟨s1, s2, s3⟩ := encAssoc_slices 1 1 [0x41] [0x42]
    [.userInfo [.userIdAc [], .sopExt [0x31] ovInfo]] (by decide) (by decide)
  have hlen : ([UserSub.userIdAc [], UserSub.sopExt [0x31] ovInfo].flatMap encUser).length = 65537 := by
    simp only [List.flatMap_cons, List.flatMap_nil, List.append_nil, encUser, tlv_length, List.length_append,
      u16_length, List.length_cons, List.length_nil, ovInfo_length]
  have hgen : ∀ (us : List UserSub) (body : Bytes), (us.flatMap encUser).length = 65537 → us.flatMap encUser = body →
      [VarItem.userInfo us].flatMap encVar = 0x50 :: 0 :: u8 (65537 / 256) :: u8 (65537 % 256) :: body := by
    intro us body h1 h2
    subst h2
    simp only [List.flatMap_cons, List.flatMap_nil, List.append_nil, encVar, tlv, h1, u16, List.cons_append,
      List.nil_append]
  have hitems := hgen _ _ hlen ov_body_eq
  have hb : be16 (u8 (65537 / 256)) (u8 (65537 % 256)) = 1 := by decide
  obtain ⟨e, he⟩ := decSubs_first_bad decVar 0x50 0 (u8 (65537 / 256)) (u8 (65537 % 256))
    (0x59 :: ([0, 0, 2, 0, 0] ++ tlv 0x56 0 (u16 1 ++ [0x31] ++ ovInfo)))
    ⟨.struct, by rw [hb]; simp only [List.take_succ_cons, List.take_zero]; decide⟩
  refine ⟨e, ?_⟩
  have e1 : encAssoc 1 1 [0x41] [0x42] [.userInfo [.userIdAc [], .sopExt [0x31] ovInfo]] =
      1 :: (encAssoc 1 1 [0x41] [0x42] [.userInfo [.userIdAc [], .sopExt [0x31] ovInfo]]).tail := rfl
  have hd := decode_type1 (encAssoc 1 1 [0x41] [0x42] [.userInfo [.userIdAc [], .sopExt [0x31] ovInfo]]).tail
  rw [← e1] at hd
  show decode (encAssoc 1 1 [0x41] [0x42] [.userInfo [.userIdAc [], .sopExt [0x31] ovInfo]]) = _
  rw [hd, encAssoc_slice6, s1, s2, s3, decAeRq_ljust hc, decAeRq_ljust hg, hitems]
  simp only [decVarItems, he]

end PynetVerif.Pdu
