import PynetVerif.Model.Cmd
/-!
Lemmas for C17 (core Lean only): little-endian numbers, backslash join/split,
strip functions, the element codec, sorted association lists, and the generic
round-trip of a message type described by a `Row`.
-/
namespace PynetVerif.Cmd

/-! ### numbers -/

theorem u8 (n : Nat) (h : n < 256) : (UInt8.ofNat n).toNat = n := by
  rw [UInt8.toNat_ofNat']; omega

theorem rd16_le16 (n : Nat) (h : n < 65536) (r : Bytes) : rd16 (le16 n ++ r) = some (n, r) := by
  simp only [le16, List.cons_append, List.nil_append, rd16]
  rw [u8 _ (by omega), u8 _ (by omega)]
  congr 2; omega

theorem le32_cons (n : Nat) (r : Bytes) : ∃ a b c d, le32 n ++ r = a :: b :: c :: d :: r ∧
    a.toNat + 256 * b.toNat = n % 65536 ∧ c.toNat + 256 * d.toNat = n / 65536 % 65536 := by
  refine ⟨_, _, _, _, rfl, ?_, ?_⟩
  · rw [u8 _ (by omega), u8 _ (by omega)]; omega
  · rw [u8 _ (by omega), u8 _ (by omega)]; omega

theorem rd32_le32 (n : Nat) (h : n < 4294967296) (r : Bytes) : rd32 (le32 n ++ r) = some (n, r) := by
  obtain ⟨a, b, c, d, e, h1, h2⟩ := le32_cons n r
  rw [e]; simp only [rd32]; congr 2; omega

theorem leTag_cons (t : Nat) (r : Bytes) : ∃ a b c d, leTag t ++ r = a :: b :: c :: d :: r ∧
    a.toNat + 256 * b.toNat = t / 65536 % 65536 ∧ c.toNat + 256 * d.toNat = t % 65536 := by
  refine ⟨_, _, _, _, rfl, ?_, ?_⟩
  · rw [u8 _ (by omega), u8 _ (by omega)]; omega
  · rw [u8 _ (by omega), u8 _ (by omega)]; omega

theorem rdTag_leTag (t : Nat) (h : t < 4294967296) (r : Bytes) : rdTag (leTag t ++ r) = some (t, r) := by
  obtain ⟨a, b, c, d, e, h1, h2⟩ := leTag_cons t r
  rw [e]; simp only [rdTag]; congr 2; omega

theorem le16_length (n : Nat) : (le16 n).length = 2 := rfl
theorem le32_length (n : Nat) : (le32 n).length = 4 := rfl
theorem leTag_length (n : Nat) : (leTag n).length = 4 := rfl

/-! ### numeric value lists -/

theorem dec16s_enc (xs : List Nat) : ∀ b, encNums wUS xs = some b → dec16s b = some xs ∧ b.length = 2 * xs.length := by
  induction xs with
  | nil => intro b h; simp only [encNums, Option.some.injEq] at h; subst h; exact ⟨rfl, rfl⟩
  | cons x xs ih =>
    intro b h
    simp only [encNums] at h
    cases hx : wUS x with
    | none => simp [hx] at h
    | some a =>
      cases hr : encNums wUS xs with
      | none => simp [hx, hr] at h
      | some r =>
        simp only [hx, hr, Option.some.injEq] at h
        subst h
        obtain ⟨ih1, ih2⟩ := ih r hr
        unfold wUS at hx
        split at hx
        · next hlt =>
          simp only [Option.some.injEq] at hx; subst hx
          simp only [le16, List.cons_append, List.nil_append, dec16s, ih1, Option.map_some, List.length_cons, ih2]
          rw [u8 _ (by omega), u8 _ (by omega)]
          refine ⟨?_, by omega⟩
          congr 2; omega
        · simp at hx

theorem dec32s_enc (xs : List Nat) : ∀ b, encNums wUL xs = some b → dec32s b = some xs ∧ b.length = 4 * xs.length := by
  induction xs with
  | nil => intro b h; simp only [encNums, Option.some.injEq] at h; subst h; exact ⟨rfl, rfl⟩
  | cons x xs ih =>
    intro b h
    simp only [encNums] at h
    cases hx : wUL x with
    | none => simp [hx] at h
    | some a =>
      cases hr : encNums wUL xs with
      | none => simp [hx, hr] at h
      | some r =>
        simp only [hx, hr, Option.some.injEq] at h
        subst h
        obtain ⟨ih1, ih2⟩ := ih r hr
        unfold wUL at hx
        split at hx
        · next hlt =>
          simp only [Option.some.injEq] at hx; subst hx
          obtain ⟨p, q, s, t, e, h1, h2⟩ := le32_cons x r
          rw [e]
          simp only [dec32s, ih1, Option.map_some, List.length_cons, ih2]
          refine ⟨?_, by omega⟩
          congr 2; omega
        · simp at hx

theorem decATs_enc (xs : List Nat) : ∀ b, encNums wAT xs = some b → decATs b = xs ∧ b.length = 4 * xs.length := by
  induction xs with
  | nil => intro b h; simp only [encNums, Option.some.injEq] at h; subst h; exact ⟨rfl, rfl⟩
  | cons x xs ih =>
    intro b h
    simp only [encNums] at h
    cases hx : wAT x with
    | none => simp [hx] at h
    | some a =>
      cases hr : encNums wAT xs with
      | none => simp [hx, hr] at h
      | some r =>
        simp only [hx, hr, Option.some.injEq] at h
        subst h
        obtain ⟨ih1, ih2⟩ := ih r hr
        unfold wAT at hx
        split at hx
        · next hlt =>
          simp only [Option.some.injEq] at hx; subst hx
          obtain ⟨p, q, s, t, e, h1, h2⟩ := leTag_cons x r
          rw [e]
          simp only [decATs, ih1, List.length_cons, ih2]
          refine ⟨?_, by omega⟩
          congr 1; omega
        · simp at hx

theorem encNums_some (w : Nat → Option Bytes) (xs : List Nat) (h : ∀ x ∈ xs, (w x).isSome) :
    (encNums w xs).isSome := by
  induction xs with
  | nil => rfl
  | cons x xs ih =>
    have h1 := h x (List.mem_cons_self)
    have h2 := ih (fun y hy => h y (List.mem_cons_of_mem _ hy))
    simp only [encNums]
    cases hx : w x with
    | none => simp [hx] at h1
    | some a =>
      cases hr : encNums w xs with
      | none => simp [hr] at h2
      | some r => rfl

/-! ### rstripBy / dropWhile -/

theorem rstripBy_cons_of_not (p : UInt8 → Bool) (c : UInt8) (cs : Bytes) (h : p c = false) :
    rstripBy p (c :: cs) = c :: rstripBy p cs := by
  simp only [rstripBy]
  cases rstripBy p cs with
  | nil => simp [h]
  | cons a r => rfl

theorem rstripBy_append (p : UInt8 → Bool) (a b : Bytes) :
    rstripBy p (a ++ b) = if rstripBy p b = [] then rstripBy p a else a ++ rstripBy p b := by
  induction a with
  | nil => by_cases h : rstripBy p b = [] <;> simp [h, rstripBy]
  | cons c cs ih =>
    simp only [List.cons_append, rstripBy, ih]
    by_cases h : rstripBy p b = []
    · simp [h]
    · simp only [h, if_false]
      cases hcs : cs ++ rstripBy p b with
      | nil => simp at hcs; exact absurd hcs.2 h
      | cons x xs => rfl

theorem rstripBy_snoc (p : UInt8 → Bool) (a : Bytes) (c : UInt8) (h : p c = true) :
    rstripBy p (a ++ [c]) = rstripBy p a := by
  rw [rstripBy_append]; simp [rstripBy, h]

/-- the stripped string is a prefix and what is cut off consists of pad characters -/
theorem rstripBy_prefix (p : UInt8 → Bool) (s : Bytes) : ∃ t, s = rstripBy p s ++ t ∧ t.all p = true := by
  induction s with
  | nil => exact ⟨[], rfl, rfl⟩
  | cons c cs ih =>
    obtain ⟨t, e, ht⟩ := ih
    simp only [rstripBy]
    cases hr : rstripBy p cs with
    | nil =>
      rw [hr] at e
      by_cases hc : p c = true
      · refine ⟨c :: cs, by simp [hc], ?_⟩
        simp only [List.nil_append] at e
        rw [e]; simp [hc, ht]
      · refine ⟨cs, by simp [hc], ?_⟩
        simp only [List.nil_append] at e
        rw [e]; exact ht
    | cons x xs =>
      refine ⟨t, ?_, ht⟩
      rw [hr] at e
      simp only [List.cons_append]
      rw [← List.cons_append, ← e]

theorem mem_of_mem_rstripBy (p : UInt8 → Bool) (s : Bytes) (c : UInt8) (h : c ∈ rstripBy p s) : c ∈ s := by
  obtain ⟨t, e, _⟩ := rstripBy_prefix p s
  rw [e]; exact List.mem_append_left _ h

theorem rstripBy_length_le (p : UInt8 → Bool) (s : Bytes) : (rstripBy p s).length ≤ s.length := by
  obtain ⟨t, e, _⟩ := rstripBy_prefix p s
  have := congrArg List.length e
  simp only [List.length_append] at this; omega

theorem rstripBy_cons_of_ne (p : UInt8 → Bool) (c : UInt8) (cs : Bytes) (h : rstripBy p cs ≠ []) :
    rstripBy p (c :: cs) = c :: rstripBy p cs := by
  cases hr : rstripBy p cs with
  | nil => exact absurd hr h
  | cons a r => simp only [rstripBy, hr]

theorem rstripBy_idem (p : UInt8 → Bool) (s : Bytes) : rstripBy p (rstripBy p s) = rstripBy p s := by
  induction s with
  | nil => rfl
  | cons c cs ih =>
    by_cases hr : rstripBy p cs = []
    · simp only [rstripBy, hr]
      by_cases hc : p c = true
      · simp [hc, rstripBy]
      · simp [hc, rstripBy]
    · rw [rstripBy_cons_of_ne p c cs hr, rstripBy_cons_of_ne p c _ (by rw [ih]; exact hr), ih]

theorem rstripBy_head (p : UInt8 → Bool) (c : UInt8) (cs : Bytes) (h : p c = false) :
    ∃ r, rstripBy p (c :: cs) = c :: r := ⟨_, rstripBy_cons_of_not p c cs h⟩

theorem dropWhile_head (p : UInt8 → Bool) (s : Bytes) :
    s.dropWhile p = [] ∨ ∃ c cs, s.dropWhile p = c :: cs ∧ p c = false := by
  induction s with
  | nil => left; rfl
  | cons c cs ih =>
    by_cases hc : p c = true
    · simp only [List.dropWhile_cons, hc, if_true]; exact ih
    · right; exact ⟨c, cs, by simp [hc], by simpa using hc⟩

theorem mem_of_mem_dropWhile (p : UInt8 → Bool) (s : Bytes) (c : UInt8) (h : c ∈ s.dropWhile p) : c ∈ s :=
  (List.dropWhile_sublist p).subset h

theorem dropWhile_length_le (p : UInt8 → Bool) (s : Bytes) : (s.dropWhile p).length ≤ s.length :=
  (List.dropWhile_sublist p).length_le

/-! ### stripSp -/

theorem stripSp_snoc (a : Bytes) : stripSp (a ++ [SP]) = stripSp a := by
  unfold stripSp
  induction a with
  | nil => simp [isSp, rstripBy]
  | cons x xs ih =>
    by_cases hx : isSp x = true
    · simp only [List.cons_append, List.dropWhile_cons, hx, if_true]; exact ih
    · simp only [List.cons_append, List.dropWhile_cons, hx]
      rw [← List.cons_append]
      exact rstripBy_snoc isSp _ SP (by simp [isSp])

theorem stripSp_idem (s : Bytes) : stripSp (stripSp s) = stripSp s := by
  unfold stripSp
  rcases dropWhile_head isSp s with h | ⟨c, cs, h, hc⟩
  · rw [h]; rfl
  · rw [h]
    obtain ⟨r, hr⟩ := rstripBy_head isSp c cs hc
    rw [hr, List.dropWhile_cons]
    simp only [hc, Bool.false_eq_true, if_false]
    rw [← hr, rstripBy_idem]

theorem mem_of_mem_stripSp (s : Bytes) (c : UInt8) (h : c ∈ stripSp s) : c ∈ s :=
  mem_of_mem_dropWhile _ _ _ (mem_of_mem_rstripBy _ _ _ h)

theorem stripSp_length_le (s : Bytes) : (stripSp s).length ≤ s.length :=
  Nat.le_trans (rstripBy_length_le _ _) (dropWhile_length_le _ _)

theorem validAE_stripSp (s : Bytes) (h : validAE s = true) : validAE (stripSp s) = true := by
  simp only [validAE, Bool.and_eq_true, decide_eq_true_eq, List.all_eq_true] at h ⊢
  exact ⟨Nat.le_trans (stripSp_length_le s) h.1, fun c hc => h.2 c (mem_of_mem_stripSp s c hc)⟩

theorem rstripPad_snoc_sp (a : Bytes) : rstripPad (a ++ [SP]) = rstripPad a :=
  rstripBy_snoc isPad a SP (by simp [isPad])

theorem rstripPad_snoc_nul (a : Bytes) : rstripPad (a ++ [NUL]) = rstripPad a :=
  rstripBy_snoc isPad a NUL (by simp [isPad])

/-! ### backslash join / split -/

def mapLast (f : Bytes → Bytes) : List Bytes → List Bytes
  | [] => []
  | [s] => [f s]
  | s :: t :: r => s :: mapLast f (t :: r)

theorem BS_ne_of_not_mem {c : UInt8} {cs : Bytes} (h : BS ∉ c :: cs) : (c = BS) = False ∧ BS ∉ cs := by
  simp only [List.mem_cons, not_or] at h
  exact ⟨by simp only [eq_iff_iff, iff_false]; exact fun e => h.1 e.symm, h.2⟩

theorem splitBs_noBS (s : Bytes) (h : BS ∉ s) : splitBs s = [s] := by
  induction s with
  | nil => rfl
  | cons c cs ih =>
    obtain ⟨h1, h2⟩ := BS_ne_of_not_mem h
    simp only [splitBs, h1, if_false, ih h2]

theorem splitBs_append_BS (s rest : Bytes) (h : BS ∉ s) : splitBs (s ++ BS :: rest) = s :: splitBs rest := by
  induction s with
  | nil => simp [splitBs]
  | cons c cs ih =>
    obtain ⟨h1, h2⟩ := BS_ne_of_not_mem h
    simp only [List.cons_append, splitBs, h1, if_false, ih h2]

theorem splitBs_joinBs (l : List Bytes) (hne : l ≠ []) (h : ∀ s ∈ l, BS ∉ s) : splitBs (joinBs l) = l := by
  induction l with
  | nil => exact absurd rfl hne
  | cons s r ih =>
    cases r with
    | nil => exact splitBs_noBS s (h s (List.mem_cons_self))
    | cons t r' =>
      simp only [joinBs]
      rw [splitBs_append_BS _ _ (h s (List.mem_cons_self)), ih (by simp) (fun x hx => h x (List.mem_cons_of_mem _ hx))]

theorem joinBs_eq_nil (l : List Bytes) (h : joinBs l = []) : l = [] ∨ l = [[]] := by
  cases l with
  | nil => left; rfl
  | cons s r =>
    cases r with
    | nil => right; simp only [joinBs] at h; rw [h]
    | cons t r' => simp [joinBs] at h

theorem isPad_BS : isPad BS = false := by decide
theorem isSp_BS : isSp BS = false := by decide

theorem rstripBy_joinBs (p : UInt8 → Bool) (hp : p BS = false) (l : List Bytes) :
    rstripBy p (joinBs l) = joinBs (mapLast (rstripBy p) l) := by
  induction l with
  | nil => rfl
  | cons s r ih =>
    cases r with
    | nil => rfl
    | cons t r' =>
      have e : rstripBy p (BS :: joinBs (t :: r')) = BS :: rstripBy p (joinBs (t :: r')) :=
        rstripBy_cons_of_not p BS _ hp
      have hm : ∃ a b, mapLast (rstripBy p) (t :: r') = a :: b := by
        cases r' with
        | nil => exact ⟨_, _, rfl⟩
        | cons u r'' => exact ⟨_, _, rfl⟩
      obtain ⟨a, b, hab⟩ := hm
      simp only [joinBs, mapLast]
      rw [rstripBy_append, e, ih, hab]
      simp [joinBs]

theorem joinBs_snoc (c : UInt8) (l : List Bytes) (hne : l ≠ []) :
    joinBs l ++ [c] = joinBs (mapLast (· ++ [c]) l) := by
  induction l with
  | nil => exact absurd rfl hne
  | cons s r ih =>
    cases r with
    | nil => rfl
    | cons t r' =>
      have hm : ∃ a b, mapLast (· ++ [c]) (t :: r') = a :: b := by
        cases r' with
        | nil => exact ⟨_, _, rfl⟩
        | cons u r'' => exact ⟨_, _, rfl⟩
      obtain ⟨a, b, hab⟩ := hm
      have := ih (by simp)
      simp only [joinBs, mapLast, List.append_assoc, List.cons_append]
      rw [this, hab]
      rfl

theorem map_mapLast (f g : Bytes → Bytes) (hfg : ∀ s, f (g s) = f s) (l : List Bytes) :
    (mapLast g l).map f = l.map f := by
  induction l with
  | nil => rfl
  | cons s r ih =>
    cases r with
    | nil => simp [mapLast, hfg]
    | cons t r' => simp only [mapLast, List.map_cons] at ih ⊢; rw [ih]

theorem mapLast_id (f : Bytes → Bytes) (l : List Bytes) (h : ∀ s ∈ l, f s = s) : mapLast f l = l := by
  induction l with
  | nil => rfl
  | cons s r ih =>
    cases r with
    | nil => simp [mapLast, h s (List.mem_cons_self)]
    | cons t r' => simp only [mapLast]; rw [ih (fun x hx => h x (List.mem_cons_of_mem _ hx))]

theorem mapLast_ne_nil (f : Bytes → Bytes) (l : List Bytes) (h : l ≠ []) : mapLast f l ≠ [] := by
  cases l with
  | nil => exact absurd rfl h
  | cons s r => cases r <;> simp [mapLast]

theorem mem_mapLast (f : Bytes → Bytes) (l : List Bytes) (x : Bytes) (h : x ∈ mapLast f l) :
    x ∈ l ∨ ∃ s ∈ l, x = f s := by
  induction l with
  | nil => simp [mapLast] at h
  | cons s r ih =>
    cases r with
    | nil => simp only [mapLast, List.mem_singleton] at h; right; exact ⟨s, List.mem_cons_self, h⟩
    | cons t r' =>
      simp only [mapLast, List.mem_cons] at h
      rcases h with h | h
      · left; rw [h]; exact List.mem_cons_self
      · rcases ih (by simpa [List.mem_cons] using h) with h' | ⟨y, hy, e⟩
        · left; exact List.mem_cons_of_mem _ h'
        · right; exact ⟨y, List.mem_cons_of_mem _ hy, e⟩

theorem not_BS_rstripBy (p : UInt8 → Bool) (s : Bytes) (h : BS ∉ s) : BS ∉ rstripBy p s :=
  fun hm => h (mem_of_mem_rstripBy p s BS hm)

theorem not_BS_snoc (c : UInt8) (hc : c ≠ BS) (s : Bytes) (h : BS ∉ s) : BS ∉ s ++ [c] := by
  simp only [List.mem_append, List.mem_singleton, not_or]
  exact ⟨h, fun e => hc e.symm⟩

/-! ### the value codec -/

/-- what a string value looks like after writing and reading (the strip rules of the reader) -/
def normStrs (vr : VR) (xs : List Bytes) : List Bytes :=
  if (joinBs xs).isEmpty then []
  else pyStrs (match vr with
    | .UI => (mapLast rstripPad xs).map stripSp
    | .AE => xs.map stripSp
    | _ => xs.map rstripPad)

def normVal : VR → EVal → EVal
  | vr, .strs xs => .strs (normStrs vr xs)
  | _, v => v

/-- the values the codec is defined on: numbers in range, strings without the delimiter -/
def ValOk : VR → EVal → Prop
  | .US, .nums xs => ∀ x ∈ xs, x < 65536
  | .UL, .nums xs => ∀ x ∈ xs, x < 4294967296
  | .AT, .nums xs => ∀ x ∈ xs, x < 4294967296
  | .UI, .strs xs => ∀ s ∈ xs, BS ∉ s
  | .AE, .strs xs => ∀ s ∈ xs, BS ∉ s
  | .LO, .strs xs => ∀ s ∈ xs, BS ∉ s
  | _, _ => False

theorem padEven_cases (pad : UInt8) (b : Bytes) : padEven pad b = b ∨ padEven pad b = b ++ [pad] := by
  unfold padEven; split
  · right; rfl
  · left; rfl

theorem padEven_length (pad : UInt8) (b : Bytes) : (padEven pad b).length ≤ b.length + 1 := by
  rcases padEven_cases pad b with h | h <;> rw [h] <;> simp

theorem padEven_isEmpty (pad : UInt8) (b : Bytes) : (padEven pad b).isEmpty = b.isEmpty := by
  cases b with
  | nil => rfl
  | cons c cs =>
    rcases padEven_cases pad (c :: cs) with h | h <;> rw [h] <;> rfl

theorem decode_strs_UI (xs : List Bytes) (h : ∀ s ∈ xs, BS ∉ s) (hne : (joinBs xs).isEmpty = false) (P : Bytes)
    (hP : P = joinBs xs ∨ P = joinBs xs ++ [NUL]) :
    (splitBs (rstripPad P)).map stripSp = (mapLast rstripPad xs).map stripSp := by
  have hx : xs ≠ [] := by intro e; rw [e] at hne; simp [joinBs] at hne
  have e1 : rstripPad P = rstripPad (joinBs xs) := by
    rcases hP with e | e <;> rw [e]
    exact rstripPad_snoc_nul _
  rw [e1]
  unfold rstripPad
  rw [rstripBy_joinBs isPad isPad_BS, splitBs_joinBs _ (mapLast_ne_nil _ _ hx)]
  intro s hs
  rcases mem_mapLast _ _ _ hs with h' | ⟨y, hy, e⟩
  · exact h s h'
  · rw [e]; exact not_BS_rstripBy _ _ (h y hy)

theorem decode_strs_pad (f : Bytes → Bytes) (hf : ∀ s, f (s ++ [SP]) = f s)
    (xs : List Bytes) (h : ∀ s ∈ xs, BS ∉ s) (hne : (joinBs xs).isEmpty = false) (P : Bytes)
    (hP : P = joinBs xs ∨ P = joinBs xs ++ [SP]) :
    (splitBs P).map f = xs.map f := by
  have hx : xs ≠ [] := by intro e; rw [e] at hne; simp [joinBs] at hne
  rcases hP with e | e
  · rw [e, splitBs_joinBs _ hx h]
  · rw [e, joinBs_snoc SP xs hx, splitBs_joinBs _ (mapLast_ne_nil _ _ hx), map_mapLast f _ hf]
    intro s hs
    rcases mem_mapLast _ _ _ hs with h' | ⟨y, hy, e'⟩
    · exact h s h'
    · rw [e']; exact not_BS_snoc SP (by decide) _ (h y hy)

/-- **Element values.** Writing a value and reading it back yields the value up to the
reader's strip rules, for every multiplicity and every length. -/
theorem decodeVal_encodeVal (vr : VR) (v : EVal) (h : ValOk vr v) :
    ∃ b, encodeVal vr v = some b ∧ decodeVal vr b = some (normVal vr v) := by
  cases v with
  | nums xs =>
    cases vr with
    | US =>
      have hs := encNums_some wUS xs (fun x hx => by simp [wUS, h x hx])
      obtain ⟨b, hb⟩ := Option.isSome_iff_exists.mp hs
      obtain ⟨h1, h2⟩ := dec16s_enc xs b hb
      refine ⟨b, hb, ?_⟩
      unfold decodeVal
      cases b with
      | nil => cases xs with
        | nil => rfl
        | cons x xs' => simp at h2
      | cons c cs => simp only [List.isEmpty_cons, Bool.false_eq_true, if_false, h1]; rfl
    | UL =>
      have hs := encNums_some wUL xs (fun x hx => by simp [wUL, h x hx])
      obtain ⟨b, hb⟩ := Option.isSome_iff_exists.mp hs
      obtain ⟨h1, h2⟩ := dec32s_enc xs b hb
      refine ⟨b, hb, ?_⟩
      unfold decodeVal
      cases b with
      | nil => cases xs with
        | nil => rfl
        | cons x xs' => simp at h2
      | cons c cs => simp only [List.isEmpty_cons, Bool.false_eq_true, if_false, h1]; rfl
    | AT =>
      have hs := encNums_some wAT xs (fun x hx => by simp [wAT, h x hx])
      obtain ⟨b, hb⟩ := Option.isSome_iff_exists.mp hs
      obtain ⟨h1, h2⟩ := decATs_enc xs b hb
      refine ⟨b, hb, ?_⟩
      unfold decodeVal
      cases b with
      | nil => cases xs with
        | nil => rfl
        | cons x xs' => simp at h2
      | cons c cs => simp only [List.isEmpty_cons, Bool.false_eq_true, if_false, h1]; rfl
    | UI => exact absurd h (by simp [ValOk])
    | AE => exact absurd h (by simp [ValOk])
    | LO => exact absurd h (by simp [ValOk])
  | strs xs =>
    cases vr with
    | US => exact absurd h (by simp [ValOk])
    | UL => exact absurd h (by simp [ValOk])
    | AT => exact absurd h (by simp [ValOk])
    | UI =>
      refine ⟨_, rfl, ?_⟩
      show decodeVal _ _ = some (.strs (normStrs _ xs))
      unfold decodeVal normStrs
      rw [padEven_isEmpty]
      cases hj : (joinBs xs).isEmpty with
      | true => rfl
      | false =>
        simp only [Bool.false_eq_true, if_false]
        rw [decode_strs_UI xs h hj _ (padEven_cases NUL _)]
    | AE =>
      refine ⟨_, rfl, ?_⟩
      show decodeVal _ _ = some (.strs (normStrs _ xs))
      unfold decodeVal normStrs
      rw [padEven_isEmpty]
      cases hj : (joinBs xs).isEmpty with
      | true => rfl
      | false =>
        simp only [Bool.false_eq_true, if_false]
        rw [decode_strs_pad stripSp stripSp_snoc xs h hj _ (padEven_cases SP _)]
    | LO =>
      refine ⟨_, rfl, ?_⟩
      show decodeVal _ _ = some (.strs (normStrs _ xs))
      unfold decodeVal normStrs
      rw [padEven_isEmpty]
      cases hj : (joinBs xs).isEmpty with
      | true => rfl
      | false =>
        simp only [Bool.false_eq_true, if_false]
        rw [decode_strs_pad rstripPad rstripPad_snoc_sp xs h hj _ (padEven_cases SP _)]

/-! ### elements -/

theorem lookup_mem {β : Type} (t : Nat) (v : β) (l : List (Nat × β)) (h : l.lookup t = some v) : (t, v) ∈ l := by
  induction l with
  | nil => simp at h
  | cons e r ih =>
    obtain ⟨k, b⟩ := e
    rw [List.lookup_cons] at h
    by_cases hk : t = k
    · subst hk; simp only [beq_self_eq_true, Option.some.injEq] at h; subst h; exact List.mem_cons_self
    · have : (t == k) = false := by simpa using hk
      rw [this] at h; exact List.mem_cons_of_mem _ (ih h)

theorem vrOf_lt (t : Nat) (vr : VR) (h : vrOf t = some vr) : t < 65536 := by
  have hm := lookup_mem t vr vrTable h
  have hall : vrTable.all (fun e => decide (e.1 < 65536)) = true := by decide
  have := List.all_eq_true.mp hall _ hm
  simpa using this

def ElemOk (e : Elem) : Prop := ∃ vr, vrOf e.1 = some vr ∧ ValOk vr e.2

def normElem (e : Elem) : Elem :=
  match vrOf e.1 with
  | some vr => (e.1, normVal vr e.2)
  | none => e

theorem normElem_fst (e : Elem) : (normElem e).1 = e.1 := by
  unfold normElem; split <;> rfl

theorem encodeElem_shape (e : Elem) (b : Bytes) (h : encodeElem e = some b) :
    ∃ vr body, vrOf e.1 = some vr ∧ encodeVal vr e.2 = some body ∧ body.length < 4294967295 ∧
      b = leTag e.1 ++ le32 body.length ++ body := by
  unfold encodeElem at h
  cases hv : vrOf e.1 with
  | none => simp [hv] at h
  | some vr =>
    cases hb : encodeVal vr e.2 with
    | none => simp [hv, hb] at h
    | some body =>
      simp only [hv, hb] at h
      split at h
      · next hl => simp only [Option.some.injEq] at h; exact ⟨vr, body, rfl, hb, hl, h.symm⟩
      · simp at h

theorem decodeElems_step (n : Nat) (e : Elem) (b rest : Bytes) (he : encodeElem e = some b) (hok : ElemOk e) :
    decodeElems (n + 1) (b ++ rest) =
      match decodeElems n rest with
      | some r => some (normElem e :: r)
      | none => none := by
  obtain ⟨vr, body, hv, hb, hl, hshape⟩ := encodeElem_shape e b he
  obtain ⟨vr', hv', hval⟩ := hok
  rw [hv] at hv'; simp only [Option.some.injEq] at hv'; subst hv'
  obtain ⟨b', hb', hdec⟩ := decodeVal_encodeVal vr e.2 hval
  rw [hb] at hb'; simp only [Option.some.injEq] at hb'; subst hb'
  have htag := vrOf_lt e.1 vr hv
  subst hshape
  rw [decodeElems.eq_3 _ _ (by
    obtain ⟨a1, a2, a3, a4, e', _, _⟩ := leTag_cons e.1 (le32 body.length ++ body ++ rest)
    simp only [List.append_assoc] at e' ⊢
    rw [e']; simp)]
  simp only [List.append_assoc]
  rw [rdTag_leTag e.1 (by omega)]
  simp only
  rw [rd32_le32 _ (by omega)]
  simp only
  have h1 : ¬ (body.length = 4294967295) := by omega
  have h2 : ¬ ((body ++ rest).length < body.length) := by simp
  simp only [h1, h2, if_false, hv, List.take_left' rfl, List.drop_left' rfl, hdec]
  unfold normElem
  simp only [hv]
  cases decodeElems n rest <;> rfl

def normCmd (c : List Elem) : List Elem := c.map normElem

theorem decodeElems_encodeElems (c : List Elem) : ∀ b, encodeElems c = some b → (∀ e ∈ c, ElemOk e) →
    ∀ n, c.length ≤ n → decodeElems n b = some (normCmd c) := by
  induction c with
  | nil =>
    intro b h _ n _
    simp only [encodeElems, Option.some.injEq] at h; subst h
    exact decodeElems.eq_1 n
  | cons e r ih =>
    intro b h hok n hn
    simp only [encodeElems] at h
    cases he : encodeElem e with
    | none => simp [he] at h
    | some a =>
      cases hr : encodeElems r with
      | none => simp [he, hr] at h
      | some br =>
        simp only [he, hr, Option.some.injEq] at h; subst h
        cases n with
        | zero => simp at hn
        | succ m =>
          rw [decodeElems_step m e a br he (hok e List.mem_cons_self),
            ih br hr (fun x hx => hok x (List.mem_cons_of_mem _ hx)) m (by simp at hn; omega)]
          rfl

theorem encodeElem_length (e : Elem) (b : Bytes) (h : encodeElem e = some b) : 8 ≤ b.length := by
  obtain ⟨vr, body, _, _, _, hshape⟩ := encodeElem_shape e b h
  subst hshape; simp only [List.length_append, leTag_length, le32_length]; omega

theorem encodeElems_length (c : List Elem) : ∀ b, encodeElems c = some b → c.length ≤ b.length := by
  induction c with
  | nil => intro b h; simp
  | cons e r ih =>
    intro b h
    simp only [encodeElems] at h
    cases he : encodeElem e with
    | none => simp [he] at h
    | some a =>
      cases hr : encodeElems r with
      | none => simp [he, hr] at h
      | some br =>
        simp only [he, hr, Option.some.injEq] at h; subst h
        have := encodeElem_length e a he
        have := ih br hr
        simp only [List.length_append, List.length_cons]; omega

/-- a bound on the encoded size from a bound on every element -/
theorem encodeElems_bound (B : Nat) (c : List Elem)
    (h : ∀ e ∈ c, ∃ b, encodeElem e = some b ∧ b.length ≤ B) :
    ∃ bs, encodeElems c = some bs ∧ bs.length ≤ c.length * B := by
  induction c with
  | nil => exact ⟨[], rfl, by simp⟩
  | cons e r ih =>
    obtain ⟨a, ha, hla⟩ := h e List.mem_cons_self
    obtain ⟨br, hbr, hlr⟩ := ih (fun x hx => h x (List.mem_cons_of_mem _ hx))
    refine ⟨a ++ br, by simp only [encodeElems, ha, hbr], ?_⟩
    simp only [List.length_append, List.length_cons, Nat.add_mul, Nat.one_mul]; omega

/-! ### data sets as sorted association lists -/

def Sorted (c : Cmd) : Prop := c.Pairwise (fun a b => a.1 < b.1)

theorem Cmd.set_snoc (c : Cmd) (t : Nat) (v : EVal) (h : ∀ e ∈ c, e.1 < t) : c.set t v = c ++ [(t, v)] := by
  induction c with
  | nil => rfl
  | cons e r ih =>
    obtain ⟨t', v'⟩ := e
    have h1 : t' < t := h (t', v') List.mem_cons_self
    have h2 : ¬ t < t' := by omega
    have h3 : ¬ t = t' := by omega
    simp only [Cmd.set, h2, h3, if_false, List.cons_append]
    rw [ih (fun x hx => h x (List.mem_cons_of_mem _ hx))]

theorem foldl_set_sorted (rest acc : Cmd) (h : Sorted (acc ++ rest)) :
    rest.foldl (fun c e => c.set e.1 e.2) acc = acc ++ rest := by
  induction rest generalizing acc with
  | nil => simp
  | cons e r ih =>
    simp only [List.foldl_cons]
    have hs := h
    unfold Sorted at hs
    rw [List.pairwise_append] at hs
    rw [Cmd.set_snoc acc e.1 e.2 (fun x hx => hs.2.2 x hx e List.mem_cons_self)]
    have : acc ++ [(e.1, e.2)] ++ r = acc ++ e :: r := by simp
    rw [ih _ (by rw [this]; exact h), this]

theorem Cmd.ofList_sorted (c : Cmd) (h : Sorted c) : Cmd.ofList c = c := by
  unfold Cmd.ofList
  have := foldl_set_sorted c [] (by simpa using h)
  simpa using this

theorem Sorted.map_normElem (c : Cmd) (h : Sorted c) : Sorted (normCmd c) := by
  unfold Sorted normCmd
  rw [List.pairwise_map]
  simp only [normElem_fst]
  exact h

/-- **Command sets.** Encoding a sorted data set of well-formed elements and decoding the
bytes gives back the data set (each value up to the reader's strip rules). -/
theorem decodeCmd_encodeCmd (c : Cmd) (hs : Sorted c) (hok : ∀ e ∈ c, ElemOk e) (b : Bytes)
    (hb : encodeCmd c = some b) : decodeCmd b = some (normCmd c) := by
  unfold decodeCmd
  rw [decodeElems_encodeElems c b hb hok b.length (encodeElems_length c b hb)]
  simp only [Option.map_some]
  rw [Cmd.ofList_sorted _ (Sorted.map_normElem c hs)]

theorem Cmd.get_cons (t t' : Nat) (v : EVal) (r : Cmd) :
    Cmd.get ((t', v) :: r) t = if t = t' then some v else Cmd.get r t := by
  unfold Cmd.get
  rw [List.lookup_cons]
  by_cases h : t = t'
  · subst h; simp
  · have : (t == t') = false := by simpa using h
    simp [this, h]

theorem Cmd.get_none_of_lt (c : Cmd) (t : Nat) (h : ∀ e ∈ c, t < e.1) : c.get t = none := by
  induction c with
  | nil => rfl
  | cons e r ih =>
    obtain ⟨t', v'⟩ := e
    have : t < t' := h (t', v') List.mem_cons_self
    rw [Cmd.get_cons, if_neg (by omega)]
    exact ih (fun x hx => h x (List.mem_cons_of_mem _ hx))

theorem Cmd.get_set (c : Cmd) (hs : Sorted c) (t : Nat) (v : EVal) (t' : Nat) :
    (c.set t v).get t' = if t' = t then some v else c.get t' := by
  induction c with
  | nil => simp only [Cmd.set]; rw [Cmd.get_cons]
  | cons e r ih =>
    obtain ⟨k, w⟩ := e
    have hs' := hs
    unfold Sorted at hs'
    rw [List.pairwise_cons] at hs'
    simp only [Cmd.set]
    by_cases h1 : t < k
    · simp only [h1, if_true]; rw [Cmd.get_cons]
    · simp only [h1, if_false]
      by_cases h2 : t = k
      · subst h2
        simp only [if_true]
        rw [Cmd.get_cons, Cmd.get_cons]
        by_cases h3 : t' = t <;> simp [h3]
      · simp only [h2, if_false]
        rw [Cmd.get_cons, Cmd.get_cons, ih hs'.2]
        by_cases h3 : t' = k
        · subst h3
          have : ¬ t' = t := fun e => h2 e.symm
          simp [this]
        · simp [h3]

theorem Cmd.mem_set (c : Cmd) (t : Nat) (v : EVal) (e : Elem) (h : e ∈ c.set t v) : e = (t, v) ∨ e ∈ c := by
  induction c with
  | nil => simp only [Cmd.set, List.mem_singleton] at h; left; exact h
  | cons x r ih =>
    obtain ⟨k, w⟩ := x
    simp only [Cmd.set] at h
    split at h
    · simp only [List.mem_cons] at h ⊢
      rcases h with h | h | h
      · left; exact h
      · right; left; exact h
      · right; right; exact h
    · split at h
      · simp only [List.mem_cons] at h ⊢
        rcases h with h | h
        · left; exact h
        · right; right; exact h
      · simp only [List.mem_cons] at h ⊢
        rcases h with h | h
        · right; left; exact h
        · rcases ih h with h' | h'
          · left; exact h'
          · right; right; exact h'

theorem Cmd.set_sorted (c : Cmd) (hs : Sorted c) (t : Nat) (v : EVal) : Sorted (c.set t v) := by
  induction c with
  | nil => simp [Cmd.set, Sorted]
  | cons x r ih =>
    obtain ⟨k, w⟩ := x
    have hs' := hs
    unfold Sorted at hs'
    rw [List.pairwise_cons] at hs'
    simp only [Cmd.set]
    split
    · next h1 =>
      unfold Sorted
      rw [List.pairwise_cons]
      refine ⟨?_, hs⟩
      intro a ha
      simp only [List.mem_cons] at ha
      rcases ha with ha | ha
      · rw [ha]; exact h1
      · have := hs'.1 a ha; simp only at this ⊢; omega
    · split
      · next h1 h2 =>
        subst h2
        unfold Sorted
        rw [List.pairwise_cons]
        exact ⟨hs'.1, hs'.2⟩
      · next h1 h2 =>
        unfold Sorted
        rw [List.pairwise_cons]
        refine ⟨?_, ih hs'.2⟩
        intro a ha
        rcases Cmd.mem_set r t v a ha with e | ha'
        · rw [e]; simp only; omega
        · exact hs'.1 a ha'

theorem Cmd.get_del (c : Cmd) (t t' : Nat) : (c.del t).get t' = if t' = t then none else c.get t' := by
  induction c with
  | nil => simp [Cmd.del, Cmd.get]
  | cons x r ih =>
    obtain ⟨k, w⟩ := x
    unfold Cmd.del at ih ⊢
    simp only [List.filter_cons]
    by_cases hk : k = t
    · subst hk
      simp only [bne_self_eq_false, Bool.false_eq_true, if_false]
      rw [ih, Cmd.get_cons]
      by_cases h : t' = k <;> simp [h]
    · have : (k != t) = true := by simpa using hk
      simp only [this, if_true]
      rw [Cmd.get_cons, Cmd.get_cons, ih]
      by_cases h : t' = k
      · subst h; simp [hk]
      · simp [h]

theorem Cmd.del_sorted (c : Cmd) (hs : Sorted c) (t : Nat) : Sorted (c.del t) :=
  List.Pairwise.filter _ hs

theorem Cmd.mem_del (c : Cmd) (t : Nat) (e : Elem) (h : e ∈ c.del t) : e ∈ c ∧ e.1 ≠ t := by
  unfold Cmd.del at h
  rw [List.mem_filter] at h
  exact ⟨h.1, by simpa using h.2⟩

theorem Cmd.set_zero (c : Cmd) (v : EVal) (h : ∀ e ∈ c, e.1 ≠ 0) : c.set 0 v = (0, v) :: c := by
  cases c with
  | nil => rfl
  | cons x r =>
    obtain ⟨k, w⟩ := x
    have : k ≠ 0 := h (k, w) List.mem_cons_self
    have h1 : 0 < k := by omega
    simp only [Cmd.set, h1, if_true]

theorem Cmd.get_map_normElem (c : Cmd) (t : Nat) :
    Cmd.get (normCmd c) t = (c.get t).map (fun ev => (normElem (t, ev)).2) := by
  induction c with
  | nil => rfl
  | cons x r ih =>
    obtain ⟨k, w⟩ := x
    unfold normCmd at ih ⊢
    simp only [List.map_cons]
    have e : normElem (k, w) = (k, (normElem (k, w)).2) := by
      have := normElem_fst (k, w)
      exact Prod.ext this rfl
    rw [e, Cmd.get_cons, Cmd.get_cons, ih]
    by_cases h : t = k
    · subst h; simp
    · simp [h]

theorem Cmd.get_of_mem (c : Cmd) (hs : Sorted c) (t : Nat) (v : EVal) (h : (t, v) ∈ c) : c.get t = some v := by
  induction c with
  | nil => simp at h
  | cons x r ih =>
    obtain ⟨k, w⟩ := x
    have hs' := hs
    unfold Sorted at hs'
    rw [List.pairwise_cons] at hs'
    rw [Cmd.get_cons]
    simp only [List.mem_cons, Prod.mk.injEq] at h
    rcases h with ⟨h1, h2⟩ | h
    · simp [h1, h2]
    · have : k < t := hs'.1 (t, v) h
      rw [if_neg (by omega)]
      exact ih hs'.2 h

/-! ### parameters: what the setters store is encodable and comes back in canonical form -/

/-- a stored UID: non-empty, at most 64 characters, no delimiter, nothing the setter or the
reader would strip -/
def UidOk (s : Bytes) : Prop :=
  s ≠ [] ∧ s.length ≤ 64 ∧ BS ∉ s ∧ stripSp s = s ∧ rstripPad s = s

/-- **In-range parameter values**, per setter kind and VR: the values the setter stores that
lie in the range of the VR (US 0..65535, tags 32 bit, strings without the value delimiter).
`none` (parameter absent) is in range except for Priority, which is never `None`. -/
def ParOk : Setter → VR → Option Val → Prop
  | .priority, .US, some (.int n) => n ≤ 2
  | .priority, _, _ => False
  | _, _, none => True
  | .us16, .US, some (.int n) => n < 65536
  | .natAny, .US, some (.int n) => n < 65536
  | .plain, .US, some (.int n) => n < 65536
  | .uid, .UI, some (.str s) => UidOk s
  | .aeOpt, .AE, some (.str s) => validAE s = true
  | .aeReq, .AE, some (.str s) => validAE s = true ∧ stripSp s ≠ []
  | .plain, .LO, some (.str s) => BS ∉ s ∧ s.length < 65536
  | .plain, .AT, some (.int t) => t < 4294967296
  | .ail, .AT, some (.int t) => t < 4294967296
  | .plain, .AT, some (.list ts) => (∀ t ∈ ts, t < 4294967296) ∧ ts.length < 16384
  | .ail, .AT, some (.list ts) => (∀ t ∈ ts, t < 4294967296) ∧ ts.length < 16384 ∧ ts.length ≠ 1
  | _, _, _ => False

theorem okChar_BS : okChar BS = false := by decide

theorem validAE_noBS (s : Bytes) (h : validAE s = true) : BS ∉ s := by
  simp only [validAE, Bool.and_eq_true, List.all_eq_true] at h
  intro hm
  have := h.2 BS hm
  rw [okChar_BS] at this; exact absurd this (by simp)

theorem validAE_length (s : Bytes) (h : validAE s = true) : s.length ≤ 16 := by
  simp only [validAE, Bool.and_eq_true, decide_eq_true_eq] at h; exact h.1

def GoodElem (e : Elem) : Prop := ElemOk e ∧ ∃ b, encodeElem e = some b ∧ b.length ≤ 65545

theorem good_of_val (t : Nat) (vr : VR) (ev : EVal) (body : Bytes) (hv : vrOf t = some vr) (hok : ValOk vr ev)
    (hb : encodeVal vr ev = some body) (hl : body.length ≤ 65537) : GoodElem (t, ev) := by
  refine ⟨⟨vr, hv, hok⟩, leTag t ++ le32 body.length ++ body, ?_, ?_⟩
  · unfold encodeElem
    simp only [hv, hb]
    rw [if_pos (by omega)]
  · simp only [List.length_append, leTag_length, le32_length]; omega

theorem encNums_length_US (xs : List Nat) (b : Bytes) (h : encNums wUS xs = some b) : b.length = 2 * xs.length :=
  (dec16s_enc xs b h).2
theorem encNums_length_AT (xs : List Nat) (b : Bytes) (h : encNums wAT xs = some b) : b.length = 4 * xs.length :=
  (decATs_enc xs b h).2

theorem strs_single_ok (vr : VR) (s : Bytes) (hvr : vr = .UI ∨ vr = .AE ∨ vr = .LO) (hbs : BS ∉ s)
    (hl : s.length ≤ 65536) :
    ValOk vr (.strs (if s.isEmpty then [] else [s])) ∧
    ∃ body, encodeVal vr (.strs (if s.isEmpty then [] else [s])) = some body ∧ body.length ≤ 65537 := by
  have hmem : ∀ x ∈ (if s.isEmpty then [] else [s]), BS ∉ x := by
    intro x hx; split at hx
    · simp at hx
    · simp only [List.mem_singleton] at hx; rw [hx]; exact hbs
  have hlen : (joinBs (if s.isEmpty then [] else [s])).length ≤ s.length := by
    split <;> simp [joinBs]
  rcases hvr with e | e | e <;> subst e
  · exact ⟨hmem, _, rfl, by have := padEven_length NUL (joinBs (if s.isEmpty then [] else [s])); omega⟩
  · exact ⟨hmem, _, rfl, by have := padEven_length SP (joinBs (if s.isEmpty then [] else [s])); omega⟩
  · exact ⟨hmem, _, rfl, by have := padEven_length SP (joinBs (if s.isEmpty then [] else [s])); omega⟩

/-- an in-range stored value converts to an element value that the writer accepts -/
theorem par_encodable (s : Setter) (vr : VR) (v : Val) (t : Nat) (hv : vrOf t = some vr) (h : ParOk s vr (some v)) :
    ∃ ev, toEVal vr v = some ev ∧ GoodElem (t, ev) := by
  have num1 : ∀ n, n < 65536 → vr = .US → ∃ ev, toEVal vr (.int n) = some ev ∧ GoodElem (t, ev) := by
    intro n hn e; subst e
    refine ⟨.nums [n], rfl, good_of_val t .US _ (le16 n ++ []) hv ?_ ?_ ?_⟩
    · intro x hx; simp only [List.mem_singleton] at hx; rw [hx]; exact hn
    · simp [encodeVal, encNums, wUS, hn]
    · simp [le16_length]
  have at1 : ∀ n, n < 4294967296 → vr = .AT → ∃ ev, toEVal vr (.int n) = some ev ∧ GoodElem (t, ev) := by
    intro n hn e; subst e
    refine ⟨.nums [n], rfl, good_of_val t .AT _ (leTag n ++ []) hv ?_ ?_ ?_⟩
    · intro x hx; simp only [List.mem_singleton] at hx; rw [hx]; exact hn
    · simp [encodeVal, encNums, wAT, hn]
    · simp [leTag_length]
  have atn : ∀ ts : List Nat, (∀ x ∈ ts, x < 4294967296) → ts.length < 16384 → vr = .AT →
      ∃ ev, toEVal vr (.list ts) = some ev ∧ GoodElem (t, ev) := by
    intro ts h1 h2 e; subst e
    have hs := encNums_some wAT ts (fun x hx => by simp [wAT, h1 x hx])
    obtain ⟨b, hb⟩ := Option.isSome_iff_exists.mp hs
    refine ⟨.nums ts, rfl, good_of_val t .AT _ b hv h1 hb ?_⟩
    have := encNums_length_AT ts b hb; omega
  have str1 : ∀ x : Bytes, BS ∉ x → x.length ≤ 65536 → (vr = .UI ∨ vr = .AE ∨ vr = .LO) →
      ∃ ev, toEVal vr (.str x) = some ev ∧ GoodElem (t, ev) := by
    intro x h1 h2 e
    obtain ⟨hok, body, hb, hl⟩ := strs_single_ok vr x e h1 h2
    refine ⟨.strs (if x.isEmpty then [] else [x]), ?_, good_of_val t vr _ body hv hok hb hl⟩
    rcases e with e | e | e <;> subst e <;> rfl
  cases s <;> cases vr <;> cases v <;> simp only [ParOk] at h <;>
    first
    | exact num1 _ (by omega) rfl
    | exact at1 _ h rfl
    | exact atn _ h.1 h.2 rfl
    | exact atn _ h.1 h.2.1 rfl
    | exact str1 _ h.2.2.1 (by have := h.2.1; omega) (Or.inl rfl)
    | exact str1 _ (validAE_noBS _ h) (by have := validAE_length _ h; omega) (Or.inr (Or.inl rfl))
    | exact str1 _ (validAE_noBS _ h.1) (by have := validAE_length _ h.1; omega) (Or.inr (Or.inl rfl))
    | exact str1 _ h.1 (by omega) (Or.inr (Or.inr rfl))

theorem normVal_nums (vr : VR) (xs : List Nat) : normVal vr (.nums xs) = .nums xs := by
  cases vr <;> rfl

/-- the strip function the reader applies to a single string of the given VR -/
def stripOf : VR → Bytes → Bytes
  | .UI, s => stripSp (rstripPad s)
  | .AE, s => stripSp s
  | _, s => rstripPad s

theorem pyVal_pyStrs_single (t : Nat) (x : Bytes) : pyVal t (.strs (pyStrs [x])) = some (.str x) := by
  cases x with
  | nil => rfl
  | cons c cs => rfl

theorem pyVal_norm_single (t : Nat) (vr : VR) (s : Bytes) :
    pyVal t (normVal vr (.strs (if s.isEmpty then [] else [s]))) = some (.str (stripOf vr s)) := by
  cases s with
  | nil => cases vr <;> rfl
  | cons c cs =>
    show pyVal t (.strs (normStrs vr [c :: cs])) = _
    unfold normStrs
    simp only [joinBs, List.isEmpty_cons, Bool.false_eq_true, if_false]
    cases vr <;> simp only [mapLast, List.map_cons, List.map_nil, stripOf] <;> exact pyVal_pyStrs_single t _

theorem store_uid_ok (s : Bytes) (h : UidOk s) : store .uid (some (.str s)) = some (some (.str s)) := by
  obtain ⟨h1, h2, _, h4, _⟩ := h
  simp only [store, h4]
  cases s with
  | nil => exact absurd rfl h1
  | cons c cs => simp only [List.isEmpty_cons, Bool.false_eq_true, if_false]; rw [if_pos h2]

theorem store_aeOpt_strip (s : Bytes) (h : validAE s = true) :
    store .aeOpt (some (.str (stripSp s))) = some (some (.str (stripSp s))) := by
  simp only [store]
  cases hx : stripSp s with
  | nil => rfl
  | cons c cs =>
    simp only [List.isEmpty_cons, Bool.false_eq_true, if_false]
    rw [← hx, validAE_stripSp s h]; rfl

theorem store_aeReq_strip (s : Bytes) (h : validAE s = true) (hne : stripSp s ≠ []) :
    store .aeReq (some (.str (stripSp s))) = some (some (.str (stripSp s))) := by
  simp only [store, stripSp_idem]
  cases hx : stripSp s with
  | nil => exact absurd hx hne
  | cons c cs =>
    simp only [List.isEmpty_cons, Bool.false_eq_true, if_false]
    rw [← hx, validAE_stripSp s h]; rfl

theorem all_tagOk (ts : List Nat) (h : ∀ t ∈ ts, t < 4294967296) : ts.all tagOk = true := by
  rw [List.all_eq_true]; intro x hx; simp [tagOk, h x hx]

/-- **One parameter.** An in-range stored value, written as an element value, read back by
pydicom's rules and passed through the setter again, is the canonical form of the value. -/
theorem par_roundtrip (s : Setter) (vr : VR) (v : Val) (t : Nat) (ev : EVal) (h : ParOk s vr (some v))
    (hev : toEVal vr v = some ev) (hmv : vr = .AT → multivalueTags.contains t = true) :
    store s (pyVal t (normVal vr ev)) = some (canonVal vr v) := by
  cases v with
  | int n =>
    have e : ev = .nums [n] := by
      cases vr <;> simp only [toEVal, Option.some.injEq] at hev <;> first | exact hev.symm | exact absurd hev (by simp)
    subst e
    rw [normVal_nums]
    show store s (some (.int n)) = some (canonVal vr (.int n))
    have hc : canonVal vr (.int n) = some (.int n) := by cases vr <;> rfl
    rw [hc]
    cases s <;> cases vr <;> simp only [ParOk] at h <;> simp only [store] <;>
      first
      | rfl
      | (rw [if_pos h])
      | (rw [if_pos (by simp [tagOk, h])])
  | str x =>
    have e : ev = .strs (if x.isEmpty then [] else [x]) := by
      cases vr <;> simp only [toEVal, Option.some.injEq] at hev <;> first | exact hev.symm | exact absurd hev (by simp)
    subst e
    rw [pyVal_norm_single]
    cases s <;> cases vr <;> simp only [ParOk] at h
    · -- plain LO
      rfl
    · -- uid UI
      have : stripOf .UI x = x := by
        show stripSp (rstripPad x) = x
        rw [h.2.2.2.2, h.2.2.2.1]
      rw [this, store_uid_ok x h]; rfl
    · -- aeOpt AE
      exact store_aeOpt_strip x h
    · -- aeReq AE
      exact store_aeReq_strip x h.1 h.2
  | list ts =>
    have e : ev = .nums ts := by
      cases vr <;> simp only [toEVal, Option.some.injEq] at hev <;> first | exact hev.symm | exact absurd hev (by simp)
    subst e
    rw [normVal_nums]
    cases s <;> cases vr <;> simp only [ParOk] at h
    · -- plain AT
      have hm := hmv rfl
      match ts, h with
      | [], _ => rfl
      | [a], _ => rfl
      | a :: b :: r, _ => simp only [pyVal, hm, if_true]; rfl
    · -- ail AT
      have hm := hmv rfl
      match ts, h with
      | [], _ => rfl
      | [a], h => exact absurd rfl h.2.2
      | a :: b :: r, h =>
        simp only [pyVal, hm, if_true, store]
        rw [if_pos (all_tagOk _ h.1)]; rfl

end PynetVerif.Cmd
