import PynetVerif.Model.PduWf
import PynetVerif.Model.PduLayout
import PynetVerif.Spec.Ps38Layout
/-!
The Lean encoder is the byte-for-byte interpretation of the transcribed PS3.8 / PS3.7 tables:
`encTable (specTable cls) env` writes the fields of the table `cls` of `Spec.ps38Layouts` in table
order (integers big-endian in their width, reserved bytes with their constant, strings padded to
their fixed width, the type byte taken from the table), `env` giving the value of each named
field; every case of `encSyn` / `encUser` / `encVar` / `encPdv` / `encode` equals such an
interpretation.  Together with `C01_layout_tables` (code tables = spec tables) and the
byte-for-byte comparison of the harness (code bytes = `encode`) this pins the produced bytes to
the standard's layout.
-/
namespace PynetVerif.Pdu
open PynetVerif.PduLayout

inductive Val
  | n (x : Nat)
  | b (x : Bytes)
  | l (x : List Bytes)

def encField (typ : Option Nat) (env : String → Val) : Field → Bytes
  | .fld name w =>
    let x := if name = "item_type" || name = "pdu_type" then typ.getD 0
      else match env name with | .n x => x | _ => 0
    if w = 1 then [u8 x] else if w = 2 then u16 x else u32 x
  | .res w v => List.replicate w (u8 v)
  | .str name pad => match env name with | .b x => ljust pad x | _ => []
  | .bytes name => match env name with | .b x => x | _ => []
  | .items name => match env name with | .b x => x | _ => []
  | .uids name => match env name with | .l x => encRelated x | _ => []

def encTable (t : Table) (env : String → Val) : Bytes := t.fields.flatMap (encField t.typ env)
def specTable (cls : String) : Table := (Spec.ps38Layouts.find? (fun t => t.cls == cls)).getD default

/-- association list → environment -/
def envOf (kv : List (String × Val)) (k : String) : Val :=
  match kv.find? (fun p => p.1 == k) with
  | some p => p.2
  | none => .n 0

theorem ljust0 (b : Bytes) : ljust 0 b = b := by simp [ljust]

macro "table_tac" : tactic =>
  `(tactic| (simp [encTable, specTable, Spec.ps38Layouts, Spec.itemHead, Spec.pduHead, encField, envOf, encSyn, encUser,
      encVar, encPdv, encode, encAssoc, tlv, ljust0, u16, u32, List.replicate]
             <;> (repeat' constructor) <;> (first | rfl | decide | (congr 1; omega) | (congr 2; omega) | omega)))

theorem encSyn_abstract_table (u : Bytes) : encSyn (.abstract u) = encTable (specTable "AbstractSyntaxSubItem")
    (envOf [("item_length", .n u.length), ("abstract_syntax_name", .b u)]) := by table_tac

theorem encSyn_transfer_table (u : Bytes) : encSyn (.transfer u) = encTable (specTable "TransferSyntaxSubItem")
    (envOf [("item_length", .n u.length), ("transfer_syntax_name", .b u)]) := by table_tac

theorem encUser_maxLen_table (n : Nat) : encUser (.maxLen n) = encTable (specTable "MaximumLengthSubItem")
    (envOf [("item_length", .n 4), ("maximum_length_received", .n n)]) := by table_tac

theorem encUser_implUid_table (u : Bytes) : encUser (.implUid u) = encTable (specTable "ImplementationClassUIDSubItem")
    (envOf [("item_length", .n u.length), ("implementation_class_uid", .b u)]) := by table_tac

theorem encUser_async_table (i p : Nat) : encUser (.asyncOps i p) = encTable (specTable "AsynchronousOperationsWindowSubItem")
    (envOf [("item_length", .n 4), ("maximum_number_operations_invoked", .n i),
      ("maximum_number_operations_performed", .n p)]) := by table_tac

theorem encUser_role_table (u : Bytes) (scu scp : Nat) : encUser (.role u scu scp) =
    encTable (specTable "SCP_SCU_RoleSelectionSubItem")
      (envOf [("item_length", .n (4 + u.length)), ("uid_length", .n u.length), ("sop_class_uid", .b u),
        ("scu_role", .n scu), ("scp_role", .n scp)]) := by table_tac

theorem encUser_implVer_table (v : Bytes) : encUser (.implVer v) = encTable (specTable "ImplementationVersionNameSubItem")
    (envOf [("item_length", .n v.length), ("implementation_version_name", .b v)]) := by table_tac

theorem encUser_sopExt_table (u info : Bytes) : encUser (.sopExt u info) =
    encTable (specTable "SOPClassExtendedNegotiationSubItem")
      (envOf [("item_length", .n (2 + u.length + info.length)), ("sop_class_uid_length", .n u.length),
        ("sop_class_uid", .b u), ("service_class_application_information", .b info)]) := by table_tac

theorem encUser_common_table (v : Nat) (sop svc : Bytes) (rel : List Bytes) : encUser (.commonExt v sop svc rel) =
    encTable (specTable "SOPClassCommonExtendedNegotiationSubItem")
      (envOf [("sub_item_version", .n v),
        ("item_length", .n (2 + sop.length + (2 + svc.length + (2 + (encRelated rel).length)))),
        ("sop_class_uid_length", .n sop.length), ("sop_class_uid", .b sop),
        ("service_class_uid_length", .n svc.length), ("service_class_uid", .b svc),
        ("related_general_sop_class_identification_length", .n (encRelated rel).length),
        ("related_general_sop_class_identification", .l rel)]) := by table_tac

theorem encUser_userIdRq_table (t r : Nat) (p s : Bytes) : encUser (.userIdRq t r p s) =
    encTable (specTable "UserIdentitySubItemRQ")
      (envOf [("item_length", .n (6 + p.length + s.length)), ("user_identity_type", .n t),
        ("positive_response_requested", .n r), ("primary_field_length", .n p.length), ("primary_field", .b p),
        ("secondary_field_length", .n s.length), ("secondary_field", .b s)]) := by table_tac

theorem encUser_userIdAc_table (r : Bytes) : encUser (.userIdAc r) = encTable (specTable "UserIdentitySubItemAC")
    (envOf [("item_length", .n (2 + r.length)), ("server_response_length", .n r.length),
      ("server_response", .b r)]) := by table_tac

theorem encVar_appCtx_table (u : Bytes) : encVar (.appCtx u) = encTable (specTable "ApplicationContextItem")
    (envOf [("item_length", .n u.length), ("application_context_name", .b u)]) := by table_tac

theorem encVar_pcRq_table (id : Nat) (subs : List SynItem) : encVar (.pcRq id subs) =
    encTable (specTable "PresentationContextItemRQ")
      (envOf [("item_length", .n (4 + (subs.flatMap encSyn).length)), ("presentation_context_id", .n id),
        ("abstract_transfer_syntax_sub_items", .b (subs.flatMap encSyn))]) := by table_tac

/-- (the item length is that of the single transfer syntax sub-item the standard prescribes) -/
theorem encVar_pcAc_table (id res : Nat) (subs : List SynItem) : encVar (.pcAc id res subs) =
    encTable (specTable "PresentationContextItemAC")
      (envOf [("item_length", .n (4 + firstLen subs)), ("presentation_context_id", .n id),
        ("result_reason", .n res), ("transfer_syntax_sub_item", .b (subs.flatMap encSyn))]) := by table_tac

theorem encVar_userInfo_table (subs : List UserSub) : encVar (.userInfo subs) =
    encTable (specTable "UserInformationItem")
      (envOf [("item_length", .n (subs.flatMap encUser).length), ("user_data", .b (subs.flatMap encUser))]) := by
  table_tac

theorem encPdv_table (p : PDV) : encPdv p = encTable (specTable "PresentationDataValueItem")
    (envOf [("item_length", .n (1 + p.data.length)), ("presentation_context_id", .n p.id),
      ("presentation_data_value", .b p.data)]) := by table_tac

theorem encode_rq_table (ver : Nat) (c g : Bytes) (items : List VarItem) : encode (.rq ver c g items) =
    encTable (specTable "A_ASSOCIATE_RQ")
      (envOf [("pdu_length", .n (68 + (items.map lenVar).sum)), ("protocol_version", .n ver),
        ("called_ae_title", .b c), ("calling_ae_title", .b g), ("variable_items", .b (items.flatMap encVar))]) := by
  table_tac

theorem encode_ac_table (ver : Nat) (c g : Bytes) (items : List VarItem) : encode (.ac ver c g items) =
    encTable (specTable "A_ASSOCIATE_AC")
      (envOf [("pdu_length", .n (68 + (items.map lenVar).sum)), ("protocol_version", .n ver),
        ("reserved_aet", .b c), ("reserved_aec", .b g), ("variable_items", .b (items.flatMap encVar))]) := by
  table_tac

theorem encode_rj_table (r s d : Nat) : encode (.rj r s d) = encTable (specTable "A_ASSOCIATE_RJ")
    (envOf [("pdu_length", .n 4), ("result", .n r), ("source", .n s), ("reason_diagnostic", .n d)]) := by table_tac

theorem encode_pdata_table (pdvs : List PDV) : encode (.pdata pdvs) = encTable (specTable "P_DATA_TF")
    (envOf [("pdu_length", .n ((pdvs.map (fun p => 5 + p.data.length)).sum)),
      ("presentation_data_value_items", .b (pdvs.flatMap encPdv))]) := by table_tac

theorem encode_relRq_table : encode .relRq = encTable (specTable "A_RELEASE_RQ") (envOf [("pdu_length", .n 4)]) := by
  table_tac

theorem encode_relRp_table : encode .relRp = encTable (specTable "A_RELEASE_RP") (envOf [("pdu_length", .n 4)]) := by
  table_tac

theorem encode_abort_table (s r : Nat) : encode (.abort s r) = encTable (specTable "A_ABORT_RQ")
    (envOf [("pdu_length", .n 4), ("source", .n s), ("reason_diagnostic", .n r)]) := by table_tac

end PynetVerif.Pdu
