import PynetVerif.Model.Nego
import PynetVerif.Spec.Roles
/-!
Facts about `SCP_SCU_ROLES` as regenerated from the source (`Gen.Roles.table`),
each a finite check by `decide`; the bridge between the code's table and the
documented one (`Spec.Roles`).
-/
namespace PynetVerif.Nego
open Spec.Roles

/-- the keys `SCP_SCU_ROLES` is documented (in its comment) to have: 5 requestor pairs -/
def rqKeys : List RolePair :=
  [(none, none), (some true, some true), (some true, some false), (some false, some true), (some false, some false)]

/-- … each with all 9 acceptor pairs -/
def acKeys : List RolePair :=
  [(none, none), (none, some true), (none, some false), (some true, none), (some false, none),
   (some true, some true), (some true, some false), (some false, some false), (some false, some true)]

/-- a role pair as a documented role-selection item (`(None, None)` = no item) -/
def toItem : RolePair → Item
  | (some a, some b) => some (a, b)
  | _ => none

/-- an outcome as the 4-tuple the code stores: (requestor scu, scp, acceptor scu, scp) -/
def enc (o : Outcome) : Bool × Bool × Bool × Bool :=
  (o.requestor.1, o.requestor.2, o.acceptor.1, o.acceptor.2)

def tableOpt (rq ac : RolePair) : Option (Bool × Bool × Bool × Bool) :=
  match tableLookup rq ac with
  | .ok o => some o
  | .error _ => none

theorem tableLookup_ok_iff {rq ac : RolePair} {o : Bool × Bool × Bool × Bool} :
    tableLookup rq ac = .ok o ↔ tableOpt rq ac = some o := by
  unfold tableOpt
  cases tableLookup rq ac <;> simp

/-- every entry of the code's table is the documented outcome -/
theorem table_is_documented : ∀ rq ∈ rqKeys, ∀ ac ∈ acKeys,
    tableOpt rq ac = (documented (toItem rq) ac).map enc ∧ (documented (toItem rq) ac).isSome = true := by
  decide

theorem table_keys : Gen.Roles.table.map (·.1) = rqKeys ∧ ∀ row ∈ Gen.Roles.table, row.2.map (·.1) = acKeys := by
  decide

theorem table_bool (a b cu cp : Bool) : ∃ oc, documented (some (a, b)) (some cu, some cp) = some oc ∧
    tableLookup (some a, some b) (some cu, some cp) = .ok (enc oc) := by
  have h := table_is_documented (some a, some b) (by cases a <;> cases b <;> decide)
    (some cu, some cp) (by cases cu <;> cases cp <;> decide)
  simp only [toItem] at h
  cases hd : documented (some (a, b)) (some cu, some cp) with
  | none => simp [hd] at h
  | some oc => exact ⟨oc, rfl, tableLookup_ok_iff.mpr (by simpa [hd] using h.1)⟩

theorem table_none (cfg : RolePair) (h : cfg ∈ acKeys) :
    tableLookup (none, none) cfg = .ok (true, false, false, true) := by
  have := (table_is_documented (none, none) (by decide) cfg h).1
  rw [tableLookup_ok_iff, this]
  revert cfg
  decide

/-- role answers are capped by the proposal, and the requestor evaluating the capped answer
reaches the complementary outcome -/
theorem table_complementary (a b cu cp : Bool) (o : Bool × Bool × Bool × Bool)
    (h : tableLookup (some a, some b) (some cu, some cp) = .ok o) (hacc : ¬ (o.2.2.1 = false ∧ o.2.2.2 = false)) :
    ∃ o', tableLookup (some a, some b)
        (some (if (some a : Role) = some false then false else cu), some (if (some b : Role) = some false then false else cp)) = .ok o' ∧
      o'.1 = o.2.2.2 ∧ o'.2.1 = o.2.2.1 := by
  rw [tableLookup_ok_iff] at h
  have : ∀ a b cu cp : Bool, ∀ o, tableOpt (some a, some b) (some cu, some cp) = some o → ¬ (o.2.2.1 = false ∧ o.2.2.2 = false) →
      ∃ o', tableOpt (some a, some b)
        (some (if (some a : Role) = some false then false else cu), some (if (some b : Role) = some false then false else cp)) = some o' ∧
      o'.1 = o.2.2.2 ∧ o'.2.1 = o.2.2.1 := by
    intro a b cu cp
    cases a <;> cases b <;> cases cu <;> cases cp <;> decide
  obtain ⟨o', h1, h2⟩ := this a b cu cp o h hacc
  exact ⟨o', tableLookup_ok_iff.mpr h1, h2⟩

/-- unrestricted mode: the acceptor evaluates the proposal against (True, True) and echoes the
proposal; the requestor evaluating the echo reaches the complementary outcome -/
theorem table_unrestricted (a b : Bool) (o : Bool × Bool × Bool × Bool)
    (h : tableLookup (some a, some b) (some true, some true) = .ok o) :
    ∃ o', tableLookup (some a, some b) (some a, some b) = .ok o' ∧ o'.1 = o.2.2.2 ∧ o'.2.1 = o.2.2.1 := by
  rw [tableLookup_ok_iff] at h
  have : ∀ a b : Bool, ∀ o, tableOpt (some a, some b) (some true, some true) = some o →
      ∃ o', tableOpt (some a, some b) (some a, some b) = some o' ∧ o'.1 = o.2.2.2 ∧ o'.2.1 = o.2.2.1 := by
    intro a b
    cases a <;> cases b <;> decide
  obtain ⟨o', h1, h2⟩ := this a b o h
  exact ⟨o', tableLookup_ok_iff.mpr h1, h2⟩

end PynetVerif.Nego
