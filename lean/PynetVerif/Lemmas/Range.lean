/-
Bounded universal quantification as a kernel-evaluable Bool, with the lemma
that lifts `= true` to the `∀` statement.  Used for whole-table obligations
(`decide +kernel` evaluates the Bool; the lemma is proved once by induction).
-/
namespace PynetVerif

/-- `allFrom lo n p` = `p lo && p (lo+1) && … && p (lo+n-1)`. -/
def allFrom (lo : Nat) : Nat → (Nat → Bool) → Bool
  | 0, _ => true
  | n + 1, p => p (lo + n) && allFrom lo n p

theorem allFrom_spec (p : Nat → Bool) : ∀ (n lo : Nat), allFrom lo n p = true →
    ∀ c, lo ≤ c → c < lo + n → p c = true := by
  intro n
  induction n with
  | zero => intro lo _ c h1 h2; omega
  | succ n ih =>
    intro lo h c h1 h2
    simp only [allFrom, Bool.and_eq_true] at h
    by_cases hc : c = lo + n
    · subst hc; exact h.1
    · exact ih lo h.2 c (by omega) (by omega)

/-- every run `(lo, hi, v)` of a run-length encoded table satisfies `p c v` on all its codes -/
def runsAll (p : Nat → Nat → Bool) : List (Nat × Nat × Nat) → Bool
  | [] => true
  | (lo, hi, v) :: rs => allFrom lo (hi + 1 - lo) (fun c => p c v) && runsAll p rs

theorem runsAll_spec (p : Nat → Nat → Bool) : ∀ (rs : List (Nat × Nat × Nat)), runsAll p rs = true →
    ∀ r ∈ rs, ∀ c, r.1 ≤ c → c ≤ r.2.1 → p c r.2.2 = true := by
  intro rs
  induction rs with
  | nil => intro _ r hr; cases hr
  | cons x xs ih =>
    obtain ⟨lo, hi, v⟩ := x
    intro h r hr c h1 h2
    simp only [runsAll, Bool.and_eq_true] at h
    cases hr with
    | head => exact allFrom_spec _ _ _ h.1 c h1 (by simp at h2 ⊢; omega)
    | tail _ hm => exact ih h.2 r hm c h1 h2

/-- the runs are non-empty, sorted, adjacent, and cover exactly `[start, stop)` -/
def contiguous : List (Nat × Nat × Nat) → Nat → Nat → Bool
  | [], start, stop => start == stop
  | (lo, hi, _) :: rs, start, stop => lo == start && lo ≤ hi && contiguous rs (hi + 1) stop

theorem contiguous_unique : ∀ (rs : List (Nat × Nat × Nat)) (start stop : Nat),
    contiguous rs start stop = true → ∀ c, start ≤ c → c < stop →
    ∃ r, r ∈ rs ∧ r.1 ≤ c ∧ c ≤ r.2.1 ∧ ∀ r' ∈ rs, r'.1 ≤ c → c ≤ r'.2.1 → r' = r := by
  intro rs
  induction rs with
  | nil =>
    intro start stop h c h1 h2
    simp [contiguous] at h; omega
  | cons x xs ih =>
    obtain ⟨lo, hi, v⟩ := x
    intro start stop h c h1 h2
    simp only [contiguous, Bool.and_eq_true, beq_iff_eq, decide_eq_true_eq] at h
    obtain ⟨⟨hlo, hle⟩, hrest⟩ := h
    subst hlo
    -- every later run starts after hi
    have later : ∀ (ys : List (Nat × Nat × Nat)) (s : Nat), contiguous ys s stop = true →
        ∀ r' ∈ ys, s ≤ r'.1 := by
      intro ys
      induction ys with
      | nil => intro s _ r' hr'; cases hr'
      | cons y ys ihy =>
        obtain ⟨l, h', w⟩ := y
        intro s hs r' hr'
        simp only [contiguous, Bool.and_eq_true, beq_iff_eq, decide_eq_true_eq] at hs
        cases hr' with
        | head => simp; omega
        | tail _ hm => have := ihy (h' + 1) hs.2 r' hm; omega
    by_cases hc : c ≤ hi
    · refine ⟨(lo, hi, v), List.mem_cons_self, h1, hc, ?_⟩
      intro r' hr' h3 h4
      cases hr' with
      | head => rfl
      | tail _ hm => have := later xs (hi + 1) hrest r' hm; omega
    · obtain ⟨r, hr, ha, hb, huniq⟩ := ih (hi + 1) stop hrest c (by omega) h2
      refine ⟨r, List.mem_cons_of_mem _ hr, ha, hb, ?_⟩
      intro r' hr' h3 h4
      cases hr' with
      | head => simp at h4; omega
      | tail _ hm => exact huniq r' hm h3 h4


/-! ### first-match lookup in a contiguous run table -/

def runLookup : List (Nat × Nat × Nat) → Nat → Option Nat
  | [], _ => none
  | (lo, hi, v) :: rs, c => if lo ≤ c ∧ c ≤ hi then some v else runLookup rs c

theorem runLookup_some : ∀ (rs : List (Nat × Nat × Nat)) (c v : Nat), runLookup rs c = some v →
    ∃ r ∈ rs, r.1 ≤ c ∧ c ≤ r.2.1 ∧ r.2.2 = v := by
  intro rs
  induction rs with
  | nil => intro c v h; simp [runLookup] at h
  | cons x xs ih =>
    obtain ⟨lo, hi, w⟩ := x
    intro c v h
    simp only [runLookup] at h
    split at h
    · rename_i hc
      refine ⟨(lo, hi, w), List.mem_cons_self, hc.1, hc.2, ?_⟩
      simpa using h
    · obtain ⟨r, hr, h'⟩ := ih c v h
      exact ⟨r, List.mem_cons_of_mem _ hr, h'⟩

theorem runLookup_ne_none : ∀ (rs : List (Nat × Nat × Nat)) (c : Nat) (r : Nat × Nat × Nat),
    r ∈ rs → r.1 ≤ c → c ≤ r.2.1 → runLookup rs c ≠ none := by
  intro rs
  induction rs with
  | nil => intro c r hr; cases hr
  | cons x xs ih =>
    obtain ⟨lo, hi, w⟩ := x
    intro c r hr h1 h2
    simp only [runLookup]
    split
    · simp
    · rename_i hc
      cases hr with
      | head => exact absurd ⟨h1, h2⟩ hc
      | tail _ hm => exact ih c r hm h1 h2

/-- In a contiguous table the first match is the only match: a code inside run `r` looks up `r`'s value. -/
theorem runLookup_of_mem (rs : List (Nat × Nat × Nat)) (start stop : Nat)
    (hc : contiguous rs start stop = true) (r : Nat × Nat × Nat) (hr : r ∈ rs)
    (c : Nat) (h1 : r.1 ≤ c) (h2 : c ≤ r.2.1) (hs : start ≤ c) (he : c < stop) :
    runLookup rs c = some r.2.2 := by
  obtain ⟨u, _, _, _, huniq⟩ := contiguous_unique rs start stop hc c hs he
  have hru : r = u := huniq r hr h1 h2
  cases hl : runLookup rs c with
  | none => exact absurd hl (runLookup_ne_none rs c r hr h1 h2)
  | some v =>
    obtain ⟨r', hr', a, b, e⟩ := runLookup_some rs c v hl
    have : r' = u := huniq r' hr' a b
    rw [← e, this, ← hru]

/-- run `(lo, hi, v)` lies inside one run of `rs` that carries the same value -/
def covered (rs : List (Nat × Nat × Nat)) (q : Nat × Nat × Nat) : Bool :=
  rs.any (fun m => Nat.ble m.1 q.1 && Nat.ble q.2.1 m.2.1 && Nat.beq m.2.2 q.2.2)

theorem covered_spec (rs : List (Nat × Nat × Nat)) (start stop : Nat)
    (hc : contiguous rs start stop = true) (q : Nat × Nat × Nat) (hq : covered rs q = true)
    (c : Nat) (h1 : q.1 ≤ c) (h2 : c ≤ q.2.1) (hs : start ≤ c) (he : c < stop) :
    runLookup rs c = some q.2.2 := by
  unfold covered at hq
  obtain ⟨m, hm, hcond⟩ := List.any_eq_true.mp hq
  simp only [Bool.and_eq_true, Nat.ble_eq] at hcond
  obtain ⟨⟨a, b⟩, e⟩ := hcond
  have e' : m.2.2 = q.2.2 := Nat.eq_of_beq_eq_true e
  have := runLookup_of_mem rs start stop hc m hm c (by omega) (by omega) hs he
  rw [this, e']

end PynetVerif
