import PynetVerif.Lemmas.NegoSteps
/-!
Shape of the results of the three negotiation functions for proposal lists
with distinct context ids: which loop body produced which element.
-/
namespace PynetVerif.Nego

theorem distinct_keys {rq : List Cx} (h : DistinctIds rq) : (rq.map fun p => (p.id, p.abs)).Nodup := by
  apply nodup_of_nodup_map Prod.fst
  simpa [List.map_map, DistinctIds, Function.comp_def] using h

theorem AccStep.id_abs {ac : List Cx} {roles : Roles} {p : Cx} {r : AccCx} {ro : Option RoleItem}
    (h : AccStep ac roles p r ro) : r.id = p.id ∧ r.abs = p.abs := by
  cases h <;> exact ⟨rfl, rfl⟩

theorem UnrStep.id_abs {roles : Roles} {p : Cx} {r : AccCx} {ro : Option RoleItem}
    (h : UnrStep roles p r ro) : r.id = p.id ∧ r.abs = p.abs := by
  cases h <;> exact ⟨rfl, rfl⟩

theorem ReqStep.id_abs {acs : List WireCx} {roles : Roles} {p : Cx} {q : ReqCx}
    (h : ReqStep acs roles p q) : q.id = p.id ∧ q.abs = p.abs := by
  cases h <;> exact ⟨rfl, rfl⟩

/-- the characterisation is exact -/
theorem accOne_of_step {ac : List Cx} {roles : Roles} {p : Cx} {r : AccCx} {ro : Option RoleItem}
    (h : AccStep ac roles p r ro) : accOne ac roles p = .ok (r, ro) := by
  cases h with
  | noAc t rest hac hts => subst hac; simp [accOne, noAcOne, rejected, tsHead, hts]
  | absRej t rest hac hl hts =>
    have : ac.isEmpty = false := by cases ac <;> simp_all
    simp [accOne, this, negOne, hl, rejected, tsHead, hts]
  | tsRej c t rest hac hl hf hts =>
    have : ac.isEmpty = false := by cases ac <;> simp_all
    simp only [accOne, this, negOne, hl, hf]
    simp [rejected, tsHead, hts]
  | noneRole c t hac hl hf hnone =>
    have : ac.isEmpty = false := by cases ac <;> simp_all
    rcases hnone with hn | hn
    · simp [accOne, this, negOne, hl, hf, hn]
    · cases hcu : c.scu <;> simp [accOne, this, negOne, hl, hf, hn, hcu]
  | roleRej c t cu cp o hac hl hf hcu hcp ht h1 h2 =>
    have : ac.isEmpty = false := by cases ac <;> simp_all
    unfold rqRolesOf at ht
    simp [accOne, this, negOne, hl, hf, hcu, hcp, ht, h1, h2]
  | accepted c t cu cp o hac hl hf hcu hcp ht hb =>
    have : ac.isEmpty = false := by cases ac <;> simp_all
    unfold rqRolesOf at ht
    simp only [accOne, this, negOne, hl, hf, hcu, hcp, ht, hb]
    simp [rqRolesOf]

theorem AccStep.det {ac : List Cx} {roles : Roles} {p : Cx} {r r' : AccCx} {ro ro' : Option RoleItem}
    (h : AccStep ac roles p r ro) (h' : AccStep ac roles p r' ro') : r = r' ∧ ro = ro' := by
  have := (accOne_of_step h).symm.trans (accOne_of_step h')
  simpa using this

/-- inversion for a step that assigned a role item -/
theorem AccStep.some_inv {ac : List Cx} {roles : Roles} {p : Cx} {r : AccCx} {ro : Option RoleItem} {it : RoleItem}
    (h : AccStep ac roles p r ro) (hro : ro = some it) :
    ∃ c t cu cp o, acLookup ac p.abs = some c ∧ firstCommon c.ts p.ts = some t ∧ c.scu = some cu ∧ c.scp = some cp ∧
      tableLookup (rqRolesOf roles p.abs) (some cu, some cp) = .ok o ∧ ¬ (o.2.2.1 = false ∧ o.2.2.2 = false) ∧
      (roles.lookup p.abs).isSome = true ∧ it = replyItem p.abs (rqRolesOf roles p.abs) cu cp ∧
      r = { id := p.id, abs := p.abs, result := 0, ts := t, asScu := some o.2.2.1, asScp := some o.2.2.2 } := by
  cases h with
  | accepted c t cu cp o hac hl hf hcu hcp ht hb =>
    by_cases hr : (roles.lookup p.abs).isSome = true
    · simp only [hr, ↓reduceIte, Option.some.injEq] at hro
      exact ⟨c, t, cu, cp, o, hl, hf, hcu, hcp, ht, hb, hr, hro.symm, rfl⟩
    · simp [hr] at hro
  | _ => cases hro

theorem accOne_nil (roles : Roles) : accOne [] roles = noAcOne := by
  funext p; simp [accOne]

theorem accOne_ne_nil {ac : List Cx} (h : ac ≠ []) (roles : Roles) : accOne ac roles = negOne ac roles := by
  funext p
  have : ac.isEmpty = false := by cases ac <;> simp_all
  simp [accOne, this]

/-- `negotiate_as_acceptor` on distinct ids: one loop body per proposal, results a permutation
(sorted by id unless there are no supported contexts), role items exactly the kept assignments. -/
theorem acc_struct {rq ac : List Cx} {roles : Roles} {res : List AccCx} {reply : List RoleItem}
    (hd : DistinctIds rq) (hok : negotiateAsAcceptor rq ac roles = .ok (res, reply)) :
    ∃ rs, mapE (accOne ac roles) rq = .ok rs ∧ res.Perm (rs.map (·.1)) ∧
      (∀ it ∈ reply, ∃ x ∈ rs, x.2 = some it) ∧
      (∀ x ∈ rs, ∀ it, x.2 = some it → ∃ it' ∈ reply, it'.uid = it.uid) := by
  unfold negotiateAsAcceptor at hok
  by_cases hrq : rq = []
  · subst hrq
    simp at hok
    obtain ⟨rfl, rfl⟩ := hok
    exact ⟨[], rfl, List.Perm.refl _, by simp, by simp⟩
  · have hne : rq.isEmpty = false := by cases rq <;> simp_all
    simp only [hne, Bool.false_eq_true, ↓reduceIte] at hok
    by_cases hac : ac = []
    · subst hac
      simp only [List.isEmpty_nil, ↓reduceIte] at hok
      cases hm : mapE noAcOne rq with
      | error e => simp [hm] at hok
      | ok rs =>
        simp [hm] at hok
        obtain ⟨rfl, rfl⟩ := hok
        refine ⟨rs, by rw [accOne_nil]; exact hm, List.Perm.refl _, by simp, ?_⟩
        intro x hx it hit
        obtain ⟨p, _, hp⟩ := mapE_ok_mem_right hm x hx
        have hs : AccStep [] roles p x.1 x.2 := accOne_step (by rw [accOne_nil]; exact hp)
        obtain ⟨c, _, _, _, _, hl, _⟩ := hs.some_inv hit
        simp [acLookup_nil] at hl
    · have hane : ac.isEmpty = false := by cases ac <;> simp_all
      simp only [hane, Bool.false_eq_true, ↓reduceIte] at hok
      rw [dictBy_of_nodup _ (distinct_keys hd)] at hok
      cases hm : mapE (negOne ac roles) rq with
      | error e => simp [hm] at hok
      | ok rs =>
        simp [hm] at hok
        obtain ⟨rfl, rfl⟩ := hok
        refine ⟨rs, by rw [accOne_ne_nil hac]; exact hm, ?_, ?_, ?_⟩
        · have := sortAcc_perm (rs.map (·.1))
          simpa using this
        · intro it hit
          have h1 : it ∈ dictBy (·.uid) (rs.filterMap (·.2)) := (sortRoles_perm _).mem_iff.mp hit
          have h2 := mem_dictBy _ h1
          obtain ⟨x, hx, hx2⟩ := List.mem_filterMap.mp h2
          exact ⟨x, hx, hx2⟩
        · intro x hx it hit
          have h2 : it ∈ rs.filterMap (·.2) := List.mem_filterMap.mpr ⟨x, hx, hit⟩
          obtain ⟨y, hy, hk⟩ := key_mem_dictBy (·.uid) h2
          exact ⟨y, (sortRoles_perm _).mem_iff.mpr hy, hk⟩

/-- what the results of `negotiate_as_acceptor` are, element by element -/
theorem acc_view {rq ac : List Cx} {roles : Roles} {res : List AccCx} {reply : List RoleItem}
    (hd : DistinctIds rq) (hok : negotiateAsAcceptor rq ac roles = .ok (res, reply)) :
    (res.map fun r => (r.id, r.abs)).Perm (rq.map fun p => (p.id, p.abs)) ∧
    (∀ r ∈ res, ∃ p ∈ rq, ∃ ro, AccStep ac roles p r ro) ∧
    (∀ p ∈ rq, ∃ r ∈ res, ∃ ro, AccStep ac roles p r ro) ∧
    (∀ it ∈ reply, ∃ p ∈ rq, ∃ r ∈ res, AccStep ac roles p r (some it)) ∧
    (∀ p ∈ rq, ∀ r it, AccStep ac roles p r (some it) → ∃ it' ∈ reply, it'.uid = it.uid) := by
  obtain ⟨rs, hm, hperm, hrep1, hrep2⟩ := acc_struct hd hok
  have hstep : ∀ x ∈ rs, ∃ p ∈ rq, AccStep ac roles p x.1 x.2 := by
    intro x hx
    obtain ⟨p, hp, hf⟩ := mapE_ok_mem_right hm x hx
    exact ⟨p, hp, accOne_step hf⟩
  refine ⟨?_, ?_, ?_, ?_, ?_⟩
  · have h1 : (rs.map (·.1)).map (fun r => (r.id, r.abs)) = rq.map (fun p => (p.id, p.abs)) := by
      rw [List.map_map]
      apply mapE_ok_map _ _ _ hm
      intro p x hf
      have := (accOne_step (r := x.1) (ro := x.2) hf).id_abs
      simp [this.1, this.2]
    rw [← h1]
    exact hperm.map _
  · intro r hr
    obtain ⟨x, hx, rfl⟩ := List.mem_map.mp (hperm.mem_iff.mp hr)
    obtain ⟨p, hp, hs⟩ := hstep x hx
    exact ⟨p, hp, x.2, hs⟩
  · intro p hp
    obtain ⟨x, hx, hf⟩ := mapE_ok_mem_left hm p hp
    exact ⟨x.1, hperm.mem_iff.mpr (List.mem_map.mpr ⟨x, hx, rfl⟩), x.2, accOne_step hf⟩
  · intro it hit
    obtain ⟨x, hx, hx2⟩ := hrep1 it hit
    obtain ⟨p, hp, hs⟩ := hstep x hx
    exact ⟨p, hp, x.1, hperm.mem_iff.mpr (List.mem_map.mpr ⟨x, hx, rfl⟩), hx2 ▸ hs⟩
  · intro p hp r it hs
    obtain ⟨x, hx, hf⟩ := mapE_ok_mem_left hm p hp
    have hs' := accOne_step (r := x.1) (ro := x.2) hf
    -- the role item is a function of the proposal
    exact hrep2 x hx it (hs'.det hs).2


/-! ### negotiate_unrestricted -/

theorem unrOne_of_step {roles : Roles} {p : Cx} {r : AccCx} {ro : Option RoleItem}
    (h : UnrStep roles p r ro) : unrOne roles p = .ok (r, ro) := by
  cases h with
  | noRole t rest hts hl => simp [unrOne, tsHead, hts, hl]
  | withRole t rest rq o hts hl ht => simp [unrOne, tsHead, hts, hl, ht]

theorem UnrStep.det {roles : Roles} {p : Cx} {r r' : AccCx} {ro ro' : Option RoleItem}
    (h : UnrStep roles p r ro) (h' : UnrStep roles p r' ro') : r = r' ∧ ro = ro' := by
  have := (unrOne_of_step h).symm.trans (unrOne_of_step h')
  simpa using this

/-- inversion for a storage-like step that assigned a role item -/
theorem UnrStep.some_inv {roles : Roles} {p : Cx} {r : AccCx} {ro : Option RoleItem} {it : RoleItem}
    (h : UnrStep roles p r ro) (hro : ro = some it) :
    ∃ t rest v o, p.ts = t :: rest ∧ roles.lookup p.abs = some v ∧ tableLookup v (some true, some true) = .ok o ∧
      it = { uid := p.abs, scu := v.1 == some true, scp := v.2 == some true } ∧
      r = { id := p.id, abs := p.abs, result := 0, ts := t, asScu := some o.2.2.1, asScp := some o.2.2.2 } := by
  cases h with
  | noRole => cases hro
  | withRole t rest v o hts hl ht => cases hro; exact ⟨t, rest, v, o, hts, hl, ht, rfl, rfl⟩

theorem DistinctIds.filter {rq : List Cx} (h : DistinctIds rq) (f : Cx → Bool) : DistinctIds (rq.filter f) :=
  List.Sublist.nodup (List.Sublist.map _ List.filter_sublist) h

/-- which loop produced an element of the result of `negotiate_unrestricted` -/
def UnrFrom (sl : Nat → Bool) (ac : List Cx) (roles : Roles) (p : Cx) (r : AccCx) : Prop :=
  (sl p.abs = true ∧ ∃ ro, UnrStep roles p r ro) ∨ (sl p.abs = false ∧ ∃ ro, AccStep ac roles p r ro)

theorem unr_view {sl : Nat → Bool} {rq ac : List Cx} {roles : Roles} {res : List AccCx} {reply : List RoleItem}
    (hd : DistinctIds rq) (hok : negotiateUnrestricted sl rq ac roles = .ok (res, reply)) :
    (res.map fun r => (r.id, r.abs)).Perm (rq.map fun p => (p.id, p.abs)) ∧
    (∀ r ∈ res, ∃ p ∈ rq, UnrFrom sl ac roles p r) ∧
    (∀ p ∈ rq, ∃ r ∈ res, UnrFrom sl ac roles p r) ∧
    (∀ it ∈ reply, ∃ p ∈ rq, sl p.abs = true ∧ ∃ r ∈ res, UnrStep roles p r (some it)) ∧
    (∀ p ∈ rq, sl p.abs = true → ∀ r it, UnrStep roles p r (some it) → ∃ it' ∈ reply, it'.uid = it.uid) := by
  unfold negotiateUnrestricted at hok
  simp only at hok
  cases hn : negotiateAsAcceptor (rq.filter fun p => !sl p.abs) ac roles with
  | error e => simp [hn] at hok
  | ok out =>
    obtain ⟨resN, replyN⟩ := out
    simp only [hn] at hok
    cases hm : mapE (unrOne roles) (rq.filter fun p => sl p.abs) with
    | error e => simp [hm] at hok
    | ok rs =>
      simp [hm] at hok
      obtain ⟨rfl, rfl⟩ := hok
      obtain ⟨hpN, hrN, hpN', _, _⟩ := acc_view (hd.filter _) hn
      have hperm : (sortAcc (resN ++ rs.map (·.1))).Perm (resN ++ rs.map (·.1)) := sortAcc_perm _
      have hS : (rs.map (·.1)).map (fun r => (r.id, r.abs)) = (rq.filter fun p => sl p.abs).map (fun p => (p.id, p.abs)) := by
        rw [List.map_map]
        apply mapE_ok_map _ _ _ hm
        intro p x hf
        have := (unrOne_step (r := x.1) (ro := x.2) hf).id_abs
        simp [this.1, this.2]
      refine ⟨?_, ?_, ?_, ?_, ?_⟩
      · refine (hperm.map _).trans ?_
        rw [List.map_append, hS]
        refine (List.Perm.append hpN (List.Perm.refl _)).trans ?_
        refine List.perm_append_comm.trans ?_
        rw [← List.map_append]
        exact (List.filter_append_perm (fun p => sl p.abs) rq).map _
      · intro r hr
        rcases List.mem_append.mp (hperm.mem_iff.mp hr) with h | h
        · obtain ⟨p, hp, ro, hs⟩ := hrN r h
          have hp' := List.mem_filter.mp hp
          exact ⟨p, hp'.1, Or.inr ⟨by simpa using hp'.2, ro, hs⟩⟩
        · obtain ⟨x, hx, rfl⟩ := List.mem_map.mp h
          obtain ⟨p, hp, hf⟩ := mapE_ok_mem_right hm x hx
          have hp' := List.mem_filter.mp hp
          exact ⟨p, hp'.1, Or.inl ⟨hp'.2, x.2, unrOne_step hf⟩⟩
      · intro p hp
        by_cases hsl : sl p.abs = true
        · obtain ⟨x, hx, hf⟩ := mapE_ok_mem_left hm p (List.mem_filter.mpr ⟨hp, hsl⟩)
          exact ⟨x.1, hperm.mem_iff.mpr (List.mem_append.mpr (Or.inr (List.mem_map.mpr ⟨x, hx, rfl⟩))),
            Or.inl ⟨hsl, x.2, unrOne_step hf⟩⟩
        · have hsl' : sl p.abs = false := by simpa using hsl
          obtain ⟨r, hr, ro, hs⟩ := hpN' p (List.mem_filter.mpr ⟨hp, by simp [hsl']⟩)
          exact ⟨r, hperm.mem_iff.mpr (List.mem_append.mpr (Or.inl hr)), Or.inr ⟨hsl', ro, hs⟩⟩
      · intro it hit
        have h1 : it ∈ dictBy (·.uid) (rs.filterMap (·.2)) := (sortRoles_perm _).mem_iff.mp hit
        obtain ⟨x, hx, hx2⟩ := List.mem_filterMap.mp (mem_dictBy _ h1)
        obtain ⟨p, hp, hf⟩ := mapE_ok_mem_right hm x hx
        have hp' := List.mem_filter.mp hp
        exact ⟨p, hp'.1, hp'.2, x.1, hperm.mem_iff.mpr (List.mem_append.mpr (Or.inr (List.mem_map.mpr ⟨x, hx, rfl⟩))),
          hx2 ▸ unrOne_step hf⟩
      · intro p hp hsl r it hs
        obtain ⟨x, hx, hf⟩ := mapE_ok_mem_left hm p (List.mem_filter.mpr ⟨hp, hsl⟩)
        have hx2 : x.2 = some it := ((unrOne_step (r := x.1) (ro := x.2) hf).det hs).2
        have h2 : it ∈ rs.filterMap (·.2) := List.mem_filterMap.mpr ⟨x, hx, hx2⟩
        obtain ⟨y, hy, hk⟩ := key_mem_dictBy (·.uid) h2
        exact ⟨y, (sortRoles_perm _).mem_iff.mpr hy, hk⟩

/-! ### negotiate_as_requestor -/

theorem req_view {rq : List Cx} {acs : List WireCx} {roles : Roles} {out : List ReqCx}
    (hd : DistinctIds rq) (hok : negotiateAsRequestor rq acs roles = .ok out) :
    (out.map fun q => (q.id, q.abs)).Perm (rq.map fun p => (p.id, p.abs)) ∧
    (∀ q ∈ out, ∃ p ∈ rq, ReqStep acs roles p q) ∧
    (∀ p ∈ rq, ∃ q ∈ out, ReqStep acs roles p q) := by
  unfold negotiateAsRequestor at hok
  by_cases hrq : rq.isEmpty = true
  · simp [hrq] at hok
  · simp only [hrq, Bool.false_eq_true, ↓reduceIte] at hok
    have hk : (rq.map (·.id)).Nodup := hd
    rw [dictBy_of_nodup _ hk] at hok
    cases hm : mapE (reqOne acs roles) rq with
    | error e => simp [hm] at hok
    | ok qs =>
      simp [hm] at hok
      subst hok
      have hperm := sortReq_perm qs
      refine ⟨?_, ?_, ?_⟩
      · refine (hperm.map _).trans ?_
        have : qs.map (fun q => (q.id, q.abs)) = rq.map (fun p => (p.id, p.abs)) := by
          apply mapE_ok_map _ _ _ hm
          intro p q hf
          have := (reqOne_step hf).id_abs
          simp [this.1, this.2]
        rw [this]
      · intro q hq
        obtain ⟨p, hp, hf⟩ := mapE_ok_mem_right hm q (hperm.mem_iff.mp hq)
        exact ⟨p, hp, reqOne_step hf⟩
      · intro p hp
        obtain ⟨q, hq, hf⟩ := mapE_ok_mem_left hm p hp
        exact ⟨q, hperm.mem_iff.mpr hq, reqOne_step hf⟩

end PynetVerif.Nego
