import PynetVerif.Lemmas.PduBytes
/-! Item-level round trips: an encoded (sub-)item decodes to itself under `synOk` / `userOk` / `varOk`. -/
namespace PynetVerif.Pdu
open PynetVerif.Framing (be32)

theorem tlv_length (t r : UInt8) (body : Bytes) : (tlv t r body).length = 4 + body.length := by
  simp [tlv]; omega

/-! ## dispatch on the item type -/

theorem decSyn_30 (k : Bool) (b : Bytes) : decSyn k (0x30, b) = liftUid SynItem.abstract (decUid true b) := by simp [decSyn]
theorem decSyn_40 (k : Bool) (b : Bytes) : decSyn k (0x40, b) = liftUid SynItem.transfer (decUid (!k) b) := by simp [decSyn]
theorem decUser_51 (b : Bytes) : decUser (0x51, b) = decMaxLen b := by simp [decUser]
theorem decUser_52 (b : Bytes) : decUser (0x52, b) = liftUid UserSub.implUid (decUid true b) := by simp [decUser]
theorem decUser_53 (b : Bytes) : decUser (0x53, b) = decAsync b := by simp [decUser]
theorem decUser_54 (b : Bytes) : decUser (0x54, b) = decRole b := by simp [decUser]
theorem decUser_55 (b : Bytes) : decUser (0x55, b) = liftUid UserSub.implVer (decImplVer b) := by simp [decUser]
theorem decUser_56 (b : Bytes) : decUser (0x56, b) = decSopExt b := by simp [decUser]
theorem decUser_57 (b : Bytes) : decUser (0x57, b) = decCommon b := by simp [decUser]
theorem decUser_58 (b : Bytes) : decUser (0x58, b) = decUserIdRq b := by simp [decUser]
theorem decUser_59 (b : Bytes) : decUser (0x59, b) = .ok (.userIdAc (b.drop 2)) := by simp [decUser]
theorem decVar_10 (b : Bytes) : decVar (0x10, b) = liftUid VarItem.appCtx (decUid true b) := by simp [decVar]
theorem decVar_20 (b : Bytes) : decVar (0x20, b) = decPcRq b := by simp [decVar]
theorem decVar_21 (b : Bytes) : decVar (0x21, b) = decPcAc b := by simp [decVar]
theorem decVar_50 (b : Bytes) : decVar (0x50, b) = decUserInfo b := by simp [decVar]

/-! ## syntax sub-items -/

theorem synRt (skip : Bool) (s : SynItem) (h : synOk skip s = true) :
    ∃ t r body, encSyn s = tlv t r body ∧ body.length < 65536 ∧ decSyn skip (t, body) = .ok s := by
  cases s with
  | abstract u =>
    simp only [synOk, Bool.and_eq_true, lt16_iff] at h
    exact ⟨0x30, 0, u, rfl, h.2, by rw [decSyn_30, decUid_ok h.1]; rfl⟩
  | transfer u =>
    simp only [synOk, Bool.and_eq_true, lt16_iff] at h
    refine ⟨0x40, 0, u, rfl, h.2, ?_⟩
    rw [decSyn_40, decUid_ok h.1]; rfl

theorem decSyn_flatMap (skip : Bool) (subs : List SynItem) (h : subs.all (synOk skip) = true) :
    decSubs (decSyn skip) (subs.flatMap encSyn) = .ok subs := by
  have := decSubs_flatMap encSyn (decSyn skip) id subs
    (fun x hx => synRt skip x (List.all_eq_true.mp h x hx))
  simpa using this

/-! ## related general SOP class UIDs -/

theorem decRelatedN_fuel : ∀ (f1 f2 : Nat) (b : Bytes), b.length ≤ f1 → b.length ≤ f2 →
    decRelatedN f1 b = decRelatedN f2 b := by
  intro f1
  induction f1 with
  | zero =>
    intro f2 b h1 _
    have : b = [] := List.eq_nil_of_length_eq_zero (by omega)
    subst this; cases f2 <;> rfl
  | succ f1 ih =>
    intro f2 b h1 h2
    cases b with
    | nil => cases f2 <;> rfl
    | cons t tl =>
      cases f2 with
      | zero => simp at h2
      | succ f2 =>
        match tl with
        | [] => rfl
        | l :: rest =>
          simp only [decRelatedN]
          have hd : (rest.drop (be16 t l)).length ≤ rest.length := by simp
          simp only [List.length_cons] at h1 h2
          rw [ih f2 (rest.drop (be16 t l)) (by omega) (by omega)]

theorem decRelated_cons (u rest : Bytes) (h : relOk u = true) (hl : u.length < 65536) :
    decRelated (u16 u.length ++ u ++ rest) =
      match decRelated rest with
      | .ok tl => .ok (u :: tl)
      | .error e => .error e := by
  simp only [relOk, uidOk, uidB, Bool.and_eq_true, Bool.not_eq_true', Nat.ble_eq,
    List.isEmpty_eq_false_iff, Bool.not_true, Bool.false_or] at h
  obtain ⟨⟨⟨⟨ha, ht⟩, h64⟩, hn⟩, hne⟩ := h
  have hb := be16_u16 hl
  have hpos : u.length ≠ 0 := by
    intro h0; exact hne (List.eq_nil_of_length_eq_zero h0)
  have hblt : Nat.blt 64 u.length = false := by rw [Bool.eq_false_iff, ne_eq, Nat.blt_eq]; omega
  simp only [decRelated, u16, List.cons_append, List.nil_append, List.length_cons, List.length_append,
    decRelatedN, hb, take_app, drop_app, hn, stripNul_of_not_endsNul hn, ha, ↓reduceIte,
    pyStrip_of_trimmed ht, Bool.false_eq_true, hblt, Bool.or_false]
  have : decide (u.length = 0) = false := by simp [hpos]
  simp only [this, Bool.false_eq_true, ↓reduceIte]
  rw [decRelatedN_fuel (u.length + rest.length + 1) rest.length rest (by omega) (Nat.le_refl _)]
  cases decRelatedN rest.length rest <;> rfl

theorem decRelated_enc (rel : List Bytes) (h : rel.all relOk = true)
    (hl : (encRelated rel).length < 65536) : decRelated (encRelated rel) = .ok rel := by
  induction rel with
  | nil => rfl
  | cons u us ih =>
    simp only [List.all_cons, Bool.and_eq_true] at h
    have e : encRelated (u :: us) = u16 u.length ++ u ++ encRelated us := by
      simp [encRelated, List.flatMap_cons]
    rw [e] at hl ⊢
    simp only [List.length_append, u16_length] at hl
    rw [decRelated_cons u _ h.1 (by omega), ih h.2 (by omega)]

/-! ## user information sub-items -/

theorem userRt (s : UserSub) (h : userOk s = true) (hf : userFits s = true) :
    ∃ t r body, encUser s = tlv t r body ∧ body.length < 65536 ∧ decUser (t, body) = .ok s := by
  have hfit : (encUser s).length < 65540 := by simpa [userFits] using hf
  cases s with
  | maxLen n =>
    simp only [userOk, lt32_iff] at h
    exact ⟨0x51, 0, u32 n, rfl, by simp, by
      rw [decUser_51]
      simp only [u32, decMaxLen, be32_u32 h]⟩
  | implUid u =>
    simp only [userOk] at h
    refine ⟨0x52, 0, u, rfl, by simpa [encUser, tlv_length] using (by simp [encUser, tlv_length] at hfit; omega : u.length < 65536), ?_⟩
    rw [decUser_52, decUid_ok h]; rfl
  | asyncOps i p =>
    simp only [userOk, Bool.and_eq_true, lt16_iff] at h
    exact ⟨0x53, 0, u16 i ++ u16 p, rfl, by simp, by
      rw [decUser_53]
      simp only [u16, List.cons_append, List.nil_append, decAsync, be16_u16 h.1, be16_u16 h.2]⟩
  | role u scu scp =>
    simp only [userOk, Bool.and_eq_true, Nat.ble_eq] at h
    obtain ⟨⟨hu, h1⟩, h2⟩ := h
    have hl : u.length < 65536 := by simp [encUser, tlv_length] at hfit; omega
    refine ⟨0x54, 0, _, rfl, by simp [encUser, tlv_length] at hfit ⊢; omega, ?_⟩
    rw [decUser_54]
    simp only [u16, List.cons_append, List.nil_append, decRole, be16_u16 hl, take_app, drop_app,
      decUid_ok hu, u8_toNat (by omega : scu < 256), u8_toNat (by omega : scp < 256)]
    simp [Nat.ble_eq, h1, h2]
  | implVer n =>
    simp only [userOk, implVerOk, Bool.and_eq_true, Nat.ble_eq] at h
    obtain ⟨⟨ha, hl⟩, hc⟩ := h
    refine ⟨0x55, 0, n, rfl, by omega, ?_⟩
    rw [decUser_55]
    have hblt : Nat.blt 16 n.length = false := by rw [Bool.eq_false_iff, ne_eq, Nat.blt_eq]; omega
    simp [decImplVer, ha, hblt, hc, liftUid]
  | sopExt u info =>
    simp only [userOk] at h
    have hl : u.length < 65536 := by simp [encUser, tlv_length] at hfit; omega
    refine ⟨0x56, 0, _, rfl, by simp [encUser, tlv_length] at hfit ⊢; omega, ?_⟩
    rw [decUser_56]
    simp only [u16, List.cons_append, List.nil_append, decSopExt, be16_u16 hl, take_app, drop_app,
      decUid_ok h]
  | commonExt v sop svc rel =>
    simp only [userOk, Bool.and_eq_true, beq_iff_eq, lt16_iff] at h
    obtain ⟨⟨⟨⟨hv, hsop⟩, hsvc⟩, hrel⟩, hrl⟩ := h
    subst hv
    have hlen : 4 + (2 + sop.length + (2 + svc.length + (2 + (encRelated rel).length))) < 65540 := by
      simp [encUser, tlv_length] at hfit; omega
    refine ⟨0x57, u8 0, _, rfl, by simp; omega, ?_⟩
    rw [decUser_57]
    simp only [u16, List.cons_append, List.nil_append, decCommon, be16_u16 (by omega : sop.length < 65536),
      take_app, drop_app, decUid_ok hsop, be16_u16 (by omega : svc.length < 65536),
      decUid_ok hsvc, List.drop_succ_cons, List.drop_zero, decRelated_enc rel hrel hrl]
  | userIdRq t r p s =>
    simp only [userOk, Bool.and_eq_true, lt8_iff, lt16_iff] at h
    obtain ⟨⟨⟨ht, hr⟩, hp⟩, hs⟩ := h
    refine ⟨0x58, 0, _, rfl, by simp [encUser, tlv_length] at hfit ⊢; omega, ?_⟩
    rw [decUser_58]
    simp only [u16, List.cons_append, List.nil_append, decUserIdRq, be16_u16 hp,
      take_app, drop_app, List.drop_succ_cons, List.drop_zero, u8_toNat ht, u8_toNat hr]
  | userIdAc resp =>
    refine ⟨0x59, 0, _, rfl, by simp [encUser, tlv_length] at hfit ⊢; omega, ?_⟩
    rw [decUser_59]
    simp [u16]

theorem decUser_flatMap (subs : List UserSub) (h : subs.all (fun s => userOk s && userFits s) = true) :
    decSubs decUser (subs.flatMap encUser) = .ok subs := by
  have := decSubs_flatMap encUser decUser id subs (fun x hx => by
    have := List.all_eq_true.mp h x hx
    simp only [Bool.and_eq_true] at this
    exact userRt x this.1 this.2)
  simpa using this

/-! ## variable items -/

theorem firstLen_of_le_one {subs : List SynItem} (h : subs.length ≤ 1) :
    firstLen subs = (subs.flatMap encSyn).length := by
  match subs, h with
  | [], _ => rfl
  | [s], _ => simp [firstLen]

theorem varRt (v : VarItem) (h : varOk v = true) :
    ∃ t r body, encVar v = tlv t r body ∧ body.length < 65536 ∧ decVar (t, body) = .ok v := by
  cases v with
  | appCtx u =>
    simp only [varOk, Bool.and_eq_true, lt16_iff] at h
    refine ⟨0x10, 0, u, rfl, h.2, ?_⟩
    rw [decVar_10, decUid_ok h.1]; rfl
  | pcRq id subs =>
    simp only [varOk, Bool.and_eq_true, lt8_iff, Nat.blt_eq] at h
    obtain ⟨⟨hid, hs⟩, hl⟩ := h
    refine ⟨0x20, 0, _, rfl, by simp only [List.length_cons]; omega, ?_⟩
    rw [decVar_20]
    simp only [decPcRq, List.drop_succ_cons, List.drop_zero, decSyn_flatMap false subs hs, u8_toNat hid]
  | pcAc id res subs =>
    simp only [varOk, Bool.and_eq_true, lt8_iff, Nat.blt_eq, Nat.ble_eq] at h
    obtain ⟨⟨⟨⟨hid, hres⟩, hs⟩, h1⟩, hl⟩ := h
    refine ⟨0x21, 0, u8 id :: 0 :: u8 res :: 0 :: subs.flatMap encSyn, ?_, by simp only [List.length_cons]; omega, ?_⟩
    · simp only [encVar, tlv, firstLen_of_le_one h1, List.length_cons]
      have : 4 + (subs.flatMap encSyn).length = (subs.flatMap encSyn).length + 1 + 1 + 1 + 1 := by omega
      rw [this]
    · rw [decVar_21]
      have hne : (u8 res != 0) = (res != 0) := by
        have := u8_toNat hres
        by_cases hz : res = 0
        · subst hz; rfl
        · have h1 : u8 res ≠ 0 := by
            intro hc; rw [hc] at this; exact hz this.symm
          rw [bne_iff_ne.mpr h1, bne_iff_ne.mpr hz]
      simp only [decPcAc, List.drop_succ_cons, List.drop_zero, hne, decSyn_flatMap (res != 0) subs hs,
        u8_toNat hid, u8_toNat hres]
  | userInfo subs =>
    simp only [varOk, Bool.and_eq_true, lt16_iff] at h
    refine ⟨0x50, 0, _, rfl, h.2, ?_⟩
    rw [decVar_50]
    simp only [decUserInfo, decUser_flatMap subs h.1]

theorem decVarItems_flatMap (items : List VarItem) (h : items.all varOk = true) :
    decVarItems (items.flatMap encVar) = .ok items := by
  have := decSubs_flatMap encVar decVar id items (fun x hx => varRt x (List.all_eq_true.mp h x hx))
  simpa [decVarItems] using this

theorem lenVar_eq (v : VarItem) (h : varOk v = true) : lenVar v = (encVar v).length := by
  cases v with
  | pcAc id res subs =>
    simp only [varOk, Bool.and_eq_true, Nat.ble_eq] at h
    simp [lenVar, encVar, firstLen_of_le_one h.1.2]
    omega
  | _ => rfl

theorem sum_lenVar (items : List VarItem) (h : items.all varOk = true) :
    (items.map lenVar).sum = (items.flatMap encVar).length := by
  induction items with
  | nil => rfl
  | cons v vs ih =>
    simp only [List.all_cons, Bool.and_eq_true] at h
    simp only [List.map_cons, List.sum_cons, List.flatMap_cons, List.length_append, lenVar_eq v h.1, ih h.2]

/-! ## presentation data values -/

theorem decPdvsN_fuel : ∀ (f1 f2 : Nat) (b : Bytes), b.length ≤ f1 → b.length ≤ f2 →
    decPdvsN f1 b = decPdvsN f2 b := by
  intro f1
  induction f1 with
  | zero =>
    intro f2 b h1 _
    have : b = [] := List.eq_nil_of_length_eq_zero (by omega)
    subst this; cases f2 <;> rfl
  | succ f1 ih =>
    intro f2 b h1 h2
    cases b with
    | nil => cases f2 <;> rfl
    | cons t tl =>
      cases f2 with
      | zero => simp at h2
      | succ f2 =>
        match tl with
        | [] => rfl
        | [_] => rfl
        | [_, _] => rfl
        | [_, _, _] => rfl
        | b2 :: c :: d :: id :: rest =>
          simp only [decPdvsN]
          split
          · rfl
          · split
            · rfl
            · have hd : (rest.drop (be32 t b2 c d - 1)).length ≤ rest.length := by simp
              simp only [List.length_cons] at h1 h2
              rw [ih f2 (rest.drop (be32 t b2 c d - 1)) (by omega) (by omega)]

theorem decPdvs_cons (p : PDV) (rest : Bytes) (h : pdvOk p = true) :
    decPdvs (encPdv p ++ rest) =
      match decPdvs rest with
      | .ok tl => .ok (p :: tl)
      | .error e => .error e := by
  simp only [pdvOk, Bool.and_eq_true, lt8_iff, Nat.blt_eq] at h
  have hb := be32_u32 (by omega : 1 + p.data.length < 4294967296)
  have hz : ¬ (1 + p.data.length = 0) := by omega
  have hs : 1 + p.data.length - 1 = p.data.length := by omega
  have hlt : ¬ (p.data.length + rest.length < p.data.length) := by omega
  simp only [decPdvs, encPdv, u32, List.cons_append, List.nil_append, List.length_cons, List.length_append,
    decPdvsN, hb, hz, ↓reduceIte, hs, hlt, take_app, drop_app, u8_toNat h.1]
  rw [decPdvsN_fuel (p.data.length + rest.length + 1 + 1 + 1 + 1) rest.length rest (by omega) (Nat.le_refl _)]
  cases decPdvsN rest.length rest <;> rfl

theorem decPdvs_flatMap (pdvs : List PDV) (h : pdvs.all pdvOk = true) :
    decPdvs (pdvs.flatMap encPdv) = .ok pdvs := by
  induction pdvs with
  | nil => rfl
  | cons p ps ih =>
    simp only [List.all_cons, Bool.and_eq_true] at h
    simp only [List.flatMap_cons, decPdvs_cons p _ h.1, ih h.2]

end PynetVerif.Pdu
