import PynetVerif.Lemmas.PairInv
import PynetVerif.Lemmas.PairFifo
/-!
The invariant of the product model under admissible schedules (`PInv`): both reactors satisfy the
single-reactor invariant `SInv`; EOF is delivered last, once, only after the sender has closed for
good and everything it sent has been delivered; the acceptor exists once the requestor has connected.
-/
namespace PynetVerif
open Dul Fsm

namespace PairL

/-- the inbox holds PDUs, then EOF if and only if EOF has been delivered -/
def InboxEof (x : St) (eof : Bool) : Prop :=
  ∃ l, (∀ w ∈ l, w ≠ Wire.eof) ∧ x.inbox = l ++ (if eof then [Wire.eof] else [])

/-- EOF has been delivered only if the sender has closed for good and everything was delivered -/
def EofOk (y : St) (seen : Nat) (eof : Bool) : Prop :=
  eof = true → Pair.closed y = true ∧ Started y ∧ seen = y.sent.length

structure PInv (p : Pair) : Prop where
  r : SInv p.r
  a : SInv p.a
  rreq : p.r.requestor = true
  areq : p.a.requestor = false
  fifo : Fifo p
  upc : p.r.connected = true → p.up = true
  upq : p.up = true → Started p.r
  boxA : InboxEof p.a p.rEof
  boxR : InboxEof p.r p.aEof
  eofR : EofOk p.r p.rSeen p.rEof
  eofA : EofOk p.a p.aSeen p.aEof

theorem pinv_init : PInv Pair.init := by
  refine { r := sinv_init true, a := sinv_init false, rreq := rfl, areq := rfl, fifo := fifo_init,
           upc := ?_, upq := ?_, boxA := ⟨[], (fun _ h => nomatch h), rfl⟩, boxR := ⟨[], (fun _ h => nomatch h), rfl⟩,
           eofR := ?_, eofA := ?_ }
  · intro h; cases h
  · intro h; cases h
  · intro h; cases h
  · intro h; cases h

theorem wireOf_ne_eof (f : Eff) : wireOf f ≠ .eof := by cases f <;> simp [wireOf]

theorem inboxEof_step {x : St} {eof : Bool} (st : Step) (hal : Pair.allowed st = true) (h : InboxEof x eof) :
    InboxEof (Dul.step x st) eof := by
  obtain ⟨l, hl, hi⟩ := h
  rcases step_inbox x st hal with h' | ⟨w, hw, h'⟩
  · exact ⟨l, hl, by rw [h', hi]⟩
  · cases l with
    | nil =>
      exfalso
      rw [hi] at h'
      cases eof
      · simp at h'
      · simp only [List.nil_append, ↓reduceIte, List.cons.injEq] at h'
        exact hw h'.1.symm
    | cons y ys =>
      rw [hi] at h'
      simp only [List.cons_append, List.cons.injEq] at h'
      exact ⟨ys, fun w' hw' => hl w' (List.mem_cons_of_mem _ hw'), h'.2.symm⟩

theorem sinv_started_of_closed_acceptor {y : St} (hy : SInv y) (hreq : y.requestor = false)
    (hc : Pair.closed y = true) : Started y := by
  by_cases hk : y.kill = true
  · exact Or.inl hk
  · right
    intro h1
    have hk' : y.kill = false := by simpa using hk
    have := hy.core.nr hk' h1
    rw [hreq] at this
    unfold Pair.closed at hc
    rw [hk', this] at hc
    cases hc

theorem sinv_started_of_connected {y : St} (hy : SInv y) (hreq : y.requestor = true)
    (hc : y.connected = true) : Started y := by
  by_cases hk : y.kill = true
  · exact Or.inl hk
  · right
    intro h1
    have hk' : y.kill = false := by simpa using hk
    have := hy.core.nr hk' h1
    rw [hreq, hc] at this
    cases this

theorem step_requestor (x : St) (st : Step) : (Dul.step x st).requestor = x.requestor := by
  cases st with
  | env e => cases e <;> rfl
  | a =>
    show (iterA x).requestor = x.requestor
    have hr : ∀ t : St, (readTransport t).requestor = t.requestor := by
      intro t; unfold readTransport; split <;> rfl
    have hc : ∀ t : St, (closeSock t).requestor = t.requestor := by
      intro t; unfold closeSock; split <;> rfl
    unfold iterA
    split
    · rfl
    · simp only
      split <;> split
      all_goals (try split)
      all_goals (try split)
      all_goals first
        | rfl
        | exact hr _
        | exact hc _
  | b =>
    show (iterB x).requestor = x.requestor
    unfold iterB
    split
    · rfl
    split
    · rfl
    · unfold dispatch
      split
      · rfl
      · split
        · rfl
        · exact (act_core _ _ _).2.2.2.2.2.2

theorem eofOk_congr {y y' : St} {seen : Nat} {eof : Bool} (hc : y'.connected = y.connected) (hk : y'.kill = y.kill)
    (hf : y'.fsm = y.fsm) (hs : y'.sent = y.sent) (h : EofOk y seen eof) : EofOk y' seen eof := by
  intro he
  obtain ⟨h1, h2, h3⟩ := h he
  refine ⟨?_, ?_, ?_⟩
  · unfold Pair.closed at h1 ⊢; rw [hc, hk]; exact h1
  · unfold Started at h2 ⊢; rw [hk, hf]; exact h2
  · rw [hs]; exact h3

theorem eofOk_step {y : St} {seen : Nat} {eof : Bool} (st : Step) (hok : stepOkSync y st = true) (hy : SInv y)
    (h : EofOk y seen eof) : EofOk (Dul.step y st) seen eof := by
  intro he
  obtain ⟨h1, h2, h3⟩ := h he
  obtain ⟨f1, f2⟩ := step_frozen y st hy h1 h2
  exact ⟨f1, step_started y st hok hy h2, by rw [f2]; exact h3⟩

/-- what one delivery does -/
theorem deliver_spec (snd rcv : St) (seen : Nat) (eof : Bool) (hs : SInv snd) (hr : SInv rcv)
    (hle : seen ≤ snd.sent.length) (hbox : InboxEof rcv eof) (heof : EofOk snd seen eof)
    (hstart : Pair.closed snd = true → Started snd) :
    SInv (Pair.deliver snd rcv seen eof).1 ∧
    InboxEof (Pair.deliver snd rcv seen eof).1 (Pair.deliver snd rcv seen eof).2.2 ∧
    EofOk snd (Pair.deliver snd rcv seen eof).2.1 (Pair.deliver snd rcv seen eof).2.2 ∧
    (Pair.deliver snd rcv seen eof).1.requestor = rcv.requestor ∧
    (Pair.deliver snd rcv seen eof).1.connected = rcv.connected ∧
    (Pair.deliver snd rcv seen eof).1.kill = rcv.kill ∧
    (Pair.deliver snd rcv seen eof).1.fsm = rcv.fsm ∧
    (Pair.deliver snd rcv seen eof).1.sent = rcv.sent := by
  unfold Pair.deliver
  split
  · rename_i f hf
    unfold Pair.nth at hf
    have hmem : f ∈ snd.sent := List.mem_reverse.mp (List.mem_of_getElem? hf)
    obtain ⟨e, alt, hw, hpe, _, halt⟩ := wireOf_send f (hs.core.snt f hmem)
    have hg : GoodWire (wireOf f) := Or.inr ⟨e, alt, hw, hpe, halt⟩
    have hfalse : eof = false := by
      cases he : eof with
      | false => rfl
      | true =>
        exfalso
        obtain ⟨_, _, h3⟩ := heof he
        rw [h3, List.getElem?_eq_none (by simp)] at hf
        cases hf
    refine ⟨sinv_step rcv (.env (.peer (wireOf f))) (goodWire_wireOk hg) (by simp) (fun w hw' => by cases hw'; exact hg) hr,
      ?_, ?_, rfl, rfl, rfl, rfl, rfl⟩
    · obtain ⟨l, hl, hi⟩ := hbox
      subst hfalse
      refine ⟨l ++ [wireOf f], ?_, ?_⟩
      · intro w hw'
        rcases List.mem_append.mp hw' with h' | h'
        · exact hl w h'
        · simp only [List.mem_singleton] at h'; subst h'; exact wireOf_ne_eof f
      · show rcv.inbox ++ [wireOf f] = _
        rw [hi]; simp
    · intro he; rw [hfalse] at he; cases he
  · rename_i hnone
    split
    · rename_i hcond
      simp only [Bool.and_eq_true, Bool.not_eq_true'] at hcond
      obtain ⟨hc, he⟩ := hcond
      refine ⟨sinv_step rcv (.env (.peer .eof)) rfl (by simp) (fun w hw' => by cases hw'; exact Or.inl rfl) hr,
        ?_, ?_, rfl, rfl, rfl, rfl, rfl⟩
      · obtain ⟨l, hl, hi⟩ := hbox
        subst he
        refine ⟨l, hl, ?_⟩
        show rcv.inbox ++ [Wire.eof] = _
        rw [hi]; simp
      · intro _
        refine ⟨hc, hstart hc, ?_⟩
        unfold Pair.nth at hnone
        have := List.getElem?_eq_none_iff.mp hnone
        rw [List.length_reverse] at this
        show seen = snd.sent.length
        omega
    · exact ⟨hr, hbox, heof, rfl, rfl, rfl, rfl, rfl⟩

theorem noBreak_r {st : Step} (h : Pair.noBreak (.r st) = true) : st ≠ .env .breakConn := by
  intro hs; subst hs; cases h
theorem noBreak_a {st : Step} (h : Pair.noBreak (.a st) = true) : st ≠ .env .breakConn := by
  intro hs; subst hs; cases h
theorem allowed_not_peer {st : Step} (h : Pair.allowed st = true) (w : Wire) : st ≠ .env (.peer w) := by
  intro hs; subst hs; cases h

/-- **the product invariant is preserved by every admissible step without injected send failure** -/
theorem pinv_step (p : Pair) (st : PStep) (hok : Pair.stepOk p st = true) (hnb : Pair.noBreak st = true)
    (h : PInv p) : PInv (Pair.step p st) := by
  have hfifo := fifo_step p st h.fifo
  cases st with
  | r st =>
    simp only [Pair.step] at hfifo ⊢
    split
    · rename_i hal
      rw [if_pos hal] at hfifo
      have hr' : SInv (Dul.step p.r st) :=
        sinv_step p.r st hok (noBreak_r hnb) (fun w hw => absurd hw (allowed_not_peer hal w)) h.r
      have hreq' : (Dul.step p.r st).requestor = true := (step_requestor p.r st).trans h.rreq
      refine { r := hr', a := h.a, rreq := hreq', areq := h.areq, fifo := hfifo, upc := ?_, upq := ?_,
               boxA := h.boxA, boxR := inboxEof_step st hal h.boxR, eofR := eofOk_step st hok h.r h.eofR,
               eofA := h.eofA }
      · intro hc; show (p.up || (Dul.step p.r st).connected) = true; rw [hc]; simp
      · intro hup
        have hup' : (p.up || (Dul.step p.r st).connected) = true := hup
        simp only [Bool.or_eq_true] at hup'
        rcases hup' with hu | hc
        · exact step_started p.r st hok h.r (h.upq hu)
        · exact sinv_started_of_connected hr' hreq' hc
    · exact h
  | a st =>
    simp only [Pair.step] at hfifo ⊢
    split
    · rename_i hal
      rw [if_pos hal] at hfifo
      simp only [Bool.and_eq_true] at hal
      have ha' : SInv (Dul.step p.a st) :=
        sinv_step p.a st hok (noBreak_a hnb) (fun w hw => absurd hw (allowed_not_peer hal.1 w)) h.a
      exact { r := h.r, a := ha', rreq := h.rreq, areq := (step_requestor p.a st).trans h.areq, fifo := hfifo,
              upc := h.upc, upq := h.upq, boxA := inboxEof_step st hal.1 h.boxA, boxR := h.boxR, eofR := h.eofR,
              eofA := eofOk_step st hok h.a h.eofA }
    · exact h
  | deliverRA =>
    simp only [Pair.step] at hfifo ⊢
    split
    · rename_i hup
      rw [if_pos hup] at hfifo
      obtain ⟨d1, d2, d3, d4, d5, d6, d7, d8⟩ := deliver_spec p.r p.a p.rSeen p.rEof h.r h.a h.fifo.ra.le h.boxA h.eofR
        (fun _ => h.upq hup)
      exact { r := h.r, a := d1, rreq := h.rreq, areq := d4.trans h.areq, fifo := hfifo, upc := h.upc, upq := h.upq,
              boxA := d2, boxR := h.boxR, eofR := d3, eofA := eofOk_congr d5 d6 d7 d8 h.eofA }
    · exact h
  | deliverAR =>
    simp only [Pair.step] at hfifo ⊢
    split
    · rename_i hup
      rw [if_pos hup] at hfifo
      obtain ⟨d1, d2, d3, d4, d5, d6, d7, d8⟩ := deliver_spec p.a p.r p.aSeen p.aEof h.a h.r h.fifo.ar.le h.boxR h.eofA
        (fun hc => sinv_started_of_closed_acceptor h.a h.areq hc)
      refine { r := d1, a := h.a, rreq := d4.trans h.rreq, areq := h.areq, fifo := hfifo, upc := ?_, upq := ?_,
               boxA := h.boxA, boxR := d2, eofR := eofOk_congr d5 d6 d7 d8 h.eofR, eofA := d3 }
      · intro hc; rw [d5] at hc; exact h.upc hc
      · intro hu
        have := h.upq hu
        unfold Started at this ⊢
        rw [d6, d7]; exact this
    · exact h

/-- admissible, and no step injects a send failure -/
def Pair.runAdm : Pair → List PStep → Bool
  | _, [] => true
  | p, st :: rest => Pair.stepOk p st && Pair.noBreak st && Pair.runAdm (Pair.step p st) rest

theorem runAdm_iff (p : Pair) (sched : List PStep) :
    Pair.runAdm p sched = (Pair.runOk p sched && sched.all Pair.noBreak) := by
  induction sched generalizing p with
  | nil => rfl
  | cons st rest ih =>
    simp only [Pair.runAdm, Pair.runOk, List.all_cons, ih]
    cases Pair.stepOk p st <;> cases Pair.noBreak st <;> simp

theorem pinv_run : ∀ (sched : List PStep) (p : Pair), Pair.runAdm p sched = true → PInv p →
    PInv (Pair.run p sched) := by
  intro sched
  induction sched with
  | nil => intro p _ h; exact h
  | cons st rest ih =>
    intro p hok h
    simp only [Pair.runAdm, Bool.and_eq_true] at hok
    exact ih _ hok.2 (pinv_step p st hok.1.1 hok.1.2 h)

end PairL
end PynetVerif
