def hello := "world"
