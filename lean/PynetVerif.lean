import PynetVerif.Model.SExp
import PynetVerif.Model.Status
import PynetVerif.Lemmas.Range
