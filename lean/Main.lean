import PynetVerif.Model.SExp
import PynetVerif.Driver.Status
import PynetVerif.Driver.Fsm
import PynetVerif.Driver.Framing
import PynetVerif.Driver.Scu
import PynetVerif.Driver.Dul
import PynetVerif.Driver.Dimse
import PynetVerif.Driver.Timer
import PynetVerif.Driver.Cancel
import PynetVerif.Driver.Nego
import PynetVerif.Driver.Ctx
import PynetVerif.Driver.Policy
import PynetVerif.Driver.MaxAssoc
import PynetVerif.Driver.Conform
import PynetVerif.Driver.Path
import PynetVerif.Driver.Qr
import PynetVerif.Driver.Cmd
import PynetVerif.Driver.History
import PynetVerif.Driver.Outcome
import PynetVerif.Driver.Trigger
import PynetVerif.Driver.Scp
import PynetVerif.Driver.Pdu
import PynetVerif.Driver.Release
import PynetVerif.Driver.Timeouts
import PynetVerif.Driver.Deliver
import PynetVerif.Driver.Pair
import PynetVerif.Driver.Pause
import PynetVerif.Driver.Life
import PynetVerif.Driver.Wake
import PynetVerif.Driver.Bind
import PynetVerif.Driver.Part10
open PynetVerif

/-- Each model contributes `String → List SExp → Option SExp` (none = not my op). -/
def handlers : List (String → List SExp → Option SExp) :=
  [Driver.statusOps,
   Driver.fsmOps,
   Driver.framingOps,
   Driver.scuOps,
   Driver.dulOps,
   Driver.dimseOps,
   Driver.timerOps,
   Driver.cancelOps,
   Driver.negoOps,
   Driver.ctxOps,
   Driver.policyOps,
   Driver.maxAssocOps,
   Driver.conformOps,
   Driver.pathOps,
   Driver.qrOps,
   Driver.cmdOps,
   Driver.historyOps,
   Driver.outcomeOps,
   Driver.triggerOps,
   Driver.scpOps,
   Driver.pduOps,
   Driver.releaseOps,
   Driver.timeoutsOps,
   Driver.deliverOps,
   Driver.pairOps,
   Driver.pauseOps,
   Driver.lifeOps,
   Driver.wakeOps,
   Driver.bindOps,
   Driver.part10Ops]

def handle (e : SExp) : SExp :=
  match e with
  | .list (.sym "echo" :: rest) => .list rest
  | .list (.sym op :: args) =>
    match handlers.findSome? (fun h => h op args) with
    | some r => r
    | none => .sym "ERR:bad-op"
  | _ => .sym "ERR:bad-op"

partial def loop (h : IO.FS.Stream) (out : IO.FS.Stream) : IO Unit := do
  let line ← h.getLine
  if line.isEmpty then return ()
  let reply := match SExp.parse line with
    | some e => handle e
    | none => .sym "ERR:parse"
  out.putStrLn reply.toStr
  loop h out

def main : IO Unit := do
  let out ← IO.getStdout
  loop (← IO.getStdin) out
  out.flush
