import PynetVerif.Model.SExp
import PynetVerif.Model.Status
open PynetVerif

def handle (e : SExp) : SExp :=
  match e with
  | .list (.sym "echo" :: rest) => .list rest
  | .list [.sym "status", .nat c] => .nat (Status.category c).toNat
  | .list [.sym "scufinal", .sym rq, .nat c] => SExp.ofBool (Status.scuFinal (rq == "T") c)
  | _ => .sym "ERR:bad-op"

partial def loop (h : IO.FS.Stream) (out : IO.FS.Stream) : IO Unit := do
  let line ← h.getLine
  if line.isEmpty then return ()
  let reply := match SExp.parse line with
    | some e => handle e
    | none => .sym "ERR:parse"
  out.putStrLn reply.toStr
  loop h out

def main : IO Unit := do
  let out ← IO.getStdout
  loop (← IO.getStdin) out
  out.flush
