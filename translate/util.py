"""Helpers for the source -> Lean translators."""
import os

ROOT = os.path.dirname(os.path.dirname(os.path.abspath(__file__)))
GEN = os.path.join(ROOT, "lean", "PynetVerif", "Gen")
REPO = os.environ.get("VERIF_REPO", "/repo")


def write_if_changed(name, text):
    os.makedirs(GEN, exist_ok=True)
    path = os.path.join(GEN, name)
    old = open(path).read() if os.path.exists(path) else None
    if old != text:
        with open(path, "w") as f:
            f.write(text)
    return path


def lean_str(s):
    return '"' + s.replace("\\", "\\\\").replace('"', '\\"') + '"'


def lean_list(items, per_line=8, indent="  "):
    items = list(items)
    if not items:
        return "[]"
    lines = []
    for i in range(0, len(items), per_line):
        lines.append(indent + ", ".join(items[i : i + per_line]))
    return "[\n" + ",\n".join(lines) + "]"


def rle(pairs):
    """[(code, val)] sorted by code -> [(lo, hi, val)] maximal runs of consecutive codes."""
    out = []
    for c, v in pairs:
        if out and out[-1][2] == v and out[-1][1] + 1 == c:
            out[-1][1] = c
        else:
            out.append([c, c, v])
    return [tuple(r) for r in out]
