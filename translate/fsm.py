"""fsm.py -> Gen/Fsm.lean.

* TRANSITION_TABLE and ACTIONS by reflection (and the dict literal by AST, the
  two must agree);
* the observable effect trace of `StateMachine.do_action` for every
  (event, state, role, alt) input, obtained by EXECUTING the real code on a real
  Association/DULServiceProvider whose socket, ARTIM timer, user queue and DIMSE
  provider are recording fakes.  `alt` selects the second variant of the inputs
  whose reaction PS3.8 makes depend on data: Evt6 with an unsupported protocol
  version, Evt16 with a provider-sourced A-ABORT PDU, Evt15 with an A-P-ABORT
  primitive queued.
"""
import ast
import logging
import os
import queue

from .util import REPO, lean_list, write_if_changed

EFFECTS = [
    "connect", "sendRq", "sendAc", "sendRj", "sendPdata", "sendRelRq", "sendRelRp", "sendAbort",
    "indAssocRq", "confAccept", "confReject", "indPdata", "indRelease", "confRelease", "indAbort", "indPAbort",
    "artimStart", "artimStop", "artimRestart", "close",
    "sentinel", "notifyConnClose", "kill", "popPrim", "popPdu",
]


def table_by_ast():
    src = open(os.path.join(REPO, "pynetdicom", "fsm.py")).read()
    for node in ast.walk(ast.parse(src)):
        if isinstance(node, (ast.Assign, ast.AnnAssign)):
            tgt = node.targets[0] if isinstance(node, ast.Assign) else node.target
            if isinstance(tgt, ast.Name) and tgt.id == "TRANSITION_TABLE" and isinstance(node.value, ast.Dict):
                return {ast.literal_eval(k): ast.literal_eval(v) for k, v in zip(node.value.keys, node.value.values)}
    raise RuntimeError("TRANSITION_TABLE dict literal not found")


class Rec(list):
    def add(self, name, *args):
        self.append((name, tuple(int(a) for a in args)))


def execute(event, state, requestor, alt, version=None):
    """Run the real do_action once; returns None for InvalidEventError, ('raise', repr) for
    another exception, else (effects, next_state)."""
    from pynetdicom import AE, evt
    from pynetdicom import fsm as fsm_mod
    from pynetdicom.association import Association
    from pynetdicom.pdu import (
        A_ABORT_RQ, A_ASSOCIATE_AC, A_ASSOCIATE_RJ, A_ASSOCIATE_RQ, A_RELEASE_RP, A_RELEASE_RQ, P_DATA_TF,
    )
    from pynetdicom.pdu_primitives import (
        A_ABORT, A_ASSOCIATE, A_P_ABORT, A_RELEASE, P_DATA, ImplementationClassUIDNotification,
        MaximumLengthNotification,
    )
    from pynetdicom.presentation import build_context
    from pynetdicom.transport import AddressInformation, T_CONNECT

    rec = Rec()
    ae = AE()
    assoc = Association(ae, "requestor" if requestor else "acceptor")
    assoc.requestor.address_info = AddressInformation("127.0.0.1", 11112)
    assoc.acceptor.address_info = AddressInformation("127.0.0.1", 11113)
    dul = assoc.dul

    class Sock:
        _is_connected = True
        socket = object()

        def connect(self, prim):
            rec.add("connect")

        def send(self, data):
            t = data[0]
            if t == 1:
                rec.add("sendRq")
            elif t == 2:
                rec.add("sendAc")
            elif t == 3:
                rec.add("sendRj", data[7], data[8], data[9])
            elif t == 4:
                rec.add("sendPdata")
            elif t == 5:
                rec.add("sendRelRq")
            elif t == 6:
                rec.add("sendRelRp")
            elif t == 7:
                rec.add("sendAbort", data[8], data[9])
            else:
                rec.add("send?", t)

        def close(self):
            rec.add("close")

        def _shutdown_socket(self):
            rec.add("close")

        @property
        def ready(self):
            return False

    from pynetdicom.timer import Timer

    class Artim(Timer):
        """The REAL timer class (never started before the action, as on a requestor), recording what an action does to
        it by its effect: `artimStart` / `artimRestart` only if the timer is running afterwards, counted from now."""

        def __init__(self):
            super().__init__(3600)

        def _fresh(self, before):
            return self._start_time is not None and self._end_time is None and self._start_time is not before

        _nested = False

        def start(self):
            before = self._start_time
            super().start()
            if not self._nested:  # Timer.restart() is implemented through start(): one effect, not two
                rec.add("artimStart" if self._fresh(before) else "artimStartWithoutEffect")

        def stop(self):
            super().stop()
            rec.add("artimStop" if self._end_time is not None else "artimStopWithoutEffect")

        def restart(self):
            before = self._start_time
            self._nested = True
            try:
                super().restart()
            finally:
                self._nested = False
            rec.add("artimRestart" if self._fresh(before) else "artimRestartWithoutEffect")

    class UserQ(queue.Queue):
        def put(self, p, *a, **k):
            if isinstance(p, A_ASSOCIATE):
                rec.add("indAssocRq" if p.result is None else ("confAccept" if p.result == 0 else "confReject"))
            elif isinstance(p, A_RELEASE):
                rec.add("indRelease" if p.result is None else "confRelease")
            elif isinstance(p, A_ABORT):
                rec.add("indAbort", p.abort_source)
            elif isinstance(p, A_P_ABORT):
                rec.add("indPAbort", p.provider_reason)
            else:
                rec.add("ind?")
            super().put(p, *a, **k)

    class MsgQ(queue.Queue):
        def put(self, p, *a, **k):
            rec.add("sentinel" if p == (None, None) else "msgq?")

    class Dimse:
        msg_queue = MsgQ()

        def receive_primitive(self, p):
            rec.add("indPdata" if isinstance(p, P_DATA) else "dimse?")

    dul.socket = Sock()
    dul.artim_timer = Artim()
    dul.to_user_queue = UserQ()
    assoc.dimse = Dimse()
    assoc.bind(evt.EVT_CONN_CLOSE, lambda e: rec.add("notifyConnClose"))
    trans = []
    assoc.bind(evt.EVT_FSM_TRANSITION, lambda e: trans.append((e.current_state, e.next_state)))

    def assoc_prim(result=None):
        p = A_ASSOCIATE()
        p.application_context_name = "1.2.840.10008.3.1.1.1"
        p.calling_ae_title = "CALLING"
        p.called_ae_title = "CALLED"
        p.calling_presentation_address = AddressInformation("127.0.0.1", 11112)
        p.called_presentation_address = AddressInformation("127.0.0.1", 11113)
        ml = MaximumLengthNotification()
        ml.maximum_length_received = 16382
        ic = ImplementationClassUIDNotification()
        ic.implementation_class_uid = "1.2.3.4"
        p.user_information = [ml, ic]
        cx = build_context("1.2.840.10008.1.1")
        cx.context_id = 1
        if result is None:
            p.presentation_context_definition_list = [cx]
        elif result == 0:
            cx.result = 0
            cx.transfer_syntax = [cx.transfer_syntax[0]]
            p.presentation_context_definition_results_list = [cx]
            p.result = 0
        else:
            p.result, p.result_source, p.diagnostic = 1, 1, 1
        return p

    # --- pre-load the queues the action will read ---------------------------
    n = int(event[3:])
    pq, rq = dul.to_provider_queue, dul._recv_pdu
    if n == 1:
        pq.put(assoc_prim())
    elif n == 2:
        t = T_CONNECT(assoc_prim())
        t.result = "Evt2"
        pq.put(t)
    elif n == 3:
        rq.put(A_ASSOCIATE_AC(assoc_prim(0)))
    elif n == 4:
        rq.put(A_ASSOCIATE_RJ(assoc_prim(1)))
    elif n == 6:
        pdu = A_ASSOCIATE_RQ(assoc_prim())
        if alt:
            pdu.protocol_version = 2
        if version is not None:
            pdu.protocol_version = version
        rq.put(pdu)
    elif n == 7:
        pq.put(assoc_prim(0))
    elif n == 8:
        pq.put(assoc_prim(1))
    elif n == 9:
        p = P_DATA()
        p.presentation_data_value_list = [[1, b"\x03\x00"]]
        pq.put(p)
    elif n == 10:
        p = P_DATA()
        p.presentation_data_value_list = [[1, b"\x03\x00"]]
        rq.put(P_DATA_TF(p))
    elif n == 11:
        pq.put(A_RELEASE())
    elif n == 12:
        rq.put(A_RELEASE_RQ(A_RELEASE()))
    elif n == 13:
        r = A_RELEASE()
        r.result = "affirmative"
        rq.put(A_RELEASE_RP(r))
    elif n == 14:
        r = A_RELEASE()
        r.result = "affirmative"
        pq.put(r)
    elif n == 15:
        if alt:
            a = A_P_ABORT()
            a.provider_reason = 1
        else:
            a = A_ABORT()
            a.abort_source = 0
        pq.put(a)
    elif n == 16:
        pdu = A_ABORT_RQ()
        pdu.source = 2 if alt else 0
        pdu.reason_diagnostic = 1 if alt else 0
        rq.put(pdu)
    # Evt5, Evt17, Evt18, Evt19 read nothing
    np0, nr0 = pq.qsize(), rq.qsize()
    dul.state_machine.current_state = state
    try:
        dul.state_machine.do_action(event)
    except fsm_mod.InvalidEventError:
        return None
    except Exception as exc:  # noqa
        return ("raise", type(exc).__name__)
    if pq.qsize() < np0:
        rec.add("popPrim")
    if rq.qsize() < nr0:
        rec.add("popPdu")
    if dul._kill_thread:
        rec.add("kill")
    nxt = dul.state_machine.current_state
    if not trans or trans[-1] != (state, nxt):
        rec.add("transition?")
    return (list(rec), nxt)


def domain():
    return [(e, s, r, a) for e in range(1, 20) for s in range(1, 14) for r in (True, False) for a in (False, True)]


def extract():
    from pynetdicom import fsm

    logging.getLogger("pynetdicom").setLevel(logging.CRITICAL + 1)
    table = dict(fsm.TRANSITION_TABLE)
    if table != table_by_ast():
        raise RuntimeError("TRANSITION_TABLE literal and runtime value differ")
    rows = sorted((int(e[3:]), int(s[3:]), a) for (e, s), a in table.items())
    nexts = lambda v: [int(x[3:]) for x in ((v,) if isinstance(v, str) else v)]
    declared = sorted((k, nexts(v[2])) for k, v in fsm.ACTIONS.items())
    runs = []
    for e, s, r, a in domain():
        runs.append(((e, s, r, a), execute(f"Evt{e}", f"Sta{s}", r, a)))
    return rows, declared, runs


def act_ident(a):
    return a.replace("-", "_")


def eff_term(name, args):
    if name not in EFFECTS:
        return f"(.other)"
    return "." + name if not args else "(." + name + " " + " ".join(map(str, args)) + ")"


def generate():
    rows, declared, runs = extract()
    b = lambda x: "true" if x else "false"
    out = [
        "-- GENERATED by translate/fsm.py from /repo/pynetdicom/fsm.py (reflection + exhaustive execution); do not edit.",
        "import PynetVerif.Model.Fsm",
        "namespace PynetVerif.Gen.Fsm",
        "open PynetVerif.Fsm",
        "/-- TRANSITION_TABLE as (event, state, action), sorted -/",
        "def transitionTable : List (Nat × Nat × Action) := "
        + lean_list([f"({e}, {s}, .{act_ident(a)})" for e, s, a in rows], 6),
        "/-- third field of every ACTIONS entry: the declared next state -/",
        "def declaredNext : List (Action × List Nat) := " + lean_list([f"(.{act_ident(a)}, {n})" for a, n in declared], 6),
        "/-- do_action executed on the real code for every (event, state, requestor, alt): none = InvalidEventError -/",
        "def runs : List ((Nat × Nat × Bool × Bool) × Outcome) := "
        + lean_list(
            [
                f"(({e}, {s}, {b(r)}, {b(a)}), "
                + (
                    ".invalid"
                    if res is None
                    else ".raised"
                    if res[0] == "raise"
                    else f".ok [{', '.join(eff_term(n, ar) for n, ar in res[0])}] {int(res[1][3:])}"
                )
                + ")"
                for (e, s, r, a), res in runs
            ],
            1,
        ),
        "end PynetVerif.Gen.Fsm",
        "",
    ]
    write_if_changed("Fsm.lean", "\n".join(out))
    return rows, declared, runs
