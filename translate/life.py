"""acse.py / association.py -> Gen/Life.lean: the facts about the code that `Model/Life.lean` was written from
(syntax facts, read with `ast`; recognisers, see DESIGN §15).

acceptorGuard / requestorGuard
    between the `evt.trigger(…, evt.EVT_ACCEPTED, …)` of `_negotiate_as_acceptor` / `_negotiate_as_requestor` and the
    `self.assoc.is_established = True` that follows it, `is_aborted` is tested again: either a preceding sibling
    `if self.assoc.is_aborted: return`, or the assignment sits directly under `if/elif not self.assoc.is_aborted`.
emitFollowsSet
    in both, the statement after the assignment is `evt.trigger(…, evt.EVT_ESTABLISHED, …)`.
establishSites
    every function of the package (tests and apps aside) that assigns `….is_established = True`.
establishedTriggers
    every function that triggers EVT_ESTABLISHED.
abortShape
    `Association._abort_blocking` as the ordered list of the statements the model distinguishes.
sendAbortSetsFlags
    `ACSE.send_abort` sets `is_aborted = True` and `is_established = False` after `send_pdu`.
afterRequestedTest
    the test under which the acceptor negotiates after the REQUESTED notification (`run_reactor`).
noContextBranch
    the statements of the requestor's "accepted, but no acceptable presentation context" branch (LOGGER calls aside).
reactorReleaseTest
    the test of the reactor branch that answers the peer's release request.
releaseTest
    the test guarding the body of `Association.release()`.
"""
import ast
import importlib
import inspect
import pathlib

from .util import lean_list, lean_str, write_if_changed

SET_EST = "self.assoc.is_established = True"


def _src(n):
    return ast.unparse(n)


def _is_trigger(stmt, name):
    return isinstance(stmt, ast.Expr) and _src(stmt).startswith("evt.trigger(") and f"evt.{name}," in _src(stmt)


def _blocks(node):
    for f in ("body", "orelse", "finalbody"):
        b = getattr(node, f, None)
        if isinstance(b, list) and b and isinstance(b[0], ast.stmt):
            yield f, b
    for h in getattr(node, "handlers", []) or []:
        yield "handler", h.body


def _path_to(node, pred, path=()):
    """the chain of (container statement, field, index) leading to the first statement satisfying pred"""
    for field, block in _blocks(node):
        for i, st in enumerate(block):
            here = path + ((node, field, i),)
            if pred(st):
                return here
            sub = _path_to(st, pred, here)
            if sub:
                return sub
    return None


def _block_of(entry):
    node, field, _ = entry
    if field == "handler":
        raise ValueError
    return getattr(node, field)


def guard_fact(fn):
    """(guarded?, emitFollows?) for the establishment that follows the ACCEPTED notification"""
    p_set = _path_to(fn, lambda s: _src(s) == SET_EST)
    if p_set is None:
        return False, False
    block = _block_of(p_set[-1])
    idx = p_set[-1][2]
    follows = idx + 1 < len(block) and _is_trigger(block[idx + 1], "EVT_ESTABLISHED")
    p_acc = _path_to(fn, lambda s: _is_trigger(s, "EVT_ACCEPTED"))
    if p_acc is None:
        return False, follows
    # the deepest block containing the trigger and (an ancestor of) the assignment
    common = 0
    while common < min(len(p_acc), len(p_set)) - 1 and p_acc[common] == p_set[common]:
        common += 1
    if p_acc[common][0] is not p_set[common][0] or p_acc[common][1] != p_set[common][1]:
        return False, follows
    blk = _block_of(p_acc[common])
    i_acc, i_set = p_acc[common][2], p_set[common][2]
    if len(p_acc) - 1 != common or i_set <= i_acc:
        return False, follows
    guarded = False
    for st in blk[i_acc + 1 : i_set]:
        if isinstance(st, ast.If) and _src(st.test) == "self.assoc.is_aborted" and st.body and isinstance(st.body[-1], ast.Return):
            guarded = True
    # the assignment directly under `if/elif not self.assoc.is_aborted` of a chain that starts after the trigger
    node, field, _ = p_set[-1]
    if isinstance(node, ast.If) and field == "body" and _src(node.test) == "not self.assoc.is_aborted" and len(p_set) - 1 > common:
        guarded = True
    return guarded, follows


def _package_functions():
    import pynetdicom

    root = pathlib.Path(pynetdicom.__file__).parent
    for f in sorted(root.glob("*.py")):
        tree = ast.parse(f.read_text())
        for cls in [n for n in ast.walk(tree) if isinstance(n, (ast.FunctionDef, ast.AsyncFunctionDef))]:
            yield f.stem, cls


def sites(pred):
    out = []
    for mod, fn in _package_functions():
        own = [n for n in ast.walk(fn) if isinstance(n, ast.stmt)]
        inner = {id(s) for sub in ast.walk(fn) if sub is not fn and isinstance(sub, (ast.FunctionDef, ast.AsyncFunctionDef))
                 for s in ast.walk(sub)}
        if any(pred(s) for s in own if id(s) not in inner):
            out.append((mod, fn.name))
    return sorted(set(out))


def abort_shape(fn):
    out = []
    for st in fn.body:
        s = _src(st)
        if isinstance(st, ast.If) and st.body and isinstance(st.body[-1], ast.Return) and not st.orelse:
            t = _src(st.test)
            out.append({"self._sent_abort": "ifSent:return", "self.is_released or self.is_aborted": "ifDone:return",
                        "block is False": "ifNonBlocking:return"}.get(t, "if:" + t[:40]))
        elif s == "self._sent_abort = True":
            out.append("setSent")
        elif s.startswith("self.acse.send_abort("):
            out.append("sendAbort")
        elif _is_trigger(st, "EVT_ABORTED"):
            out.append("emitAborted")
        elif s == "self.kill()":
            out.append("kill")
        elif isinstance(st, ast.Assign) and any(k in s for k in ("is_aborted", "is_established", "is_released")):
            out.append("assign:" + s[:40])
    return out


def send_abort_sets_flags(fn):
    srcs = [_src(s) for s in fn.body]
    try:
        i = next(k for k, s in enumerate(srcs) if s.startswith("self.dul.send_pdu("))
    except StopIteration:
        return False
    return srcs[i + 1 : i + 3] == ["self.assoc.is_aborted = True", "self.assoc.is_established = False"]


def extract():
    acse = importlib.import_module("pynetdicom.acse")
    assoc = importlib.import_module("pynetdicom.association")
    t_acse = ast.parse(inspect.getsource(acse))
    t_assoc = ast.parse(inspect.getsource(assoc))
    fa = {n.name: n for n in ast.walk(t_acse) if isinstance(n, ast.FunctionDef)}
    fb = {n.name: n for n in ast.walk(t_assoc) if isinstance(n, ast.FunctionDef)}
    g_acc, f_acc = guard_fact(fa["_negotiate_as_acceptor"])
    g_req, f_req = guard_fact(fa["_negotiate_as_requestor"])
    rel_test = "none"
    for node in ast.walk(fb["_run_reactor"]):
        if isinstance(node, ast.If) and "is_release_requested()" in _src(node.test):
            rel_test = _src(node.test)
            break
    after_rq = "none"
    for node in ast.walk(fb["run_reactor"]):
        if isinstance(node, ast.If) and len(node.body) == 1 and _src(node.body[0]) == "self.acse.negotiate_association()" \
                and "is_rejected" in _src(node.test) and "is_established" not in _src(node.test):
            after_rq = _src(node.test)
            break
    nocx = []
    for node in ast.walk(fa["_negotiate_as_requestor"]):
        if isinstance(node, ast.If) and _src(node.test) == "not self.assoc.accepted_contexts":
            nocx = [_src(st) for st in node.body if not _src(st).startswith("LOGGER.")]
            break
    first = next((s for s in fb["release"].body if not (isinstance(s, ast.Expr) and isinstance(s.value, ast.Constant))), None)
    release_test = _src(first.test) if isinstance(first, ast.If) and len([s for s in fb["release"].body if not (isinstance(s, ast.Expr) and isinstance(s.value, ast.Constant))]) == 1 else "none"
    return {
        "acceptorGuard": g_acc,
        "requestorGuard": g_req,
        "emitFollowsSet": f_acc and f_req,
        "establishSites": sites(lambda s: isinstance(s, ast.Assign) and _src(s).endswith(".is_established = True")),
        "establishedTriggers": sites(lambda s: _is_trigger(s, "EVT_ESTABLISHED")),
        "abortShape": abort_shape(fb["_abort_blocking"]),
        "sendAbortSetsFlags": send_abort_sets_flags(fa["send_abort"]),
        "afterRequestedTest": after_rq,
        "noContextBranch": nocx,
        "reactorReleaseTest": rel_test,
        "releaseTest": release_test,
    }


def generate():
    f = extract()
    b = lambda v: "true" if v else "false"
    pairs = lambda rows: lean_list([f"({lean_str(a)}, {lean_str(c)})" for a, c in rows], 3)
    body = [
        "-- GENERATED by translate/life.py from /repo/pynetdicom/acse.py and association.py; do not edit.",
        "namespace PynetVerif.Gen.Life",
        "/-- the acceptor's establishment re-checks `is_aborted` after the ACCEPTED notification -/",
        f"def acceptorGuard : Bool := {b(f['acceptorGuard'])}",
        "/-- the requestor's does -/",
        f"def requestorGuard : Bool := {b(f['requestorGuard'])}",
        "/-- in both, EVT_ESTABLISHED is triggered by the statement after `is_established = True` -/",
        f"def emitFollowsSet : Bool := {b(f['emitFollowsSet'])}",
        "/-- (module, function) of every `… .is_established = True` -/",
        "def establishSites : List (String × String) := " + pairs(f["establishSites"]),
        "/-- (module, function) of every trigger of EVT_ESTABLISHED -/",
        "def establishedTriggers : List (String × String) := " + pairs(f["establishedTriggers"]),
        "/-- `Association._abort_blocking`, the statements the model distinguishes, in order -/",
        "def abortShape : List String := " + lean_list([lean_str(s) for s in f["abortShape"]], 3),
        "/-- `ACSE.send_abort`: send_pdu, then is_aborted = True, is_established = False -/",
        f"def sendAbortSetsFlags : Bool := {b(f['sendAbortSetsFlags'])}",
        "/-- the test under which the acceptor goes on to negotiate after the REQUESTED notification -/",
        f"def afterRequestedTest : String := {lean_str(f['afterRequestedTest'])}",
        "/-- the requestor's branch for an acceptance without any acceptable presentation context -/",
        "def noContextBranch : List String := " + lean_list([lean_str(x) for x in f["noContextBranch"]], 2),
        "/-- the test of the reactor branch that answers the peer's release request -/",
        f"def reactorReleaseTest : String := {lean_str(f['reactorReleaseTest'])}",
        "/-- the test guarding the body of `Association.release()` -/",
        f"def releaseTest : String := {lean_str(f['releaseTest'])}",
        "end PynetVerif.Gen.Life",
        "",
    ]
    write_if_changed("Life.lean", "\n".join(body))
    return f
