"""transport.py -> Gen/Timeouts.lean: the timeout a PDU-reading socket ends up with (AST facts).

requestor: the LAST `self.socket.settimeout(X)` in `AssociationSocket.connect` after the
`self.socket.connect(...)` call; acceptor: a `settimeout(X)` applied to the accepted socket in
`AssociationServer.get_request` or `RequestHandler._create_association` (none = blocking socket)."""
import ast
import os

from .util import REPO, write_if_changed


def _expr(node):
    s = ast.unparse(node)
    if s == "None":
        return "noTimeout"
    if s.endswith("network_timeout"):
        return "networkTimeout"
    if s.endswith("connection_timeout"):
        return "connectionTimeout"
    return "other"


def _fn(tree, cls, name):
    for c in ast.walk(tree):
        if isinstance(c, ast.ClassDef) and c.name == cls:
            for f in c.body:
                if isinstance(f, ast.FunctionDef) and f.name == name:
                    return f
    raise RuntimeError(f"{cls}.{name} not found")


def extract():
    tree = ast.parse(open(os.path.join(REPO, "pynetdicom", "transport.py")).read())
    con = _fn(tree, "AssociationSocket", "connect")
    calls = []
    for n in ast.walk(con):
        if isinstance(n, ast.Call) and isinstance(n.func, ast.Attribute):
            if n.func.attr in ("connect", "settimeout") and ast.unparse(n.func.value) == "self.socket":
                calls.append((n.lineno, n.func.attr, n))
    calls.sort(key=lambda c: c[0])
    after = False
    req = "noTimeout"  # a socket created by _create_socket keeps whatever was set before
    seen_connect = False
    # statements that are executed conditionally (inside an `if`): a settimeout there does not always replace the
    # connection timeout set before connect()
    conditional = set()
    for node in ast.walk(con):
        if isinstance(node, ast.If):
            for sub in ast.walk(node):
                if isinstance(sub, ast.Call):
                    conditional.add(id(sub))
    for _, attr, n in calls:
        if attr == "connect":
            seen_connect = True
        elif seen_connect and n.args:
            req = _expr(n.args[0]) if id(n) not in conditional else "other"
            after = True
    if not after:
        # no settimeout after connect: the connection timeout set before connect stays
        pre = [n for _, a, n in calls if a == "settimeout"]
        req = _expr(pre[-1].args[0]) if pre else "noTimeout"
    # acceptor: the accepted socket is given a timeout either in AssociationServer.get_request (on the socket
    # returned by accept()) or in RequestHandler._create_association (on self.request, before it is wrapped)
    acc = "noTimeout"
    for cls, fn, var in (("AssociationServer", "get_request", "client_socket"), ("RequestHandler", "_create_association", "self.request")):
        for n in ast.walk(_fn(tree, cls, fn)):
            if isinstance(n, ast.Call) and isinstance(n.func, ast.Attribute) and n.func.attr == "settimeout":
                if ast.unparse(n.func.value) == var and n.args:
                    acc = _expr(n.args[0])
    # TLS server: `get_request` performs the handshake (wrap_socket(server_side=True)) on the server's accept
    # thread; which timeout does the accepted socket carry at that point?
    tls = "noTimeout"
    gr = _fn(tree, "AssociationServer", "get_request")
    wraps = [n.lineno for n in ast.walk(gr) if isinstance(n, ast.Call) and isinstance(n.func, ast.Attribute) and n.func.attr == "wrap_socket"]
    if wraps:
        first_wrap = min(wraps)
        for n in ast.walk(gr):
            if isinstance(n, ast.Call) and isinstance(n.func, ast.Attribute) and n.func.attr == "settimeout":
                if ast.unparse(n.func.value) == "client_socket" and n.args and n.lineno < first_wrap:
                    tls = _expr(n.args[0])
    return req, acc, tls


def extract_idle():
    """does the read loop of `AssociationSocket.recv` restart the provider's idle timer for every chunk it receives?
    (a call `<...>._idle_timer.restart()` inside the `while` loop, after the socket read)"""
    tree = ast.parse(open(os.path.join(REPO, "pynetdicom", "transport.py")).read())
    fn = _fn(tree, "AssociationSocket", "recv")
    for loop in ast.walk(fn):
        if not isinstance(loop, ast.While):
            continue
        read_line = None
        for n in ast.walk(loop):
            if isinstance(n, ast.Call) and isinstance(n.func, ast.Attribute):
                if n.func.attr == "recv" and ast.unparse(n.func.value) == "self.socket":
                    read_line = n.lineno
        for n in ast.walk(loop):
            if isinstance(n, ast.Call) and isinstance(n.func, ast.Attribute) and n.func.attr in ("restart", "start"):
                if ast.unparse(n.func.value).endswith("_idle_timer") and read_line is not None and n.lineno > read_line:
                    return True
    return False


def generate():
    req, acc, tls = extract()
    idle = extract_idle()
    write_if_changed(
        "Timeouts.lean",
        "-- GENERATED by translate/timeouts.py from /repo/pynetdicom/transport.py (AST); do not edit.\n"
        "import PynetVerif.Model.Timeouts\n"
        "namespace PynetVerif.Gen.Timeouts\nopen PynetVerif.Timeouts\n"
        f"def requestorReadTimeout : TimeoutExpr := .{req}\n"
        f"def acceptorReadTimeout : TimeoutExpr := .{acc}\n"
        "/-- the timeout the accepted socket carries while `get_request` performs the TLS handshake -/\n"
        f"def tlsHandshakeTimeout : TimeoutExpr := .{tls}\n"
        "/-- `AssociationSocket.recv` restarts the provider's idle timer for every chunk it receives -/\n"
        f"def idleRestartPerChunk : Bool := {'true' if idle else 'false'}\n"
        "end PynetVerif.Gen.Timeouts\n",
    )
    return req, acc, tls
