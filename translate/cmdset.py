"""dimse_messages.py / dimse_primitives.py / dimse.py -> Gen/Cmd.lean (C17).

Reflection of the tables that drive the primitive <-> command-set conversion:

* `_MESSAGE_TYPES`            command field -> (name, message class)
* `_COMMAND_SET_KEYWORDS`     message name -> keywords, turned into tags with pydicom's dictionary
* `_DATASET_KEYWORDS`         message class -> data-set parameter
* `_MSG_TO_PRIMITIVE`         via the same `cls_type_name[:rfind('_R')]` expression the code uses
* `_MULTIVALUE_TAGS`
* `_RQ_TO_MESSAGE` / `_RSP_TO_MESSAGE` of dimse.py
* pydicom's dictionary VR/VM of every keyword
* per primitive class: which command keywords `hasattr` finds on a fresh instance, whether the
  attribute is a property, and the behaviour of its setter on a fixed probe vector of raw values
  (stored value or "raises") - a behavioural fingerprint of the setters that the Lean model's
  `store` must reproduce (`C17_setters_probe`).
"""
import importlib
import logging
import warnings

from .util import lean_list, lean_str, write_if_changed

# raw values offered to every setter (ints, ASCII strings, tag lists)
PROBE_INTS = [0, 1, 2, 3, 65535, 65536, 2**32 - 1, 2**32]
PROBE_STRS = [
    "",
    " ",
    "   ",
    "1.2",
    " 1.2 ",
    "A" * 16,
    "A" * 17,
    " " + "A" * 15 + " ",
    " " + "A" * 16,
    "1" * 64,
    "1" * 65,
    " " + "1" * 64 + " ",
    "a\\b",
    "a\x01",
    "a b",
]
PROBE_LISTS = [[], [5], [5, 6], [2**32], [1, 2**32], [7, 7, 7]]


def probe_inputs(keyword, is_property):
    vals = [None] + PROBE_INTS + PROBE_LISTS
    # Tag("<hex digits>") makes str inputs of the AttributeIdentifierList setter a domain of
    # its own (int(arg, 16) / keyword lookup); str is outside that parameter's type and is
    # not modelled.
    if not (keyword == "AttributeIdentifierList" and is_property):
        vals += PROBE_STRS
    return vals


def to_val(v):
    """Python stored value -> canonical ('none' | ('int', n) | ('str', bytes) | ('list', [..]))."""
    if v is None:
        return None
    if isinstance(v, bool):
        return ("other", repr(v))
    if isinstance(v, int):
        return ("int", int(v))
    if isinstance(v, str):
        try:
            return ("str", str(v).encode("latin-1"))
        except UnicodeEncodeError:
            return ("other", repr(v))
    if isinstance(v, (list, tuple)) or type(v).__name__ == "MultiValue":
        if all(isinstance(x, int) and not isinstance(x, bool) for x in v):
            return ("list", [int(x) for x in v])
    return ("other", repr(v))


def lean_val(v):
    if v is None:
        return "none"
    k, x = v
    if k == "int":
        return f"some (.int {x})"
    if k == "str":
        return "some (.str [" + ", ".join(str(b) for b in x) + "])"
    if k == "list":
        return "some (.list [" + ", ".join(str(t) for t in x) + "])"
    raise ValueError(v)


def extract():
    dm = importlib.import_module("pynetdicom.dimse_messages")
    dp = importlib.import_module("pynetdicom.dimse_primitives")
    dimse = importlib.import_module("pynetdicom.dimse")
    from pydicom.datadict import dictionary_VM, dictionary_VR, tag_for_keyword

    out = {}
    out["messageTypes"] = sorted((int(k), v[0], v[1].__name__) for k, v in dm._MESSAGE_TYPES.items())
    kws = {}
    all_kw = set()
    for name, words in dm._COMMAND_SET_KEYWORDS.items():
        tags = []
        for w in words:
            t = tag_for_keyword(w)
            if t is None:
                raise ValueError(f"{name}: {w!r} is not a DICOM keyword")
            tags.append(int(t))
            all_kw.add(w)
        kws[name] = tags
    out["commandSetKeywords"] = sorted(kws.items())
    out["dictionary"] = sorted(
        (int(tag_for_keyword(w)), w, dictionary_VR(tag_for_keyword(w)), dictionary_VM(tag_for_keyword(w))) for w in all_kw
    )
    out["datasetKeywords"] = sorted((k, v) for k, v in dm._DATASET_KEYWORDS.items())
    out["multivalueTags"] = sorted(int(t) for t in dm._MULTIVALUE_TAGS)

    # message name -> primitive class, with the expression message_to_primitive uses
    msg_prim = {}
    for name in kws:
        cls_type_name = name.replace("-", "_")
        final_underscore = cls_type_name.rfind("_R")
        msg_prim[name] = dm._MSG_TO_PRIMITIVE[cls_type_name[:final_underscore]]
    out["msgPrimitive"] = sorted((n, c.__name__) for n, c in msg_prim.items())
    name_of_cls = {v[1]: v[0] for v in dm._MESSAGE_TYPES.values()}
    out["rqToMessage"] = sorted((p.__name__, name_of_cls[m]) for p, m in dimse._RQ_TO_MESSAGE.items())
    out["rspToMessage"] = sorted((p.__name__, name_of_cls[m]) for p, m in dimse._RSP_TO_MESSAGE.items())

    # rows: (name, field, primitive class, sorted tags, has data-set keyword), by field
    field_of = {v[0]: int(k) for k, v in dm._MESSAGE_TYPES.items()}
    rows = []
    for name, tags in kws.items():
        rows.append(
            (name, field_of.get(name, 0x10000), msg_prim[name].__name__, sorted(tags), name.replace("-", "_") in dm._DATASET_KEYWORDS)
        )
    out["rows"] = sorted(rows, key=lambda r: (r[1], r[0]))

    # primitive classes: attributes among the command keywords, property or plain, setter probe
    prim_classes = sorted({c for c in msg_prim.values()}, key=lambda c: c.__name__)
    attrs, probe, defaults = [], [], []
    lvl = logging.root.manager.disable
    logging.disable(logging.CRITICAL)
    try:
        with warnings.catch_warnings():
            warnings.simplefilter("ignore")
            for c in prim_classes:
                fresh = c()
                mine = []
                for tag, w, _, _ in out["dictionary"]:
                    if not hasattr(fresh, w):
                        continue
                    is_prop = isinstance(getattr(c, w, None), property)
                    mine.append((tag, is_prop))
                    d = to_val(getattr(fresh, w))
                    if d is not None:
                        defaults.append((c.__name__, tag, d))
                    pairs = []
                    for raw in probe_inputs(w, is_prop):
                        obj = c()
                        try:
                            setattr(obj, w, raw)
                            res = ("ok", to_val(getattr(obj, w)))
                        except Exception:
                            res = ("raise",)
                        pairs.append((to_val(raw), res))
                    probe.append((c.__name__, tag, pairs))
                attrs.append((c.__name__, mine))
    finally:
        logging.disable(lvl)
    out["primAttrs"] = attrs
    out["setterProbe"] = probe
    out["defaults"] = defaults
    return out


def generate():
    x = extract()
    s = lean_str
    vals = []

    def idx(v):
        if v not in vals:
            vals.append(v)
        return vals.index(v)

    for _, _, pairs in x["setterProbe"]:
        for i, r in pairs:
            idx(i)
            if r[0] == "ok":
                idx(r[1])
    body = [
        "import PynetVerif.Model.Cmd",
        "-- GENERATED by translate/cmdset.py from /repo/pynetdicom/{dimse_messages,dimse_primitives,dimse}.py; do not edit.",
        "namespace PynetVerif.Gen.Cmd",
        "open PynetVerif.Cmd",
        "/-- `_MESSAGE_TYPES`: (command field, name, message class `__name__` with '_' written '-') -/",
        "def messageTypes : List (Nat × String × String) := "
        + lean_list([f"({k}, {s(n)}, {s(c.replace('_', '-'))})" for k, n, c in x["messageTypes"]], 3),
        "",
        "/-- `_COMMAND_SET_KEYWORDS` with the keywords turned into tags (code order) -/",
        "def commandSetKeywords : List (String × List Nat) := "
        + lean_list([f"({s(n)}, [{', '.join(map(str, t))}])" for n, t in x["commandSetKeywords"]], 1),
        "",
        "/-- pydicom's dictionary for every keyword in use: (tag, keyword, VR, VM) -/",
        "def dictionary : List (Nat × String × String × String) := "
        + lean_list([f"({t}, {s(w)}, {s(vr)}, {s(vm)})" for t, w, vr, vm in x["dictionary"]], 2),
        "",
        "/-- `_DATASET_KEYWORDS` -/",
        "def datasetKeywords : List (String × String) := "
        + lean_list([f"({s(k)}, {s(v)})" for k, v in x["datasetKeywords"]], 4),
        "",
        "/-- `_MULTIVALUE_TAGS` -/",
        "def multivalueTags : List Nat := [" + ", ".join(map(str, x["multivalueTags"])) + "]",
        "",
        "/-- message name -> primitive class (`_MSG_TO_PRIMITIVE[cls_type_name[:rfind('_R')]]`) -/",
        "def msgPrimitive : List (String × String) := "
        + lean_list([f"({s(k)}, {s(v)})" for k, v in x["msgPrimitive"]], 4),
        "",
        "/-- dimse.py `_RQ_TO_MESSAGE` / `_RSP_TO_MESSAGE`: primitive class -> message name -/",
        "def rqToMessage : List (String × String) := " + lean_list([f"({s(k)}, {s(v)})" for k, v in x["rqToMessage"]], 4),
        "def rspToMessage : List (String × String) := " + lean_list([f"({s(k)}, {s(v)})" for k, v in x["rspToMessage"]], 4),
        "",
        "/-- (name, command field, primitive class, tags in order, has a data-set parameter), by field -/",
        "def rows : List (String × Nat × String × List Nat × Bool) := "
        + lean_list(
            [f"({s(n)}, {f}, {s(c)}, [{', '.join(map(str, t))}], {'true' if d else 'false'})" for n, f, c, t, d in x["rows"]], 1
        ),
        "",
        "/-- primitive class -> (tag of a command keyword the class has as attribute, is a property) -/",
        "def primAttrs : List (String × List (Nat × Bool)) := "
        + lean_list(
            [f"({s(c)}, [{', '.join(f'({t}, ' + ('true' if p else 'false') + ')' for t, p in a)}])" for c, a in x["primAttrs"]], 1
        ),
        "",
        "/-- non-None parameters of a freshly constructed primitive -/",
        "def defaults : List (String × Nat × Option Val) := "
        + lean_list([f"({s(c)}, {t}, {lean_val(d)})" for c, t, d in x["defaults"]], 4),
        "",
        "/-- the distinct raw / stored values of the setter probe -/",
        "def probeVals : List (Option Val) := " + lean_list([lean_val(v) for v in vals], 1),
        "",
        "/-- (class, tag, [(index of the raw value, none = the setter raises | some (index of the stored value))]) -/",
        "def setterProbe : List (String × Nat × List (Nat × Option Nat)) := "
        + lean_list(
            [
                f"({s(c)}, {t}, ["
                + ", ".join(f"({idx(i)}, " + ("none" if r[0] == "raise" else f"some {idx(r[1])}") + ")" for i, r in pairs)
                + "])"
                for c, t, pairs in x["setterProbe"]
            ],
            1,
        ),
        "end PynetVerif.Gen.Cmd",
        "",
    ]
    write_if_changed("Cmd.lean", "\n".join(body))
    return x
