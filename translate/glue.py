"""association.py / ae.py -> Gen/Glue.lean: "which value is passed where" facts (read with `ast`).

Glue that sits between modelled cores and that seeded changes kept hitting:

encodeSites    every `encode(<data set>, F1, F2, F3)` call in class Association (the SCU calls and the service-class
               helpers): the three flags are `V.is_implicit_VR, V.is_little_endian, V.is_deflated` of ONE variable V, and
               V was last assigned `<context>.transfer_syntax[0]` - the accepted presentation context's transfer
               syntax, never the data set's own label
subStoreById   `Association._c_store_scp` looks its context up with `context_id=req._context_id`
subStoreRejectsUnaccepted   ... and before that lookup it tests `req._context_id not in self._accepted_cx`, aborts
               (`self.abort()`) and returns without sending anything
idsRenumbered  `AE.associate` assigns `context.context_id = 2 * ii + 1` to every requested context unconditionally
copiedPerItem  ... after copying each requested context on its own (`[deepcopy(cx) for cx in contexts]`)
allValidated   ... and validates the list it will use (`self._validate_requested_contexts(contexts)`) unconditionally,
               after `contexts = contexts or self.requested_contexts`
"""
import ast
import importlib
import inspect

from .util import lean_list, lean_str, write_if_changed


def _cls(modname, clsname):
    mod = importlib.import_module(modname)
    return next(n for n in ast.parse(inspect.getsource(mod)).body if isinstance(n, ast.ClassDef) and n.name == clsname)


def encode_sites():
    out = []
    for fn in _cls("pynetdicom.association", "Association").body:
        if not isinstance(fn, ast.FunctionDef):
            continue
        assigns = []  # (lineno, name, source)
        for n in ast.walk(fn):
            if isinstance(n, ast.Assign) and len(n.targets) == 1 and isinstance(n.targets[0], ast.Name):
                assigns.append((n.lineno, n.targets[0].id, ast.unparse(n.value)))
        for n in ast.walk(fn):
            if isinstance(n, ast.Call) and isinstance(n.func, ast.Name) and n.func.id == "encode" and len(n.args) == 4:
                flags = [ast.unparse(a) for a in n.args[1:]]
                ok = False
                v = flags[0].rsplit(".", 1)[0]
                if flags == [f"{v}.is_implicit_VR", f"{v}.is_little_endian", f"{v}.is_deflated"]:
                    prev = [a for a in assigns if a[1] == v and a[0] < n.lineno]
                    if prev:
                        src = max(prev)[2]
                        ok = src.endswith(".transfer_syntax[0]") and src.split(".")[0] in ("context", "cx")
                out.append((fn.name, ok))
    return out


def sub_store_by_id():
    fn = next(n for n in _cls("pynetdicom.association", "Association").body if isinstance(n, ast.FunctionDef) and n.name == "_c_store_scp")
    for n in ast.walk(fn):
        if isinstance(n, ast.Call) and getattr(n.func, "attr", None) == "_get_valid_context":
            return any(k.arg == "context_id" and ast.unparse(k.value) == "req._context_id" for k in n.keywords)
    return False


def sub_store_rejects_unaccepted():
    fn = next(n for n in _cls("pynetdicom.association", "Association").body if isinstance(n, ast.FunctionDef) and n.name == "_c_store_scp")
    for st in fn.body:
        if any(isinstance(n, ast.Call) and getattr(n.func, "attr", None) in ("_get_valid_context", "send_msg", "trigger") for n in ast.walk(st)):
            return False  # the lookup, a response or the handler comes first
        if isinstance(st, ast.If) and ast.unparse(st.test) == "req._context_id not in self._accepted_cx":
            body = [ast.unparse(b) for b in st.body if not ast.unparse(b).startswith("LOGGER.")]
            return body == ["self.abort()", "return"] and not st.orelse
    return False


def associate_facts():
    fn = next(n for n in _cls("pynetdicom.ae", "ApplicationEntity").body if isinstance(n, ast.FunctionDef) and n.name == "associate")
    top = fn.body
    renumbered = copied = validated = False
    defaulted_line = None
    for st in top:
        src = ast.unparse(st)
        if src == "contexts = contexts or self.requested_contexts":
            defaulted_line = st.lineno
        if src == "self._validate_requested_contexts(contexts)" and defaulted_line is not None and st.lineno > defaulted_line:
            validated = True
        if src == "contexts = [deepcopy(cx) for cx in contexts]":
            copied = True
        if isinstance(st, ast.For) and ast.unparse(st.iter) == "enumerate(contexts)" and len(st.body) == 1:
            if ast.unparse(st.body[0]) == "context.context_id = 2 * ii + 1":
                renumbered = True
    return renumbered, copied, validated


def generate():
    sites = encode_sites()
    by_id = sub_store_by_id()
    rejects = sub_store_rejects_unaccepted()
    renumbered, copied, validated = associate_facts()
    b = lambda x: "true" if x else "false"
    rows = [f"({lean_str(n)}, {b(ok)})" for n, ok in sites]
    write_if_changed(
        "Glue.lean",
        "-- GENERATED by translate/glue.py from /repo/pynetdicom/association.py and ae.py (AST); do not edit.\n"
        "namespace PynetVerif.Gen.Glue\n"
        "/-- (method, the encode() flags are those of the accepted context's transfer syntax) -/\n"
        "def encodeSites : List (String × Bool) := " + lean_list(rows, 3) + "\n"
        f"def subStoreById : Bool := {b(by_id)}\n"
        f"def subStoreRejectsUnaccepted : Bool := {b(rejects)}\n"
        f"def idsRenumbered : Bool := {b(renumbered)}\n"
        f"def copiedPerItem : Bool := {b(copied)}\n"
        f"def allValidated : Bool := {b(validated)}\n"
        "end PynetVerif.Gen.Glue\n",
    )
    return sites, by_id, renumbered, copied, validated, rejects
