"""dimse.py / association.py -> Gen/Cancel.lean (syntax facts, read with `ast`).

* `DIMSEServiceProvider.receive_primitive`: the guard of the C-CANCEL branch
  (`isinstance(d_primitive, C_CANCEL) and len(self.cancel_req) < N`): comparison
  operator and N; what the branch does; what the final `else` does.
* `Association._serve_request`: the shape of the `try` body around the service
  class call — where `self.dimse.cancel_req = {}` stands relative to `.SCP(...)`
  — and whether any `except` handler clears the store.  A clearing statement
  that is the whole body of an `if` without `else` is reported as `clear-if`,
  with its test (a plain name is replaced by the expression the function
  assigns to it, when there is exactly one such assignment) in `clearGuards`.
  The two writes of `self._is_paused` around the call are reported the same way
  (`pause` / `pause-if`, tests in `pauseGuards`).
* `receive_primitive` again: the classes `X` of `isinstance(d_primitive, X)` in
  the test of the branch that starts a thread on `_serve_request` — the
  requests that are served while another request may be in progress.
"""
import ast
import os

from .util import REPO, lean_list, lean_str, write_if_changed


def _method(tree, cls, name):
    c = next(n for n in tree.body if isinstance(n, ast.ClassDef) and n.name == cls)
    return next(n for n in c.body if isinstance(n, ast.FunctionDef) and n.name == name)


def extract():
    dtree = ast.parse(open(os.path.join(REPO, "pynetdicom", "dimse.py")).read())
    rp = _method(dtree, "DIMSEServiceProvider", "receive_primitive")
    guard, cmp_op, bound, branch, final_else = "", "", None, [], []
    side = []
    for node in ast.walk(rp):
        if isinstance(node, ast.If) and "C_CANCEL" in ast.unparse(node.test):
            guard = ast.unparse(node.test)
            t = node.test
            if isinstance(t, ast.BoolOp) and isinstance(t.op, ast.And):
                for v in t.values:
                    if (
                        isinstance(v, ast.Compare)
                        and len(v.ops) == 1
                        and "len(self.cancel_req)" == ast.unparse(v.left)
                        and isinstance(v.comparators[0], ast.Constant)
                        and isinstance(v.comparators[0].value, int)
                    ):
                        cmp_op = type(v.ops[0]).__name__
                        bound = v.comparators[0].value
            branch = [ast.unparse(s) for s in node.body]
            # branches of the same chain that start a thread on _serve_request
            c2 = node
            while len(c2.orelse) == 1 and isinstance(c2.orelse[0], ast.If):
                c2 = c2.orelse[0]
                body_src = "".join(ast.unparse(s) for s in c2.body)
                if "Thread(" in body_src and "_serve_request" in body_src:
                    for call in ast.walk(c2.test):
                        if (isinstance(call, ast.Call) and isinstance(call.func, ast.Name) and call.func.id == "isinstance"
                                and len(call.args) == 2):
                            side.append(ast.unparse(call.args[1]))
            cur = node
            while len(cur.orelse) == 1 and isinstance(cur.orelse[0], ast.If):
                cur = cur.orelse[0]
            final_else = [ast.unparse(s) for s in cur.orelse]
            break

    atree = ast.parse(open(os.path.join(REPO, "pynetdicom", "association.py")).read())
    sr = _method(atree, "Association", "_serve_request")
    shape, handlers_clear, guards, pguards = [], False, [], []
    assigned = {}
    for node in ast.walk(sr):
        if isinstance(node, ast.Assign) and len(node.targets) == 1 and isinstance(node.targets[0], ast.Name):
            assigned.setdefault(node.targets[0].id, []).append(ast.unparse(node.value))
    for node in ast.walk(sr):
        if isinstance(node, ast.Try) and any(".SCP(" in ast.unparse(s) for s in node.body):
            for s in node.body:
                u = ast.unparse(s)
                if u == "self.dimse.cancel_req = {}":
                    shape.append("clear")
                elif (isinstance(s, ast.If) and not s.orelse and len(s.body) == 1
                      and ast.unparse(s.body[0]) == "self.dimse.cancel_req = {}"):
                    shape.append("clear-if")
                    t = ast.unparse(s.test)
                    if isinstance(s.test, ast.Name) and len(assigned.get(s.test.id, [])) == 1:
                        t = assigned[s.test.id][0]
                    guards.append(t)
                elif u in ("self._is_paused = True", "self._is_paused = False"):
                    shape.append("pause")
                elif (isinstance(s, ast.If) and not s.orelse and len(s.body) == 1
                      and ast.unparse(s.body[0]) in ("self._is_paused = True", "self._is_paused = False")):
                    shape.append("pause-if")
                    t = ast.unparse(s.test)
                    if isinstance(s.test, ast.Name) and len(assigned.get(s.test.id, [])) == 1:
                        t = assigned[s.test.id][0]
                    pguards.append(t)
                elif ".SCP(" in u:
                    shape.append("scp")
                elif "cancel_req" in u:
                    shape.append("touches:" + u)
                else:
                    shape.append("other")
            for h in node.handlers:
                if "cancel_req" in ast.unparse(h):
                    handlers_clear = True
            if "cancel_req" in "".join(ast.unparse(s) for s in node.finalbody + node.orelse):
                handlers_clear = True
    # any other statement of _serve_request that touches the store
    n_touch = sum(1 for n in ast.walk(sr) if isinstance(n, ast.Attribute) and n.attr == "cancel_req")
    return dict(guard=guard, cmp=cmp_op, bound=bound, branch=branch, final_else=final_else, shape=shape,
                handlers_clear=handlers_clear, n_touch=n_touch, guards=guards, side=side, pguards=pguards)


def generate():
    x = extract()
    sl = lambda xs: "[" + ", ".join(lean_str(v) for v in xs) + "]"
    body = [
        "-- GENERATED by translate/cancel.py from /repo/pynetdicom/dimse.py and association.py; do not edit.",
        "namespace PynetVerif.Gen.Cancel",
        "/-- guard of the C-CANCEL branch of `receive_primitive` -/",
        f"def guard : String := {lean_str(x['guard'])}",
        "/-- comparison `len(self.cancel_req) <cmp> <bound>` in that guard -/",
        f"def cmp : String := {lean_str(x['cmp'])}",
        f"def bound : Option Nat := {'none' if x['bound'] is None else 'some ' + str(x['bound'])}",
        "/-- body of the C-CANCEL branch / of the final else of the chain -/",
        f"def branch : List String := {sl(x['branch'])}",
        f"def finalElse : List String := {sl(x['final_else'])}",
        "/-- statements of the `try` body of `_serve_request` around the service class call -/",
        f"def serveTry : List String := {sl(x['shape'])}",
        "/-- tests of the `clear-if` statements, in order -/",
        f"def clearGuards : List String := {sl(x['guards'])}",
        "/-- tests of the `pause-if` statements (writes of `_is_paused` around the call), in order -/",
        f"def pauseGuards : List String := {sl(x['pguards'])}",
        "/-- classes of the requests `receive_primitive` serves in a thread of their own -/",
        f"def sideThread : List String := {sl(x['side'])}",
        "/-- does an except/else/finally clause of that `try` mention `cancel_req` -/",
        f"def handlersTouchStore : Bool := {'true' if x['handlers_clear'] else 'false'}",
        "/-- number of occurrences of `.cancel_req` in `_serve_request` -/",
        f"def serveTouches : Nat := {x['n_touch']}",
        "end PynetVerif.Gen.Cancel",
        "",
    ]
    write_if_changed("Cancel.lean", "\n".join(body))
    return x


if __name__ == "__main__":
    print(extract())
