"""apps/common.py + apps/qrscp/handlers.py -> Gen/Paths.lean  (C30).

What is extracted, and how:

* by `ast` (syntax facts, no import): for each of the two `handle_store`
  functions the *symbolic value* of the first argument of every file-system
  sink (`*.save_as(p, …)`, `open(p, …)`, `os.makedirs(p, …)`, any other
  `os.*`/`shutil.*` call) obtained by a small forward data-flow over the
  function body (assignments, f-strings, `os.path.join`, `re.sub` with literal
  pattern/replacement, `if`/`try` merges as `phi`).  The regex and the
  replacement literals are emitted separately.  A removed `re.sub`, a changed
  pattern, a raw value reaching `os.path.join` or a new sink changes the
  emitted term and breaks `C30_sanitiser_is_modelled`.
* by execution over a finite domain: the extension of
  `re.sub(<pattern>, <repl>, chr(c))` on every code point c (which code points
  are kept; that all others become exactly the replacement) -> `keepRuns`.
  Python's `\\d` matches every Unicode decimal digit, the table records that.
* by reflection/ast: `SOP_CLASS_PREFIXES` (class uid -> file-name prefix) and
  the default prefix literal of the `except KeyError` branch.
"""
import ast
import os
import re

from .util import REPO, lean_list, lean_str, write_if_changed

QR = os.path.join("pynetdicom", "apps", "qrscp", "handlers.py")
ST = os.path.join("pynetdicom", "apps", "common.py")


# --------------------------------------------------------------------------
# symbolic data flow
# --------------------------------------------------------------------------
def dotted(n):
    if isinstance(n, ast.Name):
        return n.id
    if isinstance(n, ast.Attribute):
        b = dotted(n.value)
        return None if b is None else b + "." + n.attr
    return None


class Flow:
    """Forward symbolic evaluation of one function body."""

    SINK_METHODS = {"save_as", "write", "writelines"}
    SINK_FUNCS = {"open", "dcmwrite"}

    def __init__(self):
        self.subs = []  # (regex, repl) of every re.sub met
        self.sinks = []  # (callee, term)

    # ---- expressions ----
    def ev(self, n, env):
        if isinstance(n, ast.Constant):
            return f"'{n.value}'" if isinstance(n.value, str) else repr(n.value)
        if isinstance(n, ast.Name):
            return env.get(n.id, n.id)
        if isinstance(n, ast.Attribute):
            d = dotted(n)
            return d if d is not None else f"{self.ev(n.value, env)}.{n.attr}"
        if isinstance(n, ast.JoinedStr):
            parts = []
            for v in n.values:
                if isinstance(v, ast.Constant):
                    parts.append(f"'{v.value}'")
                elif isinstance(v, ast.FormattedValue) and v.format_spec is None and v.conversion == -1:
                    parts.append(self.ev(v.value, env))
                else:
                    parts.append("opaque")
            return "cat(" + ",".join(parts) + ")"
        if isinstance(n, ast.Subscript):
            return f"{self.ev(n.value, env)}[{self.ev(n.slice, env)}]"
        if isinstance(n, ast.Slice):
            f = lambda x: "" if x is None else self.ev(x, env)
            return f"{f(n.lower)}:{f(n.upper)}"
        if isinstance(n, ast.BinOp) and isinstance(n.op, ast.Add):
            return f"cat({self.ev(n.left, env)},{self.ev(n.right, env)})"
        if isinstance(n, ast.Call):
            d = dotted(n.func)
            args = [self.ev(a, env) for a in n.args]
            if d == "re.sub" and len(n.args) == 3:
                a, b = n.args[0], n.args[1]
                if isinstance(a, ast.Constant) and isinstance(b, ast.Constant):
                    self.subs.append((a.value, b.value))
                    return f"sub({args[2]})"
                return "sub?(" + ",".join(args) + ")"
            if d == "os.path.join":
                return "join(" + ",".join(args) + ")"
            self.call(n, env, args)
            return f"{d or 'call'}(" + ",".join(args) + ")"
        return "opaque:" + type(n).__name__

    def call(self, n, env, args):
        d = dotted(n.func) or ""
        last = d.split(".")[-1]
        is_sink = (
            d in self.SINK_FUNCS
            or (isinstance(n.func, ast.Attribute) and last in self.SINK_METHODS and last == "save_as")
            or (d.startswith(("os.", "shutil.")) and not d.startswith("os.path."))
        )
        if is_sink:
            self.sinks.append((d if d in self.SINK_FUNCS or d.startswith(("os.", "shutil.")) else "save_as", args[0] if args else "?"))

    # ---- statements ----
    @staticmethod
    def merge(a, b):
        out = {}
        for k in sorted(set(a) | set(b)):
            x, y = a.get(k, k), b.get(k, k)
            out[k] = x if x == y else f"phi({x}|{y})"
        return out

    def block(self, stmts, env):
        for s in stmts:
            env = self.stmt(s, env)
        return env

    def stmt(self, s, env):
        if isinstance(s, ast.Assign):
            v = self.ev(s.value, env)
            env = dict(env)
            for t in s.targets:
                if isinstance(t, ast.Name):
                    env[t.id] = v
                else:
                    self.ev(t, env)
            return env
        if isinstance(s, ast.Expr):
            self.ev(s.value, env)
            return env
        if isinstance(s, ast.Return):
            if s.value is not None:
                self.ev(s.value, env)
            return env
        if isinstance(s, ast.If):
            self.ev(s.test, env)
            a = self.block(s.body, dict(env))
            b = self.block(s.orelse, dict(env))
            return self.merge(a, b)
        if isinstance(s, ast.Try):
            a = self.block(s.body, dict(env))
            out = a
            for h in s.handlers:
                # a handler can start from any prefix of the body: use the entry environment
                hb = self.block(h.body, dict(env))
                if not (h.body and isinstance(h.body[-1], (ast.Return, ast.Raise))):
                    out = self.merge(out, hb)
            out = self.block(s.orelse, out)
            return self.block(s.finalbody, out)
        if isinstance(s, ast.With):
            env = dict(env)
            for it in s.items:
                v = self.ev(it.context_expr, env)
                if isinstance(it.optional_vars, ast.Name):
                    env[it.optional_vars.id] = v
            return self.block(s.body, env)
        if isinstance(s, (ast.For, ast.While)):
            return self.merge(env, self.block(s.body, dict(env)))
        for c in ast.walk(s):  # anything else: still look for calls
            if isinstance(c, ast.Call):
                self.ev(c, env)
        return env


def analyse(relpath):
    src = open(os.path.join(REPO, relpath)).read()
    tree = ast.parse(src)
    fn = next(n for n in tree.body if isinstance(n, ast.FunctionDef) and n.name == "handle_store")
    fl = Flow()
    fl.block(fn.body, {})
    return tree, fn, fl


def prefix_table(tree):
    tab, default = [], None
    for n in tree.body:
        if isinstance(n, ast.Assign) and any(isinstance(t, ast.Name) and t.id == "SOP_CLASS_PREFIXES" for t in n.targets):
            d = ast.literal_eval(n.value)
            tab = [(k, v[0]) for k, v in d.items()]
    return tab


def default_prefix(fn):
    """The string literal assigned in the `except KeyError` branch next to the table lookup."""
    for t in ast.walk(fn):
        if isinstance(t, ast.Try) and "SOP_CLASS_PREFIXES" in ast.dump(t):
            for h in t.handlers:
                for s in h.body:
                    if isinstance(s, ast.Assign) and isinstance(s.value, ast.Constant) and isinstance(s.value.value, str):
                        return s.value.value
    return None


def keep_runs(regex, repl):
    """Extension of the sanitiser on single characters: runs of kept code points, and whether every
    other code point is mapped to exactly `repl`."""
    rx = re.compile(regex)
    runs, ok = [], True
    for c in range(0x110000):
        ch = chr(c)
        out = rx.sub(repl, ch)
        if rx.search(ch) is None:  # not matched by the pattern: must come out unchanged
            kept = True
            ok = ok and out == ch
        else:  # matched: must come out as exactly the replacement
            kept = False
            ok = ok and out == repl
        if kept:
            if runs and runs[-1][1] + 1 == c:
                runs[-1][1] = c
            else:
                runs.append([c, c])
    return [tuple(r) for r in runs], ok


def lean_chars(s):
    def ch(c):
        o = ord(c)
        if 32 <= o < 127 and c not in "'\\":
            return f"'{c}'"
        return f"Char.ofNat {o}"

    return "[" + ", ".join(ch(c) for c in s) + "]"


def extract():
    qt, qfn, qf = analyse(QR)
    stt, sfn, sf = analyse(ST)
    res = {
        "qr_subs": qf.subs,
        "qr_sinks": [f"{c}:{t}" for c, t in qf.sinks],
        "st_subs": sf.subs,
        "st_sinks": [f"{c}:{t}" for c, t in sf.sinks],
        "prefixes": prefix_table(stt),
        "default": default_prefix(sfn),
    }
    return res


def generate():
    r = extract()

    def one(subs):
        # a unique literal (regex, repl) pair, otherwise a marker that no theorem accepts
        s = sorted(set(subs))
        return s[0] if len(s) == 1 else ("<none-or-many>", "<none-or-many>")

    qrx, qrp = one(r["qr_subs"])
    srx, srp = one(r["st_subs"])
    try:
        runs, ok = keep_runs(qrx, qrp)
    except re.error:
        runs, ok = [], False
    same = (qrx, qrp) == (srx, srp)
    body = [
        "-- GENERATED by translate/paths.py from /repo/pynetdicom/apps/{common.py,qrscp/handlers.py}; do not edit.",
        "namespace PynetVerif.Gen.Paths",
        "/-- literal pattern / replacement of the `re.sub` in qrscp's and storescp's handle_store -/",
        f"def qrscpRegex : String := {lean_str(qrx)}",
        f"def qrscpRepl : String := {lean_str(qrp)}",
        f"def storescpRegex : String := {lean_str(srx)}",
        f"def storescpRepl : String := {lean_str(srp)}",
        "/-- symbolic value of the path argument of every file-system sink, in program order -/",
        "def qrscpSinks : List String := " + lean_list([lean_str(s) for s in r["qr_sinks"]], 1),
        "def storescpSinks : List String := " + lean_list([lean_str(s) for s in r["st_sinks"]], 1),
        "/-- code points c with re.sub(regex, repl, chr(c)) == chr(c) (kept), as inclusive runs -/",
        "def keepRuns : List (Nat × Nat) := " + lean_list([f"({a}, {b})" for a, b in runs], 8),
        "/-- every other code point is replaced by exactly the replacement; both call sites use the same pair -/",
        f"def othersReplaced : Bool := {'true' if ok else 'false'}",
        f"def sameSanitiser : Bool := {'true' if same else 'false'}",
        "/-- SOP_CLASS_PREFIXES: (SOP Class UID, file-name prefix); default of the KeyError branch -/",
        "def prefixes : List (List Char × List Char) := "
        + lean_list([f"({lean_chars(k)}, {lean_chars(v)})" for k, v in r["prefixes"]], 1),
        f"def defaultPrefix : List Char := {lean_chars(r['default'] if r['default'] is not None else '')}",
        "end PynetVerif.Gen.Paths",
        "",
    ]
    write_if_changed("Paths.lean", "\n".join(body))
    return r


if __name__ == "__main__":
    import json

    print(json.dumps(generate(), indent=1))
