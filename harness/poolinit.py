"""Initializer for the scenario worker pools."""
import threading


def no_join_at_exit():
    """A scenario that exposes a defect can leave a NON-daemon pynetdicom thread running for ever (the provider thread
    of an association whose reactor is parked); a worker process would then never exit (`threading._shutdown` joins it)
    and the pool would never replace it.  Workers are throw-away: skip that join."""
    threading._shutdown = lambda: None
