"""End-to-end harness shared by the runtime properties (C06, C07, C08, C26, C27).

Two real AEs on loopback; recording handlers for every notification event on
both sides (per-association history with a global sequence number); schedule
shaking through the PYNETDICOM_VERIF hook points; a thread/socket leak
detector; and generated lifecycle scenarios (scripts of user actions for the
requestor and the acceptor side).
"""
from __future__ import annotations

import itertools
import logging
import os
import threading
import time

os.environ.setdefault("PYNETDICOM_VERIF", "1")

NOTIF = [
    "EVT_CONN_OPEN", "EVT_CONN_CLOSE", "EVT_FSM_TRANSITION", "EVT_PDU_SENT", "EVT_PDU_RECV",
    "EVT_DATA_SENT", "EVT_DATA_RECV", "EVT_ACSE_SENT", "EVT_ACSE_RECV", "EVT_DIMSE_SENT", "EVT_DIMSE_RECV",
    "EVT_REQUESTED", "EVT_ACCEPTED", "EVT_REJECTED", "EVT_ESTABLISHED", "EVT_RELEASED", "EVT_ABORTED",
]
PDU_KIND = {
    "A_ASSOCIATE_RQ": 1, "A_ASSOCIATE_AC": 2, "A_ASSOCIATE_RJ": 3, "P_DATA_TF": 4,
    "A_RELEASE_RQ": 5, "A_RELEASE_RP": 6, "A_ABORT_RQ": 7,
}
_seq = itertools.count()


from harness.poolinit import no_join_at_exit  # noqa: E402


def quiet():
    logging.getLogger("pynetdicom").setLevel(logging.CRITICAL + 1)
    logging.getLogger("pynetdicom").propagate = False


class Recorder:
    """Notification history per association (keyed by a small stable index)."""

    def __init__(self, raising=None, kind="function"):
        self.kind = kind
        self.lock = threading.Lock()
        self.hist = {}  # id(assoc) -> list of records
        self.assocs = {}
        self.raising = raising  # callable(side_key, evname, n) -> bool: raise inside this invocation?
        self.counts = {}
        self.frozen = False  # set by wait_quiet once every association recorded so far has ended
        self.late = []  # what arrives after that (a connection accepted too late to be part of the histories)

    def handlers(self):
        from pynetdicom import evt

        out = []
        for n in NOTIF:
            ev = getattr(evt, n)
            # a one-shot observer bound IN FRONT of the recorder: it unbinds itself the first time it is called (the
            # usual "wait until X happened once" pattern).  Other observers of the same notification must not notice.
            out.append((ev, self._one_shot(ev)))
            out.append((ev, self._wrap(self._make(n))))
        return out

    def _one_shot(self, ev):
        def once(event):
            try:
                event.assoc.unbind(ev, once)
            except Exception:
                pass

        return once

    def _wrap(self, f):
        import functools

        if self.kind == "partial":
            return functools.partial(f)
        if self.kind == "object":
            class _Callable:
                def __init__(self, g):
                    self.g = g

                def __call__(self, event):
                    return self.g(event)

            return _Callable(f)
        return f

    def _make(self, name):
        def h(event):
            a = event.assoc
            rec = [next(_seq), name]
            if name == "EVT_FSM_TRANSITION":
                rec += [event.current_state, event.fsm_event, event.action, event.next_state]
            elif name in ("EVT_PDU_SENT", "EVT_PDU_RECV"):
                rec += [PDU_KIND.get(type(event.pdu).__name__, 0)]
            elif name in ("EVT_DATA_SENT", "EVT_DATA_RECV"):
                d = bytes(event.data)
                rec += [d[0] if d else 0, len(d)]
            elif name in ("EVT_ACSE_SENT", "EVT_ACSE_RECV"):
                rec += [type(event.primitive).__name__]
            with self.lock:
                if self.frozen and id(a) not in self.assocs:
                    self.late.append(rec)
                    return
                self.hist.setdefault(id(a), []).append(rec)
                self.assocs[id(a)] = a
                k = (id(a), name)
                self.counts[k] = n = self.counts.get(k, 0) + 1
            if self.raising is not None and self.raising(a, name, n):
                # with a message, without any argument, with a non-string argument
                if n % 3 == 0:
                    raise RuntimeError(f"scripted failure in {name} handler #{n}")
                if n % 3 == 1:
                    raise RuntimeError()
                raise KeyError(n)

        return h

    def history(self, assoc):
        with self.lock:
            return list(self.hist.get(id(assoc), []))

    def known(self):
        with self.lock:
            return list(self.assocs.values())

    def freeze_if(self, n):
        """no history of a NEW association is opened from now on, provided still only `n` are known"""
        with self.lock:
            if len(self.assocs) != n:
                return False
            self.frozen = True
            return True


# --------------------------------------------------------------------------
# schedule shaking through the hook points
# --------------------------------------------------------------------------
class Shaker:
    """Injects small, seed-derived delays at the verif hook points."""

    def __init__(self, rng, points=("assoc.iter", "assoc.release", "acse.release_wait", "assoc.abort", "assoc.kill", "dul.dispatch"), p=0.3, max_ms=4):
        self.table = {}
        self.rng_seed = rng.getrandbits(32)
        self.points, self.p, self.max_ms = set(points), p, max_ms
        self.lock = threading.Lock()
        self.counter = {}

    def __call__(self, name, obj):
        if name not in self.points:
            return
        with self.lock:
            n = self.counter[name] = self.counter.get(name, 0) + 1
        # deterministic in (seed, name, n): does not depend on thread timing
        h = hash((self.rng_seed, name, n)) & 0xFFFF
        if h / 65536.0 < self.p:
            time.sleep(((h >> 3) % (self.max_ms * 10)) / 10000.0)

    def install(self):
        from pynetdicom import _verif

        _verif.install(self)

    @staticmethod
    def uninstall():
        from pynetdicom import _verif

        _verif.install(None)


# --------------------------------------------------------------------------
# leak detector
# --------------------------------------------------------------------------
def pynet_threads():
    out = []
    for t in threading.enumerate():
        tgt = getattr(t, "_target", None)
        cls = type(t).__name__
        if cls in ("Association", "DULServiceProvider") or "AcceptorThread" in t.name or "RequestorThread" in t.name:
            out.append(t)
    return out


def _unfinished(assoc):
    """an association that a recorder has seen a notification of and that has not ended: its thread is still to be
    started (the server notifies EVT_CONN_OPEN from ITS thread and starts the association's thread afterwards, so
    `threading.enumerate()` does not list it yet), or it, or its provider thread, is alive"""
    try:
        # (a requestor's association thread is started only once the association is established: never, when it is
        # rejected or aborted during the negotiation, which runs on the caller's thread)
        return (assoc.is_acceptor and assoc.ident is None) or assoc.is_alive() or assoc.dul.is_alive()
    except Exception:
        return False


def wait_accepted(rec_req, assoc, rec_acc, timeout=2.0):
    """the requestor's transport connection was made: give the server's thread the time to get round to accepting it,
    so that the acceptor's side of a very short association (ended by the requestor before the acceptor said anything)
    has a history at all"""
    if not any(r[1] == "EVT_CONN_OPEN" for r in rec_req.history(assoc)):
        return
    deadline = time.monotonic() + timeout
    while not rec_acc.known() and time.monotonic() < deadline:
        time.sleep(0.005)


def wait_quiet(before, timeout, recorders=()):
    """wait until no pynetdicom association/DUL thread other than those in `before` is alive and every association the
    `recorders` have a history of has been started and has ended.  The recorders are then frozen: the histories they
    hold are those of ended associations, and a connection the server gets round to only later opens no new one.
    Returns the threads (and not yet started associations) that remain when the time is up."""
    deadline = time.monotonic() + timeout
    while True:
        known = [r.known() for r in recorders]
        extra = [t for t in pynet_threads() if t not in before and t.is_alive()]
        pending = [a for ks in known for a in ks if _unfinished(a)]
        if not extra and not pending and all(r.freeze_if(len(ks)) for r, ks in zip(recorders, known)):
            return []
        if time.monotonic() >= deadline:
            break
        time.sleep(0.01)
    out = [f"{type(t).__name__}:{t.name}" for t in extra]
    out += [f"{type(a).__name__}:{a.name}:not-started" for a in pending if a.ident is None and not a.is_alive()]
    return out


def sock_closed(assoc):
    s = getattr(assoc.dul, "socket", None)
    if s is None:
        return True
    raw = getattr(s, "socket", None)
    if raw is None:
        return True
    try:
        return raw.fileno() == -1
    except Exception:
        return True


def outcome(assoc):
    return {
        "established": bool(assoc.is_established),
        "released": bool(assoc.is_released),
        "aborted": bool(assoc.is_aborted),
        "rejected": bool(assoc.is_rejected),
    }


# --------------------------------------------------------------------------
# lifecycle scenarios
# --------------------------------------------------------------------------
REQ_ACTIONS = ["echo", "echo", "release", "abort", "idle"]
ACC_ACTIONS = ["none", "none", "release", "abort", "handler_abort"]


def gen_scenario(rng):
    """A script: what the requestor's user thread does after association and what the
    acceptor's user does (from a separate thread once established, or inside a handler)."""
    req = []
    for _ in range(rng.choice([0, 1, 2, 3])):
        req.append("echo")
    req.append(rng.choice(["release", "release", "abort", "idle"]))
    acc = rng.choice(["none", "none", "none", "release", "abort", "handler_abort", "handler_release"])
    return {
        "req": req,
        "acc": acc,
        "acc_delay_ms": rng.choice([0, 0, 1, 3, 10]),
        "reject": rng.random() < 0.1,
        "shake": rng.random() < 0.7,
        "timeouts": rng.choice([0.5, 1.0]),
    }


def run_scenario(sc, rng, raising=None, extra_handlers=None, kind="function"):
    """Runs one lifecycle scenario; returns dict(req=…, acc=…, leaks=…, wall=…)."""
    from pynetdicom import AE, evt
    from pynetdicom.sop_class import Verification

    quiet()
    before = set(pynet_threads())
    rec_req, rec_acc = Recorder(raising, kind), Recorder(raising, kind)
    acc_assoc = []
    est = threading.Event()

    def on_est(event):
        acc_assoc.append(event.assoc)
        est.set()

    def on_echo(event):
        if sc["acc"] == "handler_abort":
            event.assoc.abort()
        elif sc["acc"] == "handler_release":
            # not allowed from a handler thread by the API docs, but must not wedge anything
            pass
        return 0x0000

    thread_errors = []
    old_hook = threading.excepthook

    def hook(args):
        thread_errors.append((type(args.thread).__name__, args.exc_type.__name__ + ": " + str(args.exc_value)))

    threading.excepthook = hook
    t_o = sc["timeouts"]
    srv_ae = AE(ae_title="ACCEPTOR")
    srv_ae.add_supported_context(Verification)
    srv_ae.acse_timeout = srv_ae.dimse_timeout = srv_ae.network_timeout = t_o
    if sc["reject"]:
        srv_ae.require_called_aet = True
    handlers = rec_acc.handlers() + [(evt.EVT_C_ECHO, on_echo), (evt.EVT_ESTABLISHED, on_est)]
    if sc.get("acc_slow_requested"):
        # the acceptor's EVT_REQUESTED handler outlasts the requestor's ACSE timeout: the requestor's abort arrives while
        # the acceptor is still negotiating
        handlers.append((evt.EVT_REQUESTED, lambda e: time.sleep(sc["acc_slow_requested"] * sc["timeouts"])))
    srv = srv_ae.start_server(("127.0.0.1", 0), block=False, evt_handlers=handlers)
    port = srv.socket.getsockname()[1]
    shaker = None
    if sc["shake"]:
        shaker = Shaker(rng)
        shaker.install()
    t0 = time.monotonic()
    res = {"script": sc}
    try:
        cl_ae = AE(ae_title="REQUESTOR")
        if sc.get("nocx"):
            # the acceptor will accept the association but none of the proposed contexts: the requestor aborts
            from pynetdicom.sop_class import CTImageStorage

            cl_ae.add_requested_context(CTImageStorage)
        else:
            cl_ae.add_requested_context(Verification)
        cl_ae.acse_timeout = cl_ae.dimse_timeout = cl_ae.network_timeout = t_o
        assoc = cl_ae.associate(
            "127.0.0.1", port, ae_title="WRONG" if sc["reject"] else "ACCEPTOR", evt_handlers=rec_req.handlers()
        )

        def acc_user():
            if not est.wait(2):
                return
            time.sleep(sc["acc_delay_ms"] / 1000.0)
            a = acc_assoc[0]
            if sc["acc"] == "release":
                a.release()
            elif sc["acc"] == "abort":
                a.abort()

        if not assoc.is_established and not sc["reject"] and not assoc.is_rejected and not sc.get("nocx") and not sc.get("acc_slow_requested"):
            # the scenario is about an established association: with tiny timeouts on a loaded machine the negotiation
            # itself can time out.  Not a verdict on the property - run_many re-runs it alone with longer timeouts.
            res["inconclusive"] = "association not established (not rejected either)"
        th = threading.Thread(target=acc_user, daemon=True)
        th.start()
        echo_status = []
        if assoc.is_established:
            for act in sc["req"]:
                if act == "echo":
                    try:
                        st = assoc.send_c_echo()
                        echo_status.append(getattr(st, "Status", None) if st else None)
                    except RuntimeError:
                        echo_status.append("not-established")
                elif act == "release":
                    assoc.release()
                elif act == "abort":
                    assoc.abort()
                elif act == "idle":
                    pass
        # wait for both sides to end (the idle case ends through the network timeout)
        limit = 3 * t_o + 2.0
        th.join(limit)
        wait_accepted(rec_req, assoc, rec_acc)
        leaks = wait_quiet(before, limit, (rec_req, rec_acc))
        res["wall"] = time.monotonic() - t0
        res["limit"] = limit
        res["thread_errors"] = list(thread_errors)
        res["leaks"] = leaks
        res["echo"] = echo_status
        res["req"] = {"outcome": outcome(assoc), "hist": rec_req.history(assoc), "sock_closed": sock_closed(assoc)}
        if acc_assoc:
            a = acc_assoc[0]
            res["acc"] = {"outcome": outcome(a), "hist": rec_acc.history(a), "sock_closed": sock_closed(a)}
        else:
            # never established on the acceptor side: take the only history recorded there, if any
            hs = list(rec_acc.hist.items())
            a = rec_acc.assocs.get(hs[0][0]) if hs else None
            res["acc"] = {
                "outcome": outcome(a) if a is not None else None,
                "hist": hs[0][1] if hs else [],
                "sock_closed": sock_closed(a) if a is not None else True,
            }
    finally:
        threading.excepthook = old_hook
        if shaker is not None:
            Shaker.uninstall()
        try:
            srv.shutdown()
        except Exception:
            pass
    return res


# --------------------------------------------------------------------------
# parallel execution of scenarios (one process per worker: the hook callback is process-global)
# --------------------------------------------------------------------------
def _worker(args):
    import random

    sc, seed, raising_spec = args
    rng = random.Random(seed)
    raising = None
    if raising_spec is not None:
        raising = make_raising(raising_spec)
    box = {}

    def body():
        try:
            box["res"] = run_scenario(sc, rng, raising=raising, kind=(raising_spec or {}).get("kind", "function"))
        except Exception:  # harness problem: report, never hide
            import traceback

            box["res"] = {"script": sc, "harness_error": traceback.format_exc()[-1500:]}

    # watchdog: a scenario that does not finish is a result ("hang"), never a stuck check
    th = threading.Thread(target=body, daemon=True)
    th.start()
    limit = 5 * sc.get("timeouts", 1.0) + 8.0
    th.join(limit)
    if "res" not in box:
        alive = [f"{type(t).__name__}:{t.name}" for t in pynet_threads() if t.is_alive()]
        return {"script": sc, "hang": True, "limit": limit, "threads": alive}
    return box["res"]


def make_raising(spec):
    """spec = dict(seed=int, p=float, callable_kind='function'|'partial') -> predicate(assoc, evname, n)"""
    seed, p = spec["seed"], spec["p"]

    def pred(assoc, name, n):
        h = hash((seed, name, n)) & 0xFFFF
        return h / 65536.0 < p

    return pred


def died_cause(thread_errors):
    """what killed the provider thread, as part of a failure signature: 'Evt11-Sta8' for an undefined (event, state) pair,
    else the exception type - so that a provider dying for a NEW reason is not mistaken for a recorded race"""
    import re

    for name, msg in thread_errors:
        if name == "DULServiceProvider":
            m = re.search(r"Invalid event 'Evt(\d+)' for the current state 'Sta(\d+)'", msg)
            return f"Evt{m.group(1)}-Sta{m.group(2)}" if m else msg.split(":")[0]
    return None


def load_factor():
    """How much longer than on an idle machine things may take right now: 1 on an idle machine, up to 6.
    Timeouts of scenarios are multiplied by it, so that a check run next to other work (other checks, a test
    suite) judges pynetdicom and not the scheduler."""
    import os

    try:
        per_core = os.getloadavg()[0] / (os.cpu_count() or 1)
    except OSError:
        return 1.0
    return max(1.0, min(6.0, 1.0 + 3.0 * max(0.0, per_core - 0.25)))


def run_many(scenarios, seed, workers=8, raising_specs=None):
    """run scenarios in parallel processes; deterministic per-scenario seeds derived from `seed`.
    The pool is terminated afterwards (a hung scenario leaves spinning non-daemon threads behind)."""
    import multiprocessing as mp

    lf = load_factor()
    if lf > 1.05:
        scenarios = [dict(sc, timeouts=round(sc.get("timeouts", 1.0) * lf, 2)) for sc in scenarios]
        workers = max(2, int(workers / lf))
    jobs = [
        (sc, (seed * 1000003 + i) & 0x7FFFFFFF, None if raising_specs is None else raising_specs[i])
        for i, sc in enumerate(scenarios)
    ]
    ctx = mp.get_context("fork")
    pool = ctx.Pool(processes=workers, maxtasksperchild=40, initializer=no_join_at_exit)
    try:
        results = pool.map(_worker, jobs, chunksize=1)
    finally:
        pool.terminate()
        pool.join()
    # scenarios that could not even establish their association (load): once more, one at a time, 4 x the timeouts.
    # If they still cannot, the result stays marked and the caller reports it (a change that breaks establishment
    # must not go unnoticed).
    again = [i for i, r in enumerate(results) if r.get("inconclusive")]
    if again:
        pool = ctx.Pool(processes=1, maxtasksperchild=1, initializer=no_join_at_exit)
        try:
            for i in again[:40]:
                sc, sd, spec = jobs[i]
                sc2 = dict(sc, timeouts=max(2.0, 4 * sc.get("timeouts", 1.0)))
                r2 = pool.apply(_worker, ((sc2, sd, spec),))
                r2["rerun_of"] = sc
                results[i] = r2
        finally:
            pool.terminate()
            pool.join()
    return results
