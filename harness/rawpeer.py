"""Scripted byte-level peer + independent PS3.8 item walker (shared by C12, C13, C14).

The peer talks to a real pynetdicom acceptor over a loopback TCP socket.  It
builds the A-ASSOCIATE-RQ by encoding a real `A_ASSOCIATE_RQ` PDU from a
primitive and then patches raw bytes (title fields) into it; everything it
*reads* (AC / RJ / ABORT / P-DATA) is parsed by plain struct walking here, never
by pynetdicom's decoder.
"""
from __future__ import annotations

import socket
import struct

VERIFICATION = "1.2.840.10008.1.1"
IMPLICIT_LE = "1.2.840.10008.1.2"


# --------------------------------------------------------------------------
# building requests
# --------------------------------------------------------------------------
def build_rq(called16: bytes, calling16: bytes, contexts=None, user_identity=None, max_pdu=16382, extra_items=()):
    """A-ASSOCIATE-RQ bytes.  `called16`/`calling16` are the RAW 16-byte title fields.

    contexts: list of (abstract, [transfer syntaxes]); ids 1,3,5,…
    user_identity: None or (type, primary, secondary, response_requested)
    """
    from pynetdicom.pdu import A_ASSOCIATE_RQ
    from pynetdicom.pdu_primitives import (
        A_ASSOCIATE,
        ImplementationClassUIDNotification,
        MaximumLengthNotification,
        UserIdentityNegotiation,
    )
    from pynetdicom.presentation import build_context
    from pydicom.uid import UID

    assert len(called16) == 16 and len(calling16) == 16
    prim = A_ASSOCIATE()
    prim.application_context_name = UID("1.2.840.10008.3.1.1.1")
    prim.calling_ae_title = "PLACEHOLDER-CING"
    prim.called_ae_title = "PLACEHOLDER-CLED"
    cxs = []
    for i, (ab, tss) in enumerate(contexts or [(VERIFICATION, [IMPLICIT_LE])]):
        cx = build_context(ab, tss)
        cx.context_id = 2 * i + 1
        cxs.append(cx)
    prim.presentation_context_definition_list = cxs
    ml = MaximumLengthNotification()
    ml.maximum_length_received = max_pdu
    ic = ImplementationClassUIDNotification()
    ic.implementation_class_uid = UID("1.2.826.0.1.3680043.9.3811.9.9.9")
    info = [ml, ic]
    if user_identity is not None:
        t, p, s, rr = user_identity
        ui = UserIdentityNegotiation()
        ui.user_identity_type = t
        ui.primary_field = p
        if t == 2:
            ui.secondary_field = s
        ui.positive_response_requested = bool(rr)
        info.append(ui)
    info.extend(extra_items)
    prim.user_information = info
    pdu = A_ASSOCIATE_RQ()
    pdu.from_primitive(prim)
    b = bytearray(pdu.encode())
    assert b[10:26] == b"PLACEHOLDER-CLED" and b[26:42] == b"PLACEHOLDER-CING"
    b[10:26] = called16
    b[26:42] = calling16
    return bytes(b)


def _el(group, elem, value: bytes) -> bytes:
    return struct.pack("<HHL", group, elem, len(value)) + value


def c_echo_rq(context_id=1, msg_id=1) -> bytes:
    """P-DATA-TF with one PDV holding a complete C-ECHO-RQ command set (hand encoded)."""
    uid = VERIFICATION.encode() + b"\x00"
    body = (
        _el(0, 0x0002, uid)
        + _el(0, 0x0100, struct.pack("<H", 0x0030))
        + _el(0, 0x0110, struct.pack("<H", msg_id))
        + _el(0, 0x0800, struct.pack("<H", 0x0101))
    )
    cmd = _el(0, 0x0000, struct.pack("<L", len(body))) + body
    pdv = struct.pack(">LBB", len(cmd) + 2, context_id, 0x03) + cmd
    return struct.pack(">BBL", 4, 0, len(pdv)) + pdv


RELEASE_RQ = bytes([5, 0, 0, 0, 0, 4, 0, 0, 0, 0])
RELEASE_RP = bytes([6, 0, 0, 0, 0, 4, 0, 0, 0, 0])
ABORT = bytes([7, 0, 0, 0, 0, 4, 0, 0, 0, 0])


# --------------------------------------------------------------------------
# the peer
# --------------------------------------------------------------------------
class RawPeer:
    def __init__(self, addr, timeout=5.0):
        self.sock = socket.create_connection(addr, timeout=timeout)
        self.sock.setsockopt(socket.IPPROTO_TCP, socket.TCP_NODELAY, 1)

    def send(self, b: bytes) -> bool:
        try:
            self.sock.sendall(b)
            return True
        except OSError:
            return False

    def _recvn(self, n):
        buf = bytearray()
        while len(buf) < n:
            try:
                c = self.sock.recv(n - len(buf))
            except socket.timeout:
                return "timeout"
            except OSError:
                return None
            if not c:
                return None
            buf.extend(c)
        return bytes(buf)

    def recv_pdu(self, timeout=None):
        """-> (type, whole pdu bytes) | ("closed", b"") | ("timeout", b"")"""
        if timeout is not None:
            self.sock.settimeout(timeout)
        h = self._recvn(6)
        if h == "timeout":
            return ("timeout", b"")
        if h is None:
            return ("closed", b"")
        t, _, ln = struct.unpack(">BBL", h)
        body = self._recvn(ln)
        if body is None or body == "timeout":
            return ("closed", b"")
        return (t, h + body)

    def close(self):
        try:
            self.sock.close()
        except OSError:
            pass


def classify(reply):
    """Canonical view of the first PDU answered to an A-ASSOCIATE-RQ."""
    t, b = reply
    if t == 2:
        return ["accept"]
    if t == 3:
        return ["reject", b[7], b[8], b[9]]
    if t == 7:
        return ["abort", b[8], b[9]]
    return [str(t)]


# --------------------------------------------------------------------------
# independent item walker (PS3.8 §9.3.2/9.3.3, PS3.7 Annex D.3.3)
# --------------------------------------------------------------------------
class Malformed(Exception):
    pass


def walk_items(b: bytes):
    """[(type, value bytes)] for a run of (type, reserved, u16 length, value) items."""
    out, o = [], 0
    while o < len(b):
        if o + 4 > len(b):
            raise Malformed(f"truncated item header at {o}")
        t, _, ln = struct.unpack(">BBH", b[o : o + 4])
        if o + 4 + ln > len(b):
            raise Malformed(f"item {t:#x} at {o} overruns ({ln})")
        out.append((t, b[o + 4 : o + 4 + ln]))
        o += 4 + ln
    return out


def parse_assoc(b: bytes):
    """Parse an A-ASSOCIATE-RQ (type 1) or -AC (type 2) into a plain tree.

    {type, version, called(16 raw), calling(16 raw), app:[uid bytes…],
     pcs:[{id, result, abstract:[…], transfer:[…], other:[types]}], user:[[(type, value)…]…], other:[types]}
    """
    t, _, ln = struct.unpack(">BBL", b[:6])
    if t not in (1, 2):
        raise Malformed(f"not an associate PDU: {t}")
    if ln != len(b) - 6:
        raise Malformed(f"PDU length {ln} != {len(b) - 6}")
    if len(b) < 74:
        raise Malformed("short fixed part")
    tree = {
        "type": t,
        "version": struct.unpack(">H", b[6:8])[0],
        "called": b[10:26],
        "calling": b[26:42],
        "app": [],
        "pcs": [],
        "user": [],
        "other": [],
    }
    for it, v in walk_items(b[74:]):
        if it == 0x10:
            tree["app"].append(v)
        elif it in (0x20, 0x21):
            if len(v) < 4:
                raise Malformed("short presentation context item")
            pc = {"kind": it, "id": v[0], "result": v[2], "abstract": [], "transfer": [], "other": []}
            for st, sv in walk_items(v[4:]):
                if st == 0x30:
                    pc["abstract"].append(sv)
                elif st == 0x40:
                    pc["transfer"].append(sv)
                else:
                    pc["other"].append(st)
            tree["pcs"].append(pc)
        elif it == 0x50:
            tree["user"].append(walk_items(v))
        else:
            tree["other"].append(it)
    return tree


def quiet():
    """Silence pynetdicom's logging (handler exceptions are logged with tracebacks)."""
    import logging

    from pynetdicom import _config

    _config.LOG_HANDLER_LEVEL = "none"
    lg = logging.getLogger("pynetdicom")
    lg.handlers[:] = [logging.NullHandler()]
    lg.propagate = False
    lg.setLevel(logging.CRITICAL + 1)
