"""C08 — no peer behaviour keeps pynetdicom blocked past its configured timeouts.

(1) correspondence of the blocking-read model: the real `AssociationSocket.recv` over a
    socketpair with a real socket timeout against a peer that sends generated chunks after
    generated delays and then closes or stalls, compared with `Timeouts.recvN` (returned bytes /
    raised / still blocked after the watchdog);
(2) runtime, both roles, tiny configured timeouts: a raw peer completes a generated prefix of a
    protocol phase (nothing / part of the A-ASSOCIATE-RQ or -AC / part of a P-DATA / a whole request
    that is never answered / a release request never answered) and then keeps the connection open
    in silence, or dribbles bytes.  Oracle: every pynetdicom call returned and every association /
    provider thread is dead and the socket closed within `max(timeouts) x 3 + 1.5 s`.
"""
from harness import poolinit as _e2e_exit
import socket
import threading
import time

from translate import timeouts as tr_timeouts

GEN = [tr_timeouts.generate]
T = 0.4  # all configured timeouts in the runtime scenarios


# ---------------------------------------------------------------------------------------------
# (1) blocking-read correspondence
# ---------------------------------------------------------------------------------------------
TICK = 0.03


def recv_case(rng):
    nchunks = rng.choice([0, 1, 2, 3])
    chunks = [[rng.choice([0, 0, 1, 2, 6]), rng.randbytes(rng.choice([1, 2, 3, 6, 10]))] for _ in range(nchunks)]
    tail = rng.choice(["eof", "stall"])
    timeout = rng.choice([None, 4, 4, 4])
    need = rng.choice([1, 3, 6, 6, 12, 20])
    return timeout, tail, chunks, need


def run_recv(timeout, tail, chunks, need, tick=None):
    TICK = tick or globals()["TICK"]
    from pynetdicom import AE
    from pynetdicom.association import Association
    from pynetdicom.transport import AssociationSocket

    a, b = socket.socketpair()
    a.settimeout(None if timeout is None else timeout * TICK)
    assoc = Association(AE(), "acceptor")
    sock = AssociationSocket(assoc, client_socket=a)
    box = {}

    def reader():
        t0 = time.monotonic()
        try:
            box["r"] = ["ok", bytes(sock.recv(need))]
        except (TimeoutError, OSError):
            box["r"] = ["timeout"]
        box["t"] = time.monotonic() - t0

    def writer():
        try:
            for d, data in chunks:
                time.sleep(d * TICK)
                b.sendall(data)
            if tail == "eof":
                b.shutdown(socket.SHUT_WR)
        except OSError:
            pass

    rt = threading.Thread(target=reader, daemon=True)
    wt = threading.Thread(target=writer, daemon=True)
    rt.start()
    wt.start()
    total = sum(d for d, _ in chunks) + (timeout or 0) + 12
    rt.join(total * TICK + 0.5)
    res = box.get("r", ["blocked"])
    try:
        b.close()
        a.close()
    except OSError:
        pass
    rt.join(0.5)
    return res


# ---------------------------------------------------------------------------------------------
# (2) runtime scenarios
# ---------------------------------------------------------------------------------------------
def _bytes():
    from harness.lockstep import _assoc_prim, wire_bytes
    from pynetdicom.pdu import A_ASSOCIATE_RQ

    p = _assoc_prim()
    p.called_ae_title = "ANY-SCP"
    rq = A_ASSOCIATE_RQ(p).encode()
    # a C-ECHO-RQ whose command set is spread over several P-DATA-TF PDUs (peer maximum 30): stopping after some of
    # them is a stall at a PDU boundary in the middle of a DIMSE message
    from pynetdicom.dimse_messages import C_ECHO_RQ
    from pynetdicom.dimse_primitives import C_ECHO
    from pynetdicom.pdu import P_DATA_TF

    c = C_ECHO()
    c.MessageID = 1
    c.AffectedSOPClassUID = "1.2.840.10008.1.1"
    m = C_ECHO_RQ()
    m.primitive_to_message(c)
    frags = [P_DATA_TF(pd).encode() for pd in m.encode_msg(1, 30)]
    return {"rq": rq, "ac": wire_bytes(3, False), "echo_rq": wire_bytes(10, False), "rel_rq": wire_bytes(12, False), "echo_frags": frags}


def acceptor_scenario(phase, cut, dribble):
    """pynetdicom accepts; the raw peer stalls. Returns dict(ended_in, leaks)."""
    from harness import e2e
    from pynetdicom import AE
    from pynetdicom.sop_class import Verification

    e2e.quiet()
    B = _bytes()
    ae = AE()
    ae.add_supported_context(Verification)
    # the timeouts are configured before the server is started or (odd cut offsets) afterwards: what counts is the
    # AE's value when the peer connects, not when the listener was created
    late = cut % 2 == 1
    if not late:
        ae.acse_timeout = ae.dimse_timeout = ae.network_timeout = T
    before = set(e2e.pynet_threads())
    srv = ae.start_server(("127.0.0.1", 0), block=False)
    if late:
        ae.acse_timeout = ae.dimse_timeout = ae.network_timeout = T
    port = srv.socket.getsockname()[1]
    s = socket.create_connection(("127.0.0.1", port))
    s.settimeout(2.0)
    t0 = time.monotonic()
    try:
        def send(data):
            if dribble:
                for i in range(len(data)):
                    s.sendall(data[i : i + 1])
                    time.sleep(dribble)
            else:
                s.sendall(data)

        if phase == "connect":
            pass
        elif phase == "rq":
            send(B["rq"][:cut])
        else:
            s.sendall(B["rq"])
            s.recv(4096)  # A-ASSOCIATE-AC
            if phase == "pdata":
                send(B["echo_rq"][:cut])
            elif phase == "msg":
                for pdu in B["echo_frags"][:cut]:
                    s.sendall(pdu)
            elif phase == "release":
                send(B["rel_rq"][:cut])
            elif phase == "idle":
                pass
            elif phase == "abort-dribble":
                # a request on a context that was never negotiated makes pynetdicom abort (AA-1, Sta13); the peer ignores
                # the A-ABORT, keeps the connection open and keeps an unfinished PDU on the wire, one byte every 20 ms:
                # in Sta13 only the ARTIM timer (the ACSE timeout) bounds this
                from harness import rawpeer

                s.sendall(rawpeer.c_echo_rq(3, 1))
                stop = time.monotonic() + 3 * T + 1.5
                junk = B["echo_frags"][0]
                t_sent = time.monotonic()
                alive = True
                # two bytes at a time at ODD offsets of an even-length unit: the last byte of every PDU travels with the
                # first byte of the next one, so the reader is never between two PDUs
                unit = junk if len(junk) % 2 == 0 else junk + junk
                try:
                    s.sendall(unit[:1])
                except OSError:
                    alive = False
                pos = 1
                while time.monotonic() < stop and alive:
                    two = (unit + unit)[pos : pos + 2]
                    pos = (pos + 2) % len(unit)
                    try:
                        s.sendall(two)
                    except OSError:
                        alive = False
                        break
                    time.sleep(0.02)
                    if not [t for t in e2e.pynet_threads() if t not in before and t.is_alive()]:
                        alive = False
                # still there when the bound has passed, although the peer never stopped: that is the violation (once the
                # peer stops, the read timeout ends it quickly - which would hide it)
                leaks = [f"{type(t).__name__}:{t.name}" for t in e2e.pynet_threads() if t not in before and t.is_alive()] if alive else []
                e2e.wait_quiet(before, 1.0)
                return {"took": time.monotonic() - t_sent, "leaks": leaks, "role": "acceptor"}
        t_sent = time.monotonic()
        leaks = e2e.wait_quiet(before, 3 * T + 1.5)
        return {"took": time.monotonic() - t_sent, "leaks": leaks, "role": "acceptor"}
    finally:
        try:
            s.close()
        except OSError:
            pass
        srv.shutdown()


def requestor_scenario(phase, cut):
    """pynetdicom requests; the raw server peer stalls."""
    from harness import e2e
    from pynetdicom import AE
    from pynetdicom.sop_class import Verification

    e2e.quiet()
    B = _bytes()
    lst = socket.socket()
    lst.bind(("127.0.0.1", 0))
    lst.listen(1)
    port = lst.getsockname()[1]
    conn = {}

    def peer():
        c, _ = lst.accept()
        conn["c"] = c
        c.settimeout(3.0)
        try:
            c.recv(4096)  # A-ASSOCIATE-RQ
            if phase == "silent":
                return
            if phase == "ac":
                c.sendall(B["ac"][:cut])
                return
            c.sendall(B["ac"])
            data = c.recv(4096)  # C-ECHO-RQ or A-RELEASE-RQ
            if phase == "echo-partial":
                # a P-DATA-TF header announcing more than is sent
                c.sendall(B["echo_rq"][:cut])
        except OSError:
            pass

    th = threading.Thread(target=peer, daemon=True)
    th.start()
    before = set(e2e.pynet_threads())
    ae = AE()
    ae.add_requested_context(Verification)
    ae.acse_timeout = ae.dimse_timeout = ae.network_timeout = ae.connection_timeout = T
    t0 = time.monotonic()
    out = {"role": "requestor"}
    try:
        assoc = ae.associate("127.0.0.1", port)
        out["associate_took"] = time.monotonic() - t0
        if assoc.is_established:
            t1 = time.monotonic()
            if phase in ("echo-silent", "echo-partial"):
                assoc.send_c_echo()
            elif phase == "release-silent":
                assoc.release()
            out["call_took"] = time.monotonic() - t1
        out["leaks"] = e2e.wait_quiet(before, 3 * T + 1.5)
        out["took"] = time.monotonic() - t0
        return out
    finally:
        for c in (conn.get("c"), lst):
            try:
                if c is not None:
                    c.close()
            except OSError:
                pass


def after_op_scenario(op, exhaust):
    """pynetdicom requests, completes one DIMSE operation (for the generator calls: iterating to the end, or stopping
    at the final response as user code commonly does) and then does nothing; the peer (a pynetdicom acceptor without
    network timeout) stays silent with the connection open.  The requestor's own network timeout must end it."""
    from harness import e2e
    from pydicom.dataset import Dataset
    from pynetdicom import AE, evt
    from pynetdicom.sop_class import (
        CTImageStorage, PatientRootQueryRetrieveInformationModelFind, PatientRootQueryRetrieveInformationModelGet,
        PatientRootQueryRetrieveInformationModelMove, Verification,
    )

    e2e.quiet()
    FIND, GET, MOVE = (PatientRootQueryRetrieveInformationModelFind, PatientRootQueryRetrieveInformationModelGet,
                       PatientRootQueryRetrieveInformationModelMove)

    def on_find(event):
        ds = Dataset()
        ds.QueryRetrieveLevel = "PATIENT"
        ds.PatientID = "1"
        yield 0xFF00, ds

    def on_get(event):
        yield 0

    def on_move(event):
        yield ("127.0.0.1", 1)
        yield 0

    srv_ae = AE(ae_title="SILENT")
    for cx in (Verification, FIND, GET, MOVE, CTImageStorage):
        srv_ae.add_supported_context(cx)
    srv_ae.acse_timeout = srv_ae.dimse_timeout = 10
    srv_ae.network_timeout = None
    srv = srv_ae.start_server(("127.0.0.1", 0), block=False, evt_handlers=[
        (evt.EVT_C_ECHO, lambda e: 0), (evt.EVT_C_FIND, on_find), (evt.EVT_C_GET, on_get), (evt.EVT_C_MOVE, on_move)])
    ae = AE()
    for cx in (Verification, FIND, GET, MOVE):
        ae.add_requested_context(cx)
    ae.acse_timeout = ae.dimse_timeout = ae.network_timeout = ae.connection_timeout = T
    out = {"role": "requestor"}
    t0 = time.monotonic()
    try:
        assoc = ae.associate("127.0.0.1", srv.socket.getsockname()[1])
        out["associate_took"] = time.monotonic() - t0
        if not assoc.is_established:
            return {"harness_error": "association with the silent acceptor not established"}
        q = Dataset()
        q.QueryRetrieveLevel = "PATIENT"
        q.PatientID = "*"
        t1 = time.monotonic()
        if op == "echo":
            assoc.send_c_echo()
        else:
            gen = {"find": lambda: assoc.send_c_find(q, FIND), "get": lambda: assoc.send_c_get(q, GET),
                   "move": lambda: assoc.send_c_move(q, "DEST", MOVE)}[op]()
            seen = []
            for status, _ in gen:
                seen.append(getattr(status, "Status", None) if status else None)
                if not exhaust and seen[-1] is not None and seen[-1] not in (0xFF00, 0xFF01):
                    break  # stop at the final response, generator not exhausted
            out["statuses"] = seen
        out["call_took"] = time.monotonic() - t1
        # now nothing: the silent peer keeps the connection open
        limit = time.monotonic() + 3 * T + 1.5
        while time.monotonic() < limit and (assoc.is_alive() or assoc.dul.is_alive()):
            time.sleep(0.02)
        out["leaks"] = [n for n, alive in (("Association", assoc.is_alive()), ("DULServiceProvider", assoc.dul.is_alive())) if alive]
        out["ended"] = [assoc.is_aborted, assoc.is_released]
        out["took"] = time.monotonic() - t0
        return out
    finally:
        try:
            srv.shutdown()
        except Exception:
            pass


def side_request_scenario(op, at):
    """The peer sends an N-EVENT-REPORT request in the middle of its own C-GET (while answering sub-operation `at` of 3;
    `op` = "get") or C-FIND (`op` = "find": before the second of 3 matches is due).  pynetdicom serves that request in
    a thread of its own; the operation the reactor is serving must go on: every sub-operation, the final response, the
    release, and every thread dead afterwards."""
    from io import BytesIO

    from harness import e2e
    from pydicom.dataset import Dataset, FileMetaDataset
    from pydicom.uid import ImplicitVRLittleEndian
    from pynetdicom import AE, build_role, evt
    from pynetdicom.dimse_primitives import N_EVENT_REPORT
    from pynetdicom.dsutils import encode
    from pynetdicom.sop_class import (
        CTImageStorage as CT, PatientRootQueryRetrieveInformationModelGet as GET, StorageCommitmentPushModel as SC,
    )

    e2e.quiet()
    N = 3
    reports, stores = [], []

    def inst(i):
        ds = Dataset()
        ds.SOPClassUID, ds.SOPInstanceUID, ds.PatientName = CT, f"1.2.3.{i}", "X"
        ds.file_meta = FileMetaDataset()
        ds.file_meta.TransferSyntaxUID = ImplicitVRLittleEndian
        return ds

    def on_get(event):
        yield N
        for i in range(N):
            yield 0xFF00, inst(i)

    def on_report(event):
        reports.append(event.request.MessageID)
        return 0x0000, None

    srv_ae = AE(ae_title="SERVED")
    srv_ae.add_supported_context(GET)
    srv_ae.add_supported_context(CT, scu_role=True, scp_role=True)
    srv_ae.add_supported_context(SC)
    srv_ae.acse_timeout = srv_ae.dimse_timeout = srv_ae.network_timeout = 4 * T
    srv = srv_ae.start_server(("127.0.0.1", 0), block=False,
                              evt_handlers=[(evt.EVT_C_GET, on_get), (evt.EVT_N_EVENT_REPORT, on_report)])

    def on_store(event):
        stores.append(1)
        if len(stores) == at:
            a = event.assoc
            req = N_EVENT_REPORT()
            req.MessageID = 4242
            req.AffectedSOPClassUID = SC
            req.AffectedSOPInstanceUID = "1.2.840.10008.1.20.1.1"
            req.EventTypeID = 1
            info = Dataset()
            info.TransactionUID = "1.2.3"
            req.EventInformation = BytesIO(encode(info, True, True))
            cx = next(c for c in a.accepted_contexts if c.abstract_syntax == SC)
            a.dimse.send_msg(req, cx.context_id)
            # this thread is the only reader of the requestor's message queue (its reactor is paused by send_c_get)
            _, rsp = a.dimse.get_msg(block=True)
            if type(rsp).__name__ != "N_EVENT_REPORT":
                stores.append(f"unexpected {rsp!r}")
            time.sleep(0.05)  # let the serving thread run to its end before the sub-operation is answered
        return 0x0000

    ae = AE()
    ae.add_requested_context(GET)
    ae.add_requested_context(CT)
    ae.add_requested_context(SC)
    ae.acse_timeout = ae.dimse_timeout = ae.network_timeout = 4 * T
    out = {"role": "acceptor"}
    t0 = time.monotonic()
    try:
        assoc = ae.associate("127.0.0.1", srv.socket.getsockname()[1], ext_neg=[build_role(CT, scp_role=True)],
                             evt_handlers=[(evt.EVT_C_STORE, on_store)])
        if not assoc.is_established:
            return {"harness_error": "association not established"}
        served = list(srv.active_associations)
        q = Dataset()
        q.QueryRetrieveLevel, q.PatientID = "PATIENT", "*"
        t1 = time.monotonic()
        out["statuses"] = [getattr(st, "Status", None) if st else None for st, _ in assoc.send_c_get(q, GET)]
        out["call_took"] = time.monotonic() - t1
        out["stores"], out["reports"] = list(stores), len(reports)
        if assoc.is_established:
            assoc.release()
        limit = time.monotonic() + 3 * 4 * T + 1.5
        threads = served + [a.dul for a in served]
        while time.monotonic() < limit and any(t.is_alive() for t in threads):
            time.sleep(0.02)
        out["leaks"] = [type(t).__name__ for t in threads if t.is_alive()]
        out["took"] = time.monotonic() - t0
        return out
    finally:
        try:
            srv.shutdown()
        except Exception:
            pass


def tls_scenario(kind):
    """pynetdicom accepts TLS connections; a raw TCP peer connects and then stalls before / part-way through the TLS
    handshake (which `AssociationServer.get_request` performs on the server's accept thread).
    kind: "silent" | "partial-record".  Oracle inputs: did the server drop the stalled connection, could a well-behaved
    TLS client associate afterwards, did `shutdown()` return - all within the bound."""
    import os
    import ssl

    from harness import common, e2e
    from pynetdicom import AE
    from pynetdicom.sop_class import Verification

    e2e.quiet()
    certs = os.path.join(common.REPO, "pynetdicom", "tests", "cert_files")
    sctx = ssl.SSLContext(ssl.PROTOCOL_TLS_SERVER)
    sctx.load_cert_chain(os.path.join(certs, "server.crt"), os.path.join(certs, "server.key"))
    ae = AE()
    ae.add_supported_context(Verification)
    ae.acse_timeout = ae.dimse_timeout = ae.network_timeout = T
    srv = ae.start_server(("127.0.0.1", 0), block=False, ssl_context=sctx)
    port = srv.socket.getsockname()[1]
    bound = 3 * T + 1.5
    out = {"role": "acceptor-tls"}
    s = socket.create_connection(("127.0.0.1", port))
    done = threading.Event()
    try:
        if kind == "partial-record":
            s.sendall(b"\x16\x03\x01\x02")  # the first 4 bytes of a TLS handshake record header
        t0 = time.monotonic()
        s.settimeout(bound)
        try:
            out["stalled_conn_dropped"] = s.recv(16) == b""
        except socket.timeout:
            out["stalled_conn_dropped"] = False
        except OSError:
            out["stalled_conn_dropped"] = True  # reset
        out["drop_took"] = time.monotonic() - t0
        # a well-behaved TLS client must be served
        cctx = ssl.SSLContext(ssl.PROTOCOL_TLS_CLIENT)
        cctx.check_hostname = False
        cctx.verify_mode = ssl.CERT_NONE
        box = {}

        def good():
            cl = AE()
            cl.add_requested_context(Verification)
            cl.acse_timeout = cl.dimse_timeout = cl.network_timeout = cl.connection_timeout = 2.0
            a = cl.associate("127.0.0.1", port, tls_args=(cctx, None))
            box["established"] = a.is_established
            if a.is_established:
                a.release()

        th = threading.Thread(target=good, daemon=True)
        t1 = time.monotonic()
        th.start()
        th.join(bound + 3.0)
        out["good_client_served"] = bool(box.get("established"))
        out["good_client_took"] = time.monotonic() - t1
    finally:
        try:
            s.close()
        except OSError:
            pass
        st = threading.Thread(target=lambda: (srv.shutdown(), done.set()), daemon=True)
        st.start()
        out["shutdown_returned"] = done.wait(bound + 1.0)
    return out


def _job(args):
    box = {}

    def body():
        try:
            if args[0] == "tls":
                box["r"] = tls_scenario(args[1])
            elif args[0] == "acc":
                box["r"] = acceptor_scenario(*args[1:])
            elif args[0] == "after":
                box["r"] = after_op_scenario(*args[1:])
            elif args[0] == "side":
                box["r"] = side_request_scenario(*args[1:])
            else:
                box["r"] = requestor_scenario(*args[1:])
        except Exception:
            import traceback

            box["r"] = {"harness_error": traceback.format_exc()[-1200:]}

    th = threading.Thread(target=body, daemon=True)
    th.start()
    th.join(12 * T + 10)
    return box.get("r", {"hang": True})


def scenarios(ctx):
    B = _bytes()
    sc = [("acc", "connect", 0, 0), ("acc", "idle", 0, 0)]
    rq_cuts = [1, 5, 6, 7, 30, 74, len(B["rq"]) - 1]
    pd_cuts = [1, 5, 6, 7, 12, len(B["echo_rq"]) - 1]
    if not ctx.quick:
        rq_cuts = list(range(1, len(B["rq"]), 3))
        pd_cuts = list(range(1, len(B["echo_rq"])))
    sc += [("acc", "rq", c, 0) for c in rq_cuts]
    sc += [("acc", "pdata", c, 0) for c in pd_cuts]
    sc += [("acc", "release", c, 0) for c in (1, 5, 9)]
    nfr = len(B["echo_frags"])
    sc += [("acc", "msg", c, 0) for c in ((1, nfr - 1) if ctx.quick else range(1, nfr))]
    sc += [("acc", "pdata", len(B["echo_rq"]) - 1, 0.05), ("acc", "rq", 40, 0.05)]  # dribble: 1 byte / 50 ms
    sc += [("acc", "abort-dribble", 0, 0), ("acc", "abort-dribble", 1, 0)]
    sc += [("tls", "silent"), ("tls", "partial-record")]
    sc += [("req", "silent", 0), ("req", "echo-silent", 0), ("req", "release-silent", 0)]
    ac_cuts = [1, 6, 7, 40, len(B["ac"]) - 1] if ctx.quick else list(range(1, len(B["ac"]), 3))
    sc += [("req", "ac", c) for c in ac_cuts]
    sc += [("req", "echo-partial", c) for c in ((1, 6, 7, 20) if ctx.quick else range(1, len(B["echo_rq"]), 2))]
    # the operation completes, the user does nothing more, the peer stays silent: the idle timeout must end it
    sc += [("after", "echo", True)] + [("after", op, ex) for op in ("find", "get", "move") for ex in (True, False)]
    # the peer has a request of another kind served (in a thread of its own) in the middle of its own C-GET
    sc += [("side", "get", 1), ("side", "get", 2)]
    return sc


def run(ctx):
    import multiprocessing as mp

    ctx.rule = (
        "blocking-read model: generated chunk/delay/tail/timeout/need tuples on a real socketpair; runtime: protocol phase x "
        "cut offset x role, peer then silent with the connection open (plus two dribble scenarios); non-trivial = the peer "
        "stalls part-way through a PDU"
    )
    ctx.assumptions.append(f"real time is observed with a margin (all timeouts {T} s; bound 3 x timeout + 1.5 s); the socket model's tick is {TICK} s")
    # (1)
    cases = [recv_case(ctx.rng) for _ in range(ctx.n(40, 600))]
    model = ctx.lean([["recv.timeout", t if t is not None else "none", tail, [[d, b] for d, b in ch], need] for t, tail, ch, need in cases])
    for (t, tail, ch, need), m in zip(cases, model):
        real = run_recv(t, tail, ch, need)
        case = ["recv", t if t is not None else "none", tail, [[d, b] for d, b in ch], need]
        ctx.case(case, nontrivial=tail == "stall", kind=f"recv:{tail}:{'timeout' if t else 'blocking'}")
        mm = ["ok", m[1]] if isinstance(m, list) and m[0] == "ok" else (["timeout"] if isinstance(m, list) else ["blocked"])
        # delays equal to the timeout are on the boundary of the tick model: skip the comparison there
        boundary = t is not None and any(abs(d - t) <= 1 for d, _ in ch)
        if real != mm and not boundary:
            # the model counts ticks, the run is real time: on a loaded machine a 30 ms tick can slip.  Repeat the
            # case with a 4 x longer tick before calling it a disagreement.
            for _ in range(2):
                real = run_recv(t, tail, ch, need, tick=4 * TICK)
                if real == mm:
                    break
            if real != mm:
                ctx.diff(case, real, mm)
        if t is not None and real == ["blocked"]:
            ctx.fail("recv-with-timeout-blocked", f"recv({need}) with timeout still blocked: {case}", case)
    # (2)
    jobs = scenarios(ctx)
    pool = mp.get_context("fork").Pool(processes=12, maxtasksperchild=8, initializer=_e2e_exit.no_join_at_exit)
    try:
        results = pool.map(_job, jobs, chunksize=1)
    finally:
        pool.terminate()
        pool.join()
    bound = 3 * T + 1.5

    def suspicious(job, r):
        if "harness_error" in r or r.get("hang") or r.get("leaks"):
            return True
        if job[0] == "tls":
            return not (r.get("stalled_conn_dropped") and r.get("good_client_served") and r.get("shutdown_returned"))
        return any(r.get(k, 0) > bound for k in ("associate_took", "call_took"))

    # a stall that really blocks pynetdicom does so every time; a bound missed because 12 scenarios (or other
    # processes) competed for the CPU does not: scenarios that look bad are run once more, alone
    redo = [i for i, (job, r) in enumerate(zip(jobs, results)) if suspicious(job, r)]
    if redo:
        pool = mp.get_context("fork").Pool(processes=1, maxtasksperchild=1, initializer=_e2e_exit.no_join_at_exit)
        try:
            for i in redo[:30]:
                results[i] = pool.apply(_job, (jobs[i],))
        finally:
            pool.terminate()
            pool.join()
        ctx.extra["scenarios_rerun_alone"] = len(redo)
    for job, r in zip(jobs, results):
        case = ["stall", *job]
        if job[0] == "tls":
            ctx.case(case, nontrivial=True, kind=f"tls-handshake:{job[1]}")
            if "harness_error" in r or r.get("hang"):
                ctx.diff(case, r, "n/a", "scenario harness failed")
            elif not (r["stalled_conn_dropped"] and r["good_client_served"] and r["shutdown_returned"]):
                ctx.fail(
                    f"blocked-past-timeouts:acceptor:tls-handshake:{job[1]}",
                    f"TLS server, peer stalls in the handshake ({job[1]}): stalled connection dropped={r['stalled_conn_dropped']} "
                    f"(after {r['drop_took']:.1f} s), well-behaved client served={r['good_client_served']}, shutdown() returned={r['shutdown_returned']} "
                    f"(bound {bound:.1f} s)", case)
            continue
        dribble = job[0] == "acc" and job[3] > 0
        ctx.case(case, nontrivial=job[0] == "after" or job[1] in ("rq", "pdata", "msg", "release", "ac", "echo-partial", "abort-dribble"),
                 kind=f"{job[0]}:{job[1]}" + (":dribble" if dribble else "") + ((":exhausted" if job[2] else ":stopped-at-final") if job[0] == "after" else ""))
        if "harness_error" in r:
            ctx.diff(case, r["harness_error"], "n/a", "scenario harness failed")
            continue
        if r.get("hang"):
            ctx.fail(f"blocked-past-timeouts:{job[0]}:{job[1]}" + (":dribble" if dribble else ""), f"{job}: pynetdicom call did not return / threads never ended", case)
            continue
        if job[0] == "side" and (r.get("statuses", [None])[-1] != 0x0000 or r.get("stores") != [1, 1, 1] or r.get("reports") != 1):
            ctx.fail("operation-stalled-by-a-request-served-meanwhile",
                     f"{job}: N-EVENT-REPORT request served during sub-operation {job[2]} of a 3-instance C-GET: statuses "
                     f"{r.get('statuses')}, sub-operations answered {r.get('stores')}, reports served {r.get('reports')}, "
                     f"threads still alive afterwards {r.get('leaks')}", case)
        if r.get("leaks"):
            ctx.fail(
                f"blocked-past-timeouts:{job[0]}:{job[1]}" + (":dribble" if dribble else ""),
                f"{job}: threads {r['leaks']} still alive {bound:.1f} s after the peer went silent",
                case,
            )
        for k in ("associate_took", "call_took"):
            if r.get(k, 0) > bound:
                ctx.fail(f"call-blocked-past-timeouts:{job[0]}:{job[1]}", f"{job}: {k} = {r[k]:.2f} s > {bound:.1f} s", case)


def replay(ctx, case):
    c = case["case"]
    if c[0] == "stall":
        r = _job(tuple(c[1:]))
        print(r)
        return 1 if r.get("hang") or r.get("leaks") else 0
    print(run_recv(None if c[1] == "none" else c[1], c[2], [(d, bytes.fromhex(b[1:]) if isinstance(b, str) else b) for d, b in c[3]], c[4]))
    return 0
