"""C18 — outgoing messages use an accepted context compatible with their content.

Four ties between `Model/Ctx.lean` and the real code, each with the property's own
clauses evaluated on what the implementation did:

 A  `Association._get_valid_context` on generated accepted sets / queries
    (result id or ValueError) vs `getValidContext`;
 B  every `send_*` method in-process (real Association, recording `dimse.send_msg`):
    context id handed to the DIMSE provider vs `sendCtx`; transfer syntax actually
    queried by `send_c_store` vs `storeEffTs`; data set decodable in the chosen
    context's syntax;
 C  `_c_store_scp` in-process for context ids 0..255 vs `cStoreScp` (on which id
    the C-STORE response travels);
 D  loopback associations with an EVT_PDU_SENT wire tap: context id of every PDV
    the requestor sends, for every `send_*`, C-STORE sub-operation responses
    during C-GET included.
"""
from __future__ import annotations

import time
from io import BytesIO

from harness import ctxlib as L

INST = "1.2.826.0.1.3680043.9.7777.100.3"
UPS_OTHER = (L.UPS_WATCH, L.UPS_PULL, L.UPS_EVENT, L.UPS_QUERY)
SIG_HARDCODED = "c-store-scp:refusal-on-hardcoded-context-1"
SIG_CANCEL = "send_c_cancel:context-id-not-validated"


# ---------------------------------------------------------------------------
# the property's clauses, on real objects only
# ---------------------------------------------------------------------------
def ab_ok(ab, cx):
    return str(cx.abstract_syntax) == str(ab) or (str(ab) == L.UPS_PUSH and str(cx.abstract_syntax) in UPS_OTHER)


def role_ok(role, cx):
    return (role != "scu" or cx.as_scu is True) and (role != "scp" or cx.as_scp is True)


def ts_ok(ts, cx, conv):
    """equal, or conversion allowed between known uncompressed syntaxes of one byte order"""
    if not ts:
        return True
    a, b = L.ts_term(ts), L.ts_term(cx.transfer_syntax[0])
    if a[0] == b[0]:
        return True
    return bool(conv and a[1] and b[1] and not a[2] and not b[2] and a[3] == b[3])


def clauses(accepted, cx, ab, ts, role, conv):
    """list of violated clause names for a context the implementation chose"""
    bad = []
    if not any(cx is c for c in accepted.values()):
        bad.append("not-accepted")
    if not ab_ok(ab, cx):
        bad.append("abstract-syntax")
    if not role_ok(role, cx):
        bad.append("role")
    if not ts_ok(ts, cx, conv):
        bad.append("transfer-syntax")
    return bad


# ---------------------------------------------------------------------------
# A. _get_valid_context
# ---------------------------------------------------------------------------
def gen_query(rng):
    style = rng.choice(["storage", "storage", "storage", "ups", "ups", "mixed"])
    if style == "storage":
        abs_pool = rng.sample([L.CT, L.MR, L.SC], rng.choice([1, 2, 2, 3]))
    elif style == "ups":
        abs_pool = rng.sample([L.UPS_PUSH, L.UPS_WATCH, L.UPS_PULL, L.UPS_EVENT, L.UPS_QUERY, L.CT],
                              rng.choice([2, 3, 4]))
    else:
        abs_pool = rng.sample(list(L.AB_CODE), 3)
    r = rng.random()
    ts_pool = L.TS_PUBLIC if r < 0.6 else L.TS_UNCOMPRESSED if r < 0.8 else L.TS_POOL
    ts_pool = rng.sample(ts_pool, min(len(ts_pool), rng.choice([2, 3, 4, 9])))
    acc = L.gen_accepted(rng, abs_pool, ts_pool)
    ab = rng.choice(abs_pool) if rng.random() < 0.88 else rng.choice(list(L.AB_CODE))
    if style == "ups" and rng.random() < 0.5:
        ab = L.UPS_PUSH
    ts = "" if rng.random() < 0.3 else rng.choice(ts_pool) if rng.random() < 0.85 else rng.choice(L.TS_POOL)
    role = rng.choice(["scu", "scu", "scp", None])
    target = rng.choice(list(acc.values())) if acc and rng.random() < 0.75 else None
    if target is not None:
        # mostly satisfiable queries: aim at one accepted context (others may still win)
        if not (style == "ups" and ab == L.UPS_PUSH and rng.random() < 0.6):
            ab = str(target.abstract_syntax)
        roles = [r for r, f in (("scu", target.as_scu), ("scp", target.as_scp)) if f is True] + [None]
        role = rng.choice(roles)
        r = rng.random()
        tts = str(target.transfer_syntax[0])
        if r < 0.2:
            ts = ""
        elif r < 0.45:
            ts = tts
        elif r < 0.85:
            ts = rng.choice(L.TS_UNCOMPRESSED if tts in L.TS_UNCOMPRESSED else ts_pool)
    r = rng.random()
    if r < 0.55 or (r < 0.8 and not acc):
        cid = None
    elif r < 0.8:
        cid = target.context_id if target is not None and rng.random() < 0.8 else rng.choice(list(acc))
    else:
        cid = rng.choice([k for k in range(0, 257) if k not in acc])
    return {"acc": L.case_of_acc(acc), "ab": ab, "ts": ts, "role": role, "cid": cid, "conv": rng.random() < 0.75}, acc


def call_gvc(assoc, acc, q):
    assoc._accepted_cx = acc
    try:
        return assoc._get_valid_context(q["ab"], L.ts_uid(q["ts"]) if q["ts"] else "", q["role"],
                                        context_id=q["cid"], allow_conversion=q["conv"])
    except ValueError:
        return None


def gvc_request(acc, q):
    return ["ctx", L.acc_term(acc), L.AB_CODE[q["ab"]], L.ts_term(q["ts"]), q["role"], q["cid"], q["conv"]]


def layer_gvc(ctx, n, diff=True):
    assoc, _ = L.make_assoc()
    cases, reqs, outs = [], [], []
    for _ in range(n):
        q, acc = gen_query(ctx.rng)
        cx = call_gvc(assoc, acc, q)
        cases.append((q, acc, cx))
        reqs.append(gvc_request(acc, q))
    model = ctx.lean(reqs) if diff else [None] * n
    for (q, acc, cx), m in zip(cases, model):
        real = None if cx is None else cx.context_id
        same_ab = sum(1 for c in acc.values() if str(c.abstract_syntax) == q["ab"])
        if cx is None:
            kind = "none"
        elif str(cx.abstract_syntax) != q["ab"]:
            kind = "ups-substitute"
        elif not q["ts"]:
            kind = "first-by-id"
        elif str(cx.transfer_syntax[0]) == q["ts"]:
            kind = "exact"
        else:
            kind = "converted"
        ctx.case(["gvc", q], nontrivial=len(acc) >= 2 and same_ab >= 1,
                 kind=f"gvc:{'cid' if q['cid'] is not None else 'nocid'}:{kind}")
        if cx is not None:
            bad = clauses(acc, cx, q["ab"], q["ts"], q["role"], q["conv"])
            if bad:
                ctx.fail("get_valid_context:" + "+".join(bad),
                         f"_get_valid_context returned context {real} violating {bad} for {q}", ["gvc", q])
        if diff and (m == "none" and real is not None or m != "none" and m != real):
            ctx.diff(["gvc", q], real, m)


# ---------------------------------------------------------------------------
# B. the send_* methods in-process
# ---------------------------------------------------------------------------
N_OPS = ["nEventReport", "nGet", "nSet", "nAction", "nCreate", "nDelete"]
N_CLASSES = [L.MPPS, L.PRINT_JOB, L.FILM_SESSION, L.STORAGE_COMMIT, L.UPS_PUSH, L.UPS_WATCH, L.UPS_PULL]
Q_CLASSES = [L.PR_FIND, L.PR_GET, L.PR_MOVE, L.SR_FIND, L.MWL_FIND, L.UPS_PUSH, L.UPS_QUERY]


def gen_send(rng):
    kind = rng.choice(["cStore"] * 6 + ["cEcho", "cFind", "cGet", "cMove", "cCancelModel", "cCancelId"] + N_OPS)
    op = {"op": kind}
    ts_pool = L.TS_PUBLIC
    if kind == "cStore":
        abs_pool = rng.sample([L.CT, L.MR, L.SC], rng.choice([1, 2, 3]))
        op["cls"] = rng.choice(abs_pool)
        r = rng.random()
        ts_pool = L.TS_PUBLIC if r < 0.7 else L.TS_UNCOMPRESSED if r < 0.8 else L.TS_POOL
        op["ts"] = rng.choice(ts_pool)
        op["chunked"] = rng.random() < 0.25
        op["enc"] = None
        if not op["chunked"] and rng.random() < 0.25:
            op["enc"] = [rng.choice([True, False, None]), rng.choice([True, False, None])]
            op["enc_via"] = rng.choice(["original", "original", "flags"])
    elif kind == "cEcho":
        abs_pool = [L.VERIFICATION, L.CT]
    elif kind in ("cFind", "cGet", "cMove", "cCancelModel"):
        abs_pool = rng.sample(Q_CLASSES, 3)
        op["cls"] = rng.choice(abs_pool)
    elif kind == "cCancelId":
        abs_pool = rng.sample(Q_CLASSES, 2)
    else:
        abs_pool = rng.sample(N_CLASSES + [L.GRAY_PRINT_META], 3)
        op["cls"] = rng.choice(abs_pool)
        op["meta"] = rng.choice(abs_pool) if rng.random() < 0.25 else None
    acc = L.gen_accepted(rng, abs_pool, ts_pool)
    if kind == "cStore" and acc and rng.random() < 0.7:
        t = rng.choice(list(acc.values()))
        op["cls"] = str(t.abstract_syntax)
        tts = str(t.transfer_syntax[0])
        if rng.random() < 0.5:
            op["ts"] = tts if rng.random() < 0.5 or tts not in L.TS_UNCOMPRESSED else rng.choice(L.TS_UNCOMPRESSED)
    if kind == "cCancelId":
        op["cid"] = rng.choice(list(acc)) if acc and rng.random() < 0.5 else rng.randrange(0, 256)
    op["acc"] = L.case_of_acc(acc)
    return op, acc


def op_query(op):
    """(abstract syntax, transfer syntax, role, allow_conversion) the documented API
    of the method implies — used by the oracle, not taken from the model"""
    k = op["op"]
    if k == "cEcho":
        return L.VERIFICATION, "", "scu", True
    if k == "cStore":
        return op["cls"], op.get("eff_ts", op["ts"]), "scu", not op["chunked"]
    if k == "cCancelId":
        return None
    if k in N_OPS:
        return op.get("meta") or op["cls"], "", None if k == "nEventReport" else "scu", True
    return op["cls"], "", "scu", True


def op_term(op):
    k = op["op"]
    if k == "cEcho":
        return ["cEcho"]
    if k == "cStore":
        ts = L.UID(op["ts"]) if op["chunked"] else L.ts_uid(op["ts"])   # a UID read from a file has no private encoding
        if op.get("eff_ts"):
            ts = L.ts_uid(op["eff_ts"])
        return ["cStore", L.AB_CODE[op["cls"]], L.ts_term(ts), op["chunked"]]
    if k == "cCancelId":
        return ["cCancelId", op["cid"]]
    if k in N_OPS:
        return [k, L.AB_CODE[op.get("meta") or op["cls"]]]
    return [k, L.AB_CODE[op["cls"]]]


def run_op(assoc, op):
    """execute the real method; consume its responses"""
    from pynetdicom import _config

    k = op["op"]
    ds = L.small_ds()
    if k == "cEcho":
        return assoc.send_c_echo()
    if k == "cFind":
        return list(assoc.send_c_find(ds, op["cls"]))
    if k == "cGet":
        return list(assoc.send_c_get(ds, op["cls"]))
    if k == "cMove":
        return list(assoc.send_c_move(ds, "DEST", op["cls"]))
    if k == "cCancelModel":
        return assoc.send_c_cancel(1, query_model=op["cls"])
    if k == "cCancelId":
        return assoc.send_c_cancel(1, context_id=op["cid"])
    if k == "cStore":
        old = _config.STORE_SEND_CHUNKED_DATASET
        try:
            if op["chunked"]:
                _config.STORE_SEND_CHUNKED_DATASET = True
                return assoc.send_c_store(L.store_file(op["cls"], op["ts"]))
            _config.STORE_SEND_CHUNKED_DATASET = False
            sds = L.store_dataset(op["cls"], op["ts"])
            if op.get("enc"):
                if op.get("enc_via") == "flags" and None not in op["enc"]:
                    # a data set built from scratch (never read from a file: original_encoding is (None, None)) whose
                    # encoding the caller states through the Dataset attributes
                    import warnings

                    with warnings.catch_warnings():
                        warnings.simplefilter("ignore")
                        sds.is_implicit_VR, sds.is_little_endian = op["enc"][0], op["enc"][1]
                else:
                    sds.set_original_encoding(op["enc"][0], op["enc"][1])
            return assoc.send_c_store(sds)
        finally:
            _config.STORE_SEND_CHUNKED_DATASET = old
    kw = {"meta_uid": op["meta"]} if op.get("meta") else {}
    if k == "nEventReport":
        return assoc.send_n_event_report(ds, 1, op["cls"], INST, **kw)
    if k == "nGet":
        return assoc.send_n_get([(0x0010, 0x0010)], op["cls"], INST, **kw)
    if k == "nSet":
        return assoc.send_n_set(ds, op["cls"], INST, **kw)
    if k == "nAction":
        return assoc.send_n_action(ds, 1, op["cls"], INST, **kw)
    if k == "nCreate":
        return assoc.send_n_create(ds, op["cls"], INST, **kw)
    if k == "nDelete":
        return assoc.send_n_delete(op["cls"], INST, **kw)
    raise ValueError(k)


def execute(assoc, op):
    """-> 'ok' | 'ValueError' | 'AttributeError'; anything else propagates"""
    try:
        run_op(assoc, op)
        return "ok"
    except ValueError:
        return "ValueError"
    except AttributeError:
        return "AttributeError"


def primitive_data(prim):
    for a in ("DataSet", "Identifier", "ModificationList", "ActionInformation", "AttributeList", "EventInformation"):
        v = getattr(prim, a, None)
        if isinstance(v, BytesIO):
            return v.getvalue()
    return None


def decodes_in(data, ts, expect):
    """the bytes decode in transfer syntax `ts` to the data set that was passed in"""
    from pynetdicom.dsutils import decode

    u = ts if hasattr(ts, "is_implicit_VR") else L.ts_uid(ts)
    try:
        ds = decode(BytesIO(data), u.is_implicit_VR, u.is_little_endian, u.is_deflated)
        return all(str(ds.get(kw)) == str(expect.get(kw)) for kw in ("PatientName", "PatientID"))
    except Exception:
        return False


def check_sent(ctx, accepted, op, cid, case, data=None, where="send"):
    """the C18 clauses for one message the implementation sent on context `cid`"""
    k = op["op"]
    cx = accepted.get(cid)
    if cx is None:
        if k == "cCancelId":
            ctx.fail(SIG_CANCEL, f"send_c_cancel(context_id={cid}) sent a C-CANCEL on context {cid}; accepted ids "
                     f"{sorted(accepted)}", case)
        else:
            ctx.fail(f"{where}:{k}:context-not-accepted", f"{k} sent on context {cid}, accepted {sorted(accepted)}", case)
        return
    q = op_query(op)
    if q is None:
        return
    ab, ts, role, conv = q
    bad = clauses(accepted, cx, ab, ts, role, conv)
    if bad:
        ctx.fail(f"{where}:{k}:" + "+".join(bad), f"{k} sent on context {cid} violating {bad}: {op}", case)
    if data is not None and not (k == "cStore" and op["chunked"]):
        expect = L.store_dataset() if k == "cStore" else L.small_ds()
        if not decodes_in(data, cx.transfer_syntax[0], expect):
            ctx.fail(f"{where}:{k}:dataset-not-in-context-syntax",
                     f"{k}: data set does not decode in the syntax of context {cid} ({cx.transfer_syntax[0]})", case)
    if k == "cStore" and op["chunked"] and str(cx.transfer_syntax[0]) != op["ts"]:
        ctx.fail(f"{where}:cStore:file-sent-unconverted-in-other-syntax",
                 f"file in {op['ts']} sent as is on context {cid} ({cx.transfer_syntax[0]})", case)


ENC = {L.IMPLICIT_LE: (True, True), L.EXPLICIT_BE: (False, False)}


def layer_send(ctx, n, diff=True):
    assoc, rec = L.make_assoc()
    seen = []
    orig = assoc._get_valid_context

    def spy(ab, ts, *a, **k):
        seen.append(str(ts))
        return orig(ab, ts, *a, **k)

    assoc._get_valid_context = spy
    cases, reqs, effs = [], [], []
    for _ in range(n):
        op, acc = gen_send(ctx.rng)
        assoc._accepted_cx = acc
        rec.sent.clear()
        seen.clear()
        res = execute(assoc, op)
        sent = list(rec.sent)
        eff = None
        if op["op"] == "cStore" and op.get("enc"):
            u = L.ts_uid(op["ts"])
            if u.is_transfer_syntax:
                effs.append((len(cases), ["ctx.eff", bool(u.is_implicit_VR), bool(u.is_little_endian), *op["enc"]]))
                eff = "attributeError" if res == "AttributeError" else (
                    "fileMeta" if seen and seen[-1] == op["ts"] else
                    "implicitLE" if seen and seen[-1] == L.IMPLICIT_LE else
                    "explicitBE" if seen and seen[-1] == L.EXPLICIT_BE else f"other:{seen}")
                if seen and seen[-1] != op["ts"]:
                    op["eff_ts"] = seen[-1]
        cases.append((op, acc, res, sent, eff))
        reqs.append(["ctx.send", L.acc_term(acc), op_term(op)])
    model = ctx.lean(reqs) if diff else [None] * n
    effm = dict(zip([i for i, _ in effs], ctx.lean([r for _, r in effs]))) if diff and effs else {}
    for i, ((op, acc, res, sent, eff), m) in enumerate(zip(cases, model)):
        case = ["send", op]
        real = sent[0][0] if sent else None
        ctx.case(case, nontrivial=len(acc) >= 2 or real is not None,
                 kind=f"send:{op['op']}:{'sent' if sent else res}")
        if len(sent) > 1 or (res != "ok" and sent):
            ctx.fail(f"send:{op['op']}:sent-{len(sent)}-messages-then-{res}", f"{op}: {len(sent)} messages, {res}", case)
            continue
        if sent:
            check_sent(ctx, acc, op, real, case, primitive_data(sent[0][3]))
        # the transfer syntax the context is selected for agrees with the data set's own encoding
        if eff is not None and op.get("enc") and None not in op["enc"] and res != "AttributeError":
            used = op.get("eff_ts", op["ts"])
            u = L.ts_uid(used)
            if (bool(u.is_implicit_VR), bool(u.is_little_endian)) != tuple(op["enc"]):
                ctx.fail("send:cStore:query-syntax-disagrees-with-dataset-encoding",
                         f"data set encoded {op['enc']} but context selected for {used}", case)
        if not diff:
            continue
        if i in effm and effm[i] != eff:
            ctx.diff(case, eff, effm[i], what="send_c_store consistency step")
        if eff == "attributeError":
            continue      # the call failed before the context query; sendCtx models the query
        if (m == "none") != (real is None) or (m != "none" and m != real):
            ctx.diff(case, real, m)


# ---------------------------------------------------------------------------
# C. _c_store_scp (C-GET SCU side), shared with C19
# ---------------------------------------------------------------------------
def gen_substore_acc(rng):
    abs_pool = rng.sample([L.CT, L.MR, L.SC, L.VERIFICATION, L.UPS_PUSH, L.UPS_WATCH], rng.choice([2, 3, 4]))
    n = rng.choice([1, 1, 2, 3, 4, 6])
    acc = {}
    for cid in L.gen_ids(rng, n):
        r = rng.random()
        roles = (False, True) if r < 0.55 else (True, True) if r < 0.75 else (True, False)
        acc[cid] = L.make_cx(cid, rng.choice(abs_pool), rng.choice(L.TS_UNCOMPRESSED[:2]), *roles)
    return acc, abs_pool


def run_substore(acc, ab, cid):
    """-> (handler context ids, [(response context id, status)], aborts)"""
    assoc, rec = L.make_assoc()
    calls = []
    L.bind_all(assoc, calls)
    assoc._accepted_cx = acc
    req = L.make_request("cStore", ab)
    req._context_id = cid
    assoc._c_store_scp(req)
    return [c[1] for c in calls if c[0] == "cStore"], [(s[0], s[2]) for s in rec.sent], rec.aborts


def substore_cases(ctx, sets, ids_per_set):
    out = []
    for _ in range(sets):
        acc, abs_pool = gen_substore_acc(ctx.rng)
        ids = list(range(256)) if ids_per_set is None else sorted(
            set(list(acc) + [1, 0, 2, 255] + [ctx.rng.randrange(256) for _ in range(ids_per_set)]))
        for cid in ids:
            ab = ctx.rng.choice(abs_pool) if ctx.rng.random() < 0.8 else ctx.rng.choice([L.CT, L.MR, L.SC])
            out.append((acc, ab, cid))
    return out


def layer_substore(ctx, sets, ids_per_set, diff=True):
    cases = substore_cases(ctx, sets, ids_per_set)
    model = ctx.lean([["substore", L.acc_term(a), c, L.AB_CODE[ab], L.substore_guard()] for a, ab, c in cases]) if diff else [None] * len(cases)
    for (acc, ab, cid), m in zip(cases, model):
        handlers, sent, aborts = run_substore(acc, ab, cid)
        case = ["substore", {"acc": L.case_of_acc(acc), "ab": ab, "cid": cid}]
        ctx.case(case, nontrivial=True,
                 kind=f"substore:{'accepted-id' if cid in acc else 'unaccepted-id'}:{'handler' if handlers else 'refused'}")
        for rid, status in sent:
            cx = acc.get(rid)
            if cx is None or not ab_ok(ab, cx) or cx.as_scp is not True:
                why = "not accepted" if cx is None else f"accepted for {cx.abstract_syntax.name}, as_scp={cx.as_scp}"
                sig = SIG_HARDCODED if (not handlers and rid == 1) else "c-store-scp:response-on-wrong-context"
                ctx.fail(sig, f"C-STORE sub-operation for {ab} on context {cid}: response 0x{status:04X} sent on "
                         f"context {rid} ({why}); accepted ids {sorted(acc)}", case)
        if diff:
            real = [handlers[0] if handlers else None, sent[0][0] if sent else None,
                    bool(sent and sent[0][1] == 0x0122), aborts > 0]
            mm = [None if m[0] == "none" else m[0], None if m[1] == "none" else m[1], m[2] == "T", m[3] == "T"]
            if len(handlers) > 1 or len(sent) > 1 or real != mm:
                ctx.diff(case, [handlers, sent, aborts], m)


# ---------------------------------------------------------------------------
# D. loopback wire tap
# ---------------------------------------------------------------------------
def cget_handler_with_subops(datasets):
    def h(event):
        yield len(datasets)
        for ds in datasets:
            yield 0xFF00, ds
    return h


SCENARIOS = [
    # (name, requested [(ab, [ts], (scu_role, scp_role) or None)], supported [(ab, [ts], scu_role, scp_role)], ops)
    ("storage-conversion",
     [(L.CT, [L.JPEG_BASELINE], None), (L.CT, [L.EXPLICIT_LE], None), (L.CT, [L.EXPLICIT_BE], None),
      (L.MR, [L.IMPLICIT_LE], None), (L.VERIFICATION, [L.IMPLICIT_LE], None)],
     [(L.CT, [L.IMPLICIT_LE, L.EXPLICIT_LE, L.EXPLICIT_BE], None, None), (L.MR, [L.IMPLICIT_LE], None, None),
      (L.VERIFICATION, [L.IMPLICIT_LE], None, None)],
     [{"op": "cEcho"}] + [{"op": "cStore", "cls": c, "ts": t, "chunked": False}
                          for c in (L.CT, L.MR) for t in (L.EXPLICIT_LE, L.IMPLICIT_LE, L.EXPLICIT_BE,
                                                          L.DEFLATED_LE, L.JPEG_BASELINE)]),
    ("storage-compressed-and-files",
     [(L.CT, [L.JPEG_BASELINE], None), (L.CT, [L.RLE], None), (L.CT, [L.DEFLATED_LE], None),
      (L.SC, [L.EXPLICIT_LE], None), (L.SC, [L.IMPLICIT_LE], None)],
     [(L.CT, [L.JPEG_BASELINE, L.DEFLATED_LE], None, None), (L.SC, [L.EXPLICIT_LE, L.IMPLICIT_LE], None, None)],
     [{"op": "cStore", "cls": c, "ts": t, "chunked": ch}
      for ch in (False, True) for c in (L.CT, L.SC) for t in (L.JPEG_BASELINE, L.RLE, L.DEFLATED_LE, L.EXPLICIT_LE,
                                                              L.IMPLICIT_LE)]),
    ("query-retrieve",
     [(L.PR_FIND, [L.EXPLICIT_LE], None), (L.PR_GET, [L.IMPLICIT_LE], None), (L.PR_MOVE, [L.EXPLICIT_BE], None),
      (L.CT, [L.EXPLICIT_LE], (False, True)), (L.SR_FIND, [L.IMPLICIT_LE], None)],
     [(L.PR_FIND, [L.EXPLICIT_LE], None, None), (L.PR_GET, [L.IMPLICIT_LE], None, None),
      (L.PR_MOVE, [L.EXPLICIT_BE], None, None), (L.CT, [L.EXPLICIT_LE], False, True)],
     [{"op": "cFind", "cls": L.PR_FIND}, {"op": "cGet", "cls": L.PR_GET}, {"op": "cMove", "cls": L.PR_MOVE},
      {"op": "cFind", "cls": L.SR_FIND}, {"op": "cCancelModel", "cls": L.PR_FIND},
      {"op": "cStore", "cls": L.CT, "ts": L.EXPLICIT_LE, "chunked": False}]),
    ("n-services",
     [(L.MPPS, [L.IMPLICIT_LE], None), (L.PRINT_JOB, [L.EXPLICIT_LE], None), (L.GRAY_PRINT_META, [L.EXPLICIT_BE], None),
      (L.STORAGE_COMMIT, [L.IMPLICIT_LE], None), (L.FILM_SESSION, [L.IMPLICIT_LE], None)],
     [(L.MPPS, [L.IMPLICIT_LE], None, None), (L.PRINT_JOB, [L.EXPLICIT_LE], None, None),
      (L.GRAY_PRINT_META, [L.EXPLICIT_BE], None, None), (L.STORAGE_COMMIT, [L.IMPLICIT_LE], None, None)],
     [{"op": "nCreate", "cls": L.MPPS}, {"op": "nSet", "cls": L.MPPS}, {"op": "nGet", "cls": L.PRINT_JOB},
      {"op": "nEventReport", "cls": L.PRINT_JOB}, {"op": "nAction", "cls": L.STORAGE_COMMIT},
      {"op": "nCreate", "cls": L.FILM_SESSION, "meta": L.GRAY_PRINT_META},
      {"op": "nSet", "cls": L.FILM_SESSION, "meta": L.GRAY_PRINT_META},
      {"op": "nDelete", "cls": L.FILM_SESSION, "meta": L.GRAY_PRINT_META},
      {"op": "nAction", "cls": L.FILM_SESSION, "meta": L.GRAY_PRINT_META},
      {"op": "nDelete", "cls": L.FILM_SESSION}, {"op": "nEventReport", "cls": L.STORAGE_COMMIT}]),
    ("ups-substitution",
     [(L.UPS_WATCH, [L.EXPLICIT_LE], None), (L.UPS_PULL, [L.IMPLICIT_LE], None), (L.UPS_PUSH, [L.JPEG_BASELINE], None)],
     [(L.UPS_WATCH, [L.EXPLICIT_LE], None, None), (L.UPS_PULL, [L.IMPLICIT_LE], None, None)],
     [{"op": "nAction", "cls": L.UPS_PUSH}, {"op": "nGet", "cls": L.UPS_PUSH}, {"op": "nCreate", "cls": L.UPS_PUSH},
      {"op": "nSet", "cls": L.UPS_PULL}, {"op": "cFind", "cls": L.UPS_PUSH}, {"op": "nEventReport", "cls": L.UPS_PUSH},
      {"op": "nAction", "cls": L.UPS_EVENT}]),
    ("roles",
     [(L.CT, [L.EXPLICIT_LE], (False, True)), (L.MR, [L.EXPLICIT_LE], (True, True)), (L.SC, [L.IMPLICIT_LE], None),
      (L.PRINT_JOB, [L.IMPLICIT_LE], (False, True))],
     [(L.CT, [L.EXPLICIT_LE], False, True), (L.MR, [L.EXPLICIT_LE], True, True), (L.SC, [L.IMPLICIT_LE], None, None),
      (L.PRINT_JOB, [L.IMPLICIT_LE], False, True)],
     [{"op": "cStore", "cls": c, "ts": L.EXPLICIT_LE, "chunked": False} for c in (L.CT, L.MR, L.SC)] +
     [{"op": "nGet", "cls": L.PRINT_JOB}, {"op": "nEventReport", "cls": L.PRINT_JOB}]),
    ("cancel-by-id",
     [(L.PR_FIND, [L.IMPLICIT_LE], None), (L.SR_FIND, [L.IMPLICIT_LE], None)],
     [(L.PR_FIND, [L.IMPLICIT_LE], None, None)],
     [{"op": "cCancelId", "cid": 1}, {"op": "cCancelId", "cid": 3}, {"op": "cCancelId", "cid": 9},
      {"op": "cCancelModel", "cls": L.PR_FIND}]),
]


def random_scenario(rng, i):
    pool = [L.CT, L.MR, L.SC, L.VERIFICATION, L.PR_FIND, L.PR_GET, L.PR_MOVE, L.MPPS, L.PRINT_JOB, L.STORAGE_COMMIT,
            L.UPS_WATCH, L.UPS_PULL, L.UPS_PUSH, L.GRAY_PRINT_META]
    tss = [L.IMPLICIT_LE, L.EXPLICIT_LE, L.EXPLICIT_BE, L.DEFLATED_LE, L.JPEG_BASELINE, L.RLE]
    req, sup = [], {}
    for _ in range(rng.choice([3, 4, 6, 8])):
        ab = rng.choice(pool)
        role = rng.choice([None, None, None, (True, True), (False, True)])
        req.append((ab, rng.sample(tss, rng.choice([1, 1, 2])), role))
    for ab, _, role in req:
        if rng.random() < 0.8 and ab not in sup:
            sup[ab] = (ab, rng.sample(tss, rng.choice([1, 2, 3, 6])), None if role is None else role[0],
                       None if role is None else role[1])
    if not sup:  # an acceptor cannot be started without a supported context
        ab, _, role = req[0]
        sup[ab] = (ab, [L.IMPLICIT_LE], None if role is None else role[0], None if role is None else role[1])
    ops = []
    for _ in range(rng.choice([4, 6, 8])):
        k = rng.choice(["cStore", "cStore", "cStore", "cEcho", "cFind", "cGet", "cMove", "cCancelModel"] + N_OPS)
        op = {"op": k}
        if k == "cStore":
            op.update(cls=rng.choice([L.CT, L.MR, L.SC]), ts=rng.choice(tss), chunked=rng.random() < 0.3)
        elif k in ("cFind", "cGet", "cMove", "cCancelModel"):
            op["cls"] = rng.choice([L.PR_FIND, L.PR_GET, L.PR_MOVE, L.UPS_PUSH])
        elif k != "cEcho":
            op["cls"] = rng.choice([L.MPPS, L.PRINT_JOB, L.STORAGE_COMMIT, L.UPS_PUSH, L.UPS_PULL])
            op["meta"] = L.GRAY_PRINT_META if rng.random() < 0.15 else None
        ops.append(op)
    return (f"random-{i}", req, list(sup.values()), ops)


def run_scenario(ctx, scen, diff=True):
    from pynetdicom import evt, build_role

    name, requested, supported, ops = scen
    scp = L.new_ae()
    for ab, tss, scu_role, scp_role in supported:
        scp.add_supported_context(ab, [L.ts_uid(t) for t in tss], scu_role=scu_role, scp_role=scp_role)
    seen = []
    handlers = dict(L.handlers_for(seen))
    handlers[evt.EVT_C_GET] = cget_handler_with_subops([L.store_dataset(L.CT, L.EXPLICIT_LE)])
    server = scp.start_server(("127.0.0.1", 0), block=False, evt_handlers=list(handlers.items()))
    port = server.socket.getsockname()[1]
    scu = L.new_ae()
    roles = []
    for ab, tss, role in requested:
        scu.add_requested_context(ab, [L.ts_uid(t) for t in tss])
        if role is not None and not any(r.sop_class_uid == ab for r in roles):
            roles.append(build_role(ab, scu_role=role[0], scp_role=role[1]))
    tap = L.Tap()
    stored = []

    def on_store(event):
        stored.append(event.context.context_id)
        return 0x0000

    try:
        assoc = scu.associate("127.0.0.1", port, ext_neg=roles,
                              evt_handlers=[(evt.EVT_PDU_SENT, tap.handler), (evt.EVT_C_STORE, on_store)])
        if not assoc.is_established:
            ctx.note(f"e2e scenario {name}: association not established")
            ctx.case(["e2e", name, "not-established"], nontrivial=False, kind="e2e:not-established")
            return
        accepted = dict(assoc._accepted_cx)
        desc = L.case_of_acc(accepted)
        reqs, results = [], []
        for op in ops:
            if not assoc.is_established:
                break
            op = dict(op)
            before = len(tap.messages())
            res = execute(assoc, op)
            L.wait_until(lambda: assoc.dul.to_provider_queue.empty() and assoc.dul.event_queue.empty(), 2.0)
            time.sleep(0.03)
            msgs = tap.messages()[before:]
            results.append((op, res, msgs))
            reqs.append(["ctx.send", L.acc_term(accepted), op_term(op)])
        model = ctx.lean(reqs) if diff and reqs else [None] * len(reqs)
        for (op, res, msgs), m in zip(results, model):
            case = ["e2e", name, {**op, "acc": desc}]
            first = msgs[0] if msgs else None
            real = first["ids"][0] if first else None
            ctx.case(case, nontrivial=True, kind=f"e2e:{op['op']}:{'sent' if first else res}")
            for j, msg in enumerate(msgs):
                if len(set(msg["ids"])) != 1:
                    ctx.fail(f"e2e:{op['op']}:message-split-over-contexts", f"PDV context ids {msg['ids']}", case)
                cmd = L.command_of(msg["cmd"])
                field = cmd.get("CommandField")
                if j == 0 and field != 0x8001:
                    check_sent(ctx, accepted, op, msg["ids"][0], case, msg["data"], where="e2e")
                elif field == 0x8001:
                    # C-STORE response of the C-GET SCU: SCP role on an accepted context of that SOP class
                    cx = accepted.get(msg["ids"][0])
                    ab = cmd.get("AffectedSOPClassUID")
                    if cx is None or cx.as_scp is not True or not ab_ok(ab, cx):
                        ctx.fail("e2e:c-store-rsp:context", f"C-STORE response for {ab} on context {msg['ids'][0]}; "
                                 f"accepted {desc}", case)
                else:
                    ctx.fail(f"e2e:{op['op']}:unexpected-extra-message", f"CommandField {field}", case)
            if diff:
                if (m == "none") != (real is None) or (m != "none" and m != real):
                    ctx.diff(case, real, m)
        if assoc.is_established:
            assoc.release()
    finally:
        server.shutdown()


def layer_e2e(ctx, n_random, diff=True):
    from harness.props import c19

    for s in SCENARIOS:
        run_scenario(ctx, s, diff)
    for i in range(n_random):
        run_scenario(ctx, random_scenario(ctx.rng, i), diff)
    # C-STORE sub-operations sent by a scripted C-GET SCP on accepted and unaccepted ids:
    # on which context does the C-GET SCU answer
    c19.layer_e2e_cget(ctx, ctx.n(3, 20), 8, diff, c18=True)


# ---------------------------------------------------------------------------
def run(ctx):
    ctx.rule = (
        "A: generated accepted sets (0-7 contexts, random insertion order, colliding abstract syntaxes, public/"
        "compressed/big-endian/deflated/private transfer syntaxes, roles True/False/None) x queries (abstract, '' or "
        "syntax, role, no/accepted/unaccepted context id, allow_conversion) through the real _get_valid_context and "
        "the Lean model; B: every send_* in-process with a recording DIMSE provider; C: _c_store_scp for context ids "
        "0..255; D: loopback associations with a PDV wire tap. Non-trivial = two or more accepted contexts with a "
        "candidate, or a message actually sent."
    )
    ctx.assumptions.append(
        "pydicom's UID.is_transfer_syntax/is_compressed/is_little_endian/is_implicit_VR are inputs of the model "
        "(read from pydicom for every generated UID); the data-set codec (pynetdicom.dsutils.encode/decode, pydicom) "
        "is used by the oracle to decode what was sent and is not verified")
    layer_gvc(ctx, ctx.n(4000, 120000))
    layer_send(ctx, ctx.n(1500, 30000))
    layer_substore(ctx, ctx.n(12, 12), ctx.n(24, None))
    layer_e2e(ctx, ctx.n(3, 120))
    if not ctx.quick:
        # small-scope exhaustive: every query over every accepted set of <= 2 contexts from a tiny universe
        exhaustive_small(ctx)


def exhaustive_small(ctx):
    import itertools

    assoc, _ = L.make_assoc()
    universe = [(cid, ab, ts, roles) for cid in (1, 3) for ab in (L.UPS_PUSH, L.UPS_WATCH, L.CT)
                for ts in (L.IMPLICIT_LE, L.EXPLICIT_BE, L.JPEG_BASELINE, L.PRIVATE_TS_UNKNOWN)
                for roles in ((True, False), (False, True))]
    sets = [()] + [(a,) for a in universe] + [(a, b) for a in universe for b in universe if a[0] != b[0]]
    queries = [(ab, ts, role, cid, conv) for ab in (L.UPS_PUSH, L.CT)
               for ts in ("", L.IMPLICIT_LE, L.EXPLICIT_LE, L.JPEG_BASELINE, L.PRIVATE_TS_UNKNOWN)
               for role in ("scu", "scp", None) for cid in (None, 1, 5) for conv in (True, False)]
    cases, reqs = [], []
    for s, (ab, ts, role, cid, conv) in itertools.product(sets, queries):
        acc = {c[0]: L.make_cx(c[0], c[1], c[2], *c[3]) for c in s}
        q = {"acc": L.case_of_acc(acc), "ab": ab, "ts": ts, "role": role, "cid": cid, "conv": conv}
        cases.append((q, acc, call_gvc(assoc, acc, q)))
        reqs.append(gvc_request(acc, q))
    model = ctx.lean(reqs)
    for (q, acc, cx), m in zip(cases, model):
        real = None if cx is None else cx.context_id
        ctx.case(["gvc", q], nontrivial=len(acc) == 2, kind="gvc:exhaustive-small")
        if cx is not None:
            bad = clauses(acc, cx, q["ab"], q["ts"], q["role"], q["conv"])
            if bad:
                ctx.fail("get_valid_context:" + "+".join(bad), f"context {real} violates {bad} for {q}", ["gvc", q])
        if (m == "none") != (real is None) or (m != "none" and m != real):
            ctx.diff(["gvc", q], real, m)
    ctx.extra["exhaustive_small_scope"] = len(cases)


def search(ctx):
    """the correspondence broke: hunt for an input on which the implementation itself
    violates a clause of the property (oracle only, larger batches)"""
    layer_gvc(ctx, ctx.n(40000, 400000), diff=False)
    layer_send(ctx, ctx.n(8000, 60000), diff=False)
    layer_substore(ctx, 6, None, diff=False)
    layer_e2e(ctx, ctx.n(6, 60), diff=False)


def replay(ctx, case):
    c = case["case"]
    L.quiet()
    if c[0] == "gvc":
        q = c[1]
        acc = L.acc_of_case(q["acc"])
        assoc, _ = L.make_assoc()
        cx = call_gvc(assoc, acc, q)
        print("accepted:", q["acc"])
        print("query   :", {k: q[k] for k in ("ab", "ts", "role", "cid", "conv")})
        print("result  :", None if cx is None else cx.context_id)
        bad = clauses(acc, cx, q["ab"], q["ts"], q["role"], q["conv"]) if cx is not None else []
        print("violated clauses:", bad)
        return 1 if bad else 0
    if c[0] == "send":
        op = c[1]
        acc = L.acc_of_case(op["acc"])
        assoc, rec = L.make_assoc()
        assoc._accepted_cx = acc
        res = execute(assoc, op)
        print("accepted:", op["acc"])
        print("op      :", {k: v for k, v in op.items() if k != "acc"})
        print("result  :", res, "sent on", [s[0] for s in rec.sent])
        bad = [s[0] for s in rec.sent if s[0] not in acc]
        return 1 if bad else 0
    if c[0] == "substore":
        d = c[1]
        acc = L.acc_of_case(d["acc"])
        handlers, sent, aborts = run_substore(acc, d["ab"], d["cid"])
        print("accepted:", d["acc"])
        print(f"C-STORE request for {d['ab']} on context {d['cid']}: handler saw contexts {handlers}, "
              f"responses (context, status) {[(a, hex(b)) for a, b in sent]}, aborts {aborts}")
        bad = [a for a, _ in sent if a not in acc or not ab_ok(d["ab"], acc[a]) or acc[a].as_scp is not True]
        return 1 if bad else 0
    print("e2e case: re-run ./check C18 (needs the loopback scenario)", c[1])
    return 0
