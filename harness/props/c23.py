"""C23 — a C-CANCEL reaches exactly the operation it names.

Real side, per generated case (one fresh, unstarted acceptor `Association`):
* every C-CANCEL is a real `C_CANCEL` primitive -> `C_CANCEL_RQ.primitive_to_message`
  -> `encode_msg` (sometimes fragmented over several P-DATA) -> the real
  `DIMSEServiceProvider.receive_primitive`;
* every operation is a real C-FIND / C-GET / C-MOVE request primitive handed to
  the real `Association._serve_request`, which picks the real Query/Retrieve
  service class, whose real `SCP` triggers the bound handler; the handler plays
  the case's inner events: more cancels through `receive_primitive`, queries
  through the real `Event.is_cancelled` (own message ID) or the event's
  `_is_cancelled` hook = the real `ServiceClass.is_cancelled` (other IDs);
* only `dimse.send_msg` (records the response, raises when the case says the
  operation fails) and `assoc.abort`/`_abort_blocking`/`_abort_nonblocking` (record) are replaced,
  on the instance.
Model side: `Cancel.trace` in the Lean driver — store keys (insertion order),
IDs of cancels that landed on `msg_queue`, and the answer, after every event.
Oracle (implementation alone): soundness — an answer True for `id` needs a
cancel for `id` received after the last store-clearing point and not yet
reported; completeness at full strength — such a cancel makes the next query
for `id` answer True.
"""
from io import BytesIO

from translate import cancel as tr_cancel

GEN = [tr_cancel.generate]

UIDS = {
    "find": "1.2.840.10008.5.1.4.1.2.1.1",
    "get": "1.2.840.10008.5.1.4.1.2.1.3",
    "move": "1.2.840.10008.5.1.4.1.2.1.2",
}
CXID = {"find": 1, "get": 3, "move": 5}
SIDE_UID, SIDE_CX = "1.2.840.10008.1.20.1", 7  # Storage Commitment Push Model: N-EVENT-REPORT requests
OVERFLOW_SIG = "cancel-overflow:matching-cancel-dropped-with-10-pending"

_IDENT = None


def _identifier():
    global _IDENT
    if _IDENT is None:
        from pydicom.dataset import Dataset
        from pynetdicom.dsutils import encode

        ds = Dataset()
        ds.QueryRetrieveLevel = "PATIENT"
        ds.PatientID = "*"
        _IDENT = encode(ds, True, True)
    return _IDENT


class OpFailed(Exception):
    pass


class Rig:
    """a real acceptor Association, never started, with three accepted Q/R contexts"""

    def __init__(self):
        from pynetdicom import AE, evt
        from pynetdicom.association import Association
        from pynetdicom.presentation import build_context
        from pynetdicom.service_class import ServiceClass

        self.evt = evt
        self.assoc = Association(AE(), "acceptor")
        cxs = {}
        for kind, uid in UIDS.items():
            cx = build_context(uid, ["1.2.840.10008.1.2"])
            cx.context_id = CXID[kind]
            cx.result = 0
            cx._as_scp, cx._as_scu = True, False
            cxs[cx.context_id] = cx
        cx = build_context(SIDE_UID, ["1.2.840.10008.1.2"])
        cx.context_id, cx.result = SIDE_CX, 0
        cx._as_scp, cx._as_scu = True, True
        cxs[SIDE_CX] = cx
        self.assoc._accepted_cx = cxs
        self.assoc.is_established = True
        self.side_served = 0
        self.sent, self.aborted = [], []
        self.fail_send = False
        self.assoc.dimse.send_msg = self._send
        # evt.trigger / service_class.attempt rebind assoc.abort to these two, so all three are recorders
        self.assoc._abort_blocking = self.assoc._abort_nonblocking = self.assoc.abort = lambda: self.aborted.append(1)
        for e in (evt.EVT_C_FIND, evt.EVT_C_GET, evt.EVT_C_MOVE):
            self.assoc.bind(e, self._handler)
        self.assoc.bind(evt.EVT_N_EVENT_REPORT, self._side_handler)
        self.outside = ServiceClass(self.assoc)  # for queries made outside any operation
        self.trace = []
        self.inner = None
        self.handler_ran = False

    # -- replaced on the instance -------------------------------------------
    def _send(self, rsp, cx_id):
        if self.fail_send:
            raise OpFailed("peer went away")
        self.sent.append((type(rsp).__name__, rsp.MessageIDBeingRespondedTo, rsp.Status))

    # -- observation ---------------------------------------------------------
    def snap(self, ans=None):
        d = self.assoc.dimse
        queued = []
        for item in list(d.msg_queue.queue):
            prim = item[1]
            queued.append(getattr(prim, "MessageIDBeingRespondedTo", None) if type(prim).__name__ == "C_CANCEL" else "other")
        self.trace.append([list(d.cancel_req), queued, ans])

    # -- events ----------------------------------------------------------------
    def recv(self, mid, maxlen):
        from pynetdicom.dimse_messages import C_CANCEL_RQ
        from pynetdicom.dimse_primitives import C_CANCEL

        p = C_CANCEL()
        p.MessageIDBeingRespondedTo = mid
        m = C_CANCEL_RQ()
        m.primitive_to_message(p)
        for pdata in m.encode_msg(1, maxlen):
            self.assoc.dimse.receive_primitive(pdata)
        self.snap()

    def _side_handler(self, event):
        self.side_served += 1
        return 0x0000, None

    def side(self):
        """an N-EVENT-REPORT request is served to its end by the real `_serve_request` at this point of the
        schedule (the real `receive_primitive` starts a thread for it; here the thread's whole run is one event)"""
        from pydicom.dataset import Dataset
        from pynetdicom.dimse_primitives import N_EVENT_REPORT
        from pynetdicom.dsutils import encode

        r = N_EVENT_REPORT()
        r.MessageID = 4242
        r.AffectedSOPClassUID = SIDE_UID
        r.AffectedSOPInstanceUID = "1.2.840.10008.1.20.1.1"
        r.EventTypeID = 1
        ds = Dataset()
        ds.TransactionUID = "1.2.3"
        r.EventInformation = BytesIO(encode(ds, True, True))
        n = self.side_served
        paused = self.assoc._is_paused
        self.assoc._serve_request(r, SIDE_CX)
        self.assoc._is_paused = paused
        if self.side_served != n + 1:
            raise RuntimeError("the N-EVENT-REPORT handler was not reached")
        self.snap()

    def _handler(self, event):
        self.handler_ran = True
        self.snap()  # the state the operation starts with (after the first clearing statement)
        for it in self.inner:
            if it[0] == "recv":
                self.recv(it[1], it[2])
            elif it[0] == "qown":
                self.snap(event.is_cancelled)
            elif it[0] == "side":
                self.side()
            elif it[0] == "other-assoc":
                # a complete operation on ANOTHER association of the same process, while this one is in progress
                it[1].op(it[2], it[3], [["qown"]], "ok")
            else:
                self.snap(event._is_cancelled(it[1]))
        if event.event is self.evt.EVT_C_MOVE:
            yield None, None  # unknown destination: the SCP answers 0xA801 without any network activity
        elif event.event is self.evt.EVT_C_GET:
            yield 0  # no sub-operations
        return
        yield

    def op(self, kind, mid, inner, outcome):
        from pynetdicom.dimse_primitives import C_FIND, C_GET, C_MOVE

        r = {"find": C_FIND, "get": C_GET, "move": C_MOVE}[kind]()
        r.MessageID = mid
        r.AffectedSOPClassUID = UIDS[kind]
        r.Priority = 2
        r.Identifier = BytesIO(_identifier())
        if kind == "move":
            r.MoveDestination = "DEST"
        self.inner, self.handler_ran = inner, False
        self.fail_send = outcome == "raise"
        n_abort = len(self.aborted)
        self.assoc._serve_request(r, CXID[kind])
        self.fail_send = False
        if not self.handler_ran:
            raise RuntimeError("the handler was not reached")
        if (outcome == "raise") != (len(self.aborted) > n_abort):
            raise RuntimeError(f"outcome {outcome} but abort count went {n_abort}->{len(self.aborted)}")
        self.snap()

    def query_outside(self, mid):
        self.snap(self.outside.is_cancelled(mid))


def events_of(case):
    """the model's event list of a case"""
    evs = []
    for it in case:
        if it[0] == "recv":
            evs.append(["recv", it[1]])
        elif it[0] == "side":
            evs.append("side")
        elif it[0] == "query":
            evs.append(["query", it[1]])
        else:
            _, kind, mid, inner, outcome = it
            evs.append(["begin", mid])
            for x in inner:
                if x[0] == "side":
                    evs.append("side")
                else:
                    evs.append(["recv", x[1]] if x[0] == "recv" else ["query", mid if x[0] == "qown" else x[1]])
            evs.append("end" if outcome == "ok" else "endraise")
    return evs


def execute(case):
    rig = Rig()
    for it in case:
        if it[0] == "recv":
            rig.recv(it[1], it[2])
        elif it[0] == "side":
            rig.side()
        elif it[0] == "query":
            rig.query_outside(it[1])
        else:
            rig.op(it[1], it[2], it[3], it[4])
    return rig


def canon_model(reply):
    return [[r[0], r[1], {"T": True, "F": False, "none": None}[r[2]]] for r in reply]


# ---------------------------------------------------------------------------
# the property's oracle, on the implementation's outputs alone
# ---------------------------------------------------------------------------
def oracle(ctx, case, evs, trace):
    """evs[i] / trace[i] = event and observed (store, queued, answer)"""
    # pending[id] = index of the recv that should be reported by the next query for id
    pending = {}
    in_op = None
    reported_overflow = False
    for i, (e, (store, queued, ans)) in enumerate(zip(evs, trace)):
        if e == "end":
            pending.clear()
            in_op = None
        elif e == "endraise":
            in_op = None
        elif e == "side":
            pass  # a request of another kind served meanwhile: the operation's pending cancels stay pending
        elif e[0] == "begin":
            pending.clear()
            in_op = e[1]
        elif e[0] == "recv":
            pending[e[1]] = (i, len(trace[i - 1][0]) if i else 0, in_op)
        else:
            mid = e[1]
            if in_op is None:
                # a query made outside any operation is not something a handler can observe: it is compared
                # with the model (correspondence) but is not judged by the property's oracle
                pending.pop(mid, None)
                continue
            if ans is True and mid not in pending:
                ctx.fail(
                    "cancel-misreported:true-without-matching-pending-cancel",
                    f"is_cancelled({mid}) answered True at event #{i} although no C-CANCEL for {mid} was received "
                    f"since the store was last cleared / it was last reported; events {evs!r}",
                    case,
                )
            elif ans is not True and mid in pending:
                j, pend_before, op_at_recv = pending[mid]
                if pend_before >= 10:
                    reported_overflow = True
                    ctx.fail(
                        OVERFLOW_SIG,
                        f"C-CANCEL for message ID {mid} received (event #{j}) while {pend_before} other cancels were "
                        f"pending is not recorded: is_cancelled({mid}) at event #{i} answers {ans!r}; the primitive was put "
                        f"on dimse.msg_queue instead (queue now {queued!r}); events {evs!r}",
                        case,
                    )
                else:
                    ctx.fail(
                        "cancel-lost:pending-cancel-not-reported",
                        f"C-CANCEL for {mid} received at event #{j} (operation in progress: {op_at_recv}) with "
                        f"{pend_before} pending, not cleared or consumed since, but is_cancelled({mid}) at event #{i} "
                        f"answers {ans!r}; events {evs!r}",
                        case,
                    )
            pending.pop(mid, None)
    # a C-CANCEL on the ordinary message queue is never legitimate
    last_q = trace[-1][1] if trace else []
    if last_q and not reported_overflow:
        ctx.fail(
            OVERFLOW_SIG,
            f"C-CANCEL primitives for message IDs {last_q!r} were put on dimse.msg_queue as if they were service "
            f"requests (more than 10 pending cancels); events {evs!r}",
            case,
        )


# ---------------------------------------------------------------------------
# generators
# ---------------------------------------------------------------------------
def gen_maxlen(rng):
    return rng.choice([16382, 16382, 16382, 0, 64, 24, 14])


def gen_inner(rng, mid, pool, n, burst=0, burst_pool=()):
    inner = []
    if burst:
        others = [x for x in burst_pool if x != mid]
        rng.shuffle(others)
        for x in others[:burst]:
            inner.append(["recv", x, gen_maxlen(rng)])
            if rng.random() < 0.08:
                inner.append(["query", rng.choice(others)])
    for _ in range(n):
        x = rng.random()
        if x < 0.30:
            inner.append(["recv", mid, gen_maxlen(rng)])
        elif x < 0.50:
            inner.append(["recv", rng.choice(pool), gen_maxlen(rng)])
        elif x < 0.74:
            inner.append(["qown"])
        elif x < 0.82:
            inner.append(["side"])
        else:
            inner.append(["query", rng.choice(pool)])
    return inner


def gen_case(rng):
    shape = rng.choices(["small", "burst-in-op", "burst-outside", "boundary"], [62, 18, 8, 12])[0]
    pool = rng.choice([[1, 2, 3], [1, 2, 3, 4], [7, 65535, 0], [5, 6]])
    big = list(range(100, 116))
    case = []
    if shape == "small":
        for _ in range(rng.randint(1, 4)):
            x = rng.random()
            if x < 0.25:
                case.append(["recv", rng.choice(pool), gen_maxlen(rng)])
            elif x < 0.33:
                case.append(["query", rng.choice(pool)])
            elif x < 0.38:
                case.append(["side"])
            else:
                mid = rng.choice(pool)
                case.append(["op", rng.choice(list(UIDS)), mid, gen_inner(rng, mid, pool, rng.randint(0, 6)),
                             "ok" if rng.random() < 0.88 else "raise"])
    elif shape == "burst-in-op":
        if rng.random() < 0.5:
            case.append(["recv", rng.choice(pool), gen_maxlen(rng)])
        mid = rng.choice(pool)
        k = rng.choice([7, 8, 9, 9, 10, 10, 11, 12, 15])
        case.append(["op", rng.choice(list(UIDS)), mid, gen_inner(rng, mid, pool, rng.randint(1, 5), k, big),
                     "ok" if rng.random() < 0.9 else "raise"])
        if rng.random() < 0.6:
            mid2 = rng.choice(pool + big[:2])
            case.append(["op", rng.choice(list(UIDS)), mid2, gen_inner(rng, mid2, pool, rng.randint(1, 4)), "ok"])
    elif shape == "burst-outside":
        k = rng.choice([9, 10, 11, 15])
        for x in big[:k]:
            case.append(["recv", x, gen_maxlen(rng)])
        for _ in range(rng.randint(0, 3)):
            case.append(["query", rng.choice(big[:k] + pool)])
        mid = rng.choice(pool + big[:3])
        case.append(["op", rng.choice(list(UIDS)), mid, gen_inner(rng, mid, pool, rng.randint(1, 4)), "ok"])
    else:  # exactly at the bound: 9 or 10 others pending, some consumed again, then the matching one
        mid = rng.choice(pool)
        k = rng.choice([9, 10])
        inner = [["recv", x, 16382] for x in big[:k]]
        for _ in range(rng.choice([0, 0, 1, 2])):
            inner.append(["query", rng.choice(big[:k])])
        if rng.random() < 0.3:
            inner.insert(rng.randint(0, len(inner)), ["recv", mid, 16382])
        inner += [["recv", mid, gen_maxlen(rng)], ["qown"], ["qown"]]
        case.append(["op", rng.choice(list(UIDS)), mid, inner, "ok"])
        if rng.random() < 0.5:
            case.append(["op", "find", mid, [["qown"]], "ok"])
    return shape, case


def exhaustive_cases(depth):
    """every event sequence of length <= depth over recv/query on ids {1,2} inside and around one operation"""
    import itertools

    atoms = [["recv", 1, 16382], ["recv", 2, 16382], ["query", 1], ["query", 2]]
    for n_before in range(0, 2):
        for before in itertools.product(atoms, repeat=n_before):
            for n_in in range(0, depth + 1):
                for inner in itertools.product(atoms + [["qown"], ["side"]], repeat=n_in):
                    for outcome in ("ok", "raise"):
                        for n_after in range(0, 2):
                            for after in itertools.product(atoms[2:], repeat=n_after):
                                yield [list(x) for x in before] + [["op", "find", 1, [list(x) for x in inner], outcome]] + [
                                    list(x) for x in after
                                ]


# ---------------------------------------------------------------------------
def check_cases(ctx, shaped, count=True):
    cases = [c for _, c in shaped]
    evss = [events_of(c) for c in cases]
    model = ctx.lean([["cancel", evs] for evs in evss])
    for (shape, case), evs, mr in zip(shaped, evss, model):
        rig = execute(case)
        trace = rig.trace
        if len(trace) != len(evs):
            ctx.diff(case, trace, "trace length", what="harness: one observation per event expected")
            continue
        maxpend = max((len(t[0]) for t in trace), default=0)
        if count:
            answers = [t[2] for t in trace if t[2] is not None]
            ctx.case(case, nontrivial=(True in answers and False in answers) or maxpend >= 10,
                     kind=shape + (":full" if maxpend >= 10 else ""))
        else:
            ctx.evaluations += 1
        oracle(ctx, case, evs, trace)
        m = canon_model(mr) if isinstance(mr, list) else mr
        if m != trace:
            ctx.diff(case, trace, m)


def corpus_cases():
    import glob
    import json
    import os

    root = os.path.join(os.path.dirname(os.path.dirname(os.path.dirname(os.path.abspath(__file__)))), "corpus", "C23")
    return [json.load(open(f))["case"] for f in sorted(glob.glob(os.path.join(root, "*.json")))]


def non_qr_event_check(ctx):
    """Event.is_cancelled on a non-Q/R event is False and leaves the store alone"""
    from pynetdicom.dimse_primitives import C_ECHO

    rig = Rig()
    rig.recv(9, 16382)
    req = C_ECHO()
    req.MessageID = 9
    ev = rig.evt.Event(rig.assoc, rig.evt.EVT_C_ECHO, {"request": req})
    got = ev.is_cancelled
    ctx.case(["non-qr-event", 9], kind="non-qr-event")
    if got is not False or list(rig.assoc.dimse.cancel_req) != [9]:
        ctx.fail("cancel-misreported:non-qr-event", f"C-ECHO event.is_cancelled = {got!r}, store {list(rig.assoc.dimse.cancel_req)}",
                 ["non-qr-event", 9])


def cross_association_check(ctx):
    """Message IDs are per association: a C-CANCEL received on one association must neither be reported to an
    operation of ANOTHER association that happens to use the same message ID, nor be lost because another association
    starts or finishes an operation.  Two real associations in one process; while A's operation is in progress its
    C-CANCEL arrives, then B runs a whole operation with the same message ID, then A asks."""
    for kind_a in ("find", "get", "move"):
        for kind_b in ("find", "get"):
            for mid in (1, 7, 65535):
                a, b = Rig(), Rig()
                a.op(kind_a, mid, [["recv", mid, 16382], ["other-assoc", b, kind_b, mid], ["qown"]], "ok")
                case = ["cross-association", kind_a, kind_b, mid]
                ctx.case(case, nontrivial=True, kind=f"cross-association:{kind_a}/{kind_b}")
                b_answers = [t[2] for t in b.trace if t[2] is not None]
                a_answers = [t[2] for t in a.trace if t[2] is not None]
                if any(b_answers):
                    ctx.fail("cancel:reported-to-another-association",
                             f"a C-CANCEL for message {mid} received on association A was reported to the {kind_b} operation "
                             f"with message ID {mid} on association B", case)
                if a_answers != [True]:
                    ctx.fail("cancel:lost-through-another-association",
                             f"association A's own C-CANCEL for its {kind_a} operation {mid} was no longer there after association B "
                             f"ran an operation (answers {a_answers})", case)


def run(ctx):
    import logging

    logging.getLogger("pynetdicom").setLevel(logging.CRITICAL)
    ctx.rule = (
        "generated schedules of C-CANCEL arrivals (real encoded P-DATA, sometimes fragmented) before/during/after real "
        "C-FIND/C-GET/C-MOVE operations served by the real _serve_request and Q/R service classes, queries through "
        "Event.is_cancelled; IDs from small pools, bursts of up to 15 pending cancels, operations that fail; "
        "non-trivial = both answers occur or the store reaches its bound"
    )
    rng = ctx.rng
    check_cases(ctx, [("corpus", c) for c in corpus_cases()])
    n = ctx.n(3000, 60000)
    done, chunk = 0, 5000
    while done < n:
        k = min(chunk, n - done)
        check_cases(ctx, [gen_case(rng) for _ in range(k)])
        done += k
    depth = ctx.n(2, 3)
    ex = [("exhaustive", c) for c in exhaustive_cases(depth)]
    check_cases(ctx, ex, count=False)
    ctx.hist[f"exhaustive-inner<={depth}"] += len(ex)
    ctx.extra["exhaustive_small_scope"] = {"inner_depth": depth, "cases": len(ex)}
    non_qr_event_check(ctx)
    cross_association_check(ctx)
    try:
        e2e(ctx)
    except Exception as exc:  # a scenario that cannot be driven to its end is a broken correspondence
        ctx.diff(["e2e"], "exception", repr(exc), what="e2e scenario could not be completed")
    # report the smallest failing input of each signature
    ctx.failures.sort(key=lambda f: len(repr(f["case"])))
    ctx.diffs.sort(key=lambda d: len(repr(d.get("case"))))
    ctx.extra["source_facts"] = tr_cancel.extract()
    ctx.note(
        "every case runs on a fresh real Association; replaced on the instance only: dimse.send_msg (recorder) and "
        "assoc.abort/_abort_blocking/_abort_nonblocking (recorders); DUL/reactor threads are not started (arrival order is the schedule of the case)"
    )


def search(ctx):
    rng = ctx.rng
    check_cases(ctx, [gen_case(rng) for _ in range(5000)], count=False)


def _replay_cross(c):
    a, b = Rig(), Rig()
    a.op(c[1], c[3], [["recv", c[3], 16382], ["other-assoc", b, c[2], c[3]], ["qown"]], "ok")
    ba = [t[2] for t in b.trace if t[2] is not None]
    aa = [t[2] for t in a.trace if t[2] is not None]
    print("association B's operation was told 'cancelled':", ba, " association A's own query:", aa)
    return 1 if any(ba) or aa != [True] else 0


def replay(ctx, case):
    if case["case"][0] == "cross-association":
        return _replay_cross(case["case"])
    import logging

    logging.getLogger("pynetdicom").setLevel(logging.CRITICAL)
    c = case["case"]
    if c and c[0] == "non-qr-event":
        non_qr_event_check(ctx)
        return 1 if ctx.failures else 0
    if c and c[0] == "e2e":
        e2e(ctx)
        for f in ctx.failures:
            print("ORACLE:", f["sig"], "-", f["what"])
        return 1 if ctx.failures else 0
    evs = events_of(c)
    rig = execute(c)
    model = canon_model(ctx.lean([["cancel", evs]])[0])
    print("event                    real (store, msg_queue cancels, answer)        model")
    for e, t, m in zip(evs, rig.trace, model):
        print(f"{str(e):24} {str(t):46} {m}{'' if t == m else '   <-- differ'}")
    oracle(ctx, c, evs, rig.trace)
    for f in ctx.failures:
        print("ORACLE:", f["sig"], "-", f["what"][:300])
    q = rig.assoc.dimse.msg_queue
    if q.qsize():
        cx_id, prim = q.get()
        try:
            rig.assoc._serve_request(prim, cx_id)
            print("reactor step on the queued C-CANCEL: returned")
        except Exception as exc:
            print(f"reactor step on the queued C-CANCEL: _serve_request raises {type(exc).__name__}: {exc}")
    return 1 if ctx.failures else 0


# ---------------------------------------------------------------------------
# end-to-end sample: two real AEs on loopback, real DUL/reactor threads
# ---------------------------------------------------------------------------
def e2e(ctx):
    """cancels before / during (matching, other ID) / after a real C-FIND; positions fixed by gates"""
    import threading
    import time

    from pydicom.dataset import Dataset
    from pynetdicom import AE, evt
    from pynetdicom.sop_class import PatientRootQueryRetrieveInformationModelFind as FIND
    from pynetdicom.sop_class import StorageCommitmentPushModel as SC

    reports = []
    seen = {}  # message id of a served request -> did its handler ever see is_cancelled
    started, release, hold = {}, {}, {}
    lock = threading.Lock()

    def gate(d, k):
        with lock:
            return d.setdefault(k, threading.Event())

    def handler(event):
        mid = event.request.MessageID
        gate(started, mid).set()
        hit = False
        end = time.monotonic() + 10
        # phase 1: until the scenario releases the operation; phase 2: a last look
        while time.monotonic() < end:
            if mid >= 100:  # does not look before the scenario says so
                gate(release, mid).wait(10)
            elif event.is_cancelled:
                hit = True
                break
            if gate(release, mid).is_set():
                hit = bool(event.is_cancelled)
                break
            time.sleep(0.002)
        seen.setdefault(mid, []).append(hit)
        if hit:
            yield 0xFE00, None

    ident = Dataset()
    ident.QueryRetrieveLevel = "PATIENT"
    ident.PatientID = "*"
    def report_handler(event):
        reports.append(event.request.MessageID)
        return 0x0000, None

    scp = AE()
    scp.add_supported_context(FIND)
    scp.add_supported_context(SC)
    server = scp.start_server(("127.0.0.1", 0), block=False,
                              evt_handlers=[(evt.EVT_C_FIND, handler), (evt.EVT_N_EVENT_REPORT, report_handler)])
    port = server.socket.getsockname()[1]
    scu = AE()
    scu.add_requested_context(FIND)
    scu.add_requested_context(SC)

    def wait(pred, what, t=10.0):
        end = time.monotonic() + t
        while time.monotonic() < end:
            if pred():
                return
            time.sleep(0.002)
        raise RuntimeError("e2e: timed out waiting for " + what)

    def find(assoc, mid, during=None):
        """run a C-FIND with message id `mid`; `during(server_assoc)` runs while its handler is active"""
        gen = assoc.send_c_find(ident, FIND, msg_id=mid)
        if not gate(started, mid).wait(10):
            raise RuntimeError("e2e: handler not started")
        if during:
            during()
        gate(release, mid).set()
        sts = [getattr(st, "Status", None) for st, _ in gen]
        for d in (started, release):
            d.pop(mid, None)
        return sts

    def scenario(name, body, expect):
        assoc = scu.associate("127.0.0.1", port)
        if not assoc.is_established:
            raise RuntimeError("e2e: association failed")
        try:
            wait(lambda: len(server.active_associations) == 1, "server association")
            sa = server.active_associations[0]
            seen.clear()
            body(assoc, sa)
            got = {k: v for k, v in sorted(seen.items())}
            ctx.case(["e2e", name], kind="e2e:" + name)
            if got != expect:
                ctx.fail(
                    "e2e:" + name,
                    f"real C-FIND over loopback, scenario {name}: handlers saw is_cancelled {got!r}, expected {expect!r} "
                    "(message id -> one bool per served request)",
                    ["e2e", name],
                )
        finally:
            if assoc.is_established:
                assoc.release()
            wait(lambda: len(server.active_associations) == 0, "server association end")

    def s_match(assoc, sa):
        def during():
            assoc.send_c_cancel(5, query_model=FIND)
            # the operation is released only after the cancel has arrived (stored, or already consumed by the handler)
            wait(lambda: 5 in sa.dimse.cancel_req or 5 in seen or sa.dimse.msg_queue.qsize() > 0, "cancel 5 arrived")

        find(assoc, 5, during)
        wait(lambda: 5 in seen, "handler 5")

    def s_other(assoc, sa):
        def during():
            assoc.send_c_cancel(6, query_model=FIND)
            wait(lambda: 6 in sa.dimse.cancel_req, "cancel 6 stored")

        find(assoc, 5, during)
        find(assoc, 6)  # the operation the stale cancel names, started afterwards

    def s_before(assoc, sa):
        assoc.send_c_cancel(7, query_model=FIND)
        wait(lambda: 7 in sa.dimse.cancel_req, "cancel 7 stored")
        find(assoc, 7)

    def s_after(assoc, sa):
        find(assoc, 8)
        assoc.send_c_cancel(8, query_model=FIND)
        wait(lambda: 8 in sa.dimse.cancel_req, "cancel 8 stored")
        find(assoc, 9)
        find(assoc, 8)

    def s_report(assoc, sa):
        """the matching cancel is stored, then the peer's N-EVENT-REPORT request is served (in the thread
        receive_primitive starts for it) while the C-FIND handler has not looked yet"""
        def during():
            assoc.send_c_cancel(105, query_model=FIND)
            wait(lambda: 105 in sa.dimse.cancel_req, "cancel 105 stored")
            # sent below the send_* API: send_n_event_report() would resume this requestor's reactor in the middle
            # of its own C-FIND (the API is not made for nested calls) and the reactor would then steal the C-FIND
            # response; the reactor stays paused (send_c_find paused it), so this thread is the only reader
            from pynetdicom.dimse_primitives import N_EVENT_REPORT
            from pynetdicom.dsutils import encode

            info = Dataset()
            info.TransactionUID = "1.2.3"
            req = N_EVENT_REPORT()
            req.MessageID = 4242
            req.AffectedSOPClassUID = SC
            req.AffectedSOPInstanceUID = "1.2.840.10008.1.20.1.1"
            req.EventTypeID = 1
            req.EventInformation = BytesIO(encode(info, True, True))
            cx = next(c for c in assoc.accepted_contexts if c.abstract_syntax == SC)
            n = len(reports)
            assoc.dimse.send_msg(req, cx.context_id)
            wait(lambda: len(reports) == n + 1, "N-EVENT-REPORT handler")
            _, rsp = assoc.dimse.get_msg(block=True)
            if type(rsp).__name__ != "N_EVENT_REPORT" or rsp.Status != 0x0000:
                raise RuntimeError(f"e2e: N-EVENT-REPORT not answered ({rsp!r})")

        find(assoc, 105, during)
        wait(lambda: 105 in seen, "handler 105")

    try:
        scenario("matching-during-then-event-report-served", s_report, {105: [True]})
        scenario("matching-during", s_match, {5: [True]})
        scenario("other-id-during-then-that-id", s_other, {5: [False], 6: [False]})
        scenario("before-operation", s_before, {7: [False]})
        scenario("after-operation-then-reuse", s_after, {8: [False, False], 9: [False]})
    finally:
        server.shutdown()
