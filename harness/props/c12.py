"""C12 — association requests and responses pynetdicom sends are structurally conformant.

End-to-end wire tap: generated requestor configurations go through the PUBLIC API
(`AE(ae_title)`, `implementation_class_uid/version_name`, `build_context`, `build_role`,
the extended-negotiation primitives, `AE.associate(addr, port, contexts, ae_title, max_pdu,
ext_neg, evt_handlers)`) against real acceptors; the A-ASSOCIATE-RQ and -AC bytes are
captured with `EVT_DATA_SENT` / `EVT_DATA_RECV` handlers and parsed by the independent TLV
walker of harness/rawpeer.py (never by pynetdicom's decoder).

* oracle on the implementation: the conformance predicate of the property, written here from
  the statement, evaluated on the parsed PDUs;
* correspondence: the parsed RQ tree must equal Lean's `buildRQ cfg`, "the API raised / nothing
  was sent" must equal `¬ acceptedByApi cfg`, the parsed AC tree must equal Lean's `buildAC`
  fed with the real `negotiate_as_acceptor` result, and Lean's own `conformantRQ/AC` evaluated
  on the parsed trees must agree with the Python oracle.
"""
from __future__ import annotations

import re
import struct
import threading
import time

from harness import rawpeer as rp

LEVEL = "proof"

VER = "1.2.840.10008.1.1"
CT = "1.2.840.10008.5.1.4.1.1.2"
MR = "1.2.840.10008.5.1.4.1.1.4"
SC = "1.2.840.10008.5.1.4.1.1.7"
FIND = "1.2.840.10008.5.1.4.1.2.1.1"
PRIV = "1.3.6.1.4.1.99999.1"
LONG = "1.2." + "3" * 60  # 64 characters
ILE, ELE, EBE, JPG = "1.2.840.10008.1.2", "1.2.840.10008.1.2.1", "1.2.840.10008.1.2.2", "1.2.840.10008.1.2.4.50"
PTS = "1.3.6.1.4.1.99999.2"
LONGTS = "1.3." + "4" * 60
ABS = [VER, CT, MR, SC, FIND, PRIV, LONG, "0", "1.0.0"]
TSS = [ILE, ELE, EBE, JPG, PTS, LONGTS]
APP = b"1.2.840.10008.3.1.1.1"
UID_RE = re.compile(rb"^(0|[1-9][0-9]*)(\.(0|[1-9][0-9]*))*$")


# --------------------------------------------------------------------------
# independent parsing of user-information sub-items (PS3.7 Annex D.3.3) -> canonical terms
# --------------------------------------------------------------------------
def tf(b):
    return "T" if b else "F"


def u16(b, o):
    if o + 2 > len(b):
        raise rp.Malformed("truncated length")
    return struct.unpack(">H", b[o : o + 2])[0], o + 2


def take(b, o, n):
    if o + n > len(b):
        raise rp.Malformed("field overruns sub-item")
    return b[o : o + n], o + n


def sub_term(t, v):
    if t == 0x51:
        if len(v) != 4:
            raise rp.Malformed("maximum length sub-item is not 4 bytes")
        return ["maxLength", struct.unpack(">L", v)[0]]
    if t == 0x52:
        return ["implUid", v]
    if t == 0x55:
        return ["implVersion", v]
    if t == 0x53:
        if len(v) != 4:
            raise rp.Malformed("async ops sub-item is not 4 bytes")
        i, p = struct.unpack(">HH", v)
        return ["async", i, p]
    if t == 0x54:
        n, o = u16(v, 0)
        uid, o = take(v, o, n)
        roles, o = take(v, o, 2)
        if o != len(v) or roles[0] > 1 or roles[1] > 1:
            raise rp.Malformed("role selection sub-item layout")
        return ["role", uid, tf(roles[0]), tf(roles[1])]
    if t == 0x56:
        n, o = u16(v, 0)
        uid, o = take(v, o, n)
        return ["sopExt", uid, v[o:]]
    if t == 0x57:
        n, o = u16(v, 0)
        uid, o = take(v, o, n)
        n, o = u16(v, o)
        svc, o = take(v, o, n)
        n, o = u16(v, o)
        relb, o = take(v, o, n)
        rel, q = [], 0
        while q < len(relb):
            n, q = u16(relb, q)
            r, q = take(relb, q, n)
            rel.append(r)
        return ["sopCommon", uid, svc, rel]
    if t == 0x58:
        typ, rr = v[0], v[1]
        n, o = u16(v, 2)
        _, o = take(v, o, n)
        n, o = u16(v, o)
        _, o = take(v, o, n)
        if o != len(v):
            raise rp.Malformed("user identity sub-item layout")
        return ["userId", typ, tf(rr)]
    if t == 0x59:
        return "userIdResponse"
    return ["unknown", t]


def canon_tree(tree):
    """parse tree of rawpeer.parse_assoc -> the canonical S-expression shape of the Lean driver"""
    return [
        tree["called"],
        tree["calling"],
        list(tree["app"]),
        [[pc["id"], pc["result"], list(pc["abstract"]), list(pc["transfer"])] for pc in tree["pcs"]],
        [[sub_term(t, v) for t, v in u] for u in tree["user"]],
    ]


# --------------------------------------------------------------------------
# the property's predicate, written from the statement
# --------------------------------------------------------------------------
def legal_uid(b):
    return 1 <= len(b) <= 64 and UID_RE.match(b) is not None


def legal_title(f):
    return len(f) == 16 and all(0x20 <= c <= 0x7E and c != 0x5C for c in f) and f.strip(b" ") != b""


def sub_uids(term):
    if isinstance(term, list):
        if term[0] in ("implUid", "role", "sopExt"):
            return [term[1]]
        if term[0] == "sopCommon":
            return [term[1], term[2], *term[3]]
    return []


def user_problems(tree):
    out = []
    if len(tree["user"]) != 1:
        out.append(f"user-information-items={len(tree['user'])}")
        return out, []
    terms = [sub_term(t, v) for t, v in tree["user"][0]]
    n51 = sum(1 for t, _ in tree["user"][0] if t == 0x51)
    n52 = sum(1 for t, _ in tree["user"][0] if t == 0x52)
    if n51 != 1:
        out.append(f"maximum-length-items={n51}")
    if n52 != 1:
        out.append(f"implementation-class-uid-items={n52}")
    return out, terms


def rq_problems(tree):
    """list of (sig-fragment) violations of the statement by an A-ASSOCIATE-RQ"""
    out = []
    pcs = tree["pcs"]
    if not 1 <= len(pcs) <= 128:
        out.append(f"context-count={len(pcs)}")
    ids = [pc["id"] for pc in pcs]
    if len(set(ids)) != len(ids):
        out.append("duplicate-context-ids")
    if any(i % 2 == 0 or not 1 <= i <= 255 for i in ids):
        out.append("context-id-not-odd-1-255")
    if any(len(pc["abstract"]) != 1 for pc in pcs):
        out.append("not-exactly-one-abstract-syntax")
    if any(len(pc["transfer"]) < 1 for pc in pcs):
        out.append("context-without-transfer-syntax")
    if len(tree["app"]) != 1:
        out.append(f"application-context-items={len(tree['app'])}")
    up, terms = user_problems(tree)
    out += up
    structure_ok = not out
    if not legal_title(tree["called"]):
        out.append("illegal-called-title")
    if not legal_title(tree["calling"]):
        out.append("illegal-calling-title")
    uids = list(tree["app"]) + [u for pc in pcs for u in pc["abstract"] + pc["transfer"]]
    for t in terms:
        uids += sub_uids(t)
    if not all(legal_uid(u) for u in uids):
        out.append("non-conformant-uid")
    return out, structure_ok


def ac_problems(rq_tree, ac_tree):
    out = []
    if not legal_title(ac_tree["called"]) or not legal_title(ac_tree["calling"]):
        out.append("illegal-title")
    if sorted(pc["id"] for pc in ac_tree["pcs"]) != sorted(pc["id"] for pc in rq_tree["pcs"]):
        out.append("result-items-do-not-match-proposed-contexts")
    for pc in ac_tree["pcs"]:
        if pc["result"] == 0 and (len(pc["transfer"]) != 1 or not legal_uid(pc["transfer"][0])):
            out.append("accepted-item-without-one-legal-transfer-syntax")
            break
    if len(ac_tree["app"]) != 1 or not all(legal_uid(u) for u in ac_tree["app"]):
        out.append("application-context")
    up, terms = user_problems(ac_tree)
    out += up
    if not all(legal_uid(u) for t in terms for u in sub_uids(t)):
        out.append("non-conformant-uid")
    return out


# --------------------------------------------------------------------------
# acceptors
# --------------------------------------------------------------------------
class Acceptors:
    def __init__(self):
        from pynetdicom import AE, evt

        self.servers = []
        # 0: defaults
        ae = AE(ae_title="ACCEPTOR")
        ae.add_supported_context(VER)
        ae.add_supported_context(CT, [ELE])
        ae.add_supported_context(MR, [ILE, JPG], scu_role=True, scp_role=True)
        ae.add_supported_context(FIND)
        ae.add_supported_context(PRIV, [PTS, ILE])
        ae.add_supported_context(LONG, [LONGTS])
        self._start(ae, [])
        # 1: other identity of the acceptor, identity handler answering, max pdu 0, no version name
        ae = AE(ae_title="B")
        ae.implementation_class_uid = "1.2.3.4"
        ae.implementation_version_name = None
        ae.maximum_pdu_size = 0
        ae.add_supported_context(VER, [EBE])
        ae.add_supported_context(SC, [ILE], scu_role=True, scp_role=False)
        ae.add_supported_context("0", [ILE])
        self._start(ae, [(evt.EVT_USER_ID, lambda e: (True, b"RSP"))])

    def _start(self, ae, handlers):
        ae.acse_timeout = 10
        srv = ae.start_server(("127.0.0.1", 0), block=False, evt_handlers=handlers)
        self.servers.append((ae, srv, bool(handlers)))

    def drain(self):
        t0 = time.monotonic()
        while any(ae.active_associations for ae, _, _ in self.servers) and time.monotonic() - t0 < 5:
            time.sleep(0.002)

    def stop(self):
        for _, srv, _ in self.servers:
            try:
                srv.shutdown()
            except Exception:
                pass


# --------------------------------------------------------------------------
# generator
# --------------------------------------------------------------------------
def gen_ext(rng, abstracts):
    ext = []
    ab = lambda: rng.choice(abstracts)  # noqa: E731
    if rng.random() < 0.5:
        for _ in range(rng.choice([1, 1, 2])):
            scu, scp = rng.choice([(True, False), (False, True), (True, True)])
            ext.append(["role", ab(), scu, scp])
    if rng.random() < 0.4:
        ext.append(["async", rng.choice([0, 1, 5, 65535]), rng.choice([0, 1, 65535])])
    if rng.random() < 0.5:
        ext.append(["userId", rng.randrange(1, 6), rng.random() < 0.5])
    if rng.random() < 0.4:
        ext.append(["sopExt", ab(), bytes(rng.randrange(256) for _ in range(rng.choice([0, 1, 6])))])
    if rng.random() < 0.4:
        ext.append(["sopCommon", ab(), "1.2.840.10008.4.2", [rng.choice(ABS) for _ in range(rng.choice([0, 1, 3]))]])
    rng.shuffle(ext)
    return ext


def gen_case(rng):
    n = rng.choice([1, 1, 2, 3, 5, 8, 17, 64, 127, 128])
    ctxs = []
    for _ in range(n):
        k = rng.choice([1, 1, 2, 4])
        tss = [rng.choice(TSS) for _ in range(k)]  # repeats are dropped by the context itself
        if ctxs and rng.random() < 0.15:
            ctxs.append(list(rng.choice(ctxs)))  # the very same context again (the runner may pass the same object twice)
        else:
            ctxs.append([rng.choice(ABS), tss])
    calling = rng.choice(["A", "ABCDEFGHIJKLMNOP", " X", "X  ", "A B", "a~!@#$%^&*()_+{}", "PYNETDICOM", "SCU"])
    called = rng.choice(["ANY-SCP", "B", "ABCDEFGHIJKLMNOP", "  PADDED  ", "q", "ACCEPTOR"])
    maxpdu = rng.choice([0, 1, 16382, 2**32 - 1, rng.randrange(2, 2**32 - 1)])
    impl = rng.choice([None, "1.2", LONG, "0", "1.2.826.0.1.3680043.9.3811.9"])
    ver = rng.choice(["default", None, "V", "1234567890123456", "a b"])
    abstracts = sorted({c[0] for c in ctxs})
    ext = gen_ext(rng, abstracts)
    kind = "valid"
    r = rng.random()
    if r < 0.16:  # something the API (or the encoder) must refuse
        kind = rng.choice(
            ["129-contexts", "no-contexts", "no-transfer-syntax", "blank-calling", "blank-called", "17-char-title",
             "backslash-title", "65-char-abstract", "65-char-ts", "empty-version", "17-char-version", "bad-impl-uid",
             "empty-abstract", "control-char-title"] * 3
            # accepted by associate() but not encodable: nothing is sent, associate() waits for the ACSE timeout
            + ["maxpdu-2^32", "role-neither", "async-70000"]
        )
        if kind == "129-contexts":
            ctxs = [[VER, [ILE]]] * 129
        elif kind == "no-contexts":
            ctxs = []
        elif kind == "no-transfer-syntax":
            ctxs[rng.randrange(len(ctxs))][1] = []
        elif kind == "blank-calling":
            calling = rng.choice(["", " ", "   "])
        elif kind == "blank-called":
            called = rng.choice(["", "  "])
        elif kind == "17-char-title":
            called = "ABCDEFGHIJKLMNOPQ"
        elif kind == "backslash-title":
            calling = "A\\B"
        elif kind == "control-char-title":
            called = rng.choice(["A\tB", "\nA", "A\x7f", "Aé"])
        elif kind == "65-char-abstract":
            ctxs[0][0] = LONG + "5"
        elif kind == "65-char-ts":
            ctxs[0][1] = [LONGTS + "5"]
        elif kind == "empty-abstract":
            ctxs[0][0] = ""
        elif kind == "empty-version":
            ver = ""
        elif kind == "17-char-version":
            ver = "12345678901234567"
        elif kind == "bad-impl-uid":
            impl = rng.choice(["1.02", "abc", "1..2", LONG + "1"])
        elif kind == "maxpdu-2^32":
            maxpdu = 2**32
        elif kind == "role-neither":
            ext.append(["role", ctxs[0][0], False, False])
        elif kind == "async-70000":
            ext.append(["async", 70000, 1])
    elif r < 0.22:  # UIDs the API accepts although they are not conformant
        kind = "non-conformant-uid"
        bad = rng.choice(["1.2.03", "abc", "1..2", "1.2.", ".1", "1.2.840.10008.1.1.", "1.2 .3"])
        where = rng.choice(["abstract", "ts", "role", "sopExt"])
        if where == "abstract":
            ctxs[rng.randrange(len(ctxs))][0] = bad
        elif where == "ts":
            ctxs[rng.randrange(len(ctxs))][1] = [bad]
        elif where == "role":
            ext.append(["role", bad, True, True])
        else:
            ext.append(["sopExt", bad, b"\x01"])
    return ["assoc", rng.randrange(2), calling, called, ctxs, maxpdu, impl, ver, ext], kind


# --------------------------------------------------------------------------
# running one configuration through the public API
# --------------------------------------------------------------------------
def make_ext(ext):
    from pynetdicom import build_role
    from pynetdicom.pdu_primitives import (
        AsynchronousOperationsWindowNegotiation,
        SOPClassCommonExtendedNegotiation,
        SOPClassExtendedNegotiation,
        UserIdentityNegotiation,
    )

    items = []
    for e in ext:
        if e[0] == "role":
            items.append(build_role(e[1], scu_role=e[2], scp_role=e[3]))
        elif e[0] == "async":
            it = AsynchronousOperationsWindowNegotiation()
            it.maximum_number_operations_invoked = e[1]
            it.maximum_number_operations_performed = e[2]
            items.append(it)
        elif e[0] == "userId":
            it = UserIdentityNegotiation()
            it.user_identity_type = e[1]
            it.primary_field = b"user"
            if e[1] == 2:
                it.secondary_field = b"pass"
            it.positive_response_requested = bool(e[2])
            items.append(it)
        elif e[0] == "sopExt":
            it = SOPClassExtendedNegotiation()
            it.sop_class_uid = e[1]
            it.service_class_application_information = e[2]
            items.append(it)
        elif e[0] == "sopCommon":
            it = SOPClassCommonExtendedNegotiation()
            it.sop_class_uid = e[1]
            it.service_class_uid = e[2]
            it.related_general_sop_class_identification = list(e[3])
            items.append(it)
    return items


def drive(acc, case):
    """-> dict(raised=str|None, sent=[bytes], recv=[bytes], cfg=Lean cfg term, contexts=[PresentationContext])"""
    from pynetdicom import AE, build_context, evt

    _, which, calling, called, ctxs, maxpdu, impl, ver, ext = case[:9]
    ae_s, srv, _ = acc.servers[which]
    sent, recv = [], []
    out = {"raised": None, "sent": sent, "recv": recv, "contexts": None}
    # the configuration as the model sees it (raw values; refined below with what the API objects hold)
    cfg_ctx = [[c[0].encode("utf-8"), [t.encode("utf-8") for t in c[1]]] for c in ctxs]
    scu = None
    try:
        scu = AE(ae_title=calling)
        scu.acse_timeout = 2  # an unencodable request kills the DUL thread; associate() then waits this long
        if impl is not None:
            scu.implementation_class_uid = impl
        if ver != "default":
            scu.implementation_version_name = ver
        # equal entries are, half of the time, the same PresentationContext object (`[cx] * 2`, or one object
        # appended twice): legal input for the API, which must still number the contexts distinctly
        import random as _random

        alias_rng = _random.Random(repr(case))
        contexts, seen_cx = [], {}
        for ab, tss in ctxs:
            key = (ab, tuple(tss))
            if key in seen_cx and alias_rng.random() < 0.5:
                contexts.append(seen_cx[key])
            else:
                seen_cx[key] = build_context(ab, list(tss))
                contexts.append(seen_cx[key])
        # what the API objects hold (repeated transfer syntaxes are dropped by PresentationContext)
        cfg_ctx = [[str(cx.abstract_syntax).encode(), [str(t).encode() for t in cx.transfer_syntax]] for cx in contexts]
        items = make_ext(ext)
        out["items"] = items
        out["contexts"] = contexts
        # contexts handed over may already carry an id (taken from an earlier association, or set by hand): whatever they
        # carry, the ids on the wire are associate()'s own 1, 3, 5, ...
        if alias_rng.random() < 0.3:
            for cx in contexts:
                if alias_rng.random() < 0.6:
                    cx.context_id = alias_rng.choice([1, 1, 3, 5, 255])
        # how the requested contexts reach associate(): the `contexts` keyword, or the AE's own list (filled with
        # add_requested_context, or assigned): every route must end in the same validated request
        route = case[9] if len(case) > 9 else alias_rng.choice(["kw", "kw", "ae-add", "ae-set"])
        out["route"] = route
        kw = {}
        if route == "kw":
            kw["contexts"] = contexts
        elif route == "ae-set":
            scu.requested_contexts = contexts
        else:
            for ab, tss in ctxs:
                scu.add_requested_context(ab, list(tss))
        assoc = scu.associate(
            "127.0.0.1",
            srv.server_address[1],
            ae_title=called,
            **kw,
            max_pdu=maxpdu,
            ext_neg=items,
            evt_handlers=[
                (evt.EVT_DATA_SENT, lambda e: sent.append(bytes(e.data))),
                (evt.EVT_DATA_RECV, lambda e: recv.append(bytes(e.data))),
            ],
        )
        out["state"] = [assoc.is_established, assoc.is_rejected, assoc.is_aborted]
        if assoc.is_established:
            assoc.release()
    except (ValueError, TypeError, RuntimeError) as e:
        out["raised"] = f"{type(e).__name__}: {e}"
    impl_b = (str(scu.implementation_class_uid) if scu is not None and out["raised"] is None else (impl or "1.2.826.0.1.3680043.9.3811.3.1.0")).encode("utf-8")
    if ver == "default":
        from pynetdicom import PYNETDICOM_IMPLEMENTATION_VERSION

        ver_b = PYNETDICOM_IMPLEMENTATION_VERSION.encode()
    else:
        ver_b = None if ver is None else ver.encode("utf-8")
    ext_t = []
    if out.get("items") is not None:
        # what the API objects hold (pydicom's UID() strips surrounding whitespace)
        for it in out["items"]:
            n = type(it).__name__
            if n == "SCP_SCU_RoleSelectionNegotiation":
                ext_t.append(["role", str(it.sop_class_uid).encode(), bool(it.scu_role), bool(it.scp_role)])
            elif n == "AsynchronousOperationsWindowNegotiation":
                ext_t.append(["async", it.maximum_number_operations_invoked, it.maximum_number_operations_performed])
            elif n == "UserIdentityNegotiation":
                ext_t.append(["userId", it.user_identity_type, bool(it.positive_response_requested)])
            elif n == "SOPClassExtendedNegotiation":
                ext_t.append(["sopExt", str(it.sop_class_uid).encode(), it.service_class_application_information])
            else:
                ext_t.append(["sopCommon", str(it.sop_class_uid).encode(), str(it.service_class_uid).encode(),
                              [str(r).encode() for r in it.related_general_sop_class_identification]])
        ext = []
    for e in ext:
        if e[0] == "role":
            ext_t.append(["role", e[1].encode(), bool(e[2]), bool(e[3])])
        elif e[0] == "async":
            ext_t.append(["async", e[1], e[2]])
        elif e[0] == "userId":
            ext_t.append(["userId", e[1], bool(e[2])])
        elif e[0] == "sopExt":
            ext_t.append(["sopExt", e[1].encode(), e[2]])
        else:
            ext_t.append(["sopCommon", e[1].encode(), e[2].encode(), [r.encode() for r in e[3]]])
    out["cfg"] = [calling.encode("utf-8"), called.encode("utf-8"), cfg_ctx, maxpdu, impl_b, ver_b, ext_t]
    return out


def expected_ac_inputs(acc, case, out, rq_canon):
    """negotiation result of the REAL negotiate_as_acceptor + the acceptor's user information"""
    from copy import deepcopy

    from pynetdicom.presentation import negotiate_as_acceptor

    _, which, calling, called, ctxs, maxpdu, impl, ver, ext = case[:9]
    ae_s, srv, answers_id = acc.servers[which]
    rq = [deepcopy(cx) for cx in out["contexts"]]  # one copy per entry: entries may be the same object
    for i, cx in enumerate(rq):
        cx.context_id = 2 * i + 1
    roles = {}
    for e in ext:
        if e[0] == "role":
            roles[e[1].strip()] = (e[2], e[3])
    res, ac_roles = negotiate_as_acceptor(rq, deepcopy(srv.contexts), roles)
    res_t = [[cx.context_id, cx.result, [str(t).encode() for t in cx.transfer_syntax]] for cx in res]
    user = [["maxLength", ae_s.maximum_pdu_size], ["implUid", str(ae_s.implementation_class_uid).encode()]]
    if ae_s.implementation_version_name is not None:
        user.append(["implVersion", ae_s.implementation_version_name.encode()])
    for r in ac_roles:
        user.append(["role", str(r.sop_class_uid).encode(), bool(r.scu_role), bool(r.scp_role)])
    ids = [e for e in ext if e[0] == "userId"]
    if answers_id and ids and ids[0][1] in (3, 4, 5) and ids[0][2]:
        user.append("userIdResponse")
    return res_t, user


def lean_bools(x):
    """Python True/False inside canonical terms are printed as T/F by sexp.dumps and read back as 'T'/'F'"""
    if x is True:
        return "T"
    if x is False:
        return "F"
    if isinstance(x, list):
        return [lean_bools(y) for y in x]
    return x


KNOWN_UID = "c12:rq:non-conformant-uid-accepted-by-the-api"
KNOWN_DUP = "c12:ac:duplicate-proposed-context-ids-answered-with-one-result-item"


def check_case(ctx, acc, case, kind, out, batch):
    """evaluate the oracle now; queue the Lean requests (answered later in one batch)"""
    sent_rq = [b for b in out["sent"] if b and b[0] == 1]
    recv_ac = [b for b in out["recv"] if b and b[0] == 2]
    nothing_sent = out["raised"] is not None or not sent_rq
    entry = {"case": case, "kind": kind, "out": out, "nothing_sent": nothing_sent, "rq": None, "ac": None}
    if not nothing_sent:
        try:
            rq_tree = rp.parse_assoc(sent_rq[0])
            rq_canon = canon_tree(rq_tree)
        except (rp.Malformed, struct.error, IndexError) as e:
            ctx.fail("c12:rq:malformed-pdu", f"A-ASSOCIATE-RQ does not parse: {e}", case)
            return
        probs, _ = rq_problems(rq_tree)
        entry["rq"] = (rq_tree, rq_canon, probs)
        for p in probs:
            sig = KNOWN_UID if p == "non-conformant-uid" else f"c12:rq:{p}"
            ctx.fail(sig, f"A-ASSOCIATE-RQ sent by associate(): {p} ({brief(case)})", case)
        if rq_tree["other"] or any(pc["other"] for pc in rq_tree["pcs"]) or rq_tree["version"] != 1:
            ctx.fail("c12:rq:unexpected-item", f"unexpected item types in the A-ASSOCIATE-RQ ({brief(case)})", case)
        if recv_ac:
            try:
                ac_tree = rp.parse_assoc(recv_ac[0])
                ac_canon = canon_tree(ac_tree)
            except (rp.Malformed, struct.error, IndexError) as e:
                ctx.fail("c12:ac:malformed-pdu", f"A-ASSOCIATE-AC does not parse: {e}", case)
                return
            aprobs = ac_problems(rq_tree, ac_tree)
            entry["ac"] = (ac_tree, ac_canon, aprobs)
            for p in aprobs:
                ctx.fail(f"c12:ac:{p}", f"A-ASSOCIATE-AC sent by the acceptor: {p} ({brief(case)})", case)
    batch.append(entry)


def brief(case):
    _, which, calling, called, ctxs, maxpdu, impl, ver, ext = case[:9]
    shown = ctxs if len(ctxs) <= 3 else ctxs[:2] + ["…"]
    return f"acceptor={which} calling={calling!r} called={called!r} contexts[{len(ctxs)}]={shown} max_pdu={maxpdu} impl={impl!r} version={ver!r} ext={ext}" + (f" contexts-via={case[9]}" if len(case) > 9 else "")


def correspond(ctx, acc, batch):
    reqs = []
    for e in batch:
        e["i_rq"] = len(reqs)
        reqs.append(["conform.rq", e["out"]["cfg"]])
        if e["rq"]:
            e["i_check"] = len(reqs)
            reqs.append(["conform.check", e["rq"][1]])
        if e["ac"]:
            res_t, user = expected_ac_inputs(acc, e["case"], e["out"], e["rq"][1])
            e["i_ac"] = len(reqs)
            reqs.append(["conform.ac", e["rq"][1], res_t, user])
            e["i_checkac"] = len(reqs)
            reqs.append(["conform.checkac", e["rq"][1], e["ac"][1]])
    rep = ctx.lean(reqs)
    for e in batch:
        case = e["case"]
        r = rep[e["i_rq"]]
        if r == "ERR:args":
            ctx.diff(case, "cfg", "ERR:args")
            continue
        accepted, uids_legal, tree, conf = r
        if (accepted == "T") != (not e["nothing_sent"]):
            ctx.diff(
                case,
                f"raised={e['out']['raised']} rq_sent={not e['nothing_sent']}",
                f"acceptedByApi={accepted}",
                what="API acceptance differs from the model",
            )
            continue
        if e["rq"]:
            rq_tree, rq_canon, probs = e["rq"]
            if lean_bools(rq_canon) != tree:
                ctx.diff(case, lean_bools(rq_canon), tree, what="A-ASSOCIATE-RQ on the wire differs from buildRQ")
            s, v = rep[e["i_check"]]
            if (s == "T" and v == "T") != (not probs):
                ctx.diff(case, probs, [s, v], what="Lean conformantRQ on the parsed PDU disagrees with the Python oracle")
        if e["ac"]:
            ac_tree, ac_canon, aprobs = e["ac"]
            r = rep[e["i_ac"]]
            if r == "ERR:args":
                ctx.diff(case, "ac inputs", "ERR:args")
                continue
            mtree, mconf = r
            if lean_bools(ac_canon) != mtree:
                ctx.diff(case, lean_bools(ac_canon), mtree, what="A-ASSOCIATE-AC on the wire differs from buildAC")
            if (rep[e["i_checkac"]] == "T") != (not aprobs):
                ctx.diff(case, aprobs, rep[e["i_checkac"]], what="Lean conformantAC on the parsed PDUs disagrees with the Python oracle")


def dup_id_witness(ctx, acc):
    """replay of C12_ac_conformant_neg: a raw peer proposes two acceptable contexts with the same id"""
    _, srv, _ = acc.servers[0]
    b = bytearray(rp.build_rq(b"ACCEPTOR".ljust(16), b"RAW".ljust(16), contexts=[(VER, [ILE]), (CT, [ELE])]))
    o = 74
    while o < len(b):
        t, _, ln = struct.unpack(">BBH", b[o : o + 4])
        if t == 0x20:
            b[o + 4] = 1
        o += 4 + ln
    p = rp.RawPeer(srv.server_address)
    p.send(bytes(b))
    r = p.recv_pdu(5.0)
    p.send(rp.ABORT)
    p.close()
    case = ["raw-duplicate-ids", bytes(b)]
    ctx.case(case, kind="raw-peer:duplicate-ids")
    if r[0] != 2:
        return  # refused: fine
    rq_tree, ac_tree = rp.parse_assoc(bytes(b)), rp.parse_assoc(r[1])
    for pr in ac_problems(rq_tree, ac_tree):
        sig = KNOWN_DUP if pr == "result-items-do-not-match-proposed-contexts" else f"c12:ac:{pr}"
        ctx.fail(
            sig,
            f"request with two acceptable contexts both numbered 1 is answered with {len(ac_tree['pcs'])} result item(s): {pr}",
            case,
        )


def routed(cases):
    """the directed cases the API must refuse (or that sit on a limit), through every route the contexts can take"""
    out = []
    for c in cases:
        for route in ("kw", "ae-add", "ae-set"):
            out.append(c + [route])
    return out


FIXED = [
    ["assoc", 0, "SCU", "ANY-SCP", [[VER, [ILE]]], 16382, None, "default", []],
    ["assoc", 0, "ABCDEFGHIJKLMNOP", "ABCDEFGHIJKLMNOP", [[ABS[i % len(ABS)], [TSS[i % len(TSS)]]] for i in range(128)], 2**32 - 1, LONG, "1234567890123456",
     [["sopCommon", CT, "1.2.840.10008.4.2", [MR]], ["sopExt", CT, b"\x00\x01"], ["userId", 2, True], ["async", 5, 1], ["role", MR, True, True]]],
    ["assoc", 1, "A", "B", [[VER, [EBE, ILE]], [SC, [ILE]], ["0", [ILE]], [CT, [ILE]]], 0, "1.2", None, [["userId", 4, True], ["role", SC, True, False]]],
    ["assoc", 0, "SCU", "ANY-SCP", [[VER, [ILE]]] * 129, 16382, None, "default", []],
    ["assoc", 0, "SCU", "ANY-SCP", [[VER, []]], 16382, None, "default", []],
    ["assoc", 0, "SCU", "ANY-SCP", [["1.2.03", [ILE]]], 16382, None, "default", []],
]
FIXED += routed([
    ["assoc", 0, "SCU", "ANY-SCP", [[VER, []]], 16382, None, "default", []],
    ["assoc", 1, "SCU", "ANY-SCP", [[VER, [ILE]], [CT, []]], 16382, None, "default", []],
    ["assoc", 0, "SCU", "ANY-SCP", [["", [ILE]]], 16382, None, "default", []],
    ["assoc", 0, "SCU", "ANY-SCP", [[VER, [ILE]]] * 128, 16382, None, "default", []],
    ["assoc", 0, "SCU", "ANY-SCP", [[VER, [ILE]]] * 129, 16382, None, "default", []],
])


def char_sweep(ctx):
    """every 7-bit character that is not legal in an AE title / version name (all C0 controls, backslash, DELETE)
    plus three 8-bit ones, in the calling title, the called title and the implementation version name, at a
    generated position: the API must refuse the value or never put it on the wire"""
    chars = list(range(0x00, 0x20)) + [0x5C, 0x7F, 0x80, 0xE9, 0xFF]
    always = [0x00, 0x1F, 0x5C, 0x7F]
    if ctx.quick:
        chars = always + ctx.rng.sample([c for c in chars if c not in always], 8)
    out = []
    for c in chars:
        for field in ("calling", "called", "version"):
            body = ctx.rng.choice(["AB", "ABCDEFGHIJKLMNO", "A"])
            i = ctx.rng.choice([0, len(body) // 2 + (len(body) == 1), len(body)])
            val = body[:i] + chr(c) + body[i:]
            case = ["assoc", ctx.rng.randrange(2), "SCU", "ANY-SCP", [[VER, [ILE]]], 16382, None, "default", []]
            case[{"calling": 2, "called": 3, "version": 7}[field]] = val
            out.append((case, f"char-sweep:{field}"))
    return out


def run(ctx):
    rp.quiet()
    ctx.rule = (
        "e2e wire tap: generated requestor configurations (1..128 contexts with repeats, boundary titles/UIDs/version names, "
        "max PDU 0/1/16382/2^32-1, every combination of the 5 extended-negotiation item kinds, a stream the API must refuse) "
        "through the public API against two real acceptors; non-trivial = a request was sent and carries ≥ 2 contexts or an "
        "extended-negotiation item"
    )
    ctx.assumptions.append(
        "C12: byte layout of the items is C01's; the acceptor's negotiation result (one result per proposed id, a transfer "
        "syntax on accepted results) is C10's and enters C12_ac_conformant_partial as explicit hypotheses; pydicom UID.is_valid "
        "is modelled by Conform.legalUid"
    )
    old_hook = threading.excepthook
    threading.excepthook = lambda args: None  # an unencodable request kills the DUL thread with a traceback
    acc = Acceptors()
    try:
        n = ctx.n(120, 2000)
        cases = [(c, "fixed") for c in FIXED]
        while len(cases) < n:
            cases.append(gen_case(ctx.rng))
        cases.extend(char_sweep(ctx))
        batch = []
        for k, (case, kind) in enumerate(cases):
            out = drive(acc, case)
            sent = any(b and b[0] == 1 for b in out["sent"]) and out["raised"] is None
            ctx.case(case, nontrivial=sent and (len(case[4]) >= 2 or bool(case[8])), kind=("sent|" if sent else "refused|") + kind)
            check_case(ctx, acc, case, kind, out, batch)
            if k % 20 == 19:
                acc.drain()
        acc.drain()
        correspond(ctx, acc, batch)
        dup_id_witness(ctx, acc)
    finally:
        threading.excepthook = old_hook
        acc.stop()


def search(ctx):
    """correspondence broken or a theorem no longer builds: hunt for a configuration on which the real
    code violates the property itself (oracle only, a fresh larger batch)"""
    rp.quiet()
    old_hook = threading.excepthook
    threading.excepthook = lambda args: None
    acc = Acceptors()
    try:
        for k in range(ctx.n(200, 1000)):
            case, kind = gen_case(ctx.rng)
            out = drive(acc, case)
            check_case(ctx, acc, case, kind, out, [])
            if k % 20 == 19:
                acc.drain()
        dup_id_witness(ctx, acc)
    finally:
        threading.excepthook = old_hook
        acc.stop()


def replay(ctx, case):
    rp.quiet()
    c = case["case"]
    acc = Acceptors()
    threading.excepthook = lambda args: None

    class _C:
        def __init__(self):
            self.failures, self.diffs = [], []

        def fail(self, sig, what, case):
            self.failures.append((sig, what))

        def diff(self, case, impl, model, what=""):
            self.diffs.append((what, impl, model))

        def case(self, *a, **k):
            pass

        lean = ctx.lean

    cc = _C()
    try:
        if c[0] == "raw-duplicate-ids":
            dup_id_witness(cc, acc)
        else:
            c = unjson(c)
            out = drive(acc, c)
            print("case  :", brief(c))
            print("raised:", out["raised"], " PDUs sent:", [(b[0], len(b)) for b in out["sent"]], " received:", [(b[0], len(b)) for b in out["recv"]])
            batch = []
            check_case(cc, acc, c, "", out, batch)
            correspond(cc, acc, batch)
    finally:
        acc.stop()
    for f in cc.failures:
        print("oracle:", f)
    for d in cc.diffs:
        print("diff  :", d)
    return 1 if cc.failures else 0


def unjson(c):
    def b(x):
        return bytes.fromhex(x[1:]) if isinstance(x, str) and x.startswith("x") and all(ch in "0123456789abcdef" for ch in x[1:]) and len(x) % 2 == 1 else x

    ext = []
    for e in c[8]:
        e = list(e)
        if e[0] == "sopExt":
            e[2] = b(e[2])
        ext.append(e)
    return [c[0], c[1], c[2], c[3], c[4], c[5], c[6], c[7], ext]
