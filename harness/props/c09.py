"""C09 — protocol timers measure elapsed time, unaffected by wall-clock changes.

Real side: `pynetdicom.timer.Timer` objects (plain ones, and the ARTIM / network
idle timers of a real, unstarted `Association`'s DUL, operated through
`Association.network_timeout` / `acse_timeout` and `DUL.idle_timer_expired`)
with the name `time` in `pynetdicom.timer` replaced — in this process only — by
a fake module whose `monotonic()`/`perf_counter()` return the generated
monotonic reading and whose `time()` returns monotonic + offset.
Model side: `Timer.runTimer .monotonic` in the Lean driver.
Oracle (implementation alone): every `expired` answer equals "timeout set, timer
started, and monotonic time elapsed since the last start (up to now, or up to
the last stop) > timeout"; `remaining` = timeout - that elapsed time; no
operation raises.  The wall offsets jump by either sign between operations.
"""
import itertools

from translate import timer as tr_timer

GEN = [tr_timer.generate]

QUERY = ("expired", "remaining")


class FakeTime:
    """stands in for the `time` module inside pynetdicom.timer"""

    def __init__(self):
        self.m = 0
        self.off = 0
        self.calls = {"time": 0, "monotonic": 0, "perf_counter": 0}

    def time(self):
        self.calls["time"] += 1
        return self.m + self.off

    def monotonic(self):
        self.calls["monotonic"] += 1
        return self.m

    def perf_counter(self):
        self.calls["perf_counter"] += 1
        return self.m

    def time_ns(self):
        self.calls["time"] += 1
        return (self.m + self.off) * 10**9

    def monotonic_ns(self):
        self.calls["monotonic"] += 1
        return self.m * 10**9

    def sleep(self, _):
        pass


def sint(i):
    return i if i >= 0 else ["neg", -i]


def unsint(v):
    return -v[1] if isinstance(v, list) else v


def canon_num(r):
    """an observed `remaining`: must be integer valued (all inputs are)"""
    if isinstance(r, bool) or not isinstance(r, (int, float)):
        return "ERR:type:" + type(r).__name__
    if r != int(r):
        return "ERR:nonint"
    return int(r)


# ---------------------------------------------------------------------------
# running one case on the real code
# ---------------------------------------------------------------------------
class Target:
    """kind = plain | idle | artim"""

    def __init__(self, kind, init):
        from pynetdicom import timer as tmod

        self.kind = kind
        if kind == "plain":
            self.timer = tmod.Timer(init)
            self.assoc = None
        else:
            from pynetdicom import AE
            from pynetdicom.association import Association

            ae = AE()
            self.assoc = Association(ae, "acceptor")
            self.timer = self.assoc.dul._idle_timer if kind == "idle" else self.assoc.dul.artim_timer
            assert type(self.timer) is tmod.Timer
            self.set_timeout(init)

    def set_timeout(self, v):
        if self.kind == "plain":
            self.timer.timeout = v
        elif self.kind == "idle":
            self.assoc.network_timeout = v
        else:
            self.assoc.acse_timeout = v

    def expired(self):
        if self.kind == "idle":
            return self.assoc.dul.idle_timer_expired()
        return self.timer.expired


def _patch(tmod, fake):
    """replace, in pynetdicom.timer's namespace, the `time` module and any function imported from it"""
    import time as real

    table = {
        real.time: fake.time,
        real.monotonic: fake.monotonic,
        real.perf_counter: fake.perf_counter,
        real.time_ns: fake.time_ns,
        real.monotonic_ns: fake.monotonic_ns,
        real.sleep: fake.sleep,
    }
    saved = {}
    for name, val in list(vars(tmod).items()):
        if val is real:
            saved[name] = val
            setattr(tmod, name, fake)
        elif callable(val) and getattr(val, "__module__", None) == "time" and val in table:
            saved[name] = val
            setattr(tmod, name, table[val])
    return saved


def execute(case):
    """case = [kind, init, [[op, m, off, (v)], ...], (den)] -> (observations, fake.calls)

    All numbers are integer ticks; the real Timer sees ticks/den seconds (den = 1, 2 or 4: exact binary
    fractions, so float arithmetic is exact) and its `remaining` is scaled back to ticks."""
    from pynetdicom import timer as tmod

    kind, init, ops = case[:3]
    den = case[3] if len(case) > 3 else 1
    sec = (lambda x: x) if den == 1 else (lambda x: x / den)
    fake = FakeTime()
    saved = _patch(tmod, fake)
    obs = []
    try:
        if ops:
            fake.m, fake.off = sec(ops[0][1]), sec(ops[0][2])
        tg = Target(kind, None if init is None else sec(init))
        cur = init
        for op in ops:
            name, fake.m, fake.off = op[0], sec(op[1]), sec(op[2])
            try:
                if name == "start":
                    tg.timer.start()
                elif name == "stop":
                    tg.timer.stop()
                elif name == "restart":
                    tg.timer.restart()
                elif name == "set":
                    cur = op[3]
                    tg.set_timeout(None if cur is None else sec(cur))
                elif name == "expired":
                    r = tg.expired()
                    obs.append(r if isinstance(r, bool) else "ERR:type:" + type(r).__name__)
                elif name == "remaining":
                    r = tg.timer.remaining
                    # with no timeout the documented answer is the constant 1 (not a duration)
                    obs.append(canon_num(r if cur is None or den == 1 else r * den))
            except Exception as exc:  # no operation of Timer may raise
                obs.append("ERR:" + type(exc).__name__)
    finally:
        for name, val in saved.items():
            setattr(tmod, name, val)
    return obs, dict(fake.calls)


def oracle(case):
    """what C09 demands, computed from the monotonic readings only"""
    _, timeout, ops = case[:3]
    start = stop = None
    out = []
    for op in ops:
        name, m = op[0], op[1]
        if name in ("start", "restart"):
            start, stop = m, None
        elif name == "stop":
            stop = m
        elif name == "set":
            timeout = op[3]
        else:
            elapsed = None if start is None else (m if stop is None else stop) - start
            if name == "expired":
                out.append(timeout is not None and elapsed is not None and elapsed > timeout)
            else:
                out.append(1 if timeout is None else (timeout if elapsed is None else timeout - elapsed))
    return out


def request(case):
    _, init, ops = case[:3]
    return [
        "timer",
        "mono",
        None if init is None else sint(init),
        [[o[0], sint(o[1]), sint(o[2])] + ([None if o[3] is None else sint(o[3])] if o[0] == "set" else []) for o in ops],
    ]


def unreply(r):
    return [x == "T" if x in ("T", "F") else unsint(x) for x in r]


# ---------------------------------------------------------------------------
# generators
# ---------------------------------------------------------------------------
def gen_timeout(rng, nonneg=False):
    x = rng.random()
    if x < 0.12:
        return None
    if x < 0.22:
        return 0
    if x < 0.85:
        return rng.randint(1, 12)
    if x < 0.90 and not nonneg:
        return -rng.randint(1, 3)
    return rng.choice([30, 60, 600, 86400])


def gen_case(rng):
    kind = rng.choices(["plain", "idle", "artim"], [84, 8, 8])[0]
    init = gen_timeout(rng, nonneg=kind != "plain")
    n = rng.choice([1, 2, 3, 4, 5, 6, 8, 10, 14, 20])
    m = rng.choice([0, 1, rng.randint(0, 1000), rng.randint(10**5, 10**6)])
    off = rng.choice([0, 1_700_000_000, rng.randint(-10**6, 10**10)])
    timeout, start, stop = init, None, None
    ops = []
    for _ in range(n):
        # the monotonic reading advances (never backwards) ...
        x = rng.random()
        if start is not None and stop is None and timeout is not None and x < 0.35:
            m = max(m, start + timeout + rng.choice([-1, 0, 0, 1, 1, 2]))  # around the expiry instant
        elif x < 0.55:
            m += 0
        elif x < 0.85:
            m += rng.randint(1, 3)
        elif x < 0.95:
            m += rng.randint(4, 40)
        else:
            m += rng.randint(100, 10**5)
        # ... while the wall clock is stepped at arbitrary moments, by either sign
        y = rng.random()
        if y < 0.35:
            mag = rng.choice([1, 2, 5, rng.randint(1, 15), 100, 3600, 86400, 10**9])
            off += mag if rng.random() < 0.5 else -mag
        name = rng.choices(
            ["start", "stop", "restart", "set", "expired", "remaining"], [18, 14, 8, 12, 28, 20]
        )[0]
        if name == "set":
            v = gen_timeout(rng, nonneg=kind != "plain")
            ops.append(["set", m, off, v])
            timeout = v
        else:
            ops.append([name, m, off])
            if name in ("start", "restart"):
                start, stop = m, None
            elif name == "stop":
                stop = m
    den = 1 if kind != "plain" else rng.choice([1, 1, 1, 2, 4])
    return [kind, init, ops] if den == 1 else [kind, init, ops, den]


def exhaustive_cases(depth):
    """all op sequences of length <= depth over a small alphabet, wall step of either sign each op"""
    alphabet = []
    for name in ("start", "stop", "restart", "expired", "remaining"):
        alphabet.append((name,))
    for v in (None, 0, 2):
        alphabet.append(("set", v))
    steps = [(0, 0), (1, 7), (3, -7)]  # (monotonic increment, wall offset)
    for init in (None, 0, 2):
        for n in range(1, depth + 1):
            for seq in itertools.product(alphabet, repeat=n):
                if not any(s[0] in QUERY for s in seq):
                    continue
                for st in itertools.product(steps, repeat=n):
                    m, ops = 5, []
                    for s, (dm, off) in zip(seq, st):
                        m += dm
                        ops.append([s[0], m, off] + ([s[1]] if s[0] == "set" else []))
                    yield ["plain", init, ops]


def corpus_cases():
    import glob
    import json
    import os

    root = os.path.join(os.path.dirname(os.path.dirname(os.path.dirname(os.path.abspath(__file__)))), "corpus", "C09")
    return [json.load(open(f))["case"] for f in sorted(glob.glob(os.path.join(root, "*.json")))]


# ---------------------------------------------------------------------------
def classify(case, obs):
    _, init, ops = case[:3]
    names = {o[0] for o in ops}
    started = bool(names & {"start", "restart"})
    offs = {o[2] for o in ops}
    nontrivial = started and bool(names & set(QUERY)) and len(offs) > 1
    tags = [case[0] + ("/%d" % case[3] if len(case) > 3 and case[3] != 1 else "")]
    if "stop" in names:
        tags.append("stop")
    if "set" in names:
        tags.append("set")
    if True in obs:
        tags.append("exp")
    return nontrivial, "+".join(tags)


def check_batch(ctx, cases, count=True):
    reqs = [request(c) for c in cases]
    model = ctx.lean(reqs)
    wall_calls = 0
    for case, mr in zip(cases, model):
        obs, calls = execute(case)
        wall_calls += calls["time"]
        if count:
            nt, kind = classify(case, obs)
            ctx.case(case, nontrivial=nt, kind=kind)
        else:
            ctx.evaluations += 1
        want = oracle(case)
        if obs != want:
            i = next((k for k, (a, b) in enumerate(itertools.zip_longest(obs, want)) if a != b), 0)
            a = obs[i] if i < len(obs) else None
            b = want[i] if i < len(want) else None
            if isinstance(a, str):
                sig = "timer:operation-raised-or-bad-type"
            elif isinstance(b, bool):
                sig = "timer:expired-early" if a and not b else "timer:expiry-delayed"
            else:
                sig = "timer:remaining-not-timeout-minus-elapsed"
            ctx.fail(
                sig,
                f"Timer under wall-clock steps: observation #{i} is {a!r}, elapsed-time semantics demands {b!r}; "
                f"case {case!r} (ops are [name, monotonic reading, wall offset(, value)]) gave {obs!r}, expected {want!r}",
                case,
            )
        m = unreply(mr) if isinstance(mr, list) else mr
        if m != obs:
            ctx.diff(case, obs, m)
    return wall_calls


def run(ctx):
    ctx.rule = (
        "random op sequences (start/stop/restart/timeout change/expired/remaining) on real Timer objects with a fake "
        "time module: monotonic readings non-decreasing and often placed at timeout-1/timeout/timeout+1 after the last "
        "start, wall offset stepped by either sign; non-trivial = started, queried, and the wall offset changed"
    )
    rng = ctx.rng
    n = ctx.n(20000, 600000)
    wall_calls = check_batch(ctx, corpus_cases())
    chunk = 20000
    done = 0
    while done < n:
        k = min(chunk, n - done)
        wall_calls += check_batch(ctx, [gen_case(rng) for _ in range(k)])
        done += k
    # small-scope exhaustive
    depth = ctx.n(3, 4)
    batch, nex = [], 0
    for c in exhaustive_cases(depth):
        batch.append(c)
        if len(batch) >= chunk:
            wall_calls += check_batch(ctx, batch, count=False)
            nex += len(batch)
            batch = []
    if batch:
        wall_calls += check_batch(ctx, batch, count=False)
        nex += len(batch)
    ctx.hist[f"exhaustive-depth<={depth}"] += nex
    # report the smallest failing input of each signature
    ctx.failures.sort(key=lambda f: len(repr(f["case"])))
    ctx.diffs.sort(key=lambda d: len(repr(d.get("case"))))
    ctx.extra["exhaustive_small_scope"] = {"depth": depth, "cases": nex}
    ctx.extra["wall_clock_reads_by_timer"] = wall_calls
    ctx.extra["timer_clock_calls"] = dict(tr_timer.extract()[0])
    ctx.note(
        f"Timer read the wall clock {wall_calls} times over all cases; small-scope exhaustive: all sequences of "
        f"length <= {depth} over 8 operations x 3 (increment, wall offset) steps x 3 initial timeouts"
    )


def search(ctx):
    """deeper hunt when a theorem or the correspondence broke without an oracle failure"""
    rng = ctx.rng
    check_batch(ctx, [gen_case(rng) for _ in range(20000)], count=False)
    if not ctx.failures:
        check_batch(ctx, list(exhaustive_cases(3)), count=False)


def replay(ctx, case):
    c = case["case"]
    obs, calls = execute(c)
    want = oracle(c)
    model = unreply(ctx.lean([request(c)])[0])
    print("case      :", c)
    print("real Timer:", obs, " clock calls:", calls)
    print("C09 oracle:", want)
    print("Lean model:", model)
    return 0 if obs == want else 1
