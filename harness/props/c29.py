"""C29 — qrscp returns exactly the entities the PS3.4 matching rules select.

For generated small databases (inserted with the real `add_instance`) and
generated identifiers the real `search()` (C-FIND/C-GET/C-MOVE models, direct
call) and the real `handle_find` / `handle_get` (identifier encoded and decoded
like on the wire, real `Event`) are run, and the same rows and identifier go
to the Lean driver, which answers

  * `Model.QrMatch.search`   — the model of the code (must agree: correspondence);
  * `Spec.Match.selectFind/selectRetrieve` — PS3.4 C.2.2.2 / C.4.1.3.1.1 written from the
    standard (the property's oracle; a difference is a violation by the real
    code and is reported through `ctx.fail` with a signature naming the cause).

SQLite is modelled, not verified: the property is decided mainly by this run.
"""
from __future__ import annotations

import copy
import datetime
import logging
import os
import shutil
import tempfile
import types
from io import BytesIO

from translate import qr as tr_qr

GEN = [tr_qr.generate]

KW = [
    "PatientID", "PatientName", "StudyInstanceUID", "StudyDate", "StudyTime", "AccessionNumber", "StudyID",
    "SeriesInstanceUID", "Modality", "SeriesNumber", "SOPInstanceUID", "InstanceNumber",
]
COL = {k: i for i, k in enumerate(KW)}
VR = ["LO", "PN", "UI", "DA", "TM", "SH", "SH", "UI", "CS", "IS", "UI", "IS"]
LEVEL_OF = [0, 0, 1, 1, 1, 1, 1, 2, 2, 2, 3, 3]
UNIQUE = {0: 0, 1: 2, 2: 7, 3: 10}  # level -> column of its unique key
LEVEL_NAMES = ["PATIENT", "STUDY", "SERIES", "IMAGE"]
TEXT_VR = {"LO", "PN", "SH", "CS"}
NOROW = 999999

_LOG = logging.getLogger("verif.c29")
_LOG.addHandler(logging.NullHandler())
_LOG.propagate = False
_LOG.setLevel(logging.CRITICAL + 1)


def level_in(root, col):
    l = LEVEL_OF[col]
    return 1 if (root == "S" and l == 0) else l


def levels_of(root):
    return [0, 1, 2, 3] if root == "P" else [1, 2, 3]


# --------------------------------------------------------------------------
# database
# --------------------------------------------------------------------------
class Db:
    """A throw-away SQLite file filled through the real add_instance."""

    def __init__(self, specs):
        from sqlalchemy.orm import sessionmaker

        from pynetdicom.apps.qrscp import db as qdb

        base = "/dev/shm" if os.path.isdir("/dev/shm") and os.access("/dev/shm", os.W_OK) else None
        self.dir = tempfile.mkdtemp(prefix="verif-c29-", dir=base)
        self.url = "sqlite:///" + os.path.join(self.dir, "instances.sqlite")
        self.engine = qdb.create(self.url)
        self.session = sessionmaker(bind=self.engine)()
        for i, spec in enumerate(specs):
            qdb.add_instance(dataset_of(spec), self.session, os.path.join(self.dir, f"{i}.dcm"))
        # what is stored is read back: the rows ARE the database, whatever add_instance converted
        self.rows, self.index = [], {}
        for i, inst in enumerate(self.session.query(qdb.Instance).all()):
            from pynetdicom.apps.qrscp.db import _TRANSLATION

            self.rows.append([getattr(inst, _TRANSLATION[k]) for k in KW])
            self.index[inst.sop_instance_uid] = i
        for r in self.rows:
            for v in r:
                assert v is None or isinstance(v, str), repr(v)

    def close(self):
        try:
            self.session.close()
            self.engine.dispose()
        finally:
            shutil.rmtree(self.dir, ignore_errors=True)


def dataset_of(spec):
    from pydicom.dataset import Dataset, FileMetaDataset

    ds = Dataset()
    for k, v in spec.items():
        if v is None:
            continue
        if VR[COL[k]] == "IS":
            setattr(ds, k, int(v))
        else:
            ds.add_new(_tag(k), VR[COL[k]], v)
    ds.SOPClassUID = "1.2.840.10008.5.1.4.1.1.2"
    ds.file_meta = FileMetaDataset()
    ds.file_meta.TransferSyntaxUID = "1.2.840.10008.1.2"
    return ds


def _tag(k):
    from pydicom.datadict import tag_for_keyword

    return tag_for_keyword(k)


TXT = "aAbB_%1[]"  # incl. the characters SQL LIKE and GLOB (but not PS3.4) give a meaning to
IDS = ["a", "A", "a1", "A1", "a_", "a%", "ab", "aB", "Ab", "a_b", "aXb", "a%b", "_", "%", "1", "b-1", "a*", "a?b",
       "a[1]", "a[b", "[ab]1", "a]", "[a-b]", "[^a]b"]
NAMES = ["doe", "Doe", "DOE", "d_e", "d%", "doe1", "dOe", "x", "_oe", ""]
DATES = ["20191231", "20200101", "20200102", "20200103", "20210101"]
TIMES = ["000000", "115959", "120000", "120001", "235959"]
SHS = ["a", "A", "a1", "A_", "a%", "1", "b-1", "ab", "aB", "", "a[1]", "[ab]"]
MODS = ["CT", "ct", "MR", "C_", "C%", "CX", "Ct"]


def opt(rng, pool, p_none=0.15):
    return None if rng.random() < p_none else rng.choice(pool)


def gen_db(rng):
    specs = []
    pids = rng.sample(IDS, rng.randint(1, 3))
    for p, pid in enumerate(pids):
        pname = opt(rng, NAMES)
        for s in range(rng.randint(1, 2)):
            st = dict(
                StudyInstanceUID=f"1.{p}.{s}", StudyDate=opt(rng, DATES), StudyTime=opt(rng, TIMES),
                AccessionNumber=opt(rng, SHS), StudyID=opt(rng, SHS),
            )
            for e in range(rng.randint(1, 2)):
                se = dict(SeriesInstanceUID=f"1.{p}.{s}.{e}", Modality=opt(rng, MODS), SeriesNumber=opt(rng, ["0", "1", "2", "10"]))
                for i in range(rng.randint(1, 2)):
                    specs.append(
                        dict(PatientID=pid, PatientName=pname, **st, **se, SOPInstanceUID=f"1.{p}.{s}.{e}.{i}",
                             InstanceNumber=opt(rng, ["0", "1", "2", "10"]))
                    )
    return specs


# --------------------------------------------------------------------------
# identifiers
# --------------------------------------------------------------------------
def wildcard_from(rng, v):
    """a wildcard pattern derived from a stored value (so that it often matches)"""
    v = v or rng.choice(IDS)
    cs = list(v)
    for _ in range(rng.randint(1, 2)):
        r = rng.random()
        if r < 0.35 and cs:
            i = rng.randrange(len(cs))
            cs[i] = "?"
        elif r < 0.7:
            i = rng.randint(0, len(cs))
            cs[i:] = ["*"] if rng.random() < 0.6 else cs[i:] + ["*"]
        elif cs:
            i = rng.randrange(len(cs))
            cs[i] = cs[i].swapcase() if cs[i].isalpha() else rng.choice(TXT)
            cs.insert(rng.randint(0, len(cs)), "*")
    if "*" not in cs and "?" not in cs:
        cs.append("*")
    return "".join(cs)


def gen_key(rng, col, rows, kind=None):
    """-> (kind, values)   values: [] universal, [s] one value, [s1, s2..] list"""
    vr = VR[col]
    stored = [r[col] for r in rows if r[col] is not None]
    some = rng.choice(stored) if stored and rng.random() < 0.75 else None
    kinds = ["universal", "single"]
    if vr in TEXT_VR:
        kinds += ["wildcard", "wildcard", "wildcard"]
    if vr in ("DA", "TM"):
        kinds += ["range", "range"]
    kind = kind or rng.choice(kinds)
    if vr == "UI" and rng.random() < 0.12:
        kind = "uidlist"
    pool = {"LO": IDS, "PN": NAMES, "SH": SHS, "CS": MODS, "DA": DATES, "TM": TIMES}.get(vr)
    if kind == "universal":
        return kind, []
    if kind == "single":
        if vr == "UI":
            v = some or "1.9.9"
        elif vr == "IS":
            v = some or rng.choice(["0", "1", "7"])
            # Integer String values need not be in canonical form: leading zeros and a sign are legal
            r = rng.random()
            if r < 0.2:
                v = "0" * rng.choice([1, 2, 7]) + str(v)
            elif r < 0.3 and not str(v).startswith("-"):
                v = "+" + str(v)
        else:
            v = some if some else rng.choice([x for x in pool if x])
            if rng.random() < 0.2 and vr in TEXT_VR:
                v = v.swapcase()
            if not v or "*" in v or "?" in v or (vr in ("DA", "TM") and "-" in v):
                v = rng.choice(["a", "A1", "20200101"]) if vr not in ("DA", "TM") else rng.choice(pool)
        return kind, [v]
    if kind == "wildcard":
        if rng.random() < 0.25:
            p = "".join(rng.choice(TXT + "*?*?") for _ in range(rng.randint(1, 4)))
            if "*" not in p and "?" not in p:
                p += rng.choice("*?")
        else:
            p = wildcard_from(rng, some)
        return kind, [p]
    if kind == "range":
        a, b = sorted([rng.choice(pool), rng.choice(pool)])
        r = rng.random()
        return kind, [f"{a}-{b}" if r < 0.5 else f"{a}-" if r < 0.75 else f"-{b}"]
    if kind == "uidlist":
        vals = list(dict.fromkeys(([some] if some else []) + [rng.choice(stored) if stored else "1.9", "1.9.9"]))
        if len(vals) < 2:
            vals.append("1.8.8")
        return kind, vals[: rng.randint(2, 3)]
    raise ValueError(kind)


def kind_of(vr, vals):
    """the PS3.4 kind of a key, for labels only (the oracle computes it in Lean)"""
    if not vals:
        return "universal"
    if len(vals) > 1:
        return "uidlist" if vr == "UI" else "multi"
    v = vals[0]
    if vr in TEXT_VR and ("*" in v or "?" in v):
        return "wildcard"
    if vr in ("DA", "TM") and "-" in v:
        return "range"
    return "single"


def gen_query(rng, rows):
    root = rng.choice("PS")
    op = rng.choices(["find", "get", "move"], [6, 1, 1])[0]
    route = rng.choices(["search", "wire"], [1, 1])[0]
    lv = levels_of(root)
    r = rng.random()
    bad_level = None
    if r < 0.04:
        bad_level = rng.choice(["absent", "FOO", "patient", "PATIENT" if root == "S" else "STUDIES", ""])
        level = rng.choice(lv)
    else:
        level = rng.choice(lv)
    keys = {}
    anchor = rng.choice(rows)  # a stored instance: higher-level unique keys usually point at it
    for l in lv:
        if l < level:
            if rng.random() < 0.93:
                u = UNIQUE[l]
                rr = rng.random()
                if rr < 0.8:
                    keys[u] = ("single", [anchor[u]])
                else:
                    keys[u] = gen_key(rng, u, rows)
    here = [c for c in range(12) if level_in(root, c) == level]
    if op != "find":
        here = [c for c in here if c in UNIQUE.values()]
    for c in rng.sample(here, min(len(here), rng.choice([1, 1, 2, 3]))):
        keys[c] = gen_key(rng, c, rows)
    if op == "find" and rng.random() < 0.06:
        below = [c for c in range(12) if level_in(root, c) > level]
        if below:
            c = rng.choice(below)
            keys[c] = gen_key(rng, c, rows)
    if not keys:
        c = rng.choice(here)
        keys[c] = gen_key(rng, c, rows)
    extra = rng.random() < 0.05
    return dict(root=root, op=op, route=route, level=LEVEL_NAMES[level] if bad_level is None else bad_level,
                keys=[[c, kind_of(VR[c], v), v] for c, (k, v) in sorted(keys.items())], extra=extra)


def identifier_of(q):
    """The identifier Dataset an SCU would build."""
    from pydicom.dataset import Dataset

    ds = Dataset()
    if q["level"] != "absent":
        ds.add_new(0x00080052, "CS", q["level"])
    for c, _, vals in q["keys"]:
        vr = VR[c]
        if not vals:
            v = None
        elif len(vals) == 1:
            v = vals[0]
        else:
            v = list(vals)
        if vr == "IS" and v is not None:
            setattr(ds, KW[c], v)
        else:
            ds.add_new(_tag(KW[c]), vr, v)
    if q.get("extra"):
        ds.PatientBirthDate = "19700101"
    return ds


def seen_keys(ds):
    """(column, value as build_query will see it) for the supported keys of an identifier Dataset."""
    from pydicom.multival import MultiValue

    out = []
    for c, k in enumerate(KW):
        if k not in ds:
            continue
        v = ds[k].value
        if v is None:
            out.append([c, None])
        elif isinstance(v, (MultiValue, list)):
            out.append([c, ["m"] + [str(x).encode() for x in v]])
        elif VR[c] == "IS":
            out.append([c, str(int(v)).encode()])
        else:
            out.append([c, str(v).encode()])
    lvl = ds.QueryRetrieveLevel if "QueryRetrieveLevel" in ds else None
    return out, lvl


# --------------------------------------------------------------------------
# running the real code
# --------------------------------------------------------------------------
def sop_model(root, op):
    from pynetdicom import sop_class as sc

    return getattr(sc, ("PatientRoot" if root == "P" else "StudyRoot") + "QueryRetrieveInformationModel" + op.capitalize())


def make_event(ident, root, op, kind):
    from pydicom.uid import ImplicitVRLittleEndian
    from pynetdicom import evt
    from pynetdicom.dimse_primitives import C_FIND, C_GET, C_MOVE
    from pynetdicom.dsutils import encode
    from pynetdicom.events import Event

    rq = {"find": C_FIND, "get": C_GET, "move": C_MOVE}[op]()
    rq.MessageID = 1
    rq.AffectedSOPClassUID = sop_model(root, op)
    rq.Priority = 2
    if op == "move":
        rq.MoveDestination = "DEST"
    enc = encode(ident, True, True)
    if enc is None:
        return None
    rq.Identifier = BytesIO(enc)
    assoc = types.SimpleNamespace(
        requestor=types.SimpleNamespace(address="127.0.0.1", port=11112), ae=types.SimpleNamespace(ae_title="QRSCP")
    )
    cx = types.SimpleNamespace(transfer_syntax=ImplicitVRLittleEndian, context_id=1)
    ev = {"find": evt.EVT_C_FIND, "get": evt.EVT_C_GET, "move": evt.EVT_C_MOVE}[op]
    return Event(assoc, ev, {"request": rq, "context": cx, "_is_cancelled": lambda msg_id: False})


def project(row, cols):
    return tuple(row[c] for c in cols)


def canon_value(v):
    return None if v is None else str(v)


def run_real(db, q, ident, event):
    """-> ('invalid'|'error'|'rows', payload)   rows payload: sorted row indices (search route) or sorted
    projections (wire find) or a count (wire get/move)"""
    from pynetdicom.apps.qrscp import db as qdb
    from pynetdicom.apps.qrscp import handlers as qh

    model = sop_model(q["root"], q["op"])
    if q["route"] == "search":
        try:
            res = qdb.search(model, copy.deepcopy(ident), db.session)
            return "rows", sorted(db.index[r.sop_instance_uid] for r in res)
        except qdb.InvalidIdentifier:
            return "invalid", None
        except Exception:
            db.session.rollback()
            return "error", None
    if q["op"] == "find":
        out = []
        for status, rsp in qh.handle_find(event, db.url, {}, _LOG):
            st = status if isinstance(status, int) else int(status.Status)
            if st == 0xA900:
                return "invalid", None
            if st == 0xFF00:
                cols = [c for c, k in enumerate(KW) if k in rsp]
                out.append((tuple(cols), tuple(canon_value(rsp[KW[c]].value) for c in cols)))
            else:
                return "error", hex(st)
        return "resp", sorted(out, key=repr)
    gen = qh.handle_get(event, db.url, {}, _LOG) if q["op"] == "get" else qh.handle_move(
        event, {"DEST": ("127.0.0.1", 11113)}, db.url, {}, _LOG)
    try:
        first = next(gen)
        if q["op"] == "move" and isinstance(first, tuple) and len(first) == 3:
            first = next(gen)
    finally:
        gen.close()
    if isinstance(first, int):
        return "count", first
    st = first[0] if isinstance(first[0], int) else int(first[0].Status)
    return ("invalid", None) if st == 0xA900 else ("error", hex(st))


# --------------------------------------------------------------------------
# classification of a disagreement with PS3.4
# --------------------------------------------------------------------------
def _match(p, s, star, one, fold):
    """generic matcher used ONLY to name the cause of a disagreement (the oracle is the Lean spec)"""
    if fold:
        lo = lambda c: c.lower() if "A" <= c <= "Z" else c
        p, s = "".join(map(lo, p)), "".join(map(lo, s))
    memo = {}

    def go(i, j):
        if (i, j) in memo:
            return memo[(i, j)]
        if i == len(p):
            r = j == len(s)
        elif p[i] in star:
            r = go(i + 1, j) or (j < len(s) and go(i, j + 1))
        elif p[i] in one:
            r = j < len(s) and go(i + 1, j + 1)
        else:
            r = j < len(s) and p[i] == s[j] and go(i + 1, j + 1)
        memo[(i, j)] = r
        return r

    return go(0, 0)


def wildcard_causes(p, v, is_pn):
    """which SQL-isms are needed to turn the PS3.4 answer for (p, v) into SQLite's LIKE answer"""
    likeans = _match(p, v, "*%", "?_", True)
    for flags in ([0], [1], [2], [0, 1], [0, 2], [1, 2], [0, 1, 2]):
        star = "*" + ("%" if 1 in flags else "")
        one = "?" + ("_" if 0 in flags else "")
        if _match(p, v, star, one, 2 in flags) == likeans:
            names = ["like-underscore-wildcard", "like-percent-wildcard", "like-ascii-case-fold"]
            return [names[f] for f in flags if not (f == 2 and is_pn)]
    return ["like-unexplained"]


# --------------------------------------------------------------------------
# one database, many queries
# --------------------------------------------------------------------------
def enc(v):
    return None if v is None else v.encode()


class Findings:
    """keeps the smallest failing case per signature"""

    def __init__(self):
        self.best, self.count = {}, {}

    def add(self, sig, what, case, size):
        self.count[sig] = self.count.get(sig, 0) + 1
        if sig not in self.best or size < self.best[sig][2]:
            self.best[sig] = (what, case, size)

    def flush(self, ctx):
        for sig in sorted(self.best):
            what, case, _ = self.best[sig]
            ctx.fail(sig, what, case)
        ctx.extra["oracle_failures_by_sig"] = dict(sorted(self.count.items()))


def describe(q):
    ks = ", ".join(f"{KW[c]}={'' if not v else v[0] if len(v) == 1 else v!r}" for c, _, v in q["keys"])
    return f"{'Patient' if q['root'] == 'P' else 'Study'} Root C-{q['op'].upper()} level={q['level']} [{ks}] via {'search()' if q['route'] == 'search' else 'handle_' + q['op']}"


def evaluate(ctx, specs, queries, fnd, model_check=True):
    db = Db(specs)
    try:
        rows = db.rows
        lean_rows = [[enc(v) for v in r] for r in rows]
        prepared, reqs = [], []
        for q in queries:
            ident = identifier_of(q)
            event = None
            if q["route"] == "wire":
                event = make_event(ident, q["root"], q["op"], q["route"])
                if event is None:
                    q["route"] = "search"
            seen_ds = ident
            if q["route"] == "wire":
                seen_ds = event.identifier  # decoded once and cached: the object the handler will use
            mkeys, lvl = seen_keys(seen_ds)
            # an Integer String denotes an integer (the database keeps the integer, not the spelling): PS3.4 matching is
            # applied to the denoted value, so '+7' and '007' are the key 7
            skeys = [[c, [(str(int(x)) if VR[c] == "IS" and x.strip().lstrip("+-").isdigit() else x).encode() for x in vals]] for c, _, vals in q["keys"]]
            reqs.append([q["root"], q["op"] != "find", "absent" if lvl is None else str(lvl).encode(), mkeys, skeys])
            prepared.append((q, ident, event, mkeys))
        replies = ctx.lean([["qr.batch", lean_rows, reqs]])[0] if reqs else []
        for (q, ident, event, mkeys), rep in zip(prepared, replies):
            case = {"db": specs, "query": q}
            mres, spec_f, spec_t, kdiffs = rep
            kind, payload = run_real(db, q, ident, event)
            kinds = sorted({k for _, k, _ in q["keys"]})
            ctx.case(case, nontrivial=any(k != "universal" for k in kinds) and isinstance(mres, list) and len(mres) > 1,
                     kind=f"{q['root']}:{q['op']}:{q['route']}:{q['level'] if q['level'] in LEVEL_NAMES else 'badlevel'}:{'+'.join(kinds)}")
            cols = [c for c, _, _ in q["keys"]]
            if q["op"] != "find":
                cols = [c for c in cols if c in UNIQUE.values()]
            cols = tuple(sorted(cols))

            def shape(res, tag):
                """Lean result -> the observable of this route"""
                if res in ("invalid", "error"):
                    return (res, None)
                assert res[0] == tag, res
                idx = list(res[1:])
                if q["route"] == "search":
                    return ("rows", sorted(idx)) if q["op"] != "find" or tag == "rows" else ("ents", idx)
                if q["op"] == "find":
                    return ("resp", sorted(((cols, project(rows[i], cols)) for i in idx), key=repr))
                return ("count", len(idx))

            impl = (kind, payload if kind not in ("error",) else None)
            # ---- correspondence: model of the code vs the code ----
            if model_check:
                want = shape(mres, "rows")
                if impl != want:
                    ctx.diff(case, impl, want)
            # ---- property oracle: PS3.4 (Lean spec) vs the code ----
            if q["route"] == "search" and q["op"] == "find" and kind == "rows":
                # what handle_find makes of these rows: one response per row
                impl_o = ("resp", sorted(((cols, project(rows[i], cols)) for i in payload), key=repr))
            else:
                impl_o = impl

            def spec_shape(res):
                if res == "invalid":
                    return ("invalid", None)
                idx = list(res[1:])
                if q["op"] == "find":
                    return ("resp", sorted(((cols, project(rows[i], cols)) for i in idx), key=repr))
                return ("rows", sorted(idx)) if q["route"] == "search" else ("count", len(idx))

            s_f, s_t = spec_shape(spec_f), spec_shape(spec_t)
            st = ctx.extra.setdefault("oracle", {"agree_with_ps34": 0, "disagree_with_ps34": 0, "agree_nonempty": 0})
            if impl_o == s_f or impl_o == s_t:
                st["agree_with_ps34"] += 1
                if impl_o[1]:
                    st["agree_nonempty"] += 1
                continue
            st["disagree_with_ps34"] += 1
            size = len(rows) * 10 + len(q["keys"])
            causes = []
            if impl_o[0] in ("invalid",) or s_f[0] == "invalid":
                causes.append("identifier-validity-differs")
            else:
                for c, ri in kdiffs:
                    if impl_o[0] == "error" and ri != NOROW:
                        continue  # the query raised: only the raising key explains it
                    _, _, vals = next(k for k in q["keys"] if k[0] == c)
                    kk = kind_of(VR[c], vals)
                    seen = next(v for cc, v in mkeys if cc == c)
                    if ri == NOROW:
                        causes.append("uid-list-matching-raises" if kk == "uidlist" else f"{kk}-matching-raises")
                    elif kk == "universal" and seen == b"":
                        causes.append("universal-key-matched-as-empty-string")
                    elif kk == "wildcard":
                        causes += wildcard_causes(vals[0], rows[ri][c] or "", VR[c] == "PN")
                    else:
                        causes.append(f"{kk}-matching-differs")
                if not kdiffs and q["op"] == "find" and isinstance(mres, list) and spec_f != "invalid":
                    ents = []
                    for i in mres[1:]:
                        key = tuple(rows[i][UNIQUE[l]] for l in levels_of(q["root"]) if l <= LEVEL_NAMES.index(q["level"]))
                        if key not in [k for k, _ in ents]:
                            ents.append((key, i))
                    reps = sorted(i for _, i in ents)
                    if reps in (sorted(spec_f[1:]), sorted(spec_t[1:])) and len(mres) - 1 > len(ents):
                        causes.append("find-per-instance-results")
            if not causes:
                causes.append("unexplained")
            for cause in sorted(set(causes)):
                fnd.add(
                    cause,
                    f"{describe(q)} on a database of {len(rows)} instance(s) "
                    f"{[{k: v for k, v in zip(KW, r) if v is not None and (COL[k] in cols or k == 'SOPInstanceUID')} for r in rows][:4]}: "
                    f"qrscp answers {impl_o}, PS3.4 selects {s_f}",
                    case,
                    size,
                )
    finally:
        db.close()


# minimal reproducers of the design-level defects, always run first
def fixed():
    one = dict(PatientID="aXb", PatientName="Doe", StudyInstanceUID="1.1", StudyDate="20200101", StudyTime="120000",
               AccessionNumber="a1", StudyID="1", SeriesInstanceUID="1.1.1", Modality="CT", SeriesNumber="1",
               SOPInstanceUID="1.1.1.1", InstanceNumber="1")
    two = [one, dict(one, SOPInstanceUID="1.1.1.2", InstanceNumber="2")]
    other = dict(one, PatientID="a_b", PatientName="d%", StudyInstanceUID="1.2", SeriesInstanceUID="1.2.1", SOPInstanceUID="1.2.1.1")

    def q(root, op, route, level, *keys):
        return dict(root=root, op=op, route=route, level=level, keys=[[COL[k], kind, vals] for k, kind, vals in keys], extra=False)

    out = []
    for route in ("search", "wire"):
        out += [
            ([one], [q("P", "find", route, "PATIENT", ("PatientID", "wildcard", ["a_*"]))]),          # '_' is literal in PS3.4
            ([one], [q("P", "find", route, "PATIENT", ("PatientID", "wildcard", ["%?"]))]),           # '%' is literal
            ([one], [q("P", "find", route, "PATIENT", ("PatientID", "wildcard", ["AX*"]))]),          # LO is case-sensitive
            ([one], [q("P", "find", route, "PATIENT", ("PatientName", "wildcard", ["DOE*"]))]),       # PN may fold: fine
            (two, [q("P", "find", route, "PATIENT", ("PatientID", "single", ["aXb"]))]),              # one patient, two responses
            ([one], [q("P", "find", route, "PATIENT", ("PatientID", "single", ["aXb"]), ("PatientName", "universal", []))]),
            ([one, other], [q("P", "find", route, "STUDY", ("PatientID", "single", ["aXb"]), ("StudyInstanceUID", "uidlist", ["1.1", "1.2"]))]),
            ([one, other], [q("S", "get", route, "STUDY", ("StudyInstanceUID", "uidlist", ["1.1", "1.2"]))]),
            ([one, other], [q("S", "move", route, "STUDY", ("StudyInstanceUID", "single", ["1.2"]))]),
            ([one, other], [q("S", "find", route, "STUDY", ("StudyDate", "range", ["20200101-20200102"]), ("PatientID", "wildcard", ["a?b"]))]),
            ([one], [q("S", "find", route, "PATIENT", ("PatientID", "single", ["aXb"]))]),            # level not in the model
            ([one], [q("P", "find", route, "SERIES", ("PatientID", "single", ["aXb"]), ("Modality", "single", ["CT"]))]),  # missing study key
            ([one], [q("P", "find", route, "STUDY", ("PatientID", "single", ["aXb"]), ("Modality", "single", ["CT"]))]),   # key below level
        ]
    return out


def small_scope(maxlen):
    """Exhaustive: every wild-card pattern of length <= maxlen over {a A _ % * ?} (with a wild card) against
    every stored PatientID of length 1..2 over {a A _ %}, through the real search() on one database."""
    import itertools

    vals = ["".join(t) for n in (1, 2) for t in itertools.product("aA_%", repeat=n)]
    specs = [
        dict(PatientID=v, PatientName=None, StudyInstanceUID=f"1.{i}", StudyDate=None, StudyTime=None, AccessionNumber=None,
             StudyID=None, SeriesInstanceUID=f"1.{i}.1", Modality=None, SeriesNumber=None, SOPInstanceUID=f"1.{i}.1.1",
             InstanceNumber=None)
        for i, v in enumerate(vals)
    ]
    pats = ["".join(t) for n in range(1, maxlen + 1) for t in itertools.product("aA_%*?", repeat=n)]
    pats = [p for p in pats if "*" in p or "?" in p]
    qs = [dict(root="P", op="get", route="search", level="PATIENT", keys=[[0, "wildcard", [p]]], extra=False) for p in pats]
    return specs, qs


def run(ctx):
    ctx.rule = (
        "one case = one identifier evaluated on one generated database by the real search()/handle_find/handle_get/"
        "handle_move; non-trivial = at least one non-universal key and more than one stored instance selected by the code"
    )
    ctx.assumptions.append(
        "C29: SQLite (LIKE, =, <=, >=, NULL, parameter binding) and SQLAlchemy are modelled as documented, not verified; "
        "pydicom's decoding of the identifier is an input of the model; databases are hierarchically consistent "
        "(attributes of an entity are equal on all of its instances); DA/TM values have one fixed format; "
        "IS values are canonical decimal strings; C-GET/C-MOVE identifiers carry unique keys only"
    )
    fnd = Findings()
    for specs, qs in fixed():
        evaluate(ctx, specs, copy.deepcopy(qs), fnd)
    specs, qs = small_scope(ctx.n(3, 4))
    evaluate(ctx, specs, qs, fnd)
    ctx.extra["small_scope_exhaustive"] = {"stored_values": len(specs), "patterns": len(qs)}
    ndb, nq = ctx.n(60, 1500), ctx.n(25, 40)
    for _ in range(ndb):
        specs = gen_db(ctx.rng)
        rows_guess = [[s.get(k) for k in KW] for s in specs]
        evaluate(ctx, specs, [gen_query(ctx.rng, rows_guess) for _ in range(nq)], fnd)
    fnd.flush(ctx)


def search(ctx):
    """Theorem or correspondence broken: a larger hunt with the PS3.4 oracle only."""
    fnd = Findings()
    for _ in range(ctx.n(60, 400)):
        specs = gen_db(ctx.rng)
        rows_guess = [[s.get(k) for k in KW] for s in specs]
        evaluate(ctx, specs, [gen_query(ctx.rng, rows_guess) for _ in range(40)], fnd, model_check=False)
    fnd.flush(ctx)


def replay(ctx, case):
    c = case["case"]
    fnd = Findings()
    q = copy.deepcopy(c["query"])
    db = Db(c["db"])
    try:
        ident = identifier_of(q)
        event = make_event(ident, q["root"], q["op"], q["route"]) if q["route"] == "wire" else None
        print("database rows:")
        for r in db.rows:
            print("  ", {k: v for k, v in zip(KW, r) if v is not None})
        print("query:", describe(q))
        print("qrscp:", run_real(db, q, ident, event))
    finally:
        db.close()
    evaluate(ctx, c["db"], [copy.deepcopy(c["query"])], fnd)
    for sig, (what, _, _) in fnd.best.items():
        print("PS3.4 oracle:", sig, "-", what)
    return 1 if fnd.best or ctx.diffs else 0
