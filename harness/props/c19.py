"""C19 — requests on presentation contexts that were not accepted never reach a handler.

 A  `Association._serve_request` in-process (real acceptor Association, handlers bound
    through the real `evt` mechanism, recording `dimse.send_msg` and `abort`): context
    ids 0..255 x the 11 request kinds x generated accepted sets, vs `serveRequest`;
 B  `Association._c_store_scp` in-process for ids 0..255 (C-STORE sub-operations a
    C-GET SCU receives), vs `cStoreScp`;
 C  loopback: a peer sends each request kind on unaccepted ids (0, even, rejected,
    never proposed, 255) to a pynetdicom acceptor: handler calls, answer, abort;
 D  loopback: a scripted C-GET SCP sends C-STORE sub-operations on accepted and
    unaccepted ids to a pynetdicom C-GET SCU.
Oracle on the implementation alone: id not accepted => no handler call, no response,
association aborted.
"""
from __future__ import annotations

from harness import ctxlib as L
from harness.props import c18 as C18

SIG_HANDLER = "c-store-scp:unaccepted-id-reaches-handler"
SIG_ANSWERED = "c-store-scp:unaccepted-id-answered-not-aborted"

CLASS_POOL = [L.VERIFICATION, L.CT, L.MR, L.PR_FIND, L.PR_GET, L.PR_MOVE, L.MWL_FIND, L.MPPS, L.PRINT_JOB,
              L.FILM_SESSION, L.STORAGE_COMMIT, L.DISPLAY_SYSTEM, L.PROC_EVENT_LOG, L.INSTANCE_AVAIL, L.MEDIA_CREATION,
              L.RT_CONV_VERIF, L.RELEVANT_PATIENT, L.SUBSTANCE, L.UPS_PUSH, L.UPS_WATCH, L.COLOR_PALETTE_FIND,
              L.INVENTORY_CREATION, L.PRIVATE_CLASS]
NATURAL = {
    "cEcho": [L.VERIFICATION], "cStore": [L.CT, L.MR, L.INVENTORY_CREATION],
    "cFind": [L.PR_FIND, L.MWL_FIND, L.RELEVANT_PATIENT, L.SUBSTANCE, L.UPS_PUSH, L.COLOR_PALETTE_FIND],
    "cGet": [L.PR_GET], "cMove": [L.PR_MOVE],
    "nEventReport": [L.PRINT_JOB, L.STORAGE_COMMIT, L.MPPS, L.UPS_PUSH],
    "nGet": [L.DISPLAY_SYSTEM, L.PRINT_JOB, L.MPPS, L.MEDIA_CREATION],
    "nSet": [L.MPPS, L.FILM_SESSION, L.UPS_PUSH], "nAction": [L.STORAGE_COMMIT, L.PROC_EVENT_LOG, L.MEDIA_CREATION],
    "nCreate": [L.MPPS, L.INSTANCE_AVAIL, L.FILM_SESSION, L.RT_CONV_VERIF], "nDelete": [L.FILM_SESSION, L.RT_CONV_VERIF],
}


# ---------------------------------------------------------------------------
# A. _serve_request
# ---------------------------------------------------------------------------
def gen_acceptor_set(rng):
    n = rng.choice([1, 2, 3, 5, 8, 12])
    acc = {}
    for cid in L.gen_ids(rng, n, lo_bias=rng.random() < 0.5):
        acc[cid] = L.make_cx(cid, rng.choice(CLASS_POOL), rng.choice([L.IMPLICIT_LE, L.EXPLICIT_LE]), False, True)
    return acc


def serve_once(acc, cid, kind, class_uid, valid=True, sent_release=False):
    """-> (handler calls, response context ids, aborts, is_valid_request)"""
    assoc, rec = L.make_assoc("acceptor")
    calls = []
    L.bind_all(assoc, calls)
    assoc._accepted_cx = acc
    assoc._sent_release = sent_release
    cx = acc.get(cid)
    req = L.make_request(kind, class_uid, valid=valid,
                         ts=str(cx.transfer_syntax[0]) if cx is not None else L.IMPLICIT_LE)
    assoc._serve_request(req, cid)
    return calls, [s[0] for s in rec.sent], rec.aborts, bool(req.is_valid_request)


def serve_case(rng, acc, cid, kind):
    cx = acc.get(cid)
    r = rng.random()
    if cx is not None and r < 0.5:
        class_uid = str(cx.abstract_syntax)
    elif r < 0.8:
        class_uid = rng.choice(NATURAL[kind])
    else:
        class_uid = rng.choice(CLASS_POOL)
    return {"acc": L.case_of_acc(acc), "cid": cid, "kind": kind, "cls": class_uid,
            "valid": rng.random() > 0.08, "rel": rng.random() < 0.04}


def check_serve(ctx, d, acc, m):
    calls, sent, aborts, valid = serve_once(acc, d["cid"], d["kind"], d["cls"], d["valid"], d["rel"])
    case = ["serve", d]
    accepted = d["cid"] in acc
    ctx.case(case, nontrivial=not accepted,
             kind=f"serve:{'accepted' if accepted else 'unaccepted'}:"
                  f"{'handler' if calls else 'abort' if aborts else 'dropped'}")
    if not accepted:
        if calls:
            ctx.fail(f"serve-request:unaccepted-id-reaches-handler:{d['kind']}",
                     f"{d['kind']} request on context {d['cid']} (accepted {sorted(acc)}) reached {calls}", case)
        if sent:
            ctx.fail(f"serve-request:unaccepted-id-answered:{d['kind']}",
                     f"{d['kind']} request on context {d['cid']} (accepted {sorted(acc)}) answered on {sent}", case)
        if valid and not d["rel"] and not aborts:
            ctx.fail(f"serve-request:unaccepted-id-not-aborted:{d['kind']}",
                     f"{d['kind']} request on context {d['cid']} (accepted {sorted(acc)}): no abort", case)
    for _, seen_id in calls:
        if seen_id != d["cid"]:
            ctx.fail("serve-request:handler-sees-other-context", f"request on {d['cid']}, handler saw {seen_id}", case)
    if m is not None:
        real = ["dispatched" if calls else "aborted" if aborts else "ignored", [list(c) for c in calls],
                sorted(set(sent))]
        if real != m or (calls and aborts):
            ctx.diff(case, real + [aborts], m)


def serve_request_term(d, acc, valid):
    svc, cls = L.svc_of(d["cls"])
    return ["serve", d["rel"], valid, L.acc_term(acc), d["cid"], svc, d["kind"],
            L.supported_flag(cls, d["kind"], acc.get(d["cid"]))]


def layer_serve(ctx, sets, ids_per_set, diff=True):
    batch = []
    for _ in range(sets):
        acc = gen_acceptor_set(ctx.rng)
        if ids_per_set is None:
            ids = list(range(256))
        else:
            ids = sorted(set(list(acc) + [0, 2, 255, 254] + [ctx.rng.randrange(256) for _ in range(ids_per_set)]))
        for cid in ids:
            for kind in L.KINDS:
                batch.append((serve_case(ctx.rng, acc, cid, kind), acc))
    reqs = []
    for d, acc in batch:
        # validity is a property of the primitive (is_valid_request), read from the real object
        reqs.append(serve_request_term(d, acc, bool(L.make_request(d["kind"], d["cls"], valid=d["valid"]).is_valid_request)))
    model = ctx.lean(reqs) if diff else [None] * len(batch)
    for (d, acc), m in zip(batch, model):
        check_serve(ctx, d, acc, m)


# ---------------------------------------------------------------------------
# B. _c_store_scp
# ---------------------------------------------------------------------------
def check_substore(ctx, acc, ab, cid, handlers, sent, aborts, case, where=""):
    if cid in acc:
        for h in handlers:
            if h != cid and ab != L.UPS_PUSH:
                ctx.fail("c-store-scp:handler-sees-other-context", f"request on {cid}, handler saw {h}", case)
        return
    if handlers:
        ctx.fail(SIG_HANDLER, f"{where}C-STORE sub-operation request for {ab} on context {cid}, which is not accepted "
                 f"(accepted ids {sorted(acc)}), was passed to the EVT_C_STORE handler with context {handlers[0]}", case)
    elif sent or not aborts:
        ctx.fail(SIG_ANSWERED, f"{where}C-STORE sub-operation request for {ab} on context {cid}, which is not accepted "
                 f"(accepted ids {sorted(acc)}), was answered {[(a, hex(b)) for a, b in sent]} and the association "
                 f"was not aborted", case)


def layer_substore(ctx, sets, ids_per_set, diff=True):
    cases = C18.substore_cases(ctx, sets, ids_per_set)
    model = ctx.lean([["substore", L.acc_term(a), c, L.AB_CODE[ab], L.substore_guard()] for a, ab, c in cases]) if diff else [None] * len(cases)
    for (acc, ab, cid), m in zip(cases, model):
        handlers, sent, aborts = C18.run_substore(acc, ab, cid)
        case = ["substore", {"acc": L.case_of_acc(acc), "ab": ab, "cid": cid}]
        ctx.case(case, nontrivial=cid not in acc,
                 kind=f"substore:{'accepted-id' if cid in acc else 'unaccepted-id'}:{'handler' if handlers else 'refused' if sent else 'aborted'}")
        check_substore(ctx, acc, ab, cid, handlers, sent, aborts, case)
        if diff:
            real = [handlers[0] if handlers else None, sent[0][0] if sent else None,
                    bool(sent and sent[0][1] == 0x0122), aborts > 0]
            mm = [None if m[0] == "none" else m[0], None if m[1] == "none" else m[1], m[2] == "T", m[3] == "T"]
            if len(handlers) > 1 or len(sent) > 1 or real != mm:
                ctx.diff(case, [handlers, sent, aborts], m)


# ---------------------------------------------------------------------------
# C. loopback, acceptor path
# ---------------------------------------------------------------------------
E2E_SUPPORTED = [(L.VERIFICATION, [L.IMPLICIT_LE], None, None), (L.CT, [L.IMPLICIT_LE], None, None),
                 (L.PR_FIND, [L.IMPLICIT_LE], None, None), (L.PR_GET, [L.IMPLICIT_LE], None, None),
                 (L.PR_MOVE, [L.IMPLICIT_LE], None, None), (L.MPPS, [L.IMPLICIT_LE], None, None),
                 (L.PRINT_JOB, [L.IMPLICIT_LE], None, None), (L.FILM_SESSION, [L.IMPLICIT_LE], None, None),
                 (L.STORAGE_COMMIT, [L.IMPLICIT_LE], None, None)]
# requested in this order -> ids 1,3,5,...; MR (id 5) is not supported by the acceptor -> rejected
E2E_REQUESTED = [L.VERIFICATION, L.CT, L.MR, L.PR_FIND, L.PR_GET, L.PR_MOVE, L.MPPS, L.PRINT_JOB, L.FILM_SESSION,
                 L.STORAGE_COMMIT]
E2E_CLASS = {"cEcho": L.VERIFICATION, "cStore": L.CT, "cFind": L.PR_FIND, "cGet": L.PR_GET, "cMove": L.PR_MOVE,
             "nEventReport": L.PRINT_JOB, "nGet": L.PRINT_JOB, "nSet": L.MPPS, "nAction": L.STORAGE_COMMIT,
             "nCreate": L.MPPS, "nDelete": L.FILM_SESSION}


def e2e_request(ctx, server_port, seen, kind, cid, diff=True):
    scu = L.new_ae(timeout=3.0)
    for ab in E2E_REQUESTED:
        scu.add_requested_context(ab, [L.ts_uid(L.IMPLICIT_LE)])
    assoc = scu.associate("127.0.0.1", server_port)
    case = ["e2e-serve", {"kind": kind, "cid": cid}]
    if not assoc.is_established:
        ctx.note(f"e2e-serve {kind}/{cid}: association not established")
        return
    acc = dict(assoc._accepted_cx)
    class_uid = str(acc[cid].abstract_syntax) if cid in acc and ctx.rng.random() < 0.5 else E2E_CLASS[kind]
    del seen[:]
    req = L.make_request(kind, class_uid)
    rsp, aborted = L.raw_request(assoc, req, cid)
    L.wait_until(lambda: False, 0.05)
    calls = list(seen)
    accepted = cid in acc
    ctx.case(case, nontrivial=not accepted,
             kind=f"e2e-serve:{'accepted' if accepted else 'unaccepted'}:{'handler' if calls else 'abort' if aborted else 'nothing'}")
    if not accepted:
        if calls:
            ctx.fail(f"serve-request:unaccepted-id-reaches-handler:{kind}",
                     f"e2e: {kind} request on context {cid} (accepted {sorted(acc)}) reached {calls}", case)
        if rsp is not None:
            ctx.fail(f"serve-request:unaccepted-id-answered:{kind}",
                     f"e2e: {kind} request on context {cid} answered on context {rsp[0]}", case)
        if not aborted:
            ctx.fail(f"serve-request:unaccepted-id-not-aborted:{kind}", f"e2e: {kind} on context {cid}: no abort", case)
    if diff:
        svc, cls = L.svc_of(class_uid)
        # the acceptor's own view of the accepted set has the same ids and abstract syntaxes
        m = ctx.lean([["serve", False, True, L.acc_term({k: L.make_cx(k, str(c.abstract_syntax), L.IMPLICIT_LE, False, True)
                                                         for k, c in acc.items()}),
                       cid, svc, kind, L.supported_flag(cls, kind, acc.get(cid))]])[0]
        real = ["dispatched" if calls else "aborted" if aborted else "ignored", [list(c) for c in calls],
                [rsp[0]] if rsp is not None else []]
        if real != m:
            ctx.diff(case, real, m)
    if assoc.is_established:
        assoc.release()
    L.wait_until(lambda: not assoc.is_alive(), 1.0)


def raw_mixed_request(assoc, req, cmd_cid, tail_cid, shape, timeout=2.5):
    """send `req` as ONE P-DATA whose PDVs do not all carry the same context id:
    shape "trailing": the whole message on `cmd_cid`, then one more (empty, last-data-fragment) PDV on `tail_cid`;
    shape "data": command-set fragments on `cmd_cid`, data-set fragments on `tail_cid`;
    shape "cmd-split": the command set fragmented, its non-final fragments on `tail_cid`, the final one on `cmd_cid`.
    -> (response item or None, aborted)"""
    import queue as _q
    import time

    from pynetdicom.dimse import _RQ_TO_MESSAGE
    from pynetdicom.pdu_primitives import P_DATA

    msg = _RQ_TO_MESSAGE[type(req)]()
    msg.primitive_to_message(req)
    msg.context_id = cmd_cid
    pdvs = [list(v) for pd in msg.encode_msg(cmd_cid, 40 if shape == "cmd-split" else 16382) for v in pd.presentation_data_value_list]
    if shape == "cmd-split":
        # the command set in several fragments: the earlier ones on `tail_cid`, the last one (and any data set) on `cmd_cid`
        for v in pdvs:
            if v[1][0] == 1:
                v[0] = tail_cid
    elif shape == "data":
        for v in pdvs:
            if v[1][0] in (0, 2):
                v[0] = tail_cid
    else:
        pdvs.append([tail_cid, b"\x02"])
    pd = P_DATA()
    pd.presentation_data_value_list = pdvs
    assoc._reactor_checkpoint.clear()
    L.wait_until(lambda: assoc._is_paused, 2.0, 0.001)
    assoc.dul.send_pdu(pd)
    rsp = None
    t0 = time.monotonic()
    while time.monotonic() - t0 < timeout:
        try:
            rsp = assoc.dimse.msg_queue.get(timeout=0.02)
            if rsp[1] is None:
                rsp = None
            break
        except _q.Empty:
            pass
        if assoc.acse.is_aborted() or not assoc.dul.is_alive():
            break
    assoc._reactor_checkpoint.set()
    L.wait_until(lambda: assoc.is_aborted or assoc.is_released or not assoc.is_established, 1.5 if rsp is None else 0.05)
    return rsp, bool(assoc.is_aborted)


def layer_e2e_mixed(ctx):
    """C': one message whose PDVs carry different context ids - the id that counts is the one the command set
    arrived on: unaccepted there => no handler, no answer, abort, whatever id later PDVs of the same P-DATA carry"""
    seen = []
    server, port = L.start_acceptor(E2E_SUPPORTED, seen)
    plan = [("cEcho", "cmd-split"), ("cStore", "cmd-split"), ("nDelete", "cmd-split"), ("cEcho", "trailing"), ("cStore", "data"), ("cStore", "trailing"), ("cFind", "data"), ("nCreate", "trailing"),
            ("nEventReport", "data"), ("nDelete", "trailing")]
    bad_ids = [0, 2, 5, 21, 255]
    if ctx.quick:
        jobs = [(k, sh, bad_ids[i % len(bad_ids)]) for i, (k, sh) in enumerate(plan)]
    else:
        jobs = [(k, sh, c) for k, sh in plan for c in bad_ids + [ctx.rng.randrange(256) for _ in range(3)]]
    try:
        for kind, shape, cid in jobs:
            scu = L.new_ae(timeout=3.0)
            for ab in E2E_REQUESTED:
                scu.add_requested_context(ab, [L.ts_uid(L.IMPLICIT_LE)])
            assoc = scu.associate("127.0.0.1", port)
            if not assoc.is_established:
                ctx.note(f"e2e-mixed {kind}/{cid}: association not established")
                continue
            acc = dict(assoc._accepted_cx)
            if cid in acc:
                assoc.release()
                continue
            # the accepted context the later PDVs pretend to be on: the natural one for the kind if accepted, else any
            nat = [k for k, c in acc.items() if str(c.abstract_syntax) == E2E_CLASS[kind]]
            tail = nat[0] if nat else sorted(acc)[0]
            del seen[:]
            req = L.make_request(kind, E2E_CLASS[kind])
            rsp, aborted = raw_mixed_request(assoc, req, cid, tail, shape)
            L.wait_until(lambda: False, 0.05)
            calls = list(seen)
            case = ["e2e-mixed", {"kind": kind, "shape": shape, "cid": cid, "tail": tail}]
            ctx.case(case, nontrivial=True, kind=f"e2e-mixed:{shape}:{'handler' if calls else 'abort' if aborted else 'nothing'}")
            if calls:
                ctx.fail(f"serve-request:unaccepted-id-reaches-handler:{kind}:mixed-ids",
                         f"e2e: {kind} request, command set on context {cid} (accepted {sorted(acc)}), {shape} PDV on context {tail}: reached {calls}", case)
            if rsp is not None:
                ctx.fail(f"serve-request:unaccepted-id-answered:{kind}:mixed-ids",
                         f"e2e: {kind} request, command set on context {cid}, {shape} PDV on {tail}: answered on context {rsp[0]}", case)
            if not aborted and not calls and rsp is None:
                ctx.fail(f"serve-request:unaccepted-id-not-aborted:{kind}:mixed-ids", f"e2e: {kind} on context {cid}/{tail}: no abort", case)
            if assoc.is_established:
                assoc.release()
            L.wait_until(lambda: not assoc.is_alive(), 1.0)
    finally:
        server.shutdown()


def layer_e2e_serve(ctx, plan, diff=True):
    seen = []
    server, port = L.start_acceptor(E2E_SUPPORTED, seen)
    try:
        for kind, cid in plan:
            e2e_request(ctx, port, seen, kind, cid, diff)
    finally:
        server.shutdown()


# ---------------------------------------------------------------------------
# D. loopback, C-GET SCU receiving scripted sub-operations
# ---------------------------------------------------------------------------
CGET_REQUESTED = [(L.PR_GET, [L.IMPLICIT_LE], None), (L.CT, [L.IMPLICIT_LE], (False, True)),
                  (L.MR, [L.IMPLICIT_LE], (False, True)), (L.SC, [L.IMPLICIT_LE], None),
                  (L.VERIFICATION, [L.IMPLICIT_LE], None)]
CGET_SUPPORTED = [(L.PR_GET, [L.IMPLICIT_LE], None, None), (L.CT, [L.IMPLICIT_LE], True, True),
                  (L.SC, [L.IMPLICIT_LE], None, None), (L.VERIFICATION, [L.IMPLICIT_LE], None, None)]
# accepted: 1 PR_GET, 3 CT (requestor is SCP), 7 SC (requestor SCU only), 9 Verification; 5 MR rejected


def cget_scripts(rng, n, per):
    fixed = [[(3, L.CT), (11, L.CT), (5, L.CT), (0, L.CT), (2, L.CT), (255, L.CT)],
             [(3, L.MR), (5, L.MR), (7, L.SC), (13, L.SC), (3, L.CT)],
             [(1, L.CT), (9, L.CT), (4, L.MR), (3, L.CT)]]
    out = fixed[:n]
    for _ in range(max(0, n - len(fixed))):
        out.append([(rng.choice([1, 3, 5, 7, 9, 0, 2, 11, 255, rng.randrange(256)]), rng.choice([L.CT, L.MR, L.SC]))
                    for _ in range(per)])
    return out


def layer_e2e_cget(ctx, n, per, diff=True, c18=False):
    """shared with C18 (`c18=True`: the oracle is on the context the response travels on)"""
    for script in cget_scripts(ctx.rng, n, per):
        r = L.run_cget_script(script, CGET_REQUESTED, CGET_SUPPORTED)
        if r.get("error") or "accepted" not in r:
            ctx.note(f"e2e C-GET script problem: {r.get('error')}")
            continue
        acc = r["accepted"]
        desc = L.case_of_acc(acc)
        model = ctx.lean([["substore", L.acc_term(acc), s["cid"], L.AB_CODE[s["ab"]], L.substore_guard()] for s in r["subops"]]) \
            if diff and r["subops"] else [None] * len(r["subops"])
        if len(r["scu_pdv_ids"]) != len([s for s in r["subops"] if s["rsp"]]):
            ctx.diff(["e2e-cget", script], r["scu_pdv_ids"], [s["rsp"] for s in r["subops"]],
                     what="responses on the wire differ from what the scripted SCP received")
        for s, m, wire in zip(r["subops"], model, r["scu_pdv_ids"] + [None] * len(r["subops"])):
            case = ["e2e-cget", {"acc": desc, "ab": s["ab"], "cid": s["cid"]}]
            sent = [s["rsp"]] if s["rsp"] else []
            ctx.case(case, nontrivial=s["cid"] not in acc,
                     kind=f"e2e-cget:{'accepted-id' if s['cid'] in acc else 'unaccepted-id'}:"
                          f"{'handler' if s['handler'] else 'refused' if sent else 'no-answer'}")
            if c18:
                for rid, status in sent:
                    cx = acc.get(rid)
                    if cx is None or not C18.ab_ok(s["ab"], cx) or cx.as_scp is not True:
                        sig = C18.SIG_HARDCODED if (not s["handler"] and rid == 1) else "c-store-scp:response-on-wrong-context"
                        ctx.fail(sig, f"e2e: C-STORE sub-operation for {s['ab']} on context {s['cid']}: response "
                                 f"0x{status:04X} on context {rid}; accepted {desc}", case)
                    if wire is not None and wire != rid:
                        ctx.diff(case, wire, rid, what="PDV context id differs from the id the peer received")
            else:
                check_substore(ctx, acc, s["ab"], s["cid"], s["handler"], sent, 1 if r["aborted"] and not sent else 0,
                               case, where="e2e: ")
            if diff:
                real = [s["handler"][0] if s["handler"] else None, sent[0][0] if sent else None,
                        bool(sent and sent[0][1] == 0x0122), bool(r["aborted"]) and not sent]
                mm = [None if m[0] == "none" else m[0], None if m[1] == "none" else m[1], m[2] == "T", m[3] == "T"]
                if real != mm:
                    ctx.diff(case, real, m)


# ---------------------------------------------------------------------------
# E. a request that arrives directly behind the A-ASSOCIATE-AC that rejects its context
def early_request_scenario(delay):
    """A scripted acceptor answers the association request with an A-ASSOCIATE-AC that accepts context 1 and REJECTS
    context 3 and, in the same write, an N-EVENT-REPORT-RQ on context 3 (the one request a requestor serves from its
    provider thread before the reactor runs).  A slow EVT_ACSE_RECV observer on the requestor keeps the window between
    "AC received" and "negotiation result stored" open for `delay` seconds."""
    import socket
    import threading
    import time

    from pynetdicom import AE, evt
    from pynetdicom.dimse_messages import N_EVENT_REPORT_RQ
    from pynetdicom.dimse_primitives import N_EVENT_REPORT
    from pynetdicom.pdu import A_ASSOCIATE_AC, A_ASSOCIATE_RQ, P_DATA_TF
    from pynetdicom.pdu_primitives import A_ASSOCIATE
    from pynetdicom.sop_class import StorageCommitmentPushModel, Verification

    L.quiet() if hasattr(L, "quiet") else None
    lst = socket.socket()
    lst.bind(("127.0.0.1", 0))
    lst.listen(1)
    got = {"replies": []}

    def peer():
        c, _ = lst.accept()
        c.settimeout(delay + 3.0)
        try:
            raw = c.recv(65536)
            rq = A_ASSOCIATE_RQ()
            rq.decode(raw)
            prim = rq.to_primitive()
            ac = A_ASSOCIATE()
            ac.application_context_name = prim.application_context_name
            ac.calling_ae_title, ac.called_ae_title = prim.calling_ae_title, prim.called_ae_title
            ac.result = 0x00
            cxs = []
            for cx in prim.presentation_context_definition_list:
                from pynetdicom.presentation import PresentationContext

                r = PresentationContext()
                r.context_id = cx.context_id
                r.transfer_syntax = [cx.transfer_syntax[0]]
                r.result = 0x00 if cx.context_id == 1 else 0x03  # abstract syntax not supported
                cxs.append(r)
            ac.presentation_context_definition_results_list = cxs
            ac.user_information = prim.user_information
            pdu = A_ASSOCIATE_AC()
            pdu.from_primitive(ac)
            ev = N_EVENT_REPORT()
            ev.MessageID = 7
            ev.AffectedSOPClassUID = StorageCommitmentPushModel
            ev.AffectedSOPInstanceUID = "1.2.840.10008.1.20.1.1"
            ev.EventTypeID = 1
            msg = N_EVENT_REPORT_RQ()
            msg.primitive_to_message(ev)
            out = pdu.encode()
            for pd in msg.encode_msg(3, 16382):
                out += P_DATA_TF(pd).encode()
            c.sendall(out)
            got["sent"] = True
            while True:
                d = c.recv(65536)
                if not d:
                    break
                got["replies"].append(d[0])
        except OSError:
            pass
        except Exception:
            import traceback

            got["error"] = traceback.format_exc()[-800:]
        finally:
            c.close()

    th = threading.Thread(target=peer, daemon=True)
    th.start()
    calls = []

    def on_event_report(event):
        calls.append(event.context.context_id)
        return 0x0000, None

    ae = AE()
    ae.add_requested_context(Verification)
    ae.add_requested_context(StorageCommitmentPushModel)
    ae.acse_timeout = ae.dimse_timeout = ae.network_timeout = delay + 2.0
    handlers = [(evt.EVT_N_EVENT_REPORT, on_event_report)]
    if delay:
        handlers.append((evt.EVT_ACSE_RECV, lambda e: time.sleep(delay)))
    try:
        assoc = ae.associate("127.0.0.1", lst.getsockname()[1], evt_handlers=handlers)
        time.sleep(0.3)
        acc = sorted(assoc._accepted_cx) if assoc.is_established else None
        if assoc.is_established:
            assoc.abort()
        th.join(delay + 4.0)
        return {"calls": calls, "accepted": acc, "replies": got["replies"], "sent": got.get("sent", False), "error": got.get("error")}
    finally:
        lst.close()


def layer_early_request(ctx):
    for delay in ((0, 0.3) if ctx.quick else (0, 0.05, 0.3, 0.3, 1.0)):
        r = early_request_scenario(delay)
        case = ["early-request", delay]
        ctx.case(case, nontrivial=True, kind=f"early-request:{'slow' if delay else 'fast'}-observer")
        if not r["sent"]:
            ctx.diff(case, r, "n/a", "scenario harness failed: the scripted acceptor did not get its PDUs out")
            continue
        if r["calls"]:
            ctx.fail("serve-request:unaccepted-id-reaches-handler:nEventReport:during-negotiation",
                     f"N-EVENT-REPORT request sent directly behind the A-ASSOCIATE-AC on context 3, which that AC rejects, "
                     f"reached the handler (contexts {r['calls']}); accepted after negotiation: {r['accepted']}", case)
        if 4 in r["replies"] and r["calls"] == []:
            ctx.fail("serve-request:unaccepted-id-answered:nEventReport:during-negotiation",
                     "the request on the rejected context was answered with a P-DATA", case)


# ---------------------------------------------------------------------------
def e2e_plan(ctx):
    bad_ids = [0, 2, 5, 21, 99, 255]      # zero, even, rejected (MR), never proposed x2, maximum
    if ctx.quick:
        plan = [(k, bad_ids[i % len(bad_ids)]) for i, k in enumerate(L.KINDS)]
        plan += [("cEcho", 1), ("cStore", 3), ("nCreate", 13)]
    else:
        more = bad_ids + [4, 6, 20, 22, 254, 128, 77] + [ctx.rng.randrange(256) for _ in range(8)]
        plan = [(k, c) for k in L.KINDS for c in more if c not in (1, 3, 7, 9, 11, 13, 15, 17, 19)]
        plan += [(k, c) for k, c in (("cEcho", 1), ("cStore", 3), ("cFind", 7), ("cGet", 9), ("cMove", 11),
                                     ("nCreate", 13), ("nSet", 13), ("nGet", 15), ("nEventReport", 15),
                                     ("nDelete", 17), ("nAction", 19), ("cStore", 1), ("cEcho", 3))]
    return plan


def run(ctx):
    ctx.rule = (
        "A: _serve_request in-process for generated accepted sets x context ids (thorough: all 0..255) x the 11 request "
        "kinds, SOP class natural for the kind / the context's / arbitrary, 8% invalid requests, 4% release in "
        "progress; B: _c_store_scp for ids 0..255; C/D: loopback with a peer that sends on chosen ids. "
        "Non-trivial = the context id is not accepted."
    )
    ctx.assumptions.append(
        "uid_to_service_class and the _SUPPORTED_UIDS tables are inputs of the model (read from the real classes); "
        "the loopback peers inject messages with pynetdicom's own dimse.send_msg on arbitrary ids")
    layer_serve(ctx, ctx.n(8, 3), ctx.n(30, None))
    if not ctx.quick:
        layer_serve(ctx, 20, 30)
    layer_substore(ctx, ctx.n(10, 12), ctx.n(24, None))
    layer_e2e_serve(ctx, e2e_plan(ctx))
    layer_e2e_mixed(ctx)
    layer_e2e_cget(ctx, ctx.n(3, 30), 8)
    layer_early_request(ctx)
    ctx.exhaustive = not ctx.quick


def search(ctx):
    layer_serve(ctx, 4, None, diff=False)
    layer_substore(ctx, 6, None, diff=False)
    layer_e2e_serve(ctx, e2e_plan(ctx), diff=False)
    layer_e2e_mixed(ctx)
    layer_e2e_cget(ctx, 6, 8, diff=False)


def replay(ctx, case):
    c = case["case"]
    L.quiet()
    if c[0] == "serve":
        d = c[1]
        acc = L.acc_of_case(d["acc"])
        calls, sent, aborts, valid = serve_once(acc, d["cid"], d["kind"], d["cls"], d["valid"], d["rel"])
        print("accepted ids:", sorted(acc))
        print(f"{d['kind']} request (class {d['cls']}, valid={valid}, release sent={d['rel']}) on context {d['cid']}:")
        print("  handler calls:", calls, " responses on:", sent, " aborts:", aborts)
        return 1 if d["cid"] not in acc and (calls or sent) else 0
    if c[0] == "early-request":
        r = early_request_scenario(c[1])
        print(r)
        return 1 if r["calls"] or 4 in r["replies"] else 0
    if c[0] in ("substore", "e2e-cget"):
        d = c[1]
        acc = L.acc_of_case(d["acc"])
        handlers, sent, aborts = C18.run_substore(acc, d["ab"], d["cid"])
        print("accepted:", d["acc"])
        print(f"C-STORE sub-operation for {d['ab']} on context {d['cid']}: EVT_C_STORE handler saw contexts {handlers}, "
              f"responses (context, status) {[(a, hex(b)) for a, b in sent]}, aborts {aborts}")
        return 1 if d["cid"] not in acc and (handlers or sent) else 0
    print("e2e case: re-run ./check C19", c[1])
    return 0
