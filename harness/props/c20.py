"""C20 — each service request gets exactly one final response with its message ID.

Every real `ServiceClass.SCP` (37 service-class x primitive combinations: C-ECHO, C-STORE,
the five C-FIND services, C-GET, C-MOVE, all N-* services) is driven in-process through the stub
association of harness/scp_driver.py with generated handler behaviours.  Each case is
(1) compared response by response with the Lean model (Scp.findScp, rpScp, getScp, moveScp,
echoScp, statusOnlyScp, nScp) for which Props/C20.lean proves the property under stated hypotheses,
and (2) checked directly against the property on the real code's responses (`oracle`).
"""
from harness import poolinit as _e2e_exit
import itertools
import logging

from harness import scp_driver as sd
from translate import scp as tr_scp
from translate import status as tr_status

GEN = [tr_status.generate, tr_scp.generate]

SINGLE = ("scp.echo", "scp.store", "scp.n")
KNOWN = {
    "find:warning-not-final",
    "relevant-patient:warning-no-response",
    "scp:value-does-not-unpack",
    "scp:unknown-pending-status-is-last",
    "scp:status-dataset-overwrites-message-id",
}


def pending_code(c):
    return c in (0xFF00, 0xFF01)


def non_final(repo, c):
    return pending_code(c) or (repo and c == 0xB001)


def consumed_values(svc, handler, env):
    """the values the SCP actually obtained from the handler, in order"""
    if handler[0] == "gen":
        items = handler[1:][: env.pulled]
        return [it[1] for it in items if it[0] == "y"]
    if handler[0] == "fv":
        return [handler[1]]
    if handler[0] == "fnone":
        return ["junk"]
    return []


def bad_shape(svc, handler, vals):
    """the last value the SCP consumed from the handler does not unpack into (status, dataset)"""
    last = vals[-1] if vals else None
    header = {"scp.get": 1, "scp.move": 2}.get(svc["op"], 0)
    if svc["op"] in ("scp.find", "scp.get", "scp.move"):
        return len(vals) > header and sd.as_pair(last) is None
    if svc["op"] == "scp.n" and svc["prim"] != "nDelete":
        return handler[0] in ("fv", "fnone", "fjunk") and (handler[0] != "fv" or sd.as_pair(handler[1]) is None)
    return False


def oracle(svc, handler, real, msg_id=7, cx_id=3):
    """[(sig, message)] — violations of C20 by the real responses"""
    out = []
    name = svc["name"]
    repo = bool(svc.get("repo"))
    env = real["env"]
    rs = real["raw"]
    table = real["table"]
    codes = [r["status"] for r in rs]
    interrupted = (not env.est) or env.peer_abort or env.peer_release
    vals = consumed_values(svc, handler, env)
    # -- an exception escaped SCP(): Association._serve_request logs it and aborts the association
    if real["crashed"]:
        if bad_shape(svc, handler, vals):
            out.append(("scp:value-does-not-unpack",
                        f"{name}: the handler's value does not unpack into (status, dataset); {type(real['exc']).__name__} "
                        f"escapes SCP(), no final response, the association is aborted"))
        else:
            out.append((f"{name}:exception-escapes-scp", f"{type(real['exc']).__name__}: {real['exc']} escaped SCP()"))
    # -- nothing after the final response; only non-final statuses before it
    for i, c in enumerate(codes[:-1]):
        if not non_final(repo, c):
            if svc["op"] == "scp.find" and sd.table_cat(table, c) == "Warning":
                out.append(("find:warning-not-final",
                            f"{name}: response #{i + 1} has the final status 0x{c:04X} (Warning) but "
                            f"{len(codes) - i - 1} more response(s) follow: {[hex(x) for x in codes]}"))
            else:
                out.append((f"{name}:response-after-final", f"response #{i + 1} status 0x{c:04X} is final but more follow: {[hex(x) for x in codes]}"))
            break
    # -- exactly one final response, unless an abort/release intervened
    if not real["crashed"] and not interrupted:
        if not codes:
            first = vals[0] if vals else None
            pr = sd.as_pair(first) if first is not None else None
            if svc["op"] == "scp.rp" and pr is not None and sd.table_cat(table, sd.status_code(pr[0])) == "Warning":
                out.append(("relevant-patient:warning-no-response",
                            f"{name}: handler yielded the Warning status 0x{sd.status_code(pr[0]):04X}; no response at all was sent"))
            else:
                out.append((f"{name}:no-response", "no response was sent although the association is established"))
        elif non_final(repo, codes[-1]):
            c = codes[-1]
            if pending_code(c) and (svc["op"] in SINGLE or sd.table_cat(table, c) is None):
                out.append(("scp:unknown-pending-status-is-last",
                            f"{name}: the handler's Pending-category status 0x{c:04X} is not a Pending status of this service; "
                            f"it is sent as is and no final response follows"))
            else:
                out.append((f"{name}:no-final-response", f"last response status 0x{c:04X} is not final: {[hex(x) for x in codes]}"))
    # -- ids
    for i, r in enumerate(rs):
        if r["cx"] != cx_id:
            out.append((f"{name}:wrong-context", f"response #{i + 1} sent on context {r['cx']}, request was on {cx_id}"))
            break
        if r["msgid"] != msg_id:
            if sd.has_msgid_elem(handler):
                out.append(("scp:status-dataset-overwrites-message-id",
                            f"{name}: response #{i + 1} carries MessageIDBeingRespondedTo {r['msgid']}, the request's is {msg_id} "
                            f"(copied from the handler's status Dataset)"))
            else:
                out.append((f"{name}:wrong-message-id", f"response #{i + 1} MessageIDBeingRespondedTo {r['msgid']} != {msg_id}"))
            break
    return out


# --------------------------------------------------------------------------
def gen_case(g, svc, rng):
    op = svc["op"]
    if op in ("scp.find", "scp.rp"):
        h, kind = g.find_handler()
    elif op in ("scp.get", "scp.move"):
        h, kind = g.retrieve_handler(op == "scp.move")
    else:
        h, kind = g.fn_handler(svc["prim"])
    return h, kind


def find_alphabet(table):
    ds = ["ds", 1, False, None, True, True]
    warn = 0xB001 if "QR_FIND" in table else 0x0107
    return [
        ["y", ["p", ["i", 0xFF00], ds, "su"], 0],
        ["y", ["p", ["i", 0xFF00], None, "su"], 0],
        ["y", ["p", ["i", 0x0000], None, "su"], 0],
        ["y", ["p", ["i", warn], None, "su"], 0],
        ["y", ["p", ["i", 0xA700], None, "su"], 0],
        ["y", ["p", ["i", 0xFE00], None, "su"], 0],
        ["y", ["p", ["i", 0x0002], None, "su"], 0],
        ["y", "junk", 0],
        ["r", False, 0],
        ["y", ["p", ["i", 0xFF00], ds, "su"], 2],
    ]


def exhaustive_find(S, max_len):
    for name in ("qrfind", "repofind", "bwmfind", "subfind", "upsfind", "rpfind"):
        tab = "QR_FIND" if name in ("qrfind", "repofind", "bwmfind") else name
        alpha = find_alphabet(tab)
        for ln in range(0, max_len + 1):
            for word in itertools.product(alpha, repeat=ln):
                yield name, ["gen"] + [list(w) for w in word], "exh:" + str(ln), True


def shrink(S, name, h, sig, inst):
    if h[0] != "gen":
        return h
    cur = list(h)
    changed = True
    while changed:
        changed = False
        for i in range(len(cur) - 1, 0, -1):
            cand = cur[:i] + cur[i + 1:]
            try:
                if any(s_ == sig for s_, _ in oracle(S[name], cand, sd.run_scp(S[name], cand, req_has_inst=inst))):
                    cur, changed = cand, True
            except Exception:
                pass
    return cur


_SHRUNK = set()


def _run_batch(ctx, S, cases):
    reals, reqs = [], []
    for name, h, kind, inst in cases:
        real = sd.run_scp(S[name], h, req_has_inst=inst)
        reals.append(real)
        reqs.append(sd.model_request(S[name], real["table"], h, req_has_inst=inst))
    replies = ctx.lean(reqs)
    for (name, h, kind, inst), real, rep in zip(cases, reals, replies):
        case = [name, h, inst]
        ctx.case(case, nontrivial=(len(real["rsps"]) >= 2 or kind.split(":")[0] not in ("status",)), kind=S[name]["op"][4:] + ":" + kind)
        if isinstance(rep, str):
            ctx.diff(case, real["rsps"], rep, what="Lean driver rejected the case")
            continue
        m = sd.canon_model(rep)
        impl = {"rsps": real["rsps"], "subops": real["subops"], "crashed": real["crashed"]}
        model = {"rsps": m["rsps"], "subops": m["subops"], "crashed": m["crashed"]}
        if impl != model:
            ctx.diff(case, impl, model)
        for sig, msg in oracle(S[name], h, real):
            if sig not in KNOWN and sig not in _SHRUNK:
                _SHRUNK.add(sig)
                h2 = shrink(S, name, h, sig, inst)
                msg2 = [m_ for s_, m_ in oracle(S[name], h2, sd.run_scp(S[name], h2, req_has_inst=inst)) if s_ == sig]
                if msg2:
                    ctx.fail(sig, msg2[0] + f"  [handler behaviour: {h2}]", [name, h2, inst])
                    continue
            ctx.fail(sig, msg + f"  [handler behaviour: {h}]", case)


WITNESSES = [
    # the Lean `_neg` witnesses, replayed on the implementation first
    ("qrfind", ["gen", ["y", ["p", ["i", 0x0107], None, "su"], 0], ["y", ["p", ["i", 0xFF00], ["ds", 1, False, None, True, True], "su"], 0]], "witness", True),
    ("qrfind", ["gen", ["y", "junk", 0]], "witness", True),
    ("qrget", ["gen", ["y", ["s", ["i", 2]], 0], ["y", "junk", 0]], "witness", True),
    ("dsm.nGet", ["fnone", 0], "witness", True),
    ("rpfind", ["gen", ["y", ["p", ["i", 0x0107], None, "su"], 0]], "witness", True),
    ("qrget", ["gen", ["y", ["s", ["i", 2]], 0], ["y", ["p", ["i", 0xFF01], ["ds", 1, False, None, True, True], "su"], 0]], "witness", True),
    ("store", ["fv", ["s", ["i", 0xFF00]], 0], "witness", True),
    ("store", ["fv", ["s", ["d", ["msgIdResp", 9], ["status", 0]]], 0], "witness", True),
]


def substore_context(ctx):
    """the inline Storage SCP a C-GET / C-MOVE requestor runs (`Association._c_store_scp`): the one response to a
    C-STORE sub-operation travels on the request's context - also when the SOP class is accepted on several contexts"""
    from harness import ctxlib as L
    from harness.props import c18 as C18

    for acc, ab, cid in C18.substore_cases(ctx, ctx.n(10, 40), ctx.n(24, None)):
        if cid not in acc or str(acc[cid].abstract_syntax) != ab or ab == L.UPS_PUSH:
            continue  # unaccepted ids / mismatching classes are C19's and C18's subject
        handlers, sent, aborts = C18.run_substore(acc, ab, cid)
        same_class = [k for k, c in acc.items() if str(c.abstract_syntax) == ab]
        case = ["substore-context", {"acc": L.case_of_acc(acc), "ab": ab, "cid": cid}]
        ctx.case(case, nontrivial=len(same_class) > 1, kind="substore-context:" + ("class-on-several-contexts" if len(same_class) > 1 else "single"))
        # the same request with a handler that raises: the documented failure response, on the request's context
        from pynetdicom import evt as _evt

        assoc, rec = L.make_assoc()
        assoc._accepted_cx = acc

        def boom(event):
            raise OSError("scripted C-STORE handler failure")

        assoc.bind(_evt.EVT_C_STORE, boom)
        req = L.make_request("cStore", ab)
        req._context_id = cid
        assoc._c_store_scp(req)
        rsent = [(x[0], x[2]) for x in rec.sent]
        if handlers and rsent != [(cid, 0xC211)]:
            ctx.fail("c-store-scp:raising-handler-response",
                     f"C-STORE sub-operation request on context {cid} (accepted {sorted(acc)}), handler raises: responses (context, status) "
                     f"{[(a, hex(b)) for a, b in rsent]}, documented [({cid}, 0xc211)]", case)
        if handlers and (len(sent) != 1 or sent[0][0] != cid):
            ctx.fail("c-store-scp:response-on-other-context",
                     f"C-STORE sub-operation request on context {cid} (the SOP class is accepted on {same_class}): handler saw context {handlers}, "
                     f"response(s) sent on {[a for a, _ in sent]}", case)


def msgid_e2e(contextvars=False):
    """real provider, real wire: requests with the boundary message ids 0, 1 and 65535 (all legal) over loopback; each
    must come back with its Pending responses and one final response carrying that id"""
    from pydicom.dataset import Dataset
    from pynetdicom import AE, evt
    from pynetdicom import _config
    from pynetdicom.sop_class import (
        CTImageStorage, DisplaySystem, PatientRootQueryRetrieveInformationModelFind as F, PrintJob, Verification,
    )

    from harness import e2e

    e2e.quiet()
    # the documented option that makes every thread pynetdicom starts carry the caller's context variables
    _config.PASS_CONTEXTVARS = bool(contextvars)

    def h_find(event):
        for i in range(2):
            ds = Dataset()
            ds.QueryRetrieveLevel, ds.PatientID = "PATIENT", str(i)
            yield 0xFF00, ds

    def h_nget(event):
        ds = Dataset()
        ds.PatientName = "X"
        return 0x0000, ds

    ae = AE()
    for cx in (Verification, CTImageStorage, F, DisplaySystem, PrintJob):
        ae.add_supported_context(cx)
    ae.acse_timeout = ae.dimse_timeout = ae.network_timeout = 10
    seen = []
    srv = ae.start_server(("127.0.0.1", 0), block=False, evt_handlers=[
        (evt.EVT_C_ECHO, lambda e: 0x0000), (evt.EVT_C_STORE, lambda e: 0x0000), (evt.EVT_C_FIND, h_find), (evt.EVT_N_GET, h_nget),
        (evt.EVT_N_EVENT_REPORT, lambda e: (0x0000, Dataset()))])
    out = []
    try:
        cl = AE()
        for cx in (Verification, CTImageStorage, F, DisplaySystem, PrintJob):
            cl.add_requested_context(cx)
        cl.acse_timeout, cl.network_timeout, cl.dimse_timeout = 10, 10, 1.5
        a = cl.associate("127.0.0.1", srv.socket.getsockname()[1],
                         evt_handlers=[(evt.EVT_DIMSE_RECV, lambda e: seen.append((type(e.message).__name__, getattr(e.message.command_set, "MessageIDBeingRespondedTo", None))))])
        if not a.is_established:
            return [{"error": "not established"}]
        for mid in (1, 0, 65535):
            if not a.is_established:
                out.append({"msg_id": mid, "error": "association lost"})
                break
            del seen[:]
            r = {"msg_id": mid}
            st = a.send_c_echo(msg_id=mid)
            r["echo"] = getattr(st, "Status", None) if st else None
            ident = Dataset()
            ident.QueryRetrieveLevel, ident.PatientID = "PATIENT", "*"
            r["find"] = [getattr(s_, "Status", None) if s_ else None for s_, _ in a.send_c_find(ident, F, msg_id=mid)] if a.is_established else None
            ds = Dataset()
            ds.SOPClassUID, ds.SOPInstanceUID, ds.PatientName = CTImageStorage, "1.2.3." + str(mid + 1), "X"
            from pydicom.dataset import FileMetaDataset
            from pydicom.uid import ImplicitVRLittleEndian

            ds.file_meta = FileMetaDataset()
            ds.file_meta.TransferSyntaxUID = ImplicitVRLittleEndian
            st = a.send_c_store(ds, msg_id=mid) if a.is_established else None
            r["store"] = getattr(st, "Status", None) if st else None
            if a.is_established:
                st, _ = a.send_n_get([0x00100010], DisplaySystem, "1.2.840.10008.5.1.1.40.1", msg_id=mid)
                r["nget"] = getattr(st, "Status", None) if st else None
            if a.is_established:
                # (served by the acceptor from a thread of its own, started by the DIMSE provider)
                st, _ = a.send_n_event_report(Dataset(), 1, PrintJob, "1.2.3", msg_id=mid)
                r["nevent"] = getattr(st, "Status", None) if st else None
            r["received"] = list(seen)
            r["contextvars"] = bool(contextvars)
            out.append(r)
        if a.is_established:
            a.release()
        return out
    finally:
        srv.shutdown()


def msgid_check(ctx):
    import multiprocessing as mp

    pool = mp.get_context("fork").Pool(processes=1, maxtasksperchild=1, initializer=_e2e_exit.no_join_at_exit)
    try:
        res = pool.apply(msgid_e2e, (False,))
        res += pool.apply(msgid_e2e, (True,))
    finally:
        pool.terminate()
        pool.join()
    for r in res:
        case = ["msgid-e2e", r.get("msg_id")] + (["PASS_CONTEXTVARS"] if r.get("contextvars") else [])
        ctx.case(case, nontrivial=True, kind="msgid-e2e" + (":contextvars" if r.get("contextvars") else ""))
        if "error" in r:
            ctx.fail("e2e:association-lost-on-boundary-message-id", f"message id {r.get('msg_id')}: {r['error']}", case)
            continue
        mid = r["msg_id"]
        bad_msgs = [m for m in r["received"] if not m[0].endswith("_RSP") or m[1] != mid]
        if r["echo"] != 0 or r["find"] != [0xFF00, 0xFF00, 0x0000] or r["store"] != 0 or r.get("nget") != 0 or r.get("nevent") != 0 or bad_msgs:
            ctx.fail("e2e:responses-for-boundary-message-id" + (":contextvars" if r.get("contextvars") else ""),
                     f"requests with message id {mid}{' (PASS_CONTEXTVARS on)' if r.get('contextvars') else ''}: C-ECHO status {r['echo']}, C-FIND statuses {r['find']}, C-STORE {r['store']}, N-GET {r.get('nget')}, N-EVENT-REPORT {r.get('nevent')}; "
                     f"messages received by the requestor that are not responses to id {mid}: {bad_msgs[:6]}", case)


def run(ctx):
    logging.disable(logging.CRITICAL)
    _SHRUNK.clear()
    ctx.rule = (
        "handler behaviours per service: generator item lists (Pending matches with valid/empty/None/unencodable "
        "datasets, Warning mid-sequence, final statuses of every category, unknown / out-of-range / missing / "
        "wrong-type statuses, status Datasets with optional elements, wrong-shaped values, raises before/between/"
        "after yields, too few / too many results, explicit returns), plain functions (returning status, pair, None, "
        "int, raising) and association events (handler abort, peer abort, peer release) while the handler runs; "
        "non-trivial = more than one response or a non-status-only behaviour"
    )
    S = sd.services()
    cases = list(WITNESSES)
    per = ctx.n(85, 9000)
    for name, svc in S.items():
        g = sd.BGen(ctx.rng, svc)
        for _ in range(per):
            h, kind = gen_case(g, svc, ctx.rng)
            cases.append((name, h, kind, ctx.rng.random() < 0.5))
    cases.extend(exhaustive_find(S, ctx.n(2, 4)))
    for i in range(0, len(cases), 5000):
        _run_batch(ctx, S, cases[i : i + 5000])
    substore_context(ctx)
    msgid_check(ctx)
    ctx.extra["services"] = len(S)
    ctx.extra["exhaustive_scope"] = "all generator item lists of length <= %d over a 10-symbol alphabet for the 6 C-FIND services" % ctx.n(2, 4)
    ctx.note(
        "out-of-range integer statuses (negative, > 0xFFFF) are passed to dimse.send_msg by the SCPs as any other "
        "unknown status; what the DIMSE encoder does with them is outside this model (C16/C17)"
    )


def search(ctx):
    logging.disable(logging.CRITICAL)
    S = sd.services()
    cases = list(exhaustive_find(S, 3))
    for name, svc in S.items():
        g = sd.BGen(ctx.rng, svc)
        for _ in range(1500):
            h, kind = gen_case(g, svc, ctx.rng)
            cases.append((name, h, kind, True))
    for name, h, kind, inst in cases:
        real = sd.run_scp(S[name], h, req_has_inst=inst)
        for sig, msg in oracle(S[name], h, real):
            if sig not in KNOWN:
                ctx.fail(sig, msg + f"  [handler behaviour: {h}]", [name, h, inst])
                return


def replay(ctx, case):
    logging.disable(logging.CRITICAL)
    c = case["case"]
    name, h = c[0], c[1]
    inst = c[2] if len(c) > 2 else True
    S = sd.services()
    real = sd.run_scp(S[name], h, req_has_inst=inst)
    print("service", name, "handler behaviour", h)
    for r in real["rsps"]:
        st = r[0]
        print("  response status", hex(st) if isinstance(st, int) else st, "msgid", r[1], "cx", r[2], "dataset", r[3])
    print("  exception escaped SCP():", repr(real["exc"]) if real["crashed"] else None,
          "| association established:", real["env"].est)
    bad = oracle(S[name], h, real)
    for sig, msg in bad:
        print("  PROPERTY VIOLATED:", sig, "-", msg)
    return 1 if bad else 0
