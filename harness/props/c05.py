"""C05 — no schedule drives the provider into an undefined event; it returns to idle.

Correspondence: generated schedules of reactor micro-steps and environment
steps are interpreted in LOCKSTEP on a real Association/DULServiceProvider
thread (hooks `dul.iter`/`dul.dispatch`) and on the Lean model `Dul.run`; the
observable state is compared after every step.  Property oracle on the real
side: the reactor thread never dies with an exception (InvalidEventError or
other), and once the FSM is back in Sta1 the kill flag is set and the
transport is closed.
"""
import json

from harness.lockstep import RealDul

LOCAL = ["accept", "reject", "pdata", "releaseRq", "releaseRp", "abort", "pabort"]
PDUS = [3, 4, 6, 10, 12, 13, 16]


LOCAL_EVT = {"assocRq": 1, "accept": 7, "reject": 8, "pdata": 9, "releaseRq": 11, "releaseRp": 14, "abort": 15, "pabort": 15}


def defined(evt, sta):
    from pynetdicom.fsm import TRANSITION_TABLE

    return (f"Evt{evt}", f"Sta{sta}") in TRANSITION_TABLE


def drive(rng, requestor, mode):
    """Interpret an adaptively generated schedule on the real DUL.

    mode "sync": local primitives only at quiescent points (reactor parked at the top of an iteration, event and
                 provider queues empty) and only those PS3.8 allows in the provider's current state; ARTIM expiry only
                 at quiescent points — the association's view is never stale;
         "peer": no local primitive after the establishment prefix; the peer and the clock do anything, any time;
         "racy": anything, any time (stale views, expiry between the phases of an iteration).
    Returns (effective schedule, observations, errors)."""
    rd = RealDul(requestor)
    eff, obs = [], []

    def do(st):
        if isinstance(st, list) and st[0] == "pdu" or st == "invalid" or st == "eof":
            if not rd.peer_can_feed():
                return
        rd.step(st)
        eff.append(st)
        obs.append(rd.obs())

    def ab():
        do("a")
        do("b")

    def quiescent():
        o = rd.obs()
        return rd.gate.at == "iter" and not o[1] and not o[2] and rd.dul.is_alive()

    def settle(limit=6):
        for _ in range(limit):
            if quiescent() or not rd.dul.is_alive():
                return
            ab()

    try:
        depth = 3 if mode == "duplex" else rng.choice([0, 1, 2, 3, 3, 3, 3])
        if requestor:
            do(["local", "assocRq"])
            for _ in range(min(depth, 2)):
                ab()
            if depth >= 3:
                do(["pdu", 3, False])
                ab()
        else:
            if depth >= 1:
                ab()
            if depth >= 2:
                do(["pdu", 6, rng.random() < 0.1])
                ab()
            if depth >= 3 and rd.obs()[0] == 3:
                do(["local", "accept"])
                ab()
        if mode == "duplex":
            # full-duplex data transfer in Sta6: the local user queues P-DATA requests back to back (as the DIMSE provider
            # does for a fragmented message or a stream of Pending responses) while the peer's P-DATA PDUs arrive at any
            # moment; nothing else happens, so nothing excuses the reactor from surviving
            if rd.obs()[0] == 6:
                for _ in range(rng.choice([6, 12, 20])):
                    if not rd.dul.is_alive():
                        break
                    k = rng.random()
                    if k < 0.30:
                        for _ in range(rng.choice([1, 2, 2, 3])):
                            do(["local", "pdata"])
                    elif k < 0.55:
                        do(["pdu", 10, False])
                    elif k < 0.80:
                        do("a")
                    else:
                        do("b")
                for _ in range(12):
                    ab()
            return eff, obs, list(rd.errors)
        # directed prefix towards the release / collision states (Sta7..Sta12), which a uniform walk rarely reaches
        toured = False
        if rd.obs()[0] == 6 and rng.random() < 0.4:
            toured = True
            tour = rng.choice(["rel", "peer-rel", "collide", "collide+", "collide+"])

            def loc(p):
                settle()
                if rd.dul.is_alive() and (mode != "sync" or (quiescent() and defined(LOCAL_EVT[p], rd.obs()[0]))):
                    do(["local", p])
                    ab()

            if tour == "peer-rel":
                do(["pdu", 12, False])
                ab()
            else:
                loc("releaseRq")
                if tour != "rel":
                    do(["pdu", 12, False])
                    ab()
                if tour == "collide+":
                    if requestor:
                        loc("releaseRp")
                    else:
                        do(["pdu", 13, False])
                        ab()
            if rng.random() < 0.5 and (mode != "sync" or quiescent()):
                do("artimFire")
                ab()
        for _ in range(rng.choice([2, 4, 8, 14]) if not toured else rng.choice([1, 2, 4])):
            if not rd.dul.is_alive():
                break
            k = rng.random()
            if k < 0.30:
                do(["pdu", rng.choice(PDUS + [10, 10, 12, 13]), rng.random() < 0.15])
            elif k < 0.36:
                do("invalid")
            elif k < 0.42:
                do("eof")
            elif k < 0.45:
                do("break")
            elif k < 0.50:
                if mode != "sync" or quiescent():
                    do("artimFire")
            elif k < 0.75 and mode != "peer":
                if mode == "sync":
                    settle()
                    if quiescent():
                        sta = rd.obs()[0]
                        cands = [p for p in LOCAL if defined(LOCAL_EVT[p], sta)]
                        if cands:
                            do(["local", rng.choice(cands)])
                            ab()
                else:
                    do(["local", rng.choice(LOCAL)])
            r = rng.random()
            if r < 0.6:
                ab()
            elif r < 0.8 and mode != "sync":
                do("a")
                do(rng.choice(["artimFire", ["pdu", 10, False], "eof"] + ([["local", "abort"]] if mode == "racy" else [])))
                do("b")
            elif r < 0.9:
                do("a")
            else:
                ab()
        for _ in range(rng.choice([0, 2, 4])):
            ab()
        return eff, obs, list(rd.errors)
    finally:
        rd.close()


def interpret(requestor, sched):
    """run a fixed schedule on the real DUL; returns (effective schedule, observations, errors)"""
    rd = RealDul(requestor)
    eff, obs = [], []
    try:
        for st in sched:
            if (isinstance(st, list) and st[0] == "pdu") or st in ("invalid", "eof"):
                if not rd.peer_can_feed():
                    continue
            rd.step(st)
            eff.append(st)
            obs.append(rd.obs())
        return eff, obs, list(rd.errors)
    finally:
        rd.close()


def to_sexp_sched(eff):
    out = []
    for st in eff:
        if isinstance(st, list) and st[0] == "pdu":
            out.append(["pdu", st[1], bool(st[2])])
        elif isinstance(st, list):
            out.append(["local", st[1]])
        else:
            out.append(st)
    return out


def canon_model(o):
    last = o[11]
    if last != "none":
        last = [last[0], last[1], last[2] == "T" or last[2] is True, last[3]]
    b = lambda x: x == "T" or x is True
    return [o[0], list(o[1]), list(o[2]), b(o[3]), b(o[4]), b(o[5]), b(o[6]), o[7], o[8], o[9], o[10], last, b(o[12])]


TRANSPORT_EVTS = {3, 4, 6, 10, 12, 13, 16, 17, 19}


def judge(ctx, case, mode, obs, errors):
    """property oracle on the implementation alone"""
    import re

    if errors:
        m = re.search(r"Invalid event 'Evt(\d+)' for the current state 'Sta(\d+)'", errors[-1])
        if m:
            evt, sta = int(m.group(1)), int(m.group(2))
            what = f"reactor thread died: InvalidEventError Evt{evt} in Sta{sta} ({mode} schedule)"
            if mode in ("racy", "peer") and evt == 18:
                # (peer mode lets the clock fire at any point of an iteration too)
                ctx.fail("race:artim-expiry-processed-after-stop", what, case)
            elif mode == "racy" and evt not in TRANSPORT_EVTS:
                ctx.fail("race:local-primitive-meets-stale-state", what, case)
            else:
                ctx.fail(f"dul-died:{mode}:Evt{evt}:Sta{sta}", what, case)
        else:
            what = f"reactor thread died: {errors[-1]} ({mode} schedule)"
            if mode == "racy":
                ctx.fail("race:action-input-missing", what, case)
            else:
                ctx.fail(f"dul-died:{mode}:" + errors[-1].split(":")[0], what, case)
    for o in obs:
        if o[0] == 1 and isinstance(o[11], list) and o[11][2] and o[11][3] == 1 and not o[6]:
            if not o[5]:
                ctx.fail("idle-without-kill", f"FSM back in Sta1 after {o[11]} but the kill flag is not set", case)
            if o[10] != 1:
                ctx.fail("idle-without-conn-close", f"FSM back in Sta1 but {o[10]} connection-close notifications", case)


def check(ctx, requestor, mode, pending):
    eff, obs, errors = drive(ctx.rng, requestor, mode)
    case = ["dul", requestor, to_sexp_sched(eff), mode]
    ctx.case(case, nontrivial=len(eff) >= 6, kind=mode + (":req" if requestor else ":acc"))
    judge(ctx, case, mode, obs, errors)
    pending.append((case, obs))


def flush(ctx, pending):
    # sync and duplex schedules must satisfy the hypothesis of the Lean theorem C05_defined_partial (runOk: primitives at
    # quiescent points, or streamed P-DATA requests in Sta6): then the theorem says the model's reactor survives them,
    # and the lockstep comparison carries that over to the real one
    sync = [c for c, _ in pending if c[3] in ("sync", "duplex")]
    oks = ctx.lean([["dul.runok", c[1], c[2]] for c in sync])
    for c, ok in zip(sync, oks):
        if not (ok == "T" or ok is True):
            ctx.diff(c, f"generated as {c[3]}-admissible", "Lean runOk = false", f"{c[3]} schedule outside the theorem's hypothesis")
    ctx.extra["sync_schedules_satisfying_runOk"] = ctx.extra.get("sync_schedules_satisfying_runOk", 0) + sum(
        1 for c, ok in zip(sync, oks) if c[3] == "sync" and (ok == "T" or ok is True))
    ctx.extra["duplex_schedules_satisfying_runOk"] = ctx.extra.get("duplex_schedules_satisfying_runOk", 0) + sum(
        1 for c, ok in zip(sync, oks) if c[3] == "duplex" and (ok == "T" or ok is True))
    reps = ctx.lean([["dul.run", c[1], c[2]] for c, _ in pending])
    for (case, obs), rep in zip(pending, reps):
        if rep == "ERR:args":
            ctx.diff(case, "real ran", "model rejected the schedule")
            continue
        for i, (ro, mo) in enumerate(zip(obs, rep)):
            mo = canon_model(mo)
            ro = list(ro)
            if ro[11] is None:
                mo[11] = None
            if ro != mo:
                ctx.diff(case, {"step": i, "after": case[2][i], "obs": ro}, {"obs": mo}, "lockstep state differs")
                break
    pending.clear()


def run(ctx):
    ctx.rule = (
        "adaptively generated schedules of reactor micro-steps (phase A / phase B) and environment steps (peer PDUs "
        "valid/invalid, EOF, send failure, ARTIM expiry, local primitives) in four modes (sync-admissible, peer-only, "
        "racy, full-duplex P-DATA in Sta6), requestor and acceptor, interpreted in lockstep on the real DUL thread and on the Lean model; "
        "non-trivial = at least 6 effective steps"
    )
    ctx.assumptions.append("the lockstep hooks serialise the reactor with the environment: GIL hand-over points inside one phase are not explored")
    pending = []
    # negation witnesses proved in Lean (Props/C05.lean) are replayed first
    for name, requestor, sched in WITNESSES:
        eff, obs, errors = interpret(requestor, sched)
        case = ["dul", requestor, to_sexp_sched(eff), "racy"]
        ctx.case(case, kind="witness:" + name)
        judge(ctx, case, "racy", obs, errors)
        if not errors:
            ctx.diff(case, "real reactor survived", "Lean witness says the reactor dies", "negation witness does not replay")
        pending.append((case, obs))
    for i in range(ctx.n(900, 12000)):
        requestor = ctx.rng.random() < 0.5
        mode = ctx.rng.choice(["sync", "sync", "peer", "peer", "racy", "duplex"])
        check(ctx, requestor, mode, pending)
    flush(ctx, pending)
    # whole associations: the layer above must not issue a request where PS3.8 leaves it undefined
    from harness.props import c05_e2e

    c05_e2e.run(ctx, ctx.n(1, 5))


WITNESSES = [
    # P-DATA request issued by the association after the provider already reacted to an invalid PDU (AA-8 -> Sta13)
    ("pdata-after-invalid-pdu", False, ["a", "b", ["pdu", 6, False], "a", "b", ["local", "accept"], "a", "b", "invalid", "a", "b", ["local", "pdata"], "a", "b"]),
    # release request issued while the peer's release request has been processed by the provider (Sta8) but not yet seen
    ("release-collision-stale", True, [["local", "assocRq"], "a", "b", "a", "b", ["pdu", 3, False], "a", "b", ["pdu", 12, False], "a", "b", ["local", "releaseRq"], "a", "b"]),
    # ARTIM expires between the check at the top of the iteration and AE-6's stop(): Evt18 is then met in Sta3
    ("artim-expiry-after-stop", False, ["a", "b", ["pdu", 6, False], "a", "artimFire", "b", "a", "b"]),
]


def replay(ctx, case):
    c = case["case"]
    if c[0] in ("e2e-refusal", "e2e-release-unexpected"):
        from harness.props import c05_e2e

        return c05_e2e.replay(ctx, c)
    eff, obs, errors = interpret(bool(c[1]), c[2])
    rep = ctx.lean([["dul.run", bool(c[1]), to_sexp_sched(eff)]])[0]
    for st, ro, mo in zip(eff, obs, rep):
        print(st, "real", ro, "model", canon_model(mo))
    print("errors:", errors)
    return 1 if errors else 0
