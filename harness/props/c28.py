"""C28 — every status code has one category and all status tables agree."""
from translate import status as tr_status

GEN = [tr_status.generate]
CATS = tr_status.CATS


def run(ctx):
    from pynetdicom import status as st
    from pynetdicom import _globals as g

    ctx.rule = (
        "exhaustive: all 65536 codes through the real code_to_category and the Lean driver; every (table, code) "
        "entry of every *_STATUS dict; non-trivial = code whose category is not Unknown or table entry"
    )
    names = {getattr(g, "STATUS_" + c.upper()): i for i, c in enumerate(CATS)}
    codes = list(range(65536)) + [65536, 70000, 2**31, 2**40]
    model = ctx.lean([["status", c] for c in codes])
    for c, m in zip(codes, model):
        real = st.code_to_category(c)
        k = names.get(real)
        ctx.case(["status", c], nontrivial=(k not in (None, 5)), kind="code:" + str(real))
        if k is None:
            ctx.fail("category-not-one-of-six", f"code_to_category({c:#06x}) = {real!r} is none of the six categories", ["status", c])
        elif k != m:
            ctx.diff(["status", c], k, m)
    ntab = 0
    for name in sorted(vars(st)):
        tab = getattr(st, name)
        if not (name.endswith("_STATUS") and isinstance(tab, dict)):
            continue
        ntab += 1
        for code, entry in tab.items():
            ctx.case(["table", name, code], kind="table-entry")
            if not (isinstance(code, int) and 0 <= code < 65536):
                ctx.fail("table-code-not-16bit", f"{name} has key {code!r}", ["table", name, repr(code)])
                continue
            if entry[0] != st.code_to_category(code):
                ctx.fail(
                    f"table-disagrees:{name}:{code:#06x}",
                    f"{name}[{code:#06x}] says {entry[0]} but code_to_category says {st.code_to_category(code)}",
                    ["table", name, code],
                )
    ctx.extra["tables"] = ntab
    ctx.exhaustive = True
    # finality decisions of the SCU and SCP (behavioural, on the real generators)
    try:
        from harness import finality
    except ImportError:
        finality = None
    if finality is not None:
        finality.check(ctx)
        finality.scp_check(ctx)
    tables_stable(ctx)


def tables_stable(ctx):
    """the status tables are module-level dicts shared by every association of the process: they must still say what
    they said at import after the service classes have been used, whatever statuses handlers and peers came up with
    (a table that learns an entry at run time stops agreeing with code_to_category)"""
    import copy

    from pynetdicom import status as st

    from harness import scp_driver as sd

    def snap():
        return {n: copy.deepcopy(getattr(st, n)) for n in sorted(vars(st)) if n.endswith("_STATUS") and isinstance(getattr(st, n), dict)}

    before = snap()
    S = sd.services()
    ds = ["ds", 1, False, None, True, True]
    n_runs = 0
    for name, svc in S.items():
        if svc["op"] in ("scp.get", "scp.move"):
            for outcome in ("su", "wa", "fa", "ex3", "ex4", "ca"):
                head = [["y", ["dest", "ok"], 0]] if svc["op"] == "scp.move" else []
                h = ["gen"] + head + [["y", ["s", ["i", 2]], 0], ["y", ["p", ["i", 0xFF00], ds, outcome], 0], ["y", ["p", ["i", 0xFF00], ["ds", 2, False, None, True, True], "su"], 0]]
                sd.run_scp(svc, h)
                n_runs += 1
        elif svc["op"] in ("scp.echo", "scp.store", "scp.find"):
            for code in (0x0000, 0xB008, 0x0001, 0xFF00, 0xD123, 0xFFF0):
                h = ["fv", ["s", ["i", code]], 0] if svc["op"] != "scp.find" else ["gen", ["y", ["s", ["i", code]], 0]]
                try:
                    sd.run_scp(svc, h)
                except Exception:
                    pass
                n_runs += 1
    after = snap()
    case = ["tables-after-use", n_runs]
    ctx.case(case, nontrivial=True, kind="tables-after-use")
    for n in before:
        if before[n] != after.get(n):
            changed = {hex(k): v for k, v in after[n].items() if before[n].get(k) != v}
            gone = [hex(k) for k in before[n] if k not in after[n]]
            bad = [hex(k) for k, v in after[n].items() if isinstance(k, int) and v[0] != st.code_to_category(k)]
            ctx.fail(f"table-changed-at-run-time:{n}", f"{n} changed while the service classes were used: new/changed {changed}, removed {gone}; "
                     f"entries now disagreeing with code_to_category: {bad}", case)


def replay(ctx, case):
    from pynetdicom import status as st

    c = case["case"]
    if c[0] == "scu-final":
        from harness import finality

        finality.R.setup()
        kind = {"find": "find", "findrq": "find", "get": "get", "move": "move"}[c[1]]
        cont, out = finality.continued(c[1], kind, c[2])
        print(c[1], hex(c[2]), st.code_to_category(c[2]), "-> continued" if cont else "-> stopped", out["yields"])
        final = not (c[1] == "findrq" and c[2] == 0xB001) and st.code_to_category(c[2]) != "Pending"
        return 0 if cont is not None and (not cont) == final else 1
    if c[0] == "scp-final":
        from harness import scp_driver as sd

        svc = sd.services()[c[1]]
        ds = ["ds", 1, False, None, True, True]
        tab = sd.run_scp(svc, ["gen", ["y", ["p", ["i", 0], None, "su"], 0]])["table"]
        out = {}
        for code in sorted(k for k in getattr(st, tab) if isinstance(k, int)):
            cat = sd.table_cat(tab, code)
            r = sd.run_scp(svc, ["gen", ["y", ["p", ["i", code], ds if cat == "Pending" else None, "su"], 0], ["y", ["p", ["i", 0xFF00], ds, "su"], 0]])
            sts = [x["status"] for x in r["raw"]]
            out.setdefault(cat, {}).setdefault(len(sts) >= 2 and sts[1] == 0xFF00, []).append(hex(code))
        print(c[1], {k: {("goes on" if g else "ends"): v for g, v in d.items()} for k, d in out.items()})
        return 1 if any(len(d) > 1 for d in out.values()) else 0
    if c[0] == "status":
        print("code_to_category", hex(c[1]), "=", st.code_to_category(c[1]))
    else:
        print(c[1], hex(c[2]), "->", getattr(st, c[1])[c[2]], "vs", st.code_to_category(c[2]))
    return 0
