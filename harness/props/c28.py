"""C28 — every status code has one category and all status tables agree."""
from translate import status as tr_status

GEN = [tr_status.generate]
CATS = tr_status.CATS


def run(ctx):
    from pynetdicom import status as st
    from pynetdicom import _globals as g

    ctx.rule = (
        "exhaustive: all 65536 codes through the real code_to_category and the Lean driver; every (table, code) "
        "entry of every *_STATUS dict; non-trivial = code whose category is not Unknown or table entry"
    )
    names = {getattr(g, "STATUS_" + c.upper()): i for i, c in enumerate(CATS)}
    codes = list(range(65536)) + [65536, 70000, 2**31, 2**40]
    model = ctx.lean([["status", c] for c in codes])
    for c, m in zip(codes, model):
        real = st.code_to_category(c)
        k = names.get(real)
        ctx.case(["status", c], nontrivial=(k not in (None, 5)), kind="code:" + str(real))
        if k is None:
            ctx.fail("category-not-one-of-six", f"code_to_category({c:#06x}) = {real!r} is none of the six categories", ["status", c])
        elif k != m:
            ctx.diff(["status", c], k, m)
    ntab = 0
    for name in sorted(vars(st)):
        tab = getattr(st, name)
        if not (name.endswith("_STATUS") and isinstance(tab, dict)):
            continue
        ntab += 1
        for code, entry in tab.items():
            ctx.case(["table", name, code], kind="table-entry")
            if not (isinstance(code, int) and 0 <= code < 65536):
                ctx.fail("table-code-not-16bit", f"{name} has key {code!r}", ["table", name, repr(code)])
                continue
            if entry[0] != st.code_to_category(code):
                ctx.fail(
                    f"table-disagrees:{name}:{code:#06x}",
                    f"{name}[{code:#06x}] says {entry[0]} but code_to_category says {st.code_to_category(code)}",
                    ["table", name, code],
                )
    ctx.extra["tables"] = ntab
    ctx.exhaustive = True
    # finality decisions of the SCU and SCP (behavioural, on the real generators)
    try:
        from harness import finality
    except ImportError:
        finality = None
    if finality is not None:
        finality.check(ctx)


def replay(ctx, case):
    from pynetdicom import status as st

    c = case["case"]
    if c[0] == "scu-final":
        from harness import finality

        finality.R.setup()
        kind = {"find": "find", "findrq": "find", "get": "get", "move": "move"}[c[1]]
        cont, out = finality.continued(c[1], kind, c[2])
        print(c[1], hex(c[2]), st.code_to_category(c[2]), "-> continued" if cont else "-> stopped", out["yields"])
        final = not (c[1] == "findrq" and c[2] == 0xB001) and st.code_to_category(c[2]) != "Pending"
        return 0 if cont is not None and (not cont) == final else 1
    if c[0] == "status":
        print("code_to_category", hex(c[1]), "=", st.code_to_category(c[1]))
    else:
        print(c[1], hex(c[2]), "->", getattr(st, c[1])[c[2]], "vs", st.code_to_category(c[2]))
    return 0
