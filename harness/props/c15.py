"""C15 — DIMSE fragmentation respects the peer's maximum length and reassembles exactly.

Real side: `DIMSEMessage._generate_pdv_fragments`, `primitive_to_message` + `encode_msg` on real
primitives of every message kind (in-memory and file-backed data sets), `P_DATA_TF` for the size of the
PDV list on the wire, `decode_msg` on a fresh message fed with the PDVs regrouped into P-DATA primitives.
Model side: `Model/Dimse.lean` through the driver (`dimse.frag`, `dimse.enc`, `dimse.dec`).
Oracles (on the implementation's outputs alone): PDV-list size, control-byte pattern, context id,
concatenation, fragment count/fill, flag <=> data fragments, decode(regroup(encode)) = original.
"""
import random
import shutil
import tempfile

from harness import dimse_common as dc
from translate import dimse as tr_dimse

GEN = [tr_dimse.generate]
PREFIX = "c15"


# ---------------------------------------------------------------------------------------------
# generators
# ---------------------------------------------------------------------------------------------
def _unit(mx):
    return 50 if mx == 0 else (40 if mx >= 2**31 else mx - 6)


def boundary_lengths(mx, kmax=5):
    n = _unit(mx)
    out = set()
    for k in range(kmax + 1):
        for d in (-2, -1, 0, 1, 2):
            if k * n + d >= 0:
                out.add(k * n + d)
    return sorted(out)


def gen_frag_cases(ctx):
    rng = ctx.rng
    cases = []
    maxes = dc.MAXES + [rng.randrange(9, 60) for _ in range(ctx.n(6, 40))]
    for mx in maxes:
        kmax = 3 if (mx == 16382 and ctx.quick) else 5
        for L in boundary_lengths(mx, kmax):
            cases.append({"op": "frag", "n": L, "seed": rng.randrange(1 << 30), "max": mx})
    for _ in range(ctx.n(3000, 40000)):
        mx = rng.choice([0, 7, 8, 9, 10, 13, 16, 64, rng.randrange(7, 300), rng.randrange(1, 7), 2**32 - 1])
        cases.append({"op": "frag", "n": rng.randrange(0, 6 * _unit(mx) + 3) if mx >= 7 or mx == 0 else rng.randrange(0, 20),
                      "seed": rng.randrange(1 << 30), "max": mx})
    return cases


def _msg_case(rng, cls, shape, n, mx, cmdlen=0, off=0, past=False, wire=None):
    return {"op": "msg", "cls": cls, "shape": shape, "n": n, "seed": rng.randrange(1 << 30), "off": off, "past": past,
            "max": mx, "cmdlen": cmdlen, "cid": rng.choice([1, 3, 5, 127, 255]), "gseed": rng.randrange(1 << 30),
            "wire": (rng.random() < 0.3) if wire is None else wire}


def gen_msg_cases(ctx):
    rng = ctx.rng
    kinds = dc.kinds()
    with_kw = [k[0] for k in kinds if k[3]]
    without = [k[0] for k in kinds if not k[3]]
    cases = []
    # boundary lengths of the data set around k*(max-6), in memory and file-backed
    for mx in dc.MAXES + [rng.randrange(9, 41) for _ in range(ctx.n(3, 20))]:
        kmax = 3 if (mx == 16382 and ctx.quick) else 5
        for L in boundary_lengths(mx, kmax):
            cases.append(_msg_case(rng, rng.choice(with_kw), "stream", L, mx))
            cases.append(_msg_case(rng, "C_STORE_RQ", "file", L, mx, off=rng.choice([0, 0, 1, 3, 132])))
    # boundary lengths of the command set (even lengths only: command elements have even length)
    for mx in [7, 8, 13, 16, 20, 30, 40, 64, 70, 100, 130] + [rng.randrange(24, 140) for _ in range(ctx.n(10, 100))]:
        n = mx - 6
        for k in range(1, 8):
            for d in (-2, 0, 2):
                L = k * n + d
                if 60 <= L <= 600 and L % 2 == 0:
                    cls = rng.choice(with_kw + without)
                    cases.append(_msg_case(rng, cls, rng.choice(["none", "stream"]), rng.choice([0, 1, n, n + 1]), mx, cmdlen=L))
    # every kind x {None, empty, 1 byte, large} x a few maxima
    for cls, _P, _M, kw in kinds:
        for shape, n in (("none", 0), ("stream", 0), ("stream", 1), ("stream", 3000)):
            for mx in (0, 7, 64, 16382):
                cases.append(_msg_case(rng, cls, shape, n, mx))
    # file-backed corner cases: empty after the offset, offset past the end
    for mx in (0, 7, 8, 64, 16382):
        cases.append(_msg_case(rng, "C_STORE_RQ", "file", 0, mx, off=rng.choice([0, 4])))
        cases.append(_msg_case(rng, "C_STORE_RQ", "file", 5, mx, off=2, past=True))
        cases.append(dict(_msg_case(rng, "C_STORE_RQ", "file", 5, mx, off=0, past=True), pastby=1))
    # random
    for _ in range(ctx.n(5000, 80000)):
        mx = rng.choice([0, 7, 8, 9, 13, 20, 64, rng.randrange(7, 200), rng.randrange(7, 2000), 16382, 2**32 - 1])
        shape = rng.choice(["none", "stream", "stream", "stream", "file"])
        cls = "C_STORE_RQ" if shape == "file" else rng.choice(with_kw + without[:2])
        n = rng.choice([0, 1, 2, rng.randrange(0, 50), rng.randrange(0, 6 * _unit(mx) + 3) if _unit(mx) < 700 else rng.randrange(0, 3000)])
        cases.append(_msg_case(rng, cls, shape, n, mx, off=rng.choice([0, 1, 7]) if shape == "file" else 0))
    # maxima for which the code raises (outside the property's domain; model/implementation tie only)
    for mx in range(1, 7):
        cases.append(_msg_case(rng, rng.choice(with_kw), "stream", rng.randrange(0, 9), mx))
        cases.append(_msg_case(rng, "C_STORE_RQ", "file", rng.randrange(0, 9), mx))
    return cases


def mutate_pdvs(pdvs, rng):
    """PDV sequences no conforming sender produces: high bits in the control header, data-set fragments
    before/among command fragments, missing or early 'last' fragments, truncation, trailing PDVs.
    Command fragments stay in order and intact so that the command set handed to the decoder is valid."""
    p = [list(x) for x in pdvs]
    for _ in range(rng.randrange(1, 4)):
        m = rng.randrange(7)
        if m == 0 and p:
            i = rng.randrange(len(p))
            p[i][1] |= rng.choice([0x04, 0x80, 0xFC, 0x10])
        elif m == 1:
            data = [x for x in p if not x[1] & 1]
            cmd = [x for x in p if x[1] & 1]
            pos = rng.randrange(len(cmd) + 1)
            p = cmd[:pos] + data + cmd[pos:]
        elif m == 2 and p:
            p = p[: rng.randrange(len(p))]
        elif m == 3:
            p = p + [[p[0][0] if p else 1, rng.choice([0, 2]), bytes([rng.randrange(256)])]]
        elif m == 4:
            p = [[1, rng.choice([0, 2, 0, 4, 6]), b"zz"]] + p
        elif m == 5 and p:
            i = rng.randrange(len(p))
            if not p[i][1] & 1:
                p[i][1] ^= 2
        elif m == 6 and p:
            i = rng.randrange(len(p))
            p.insert(i, list(p[i]) if not p[i][1] & 1 else [9, 0, b""])
    return [[c, k, bytes(b)] for c, k, b in p]


# ---------------------------------------------------------------------------------------------
# execution
# ---------------------------------------------------------------------------------------------
CHUNK = 4000


def run_frag(ctx, cases):
    for i in range(0, len(cases), CHUNK):
        _run_frag(ctx, cases[i : i + CHUNK])


def _run_frag(ctx, cases):
    from pynetdicom.dimse_messages import DIMSEMessage

    reqs, reals = [], []
    for c in cases:
        data = dc.data_bytes(c["n"], c["seed"])
        mx = c["max"]
        try:
            real = [bytes(f) for f in DIMSEMessage._generate_pdv_fragments(data, mx)]
        except ValueError:
            real = "ValueError"
        reqs.append(["dimse.frag", data, mx])
        reals.append(real)
        legal = mx == 0 or mx >= 7
        n = mx - 6
        nontrivial = legal and (mx != 0) and (len(data) > n or (len(data) % n == 0 and len(data) > 0))
        ctx.case(c, nontrivial=nontrivial,
                 kind="frag:" + ("illegal-max" if not legal else "unlimited" if mx == 0 else
                                 "exact-multiple" if len(data) % n == 0 else "remainder"))
        if legal:
            if real == "ValueError":
                ctx.fail("c15:frag-raises", f"_generate_pdv_fragments raised for legal maximum {mx}", c)
                continue
            want = 1 if mx == 0 else dc.ceil_div(len(data), n)
            if b"".join(real) != data:
                ctx.fail("c15:frag-concat", f"fragments do not concatenate to the input (len {len(data)}, max {mx})", c)
            elif mx != 0 and any(len(f) > n for f in real):
                ctx.fail("c15:frag-size", f"a fragment exceeds max-6 (len {len(data)}, max {mx})", c)
            elif len(real) != want or (mx != 0 and any(len(f) != n for f in real[:-1])):
                ctx.fail("c15:frag-count", f"{len(real)} fragments for {len(data)} bytes at max {mx}, expected {want}", c)
    for c, real, m in zip(cases, reals, ctx.lean(reqs)):
        model = m if m == "ValueError" else [bytes(x) for x in m]
        if model != real:
            ctx.diff(c, _short(real), _short(model), "fragments")


def _short(v):
    if isinstance(v, list) and len(v) > 12:
        return v[:12] + ["…%d more" % (len(v) - 12)]
    return v


def patch_flag(pdvs, value):
    """the PDV list with CommandDataSetType (0000,0800) of the command set replaced by `value` (same lengths, same
    fragmentation); None if the element is not found"""
    cmd = b"".join(p for _, k, p in pdvs if k & 1)
    i = cmd.find(b"\x00\x00\x00\x08\x02\x00\x00\x00")
    if i < 0:
        return None
    cmd = cmd[: i + 8] + bytes([value & 0xFF, value >> 8]) + cmd[i + 10 :]
    out, pos = [], 0
    for c, k, p in pdvs:
        if k & 1:
            out.append((c, k, cmd[pos : pos + len(p)]))
            pos += len(p)
        else:
            out.append((c, k, p))
    return out


def run_msgs(ctx, cases, tmpdir, adversarial=0.15, oracle_only=False):
    rng = random.Random(ctx.seed * 7919 + 13)
    for i in range(0, len(cases), CHUNK):
        _run_msgs(ctx, cases[i : i + CHUNK], tmpdir, adversarial, oracle_only, rng)


def _run_msgs(ctx, cases, tmpdir, adversarial, oracle_only, rng):
    reqs, pending = [], []
    for c in cases:
        b = dc.Built(c, tmpdir)
        try:
            pdatas, err = dc.real_encode(b.msg, c["cid"], c["max"], observed=c["seed"] % 3 == 0)
        finally:
            b.close()
        pdvs = dc.pdvs_of(pdatas)
        real_enc = [b.flag != 0x0101, pdvs, err]
        mx = c["max"]
        # offsets past the end of the file are no data set (split_dataset never returns one): tie only
        legal = (mx == 0 or mx >= 7) and not c.get("past")
        nfr = len(pdvs)
        n = _unit(mx)
        exact = legal and mx != 0 and ((len(b.expect_ds) and len(b.expect_ds) % (mx - 6) == 0) or len(b.cmd) % (mx - 6) == 0)
        ctx.case(c, nontrivial=legal and (nfr >= 3 or exact),
                 kind="msg:" + ("offset-past-eof" if c.get("past") else "illegal-max" if not legal else c["shape"] + (":exact" if exact else "")))
        ok = True
        if legal:
            ok = dc.encode_oracles(ctx, c, b, pdatas, err, PREFIX)
            if any(len(p.presentation_data_value_list) != 1 for p in pdatas):
                ctx.note("encode_msg put several PDVs in one P-DATA primitive")
        groups = dc.regroup(pdvs, c["gseed"])
        real_dec = None
        if legal and err is None and pdvs:
            real_dec, msg = dc.real_decode(groups, c["wire"])
            if ok:
                dc.decode_oracles(ctx, c, b, real_dec, msg, PREFIX)
        if not oracle_only:
            reqs.append(dc.lean_enc_request(c, b))
            pending.append(("enc", c, real_enc))
            if real_dec is not None:
                reqs.append(dc.lean_dec_request(groups))
                pending.append(("dec", c, real_dec))
                if c["cls"] == "C_STORE_RQ" and b.flag != 0x0101 and rng.random() < 0.5:
                    # the same fragments received into a file (STORE_RECV_CHUNKED_DATASET), in the grouping of the case and
                    # with everything in ONE P-DATA (last command fragment and data fragments together)
                    for g4, how in ((groups, "as-grouped"), ([list(pdvs)], "one-pdu")):
                        r4, _ = dc.real_decode(g4, c["wire"], chunked=True)
                        c4 = {"op": "chunked", "how": how, "groups": g4}
                        ctx.case(c4, nontrivial=True, kind=f"chunked-receive:{how}:{r4[0]}")
                        if r4[0] != "complete" or r4[3] != b.expect_ds:
                            ctx.fail(f"{PREFIX}:chunked-receive-reassembly:{how}",
                                     f"C-STORE-RQ received into a file ({how}): {r4[0]}, {len(r4[3])} data-set bytes in the file, sent "
                                     f"{len(b.expect_ds)}", c4)
                if b.flag == 0x0001 and rng.random() < 0.35:
                    # PS3.7: 0101H = no data set, ANY other value = a data set follows; pynetdicom writes 0001H, a peer
                    # may write something else
                    val = rng.choice([0x0000, 0x0102, 0x0002, 0x0100, 0xFFFF])
                    pf = patch_flag(pdvs, val)
                    if pf is not None:
                        g3 = dc.regroup(pf, rng.randrange(1 << 30))
                        r3, _ = dc.real_decode(g3, c["wire"])
                        c3 = {"op": "peer-flag", "flag": val, "groups": g3}
                        ctx.case(c3, nontrivial=True, kind="peer-flag-decode:" + r3[0])
                        if r3[0] != "complete" or r3[3] != b.expect_ds:
                            ctx.fail(f"{PREFIX}:peer-dataset-flag:{val:#06x}",
                                     f"a message whose CommandDataSetType is {val:#06x} (a data set follows) decodes as {r3[0]} "
                                     f"with {len(r3[3])} data-set bytes, sent {len(b.expect_ds)}", c3)
                        reqs.append(dc.lean_dec_request(g3))
                        pending.append(("dec", c3, r3))
                if rng.random() < adversarial:
                    bad = mutate_pdvs(pdvs, rng)
                    g2 = dc.regroup(bad, rng.randrange(1 << 30))
                    r2, _ = dc.real_decode(g2, False)
                    c2 = {"op": "adv", "groups": g2}
                    ctx.case(c2, nontrivial=True, kind="adv-decode:" + r2[0])
                    reqs.append(dc.lean_dec_request(g2))
                    pending.append(("dec", c2, r2))
    if oracle_only:
        return
    for (what, c, real), m in zip(pending, ctx.lean(reqs)):
        if what == "enc":
            model = dc.canon_lean_enc(m)
            if model != real:
                ctx.diff(c, [real[0], _short(real[1]), real[2]], [model[0], _short(model[1]), model[2]], "encode_msg")
        else:
            model = dc.canon_lean_dec(m)
            if model[0] == "error" and real[0] == "error":
                continue
            if model != real:
                ctx.diff(c, real, model, "decode_msg")


def small_scope(ctx, tmpdir, lens, maxes, oracle_only):
    """exhaustive: every data-set length x every maximum, in memory and file-backed, every regrouping of
    short PDV lists"""
    rng = random.Random(ctx.seed + 101)
    cases = []
    for mx in maxes:
        for L in lens:
            cases.append(_msg_case(rng, "C_FIND_RQ", "stream", L, mx, wire=False))
            cases.append(_msg_case(rng, "C_STORE_RQ", "file", L, mx, off=L % 3, wire=False))
    run_msgs(ctx, cases, tmpdir, adversarial=0.0, oracle_only=oracle_only)
    if not oracle_only:
        run_frag(ctx, [{"op": "frag", "n": L, "seed": L * 31 + mx, "max": mx} for mx in maxes for L in lens])
    # all regroupings of the PDV list of short messages (data set split in <= 6 fragments, cmd in few)
    n_all = 0
    reqs, pend = [], []
    for mx in (0, 70, 100, 130):
        for L in (0, 1, mx - 6 if mx else 5, 2 * (mx - 6) + 1 if mx else 9, 3 * (mx - 6) if mx else 11):
            c = _msg_case(rng, "C_FIND_RQ", "stream", max(L, 0), mx, wire=False)
            b = dc.Built(c, tmpdir)
            pdatas, err = dc.real_encode(b.msg, c["cid"], mx)
            pdvs = dc.pdvs_of(pdatas)
            if err or len(pdvs) > 9:
                continue
            for groups in dc.all_groupings(pdvs):
                n_all += 1
                got, msg = dc.real_decode(groups, False)
                cc = dict(c, grouping=[len(g) for g in groups])
                ctx.case(cc, nontrivial=len(groups) > 1, kind="all-groupings")
                dc.decode_oracles(ctx, cc, b, got, msg, PREFIX)
                if not oracle_only:
                    reqs.append(dc.lean_dec_request(groups))
                    pend.append((cc, got))
    if reqs:
        for (cc, got), m in zip(pend, ctx.lean(reqs)):
            if dc.canon_lean_dec(m) != got:
                ctx.diff(cc, got, dc.canon_lean_dec(m), "decode_msg over all groupings")
    ctx.extra["groupings_enumerated"] = n_all


# ---------------------------------------------------------------------------------------------
# the sending provider: which maximum `send_msg` fragments to
# ---------------------------------------------------------------------------------------------
SEND_MAXES = [0, 7, 8, 13, 64, 1024, 16382, 2**32 - 1]


def _stub_assoc(is_requestor, req_max, acc_max):
    """an object with exactly what `DIMSEServiceProvider` reads from its association"""
    import types

    a = types.SimpleNamespace()
    a.is_requestor, a.is_acceptor = is_requestor, not is_requestor
    a.requestor = types.SimpleNamespace(maximum_length=req_max)
    a.acceptor = types.SimpleNamespace(maximum_length=acc_max)
    a._handlers = {}
    sent = []
    a.dul = types.SimpleNamespace(send_pdu=sent.append)
    a.dimse_timeout = None
    return a, sent


def real_send(is_requestor, req_max, acc_max, n, file_backed, tmpdir):
    """real `DIMSEServiceProvider.send_msg` of a C-STORE-RQ with an n-byte data set -> (maximum_pdu_size, PDV-list sizes)"""
    import os
    from io import BytesIO

    from pynetdicom import evt
    from pynetdicom.dimse import DIMSEServiceProvider
    from pynetdicom.dimse_primitives import C_STORE

    a, sent = _stub_assoc(is_requestor, req_max, acc_max)
    prov = DIMSEServiceProvider(a)
    rq = C_STORE()
    rq.MessageID, rq.Priority = 1, 2
    rq.AffectedSOPClassUID, rq.AffectedSOPInstanceUID = "1.2.840.10008.5.1.4.1.1.2", "1.2.3"
    data = bytes((i * 7 + 3) % 256 for i in range(n))
    path = None
    if file_backed:
        path = os.path.join(tmpdir, "send.bin")
        with open(path, "wb") as f:
            f.write(b"\x00" * 5 + data)
        from pathlib import Path

        rq._dataset_path = (Path(path), 5)
    else:
        rq.DataSet = BytesIO(data)
    old = evt.trigger
    evt.trigger = lambda *a_, **k_: None  # EVT_DIMSE_SENT: no handlers on the stub association
    err = None
    try:
        prov.send_msg(rq, 1)
    except Exception as exc:
        err = type(exc).__name__
    finally:
        evt.trigger = old
    # a PDV as held by the primitive is [context id, control byte + fragment]; on the wire the item is
    # 4-byte length + context id + that
    sizes = [sum(4 + 1 + len(v[1]) for v in p.presentation_data_value_list) for p in sent]
    payload = b"".join(v[1][1:] for p in sent for v in p.presentation_data_value_list if v[1][0] in (0, 2))
    return prov.maximum_pdu_size, sizes, err, payload == data


def run_send(ctx, tmpdir, oracle_only=False):
    rng = ctx.rng
    cases = []
    for role in (True, False):
        for rq in SEND_MAXES:
            for ac in SEND_MAXES:
                peer = ac if role else rq
                unit = _unit(peer)
                for n in ({0, 1, unit, unit + 1, 3 * unit, 3 * unit + 2} if not ctx.quick else {unit + 1, 3 * unit + 2}):
                    cases.append((role, rq, ac, min(n, 70000), rng.random() < 0.3))
    if ctx.quick:
        rng.shuffle(cases)
        cases = cases[:160]
    reqs = []
    for role, rq, ac, n, fb in cases:
        peer = ac if role else rq
        legal = peer == 0 or peer >= 7
        mx, sizes, err, intact = real_send(role, rq, ac, n, fb, tmpdir)
        c = {"op": "send", "requestor": role, "req_max": rq, "acc_max": ac, "n": n, "file": fb}
        local = rq if role else ac
        ctx.case(c, nontrivial=legal and len(sizes) >= 3, kind="send:" + ("local-unlimited" if local == 0 and peer else "peer-unlimited" if peer == 0 else "both-limited"))
        if legal and peer != 0:
            over = [sz for sz in sizes if sz > peer]
            if over:
                ctx.fail(f"{PREFIX}:send:pdv-list-exceeds-peer-maximum",
                         f"send_msg as {'requestor' if role else 'acceptor'} (requestor max {rq}, acceptor max {ac}): P-DATA with a PDV list of {max(over)} bytes for a peer whose maximum is {peer}", c)
        if legal and (err or not intact):
            ctx.fail(f"{PREFIX}:send:data-lost", f"send_msg raised {err} / data set fragments do not concatenate to the data set", c)
        reqs.append((c, mx))
    if oracle_only:
        return
    model = ctx.lean([["dimse.peermax", c["requestor"], c["req_max"], c["acc_max"]] for c, _ in reqs])
    for (c, mx), m in zip(reqs, model):
        if m != mx:
            ctx.diff(c, {"maximum_pdu_size": mx}, {"peerMax": m}, "DIMSEServiceProvider.maximum_pdu_size")


def run(ctx):
    ctx.rule = (
        "generated: data-set and command-set lengths around k*(max-6), k=0..5 (+-2), max in {0,7,8,13,64,16382,2^32-1} "
        "and random maxima, every message kind x {None, empty, 1 byte, large}, in-memory and file-backed, "
        "random regrouping into P-DATA primitives (30% through the P-DATA-TF wire codec); non-trivial = at least 3 PDVs "
        "or a part that is an exact multiple of the fragment size"
    )
    ctx.assumptions.append(
        "C15: Python computes nr_fragments with float division ceil(len/(max-6)); the model uses exact ceiling "
        "division, equal for len < 2^53"
    )
    ctx.assumptions.append(
        "C15: _config.STORE_RECV_CHUNKED_DATASET is False on the receiving side (the chunked writer is C25's); "
        "the command-set codec is taken from the real code (C17)"
    )
    tmpdir = tempfile.mkdtemp(prefix="c15-")
    try:
        run_frag(ctx, gen_frag_cases(ctx))
        run_msgs(ctx, gen_msg_cases(ctx), tmpdir)
        run_send(ctx, tmpdir)
        if ctx.quick:
            small_scope(ctx, tmpdir, range(0, 17), range(7, 13), oracle_only=False)
        else:
            small_scope(ctx, tmpdir, range(0, 65), range(7, 41), oracle_only=False)
            ctx.extra["small_scope"] = "all data-set lengths 0..64 x max 7..40, in memory and file-backed"
    finally:
        shutil.rmtree(tmpdir, ignore_errors=True)


def search(ctx):
    """correspondence or a theorem broke: hunt for an input on which the implementation itself violates
    the property (oracles only, larger small-scope enumeration)."""
    tmpdir = tempfile.mkdtemp(prefix="c15s-")
    try:
        small_scope(ctx, tmpdir, range(0, 41), list(range(7, 25)) + [0], oracle_only=True)
        run_send(ctx, tmpdir, oracle_only=True)
    finally:
        shutil.rmtree(tmpdir, ignore_errors=True)


def replay(ctx, case):
    from pynetdicom.dimse_messages import DIMSEMessage

    c = case["case"]
    print("failure:", case.get("what"))
    if c["op"] == "frag":
        data = dc.data_bytes(c["n"], c["seed"])
        try:
            fr = list(DIMSEMessage._generate_pdv_fragments(data, c["max"]))
        except ValueError as e:
            print("raises", e)
            return 1
        print("fragment lengths:", [len(f) for f in fr][:40], "concat ok:", b"".join(fr) == data)
        n = c["max"] - 6
        bad = b"".join(fr) != data or (c["max"] and (any(len(f) > n for f in fr) or len(fr) != dc.ceil_div(len(data), n)))
        return 1 if bad else 0
    if c["op"] == "send":
        tmpdir = tempfile.mkdtemp(prefix="c15r-")
        try:
            mx, sizes, err, intact = real_send(c["requestor"], c["req_max"], c["acc_max"], c["n"], c["file"], tmpdir)
        finally:
            shutil.rmtree(tmpdir, ignore_errors=True)
        peer = c["acc_max"] if c["requestor"] else c["req_max"]
        print("maximum_pdu_size:", mx, "peer's maximum:", peer, "PDV-list sizes:", sizes[:40], "exception:", err, "intact:", intact)
        return 1 if (peer and any(sz > peer for sz in sizes)) or err or not intact else 0
    if c["op"] == "chunked":
        r = dc.real_decode([[(a, k, bytes.fromhex(p[1:])) if isinstance(p, str) else (a, k, bytes(p)) for a, k, p in g] for g in c["groups"]], False, chunked=True)[0]
        sent = sum(len(p) // 2 if isinstance(p, str) else len(p) for g in c["groups"] for a, k, p in g if not k & 1)
        print("received into a file (%s): %s, %d data-set bytes in the file, %d sent" % (c["how"], r[0], len(r[3]), sent))
        return 0 if r[0] == "complete" and len(r[3]) == sent else 1
    if c["op"] == "peer-flag":
        r = dc.real_decode([[(a, k, bytes.fromhex(p[1:])) if isinstance(p, str) else (a, k, bytes(p)) for a, k, p in g] for g in c["groups"]])[0]
        print("CommandDataSetType %#06x -> receiver: %s, %d data-set bytes" % (c["flag"], r[0], len(r[3])))
        return 0 if r[0] == "complete" and len(r[3]) > 0 else 1
    if c["op"] == "adv":
        print(dc.real_decode([[(a, k, bytes.fromhex(p[1:])) for a, k, p in g] for g in c["groups"]])[0])
        return 0
    tmpdir = tempfile.mkdtemp(prefix="c15r-")
    try:
        b = dc.Built(c, tmpdir)
        pdatas, err = dc.real_encode(b.msg, c["cid"], c["max"])
        pdvs = dc.pdvs_of(pdatas)
        print("command set %d bytes, data set %d bytes, max %d, CommandDataSetType %#06x" % (len(b.cmd), len(b.expect_ds), c["max"], b.flag))
        print("PDVs (ctl, len):", [(k, len(p)) for _, k, p in pdvs][:60], "exception:", err)
        before = len(ctx.failures)
        ok = dc.encode_oracles(ctx, c, b, pdatas, err, PREFIX)
        if ok and pdvs:
            groups = list(dc.regroup(pdvs, c["gseed"]))
            if "grouping" in c:
                it = iter(pdvs)
                groups = [[next(it) for _ in range(k)] for k in c["grouping"]]
            got, msg = dc.real_decode(groups, c.get("wire", False))
            print("grouping", [len(g) for g in groups], "-> receiver:", got[0], "left", got[1], "cmd", len(got[2]), "ds", len(got[3]), "ctx", got[4])
            dc.decode_oracles(ctx, c, b, got, msg, PREFIX)
        for f in ctx.failures[before:]:
            print("ORACLE FAILS:", f["sig"], "-", f["what"][:300])
        return 1 if len(ctx.failures) > before else 0
    finally:
        shutil.rmtree(tmpdir, ignore_errors=True)
