"""C24 — SCU calls surface each response exactly once and fail cleanly; no lock is held while a
response iterator is suspended.

The REAL generators / calls of pynetdicom.association.Association are driven in-process by
harness/scu_rig.py (scripted `dimse`, recorder for `abort`, nothing patched in /repo).  For every
generated peer script:
  (1) correspondence: the observation (yields with lock / reactor flags sampled at every `next()`,
      aborts, number of `get_msg` calls, C-STORE responses sent, checkpoint and lock at the end,
      escaping exception, return value) is compared with the Lean model (`scu.run`);
  (2) oracle on the implementation alone: every clause of the property, computed here from the
      script with the real `code_to_category` (independent of the Lean model).
"""
import itertools

from harness import scu_rig as R

GEN = []
_SEEN = set()

EXPECTS = {"find": "find", "findrq": "find", "get": "get", "move": "move"}
SINGLE_EXPECTS = {s: s for s in R.SINGLE}
HAS_REPLY = {"echo": False, "store": False, "nDelete": False}
STATUS_REPS = [0x0000, 0x0001, 0x0107, 0xA700, 0xFE00, 0xFF00, 0x0002, 0xB001]


# --------------------------------------------------------------------------
# the property, executable (what the caller must see), from the script alone
# --------------------------------------------------------------------------
def _cat(code):
    from pynetdicom.status import code_to_category

    return code_to_category(code)


def _decoded(ident):
    return {"absent": "none", "empty": "empty", "good": "ds", "bad": "none"}[ident]


def spec_multi(svc, script):
    """-> dict(yields=[(status|None, ident)], aborts, recvs)  demanded by the property."""
    ek = EXPECTS[svc]
    ys = []
    n = 0
    for m in script:
        n += 1
        if svc in ("get", "move") and m[0] == "storeRq":
            continue  # a sub-operation request is served; invisible to the caller
        if m[0] == "rsp" and m[1] == ek and m[2]:
            st, ident = m[3], m[4]
            cat = _cat(st)
            final = not (svc == "findrq" and st == 0xB001) and cat != "Pending"
            if not final:
                if ek == "find":
                    ys.append((st, "none" if (svc == "findrq" and st == 0xB001) else _decoded(ident)))
                else:
                    ys.append((st, "none"))
                continue
            if ek == "find":
                ys.append((st, "none"))
            else:
                ys.append((st, _decoded(ident) if cat in ("Cancel", "Warning", "Failure") else "none"))
            return dict(yields=ys, aborts=0, recvs=n)
        ys.append((None, "none"))
        aborts = (1 if m[1] == "timeout" else 0) if m[0] == "none" else 1
        return dict(yields=ys, aborts=aborts, recvs=n)
    ys.append((None, "none"))  # silence: DIMSE timeout
    return dict(yields=ys, aborts=1, recvs=n + 1)


def spec_single(svc, script):
    """-> dict(ret=(status|None, reply), aborts)."""
    if not script:
        return dict(ret=(None, "none"), aborts=1)
    m = script[0]
    if m[0] == "none":
        return dict(ret=(None, "none"), aborts=1 if m[1] == "timeout" else 0)
    if m[0] == "rsp" and m[2] and m[1] == SINGLE_EXPECTS[svc]:
        st, ident = m[3], m[4]
        if HAS_REPLY.get(svc, True) and _cat(st) in ("Success", "Warning"):
            if ident == "bad":
                return dict(ret=(0x0110, "none"), aborts=0)
            return dict(ret=(st, "ds" if ident == "good" else "empty"), aborts=0)
        return dict(ret=(st, "none"), aborts=0)
    return dict(ret=(None, "none"), aborts=1)  # invalid or unexpected message


def deviation(svc, m):
    """Known classes of messages on which the code departs from the property."""
    if svc in ("get", "move"):
        if m[0] == "storeRq" and m[1] == "noClass":
            return "getmove:store-without-sop-class-raises"
        if m[0] == "rsp" and m[1] == "store":
            return "getmove:store-response-served-as-request"
        if m[0] == "rsp" and m[2] and m[1] in ("get", "move") and m[1] != EXPECTS[svc]:
            return "getmove:cross-type-response-accepted"
    return None


def oracle_multi(svc, script, out):
    """-> list of (sig, what)."""
    fails = []
    spec = spec_multi(svc, script)
    fam = svc
    got = [(s, i) for s, i, _, _ in out["yields"]]
    consumed = script[: out["consumed"]]
    dev = next((d for d in (deviation(svc, m) for m in consumed) if d), None)
    if not out["request_ok"]:
        fails.append((f"{fam}:request-not-sent-first", "the first primitive handed to dimse.send_msg is not the request"))
    if out["paused_after_send"] is False:
        fails.append((f"{fam}:reactor-not-paused-after-send", "reactor checkpoint still set after the request was sent"))
    if out["overrun"]:
        fails.append((f"{fam}:generator-does-not-terminate", f"more yields than messages: {got[:6]}…"))
    if out["raised"] is not None:
        fails.append((dev or f"{fam}:raises", f"exception escaped the generator: {out['raised']}; checkpoint set={out['ckpt']}"))
    if any(l for _, _, l, _ in out["yields"]):
        fails.append((f"{fam}:lock-held-at-yield", f"AE lock held while the generator is suspended: {out['yields']}"))
    if out["lock"]:
        fails.append((f"{fam}:lock-held-at-end", "AE lock still held after the generator finished"))
    if out["raised"] is None and not out["overrun"] and not out["ckpt"]:
        fails.append((f"{fam}:checkpoint-not-restored", "reactor checkpoint not set after the generator finished"))
    if out["raised"] is None and not out["overrun"] and out["yields"] and out["yields"][-1][3]:
        # a caller that stops at the final status (break / a single next()) never resumes the generator: the reactor
        # must already be running again when the final response is handed over
        fails.append((f"{fam}:reactor-paused-at-final-yield",
                      f"the reactor checkpoint is still cleared while the generator is suspended on its last (final) response {out['yields'][-1][:2]}"))
    if out.get("kept_changed") or out.get("kept_aliased"):
        fails.append((f"{fam}:response-overwritten-after-it-was-handed-out",
                      f"responses kept by the caller changed afterwards (indices {out.get('kept_changed')}) or are one and the same object "
                      f"(aliased={out.get('kept_aliased')}): {got[:4]}"))
    if not out["cancels_ok"]:
        fails.append((f"{fam}:cancel-while-suspended", "send_c_cancel between two next() calls did not send exactly one C-CANCEL"))
    if out["raised"] is None and not out["overrun"]:
        if [s for s, _ in got] != [s for s, _ in spec["yields"]]:
            fails.append(
                (dev or f"{fam}:responses-not-once-in-order",
                 f"statuses yielded {[s for s, _ in got]} but the peer's responses demand {[s for s, _ in spec['yields']]}")
            )
        else:
            if got != spec["yields"]:
                fails.append((dev or f"{fam}:identifier-not-as-documented", f"yields {got} expected {spec['yields']}"))
            if out["aborts"] != spec["aborts"]:
                fails.append((dev or f"{fam}:abort-not-as-documented", f"abort() called {out['aborts']}x, documented {spec['aborts']}x"))
            if out["recvs"] != spec["recvs"]:
                fails.append((dev or f"{fam}:consumes-wrong-number-of-messages", f"get_msg called {out['recvs']}x, expected {spec['recvs']}x"))
            if out["other_sent"]:
                fails.append((dev or f"{fam}:unexpected-send", f"sent {out['other_sent']}"))
            nstore = sum(1 for m in consumed if m[0] == "storeRq")
            if svc in ("get", "move") and dev is None and len(out["store_rsps"]) != nstore:
                fails.append((f"{fam}:sub-operation-not-answered-once", f"{nstore} C-STORE requests, responses {out['store_rsps']}"))
    return fails


def oracle_single(svc, script, out):
    fails = []
    spec = spec_single(svc, script)
    m = script[0] if script else None
    unexpected = bool(m) and m[0] == "rsp" and m[2] and m[1] != SINGLE_EXPECTS[svc]
    if not out["request_ok"]:
        fails.append((f"single:{svc}:request-not-sent-first", "the first primitive sent is not the request"))
    if out["lock"]:
        fails.append((f"single:{svc}:lock-held-at-end", "AE lock held after the call"))
    if not out["ckpt"]:
        fails.append((f"single:{svc}:checkpoint-not-restored", "reactor checkpoint not set after the call"))
    if out["recvs"] != 1:
        fails.append((f"single:{svc}:consumes-wrong-number-of-messages", f"get_msg called {out['recvs']}x"))
    if out["raised"] is not None:
        fails.append(("single:unexpected-type-raises" if unexpected else f"single:{svc}:raises", f"{svc}: {out['raised']}"))
    else:
        if out["ret"] != spec["ret"] or out["aborts"] != spec["aborts"]:
            fails.append(
                ("single:unexpected-type-accepted" if unexpected else f"single:{svc}:result-not-as-documented",
                 f"{svc} returned {out['ret']} with {out['aborts']} abort(s); documented {spec['ret']} with {spec['aborts']}")
            )
    return fails


# --------------------------------------------------------------------------
# generators
# --------------------------------------------------------------------------
def status_pool():
    from pynetdicom import status as st

    pool = set(STATUS_REPS)
    for name in vars(st):
        tab = getattr(st, name)
        if name.endswith("_STATUS") and isinstance(tab, dict):
            ks = sorted(tab)
            pool |= set(ks[:3]) | set(ks[-2:])
    return sorted(pool)


def random_script(rng, svc, pool):
    ek = EXPECTS[svc]
    n = rng.choice([0, 1, 1, 2, 2, 3, 3, 4, 5, 6, 8])
    script = []
    for _ in range(n):
        x = rng.random()
        var = rng.randrange(4)
        if x < 0.62:
            st = rng.choice([0xFF00, 0xFF00, 0xFF00, 0xFF01, 0xB001 if svc == "findrq" else 0xFF00])
            script.append(["rsp", ek, True, st, rng.choice(R.IDENTS), var])
        elif x < 0.74:
            st = rng.choice(pool) if rng.random() < 0.6 else rng.choice(STATUS_REPS)
            script.append(["rsp", ek, True, st, rng.choice(R.IDENTS), var])
        elif x < 0.86 and svc in ("get", "move"):
            script.append(["storeRq", rng.choice(["accepted", "accepted", "unaccepted"])])
        elif x < 0.90:
            script.append(["rsp", ek, False, rng.choice(STATUS_REPS), rng.choice(R.IDENTS), var])
        elif x < 0.94:
            script.append(["none", rng.choice(["timeout", "timeout", "aAbort", "apAbort", "dead"])])
        elif x < 0.97:
            k = rng.choice([k for k in R.KINDS if k != ek])
            script.append(["rsp", k, rng.random() < 0.8, rng.choice(STATUS_REPS), rng.choice(R.IDENTS), var])
        elif x < 0.985:
            script.append(["storeRq", rng.choice(["accepted", "unaccepted", "noClass"])])
        else:
            script.append(["rsp", rng.choice(["get", "move", "store"]), True, rng.choice([0xFF00, 0x0000]), "absent", var])
    return script


FIND_ALPHABET = [
    ["rsp", "find", True, 0xFF00, "good", 0], ["rsp", "find", True, 0xFF00, "bad", 0],
    ["rsp", "find", True, 0xB001, "absent", 0], ["rsp", "find", True, 0x0000, "absent", 0],
    ["rsp", "find", True, 0xA700, "good", 0], ["rsp", "find", False, 0xFF00, "good", 0],
    ["rsp", "echo", True, 0x0000, "absent", 0], ["none", "timeout"],
]


def gm_alphabet(ek, ext):
    other = "move" if ek == "get" else "get"
    base = [
        ["rsp", ek, True, 0xFF00, "absent", 0], ["storeRq", "accepted"], ["storeRq", "unaccepted"],
        ["rsp", ek, True, 0xB000, "good", 0], ["rsp", ek, True, 0xA702, "bad", 0],
        ["rsp", ek, True, 0x0000, "absent", 0], ["rsp", ek, False, 0xFF00, "absent", 1], ["none", "aAbort"],
    ]
    if ext:
        base += [
            ["rsp", other, True, 0xFF00, "absent", 0], ["rsp", "store", True, 0x0000, "absent", 0],
            ["storeRq", "noClass"], ["rsp", "echo", True, 0x0000, "absent", 0],
        ]
    return base


def all_scripts(alphabet, maxlen):
    for n in range(maxlen + 1):
        for t in itertools.product(alphabet, repeat=n):
            yield list(t)


def single_cases():
    """Exhaustive: every call x every first message (all kinds x validity x category reps x data set)."""
    firsts = [[]]
    firsts += [[["none", w]] for w in ("timeout", "aAbort", "apAbort", "dead")]
    firsts += [[["storeRq", c]] for c in ("accepted", "unaccepted", "noClass")]
    for k in R.KINDS:
        for valid in (True, False):
            for st in STATUS_REPS:
                for ident in R.IDENTS:
                    for var in ((0,) if valid else (0, 1)):
                        firsts.append([["rsp", k, valid, st, ident, var]])
    trailer = ["rsp", "echo", True, 0x0000, "absent", 0]
    for svc in R.SINGLE:
        for i, f in enumerate(firsts):
            yield svc, (f + [trailer] if f and i % 3 == 0 else f), ()


def cases_for(ctx, thorough):
    rng = ctx.rng
    pool = status_pool()
    yield from single_cases()
    for _ in range(ctx.n(3200, 40000)):
        svc = rng.choice(R.MULTI)
        script = random_script(rng, svc, pool)
        cancel_at = tuple(i for i in range(len(script)) if rng.random() < 0.15)
        yield svc, script, cancel_at
    for _ in range(ctx.n(300, 3000)):  # single-response calls with random table statuses
        svc = rng.choice(R.SINGLE)
        k = svc if rng.random() < 0.8 else rng.choice(R.KINDS)
        yield svc, [["rsp", k, rng.random() < 0.9, rng.choice(pool), rng.choice(R.IDENTS), rng.randrange(4)]], ()
    small = 3 if not thorough else 5
    for svc in ("find", "findrq"):
        for s in all_scripts(FIND_ALPHABET, small):
            yield svc, s, ()
    for svc in ("get", "move"):
        for s in all_scripts(gm_alphabet(svc, False), small):
            yield svc, s, ()
        for s in all_scripts(gm_alphabet(svc, True), 2 if not thorough else 4):
            yield svc, s, ()


def classify(svc, script, out):
    if svc in R.SINGLE:
        m = script[0] if script else None
        if m is None:
            return f"single:{svc}:silence"
        if m[0] != "rsp":
            return f"single:{svc}:{m[0]}"
        if not m[2]:
            return f"single:{svc}:invalid"
        return f"single:{svc}:{'expected' if m[1] == svc else 'other'}-type"
    if out["raised"] is not None:
        return f"{svc}:raised"
    last = out["yields"][-1] if out["yields"] else None
    end = "empty" if last is None or last[0] is None else "final"
    return f"{svc}:{min(len(out['yields']), 4)}y:{end}:{'abort' if out['aborts'] else 'noabort'}"


def execute(ctx, cases, compare=True):
    batch = []
    for svc, script, cancel_at in cases:
        out = R.run(svc, script, cancel_at)
        batch.append((svc, script, cancel_at, out))
        if len(batch) >= 20000:
            _flush(ctx, batch, compare)
            batch = []
    _flush(ctx, batch, compare)


def _flush(ctx, batch, compare):
    if not batch:
        return
    model = ctx.lean([["scu.run", svc, [R.lean_msg(m) for m in script]] for svc, script, _, _ in batch]) if compare else None
    for i, (svc, script, cancel_at, out) in enumerate(batch):
        case = [svc, script, list(cancel_at)]
        nontrivial = (len(out["yields"]) >= 2 or bool(out["store_rsps"])) if svc in R.MULTI else bool(script and script[0][0] == "rsp")
        ctx.case(case, nontrivial=nontrivial, kind=classify(svc, script, out))
        if compare:
            impl, mod = R.summary(out), R.canon_lean(model[i])
            if impl != mod:
                ctx.diff(case, impl, mod)
        fails = oracle_multi(svc, script, out) if svc in R.MULTI else oracle_single(svc, script, out)
        seen = _SEEN
        for sig, what in fails:
            if sig not in seen:  # minimise the first case of each signature
                seen.add(sig)
                script_min = minimise(svc, script, sig)
                ctx.fail(sig, f"{svc} {script_min}: {what}" if script_min == script else
                         f"{svc} {script_min} (minimised from a longer script): {sig}; original: {what}",
                         [svc, script_min, []])
            else:
                ctx.fail(sig, what, case)


def sigs_of(svc, script):
    out = R.run(svc, script)
    fails = oracle_multi(svc, script, out) if svc in R.MULTI else oracle_single(svc, script, out)
    return {s for s, _ in fails}


def minimise(svc, script, sig):
    cur = list(script)
    changed = True
    while changed and len(cur) > 1:
        changed = False
        for i in range(len(cur)):
            cand = cur[:i] + cur[i + 1:]
            if sig in sigs_of(svc, cand):
                cur, changed = cand, True
                break
    return cur


def run(ctx):
    R.setup()
    _SEEN.clear()
    ctx.rule = (
        "peer scripts (what successive dimse.get_msg calls return) for send_c_find (ordinary / Repository Query), "
        "send_c_get, send_c_move and every single-response call; structured random scripts (mostly valid responses "
        "of the right type, Pending runs, table statuses, interleaved C-STORE requests, invalid / wrong-type / "
        "timeout / abort-indication messages, C-CANCEL at random suspension points), exhaustive first messages for "
        "the single-response calls, and all scripts up to length 3 (quick) / 5 (thorough) over 8-symbol alphabets "
        "(12 symbols up to length 2 / 4 for C-GET/C-MOVE); non-trivial = >= 2 yields or a served sub-operation "
        "(multi), a primitive as first message (single)"
    )
    execute(ctx, cases_for(ctx, not ctx.quick))
    _SEEN.clear()
    # the same calls with every context accepted under Deflated Explicit VR Little Endian and the peer's reply data
    # sets encoded accordingly: what the caller is handed must not depend on the negotiated syntax
    R.set_syntax(True)
    try:
        # (a zero-length data set is left out: it is no zlib stream at all, which is the decoder's subject, not this call's)
        plain = lambda c: not any("empty" in m for m in c[1])  # noqa: E731
        sub = [c for c in single_cases() if plain(c)]
        sub += [c for i, c in enumerate(cases_for(ctx, False)) if i % 7 == 0 and c[0] in R.MULTI and plain(c)][: ctx.n(600, 6000)]
        execute(ctx, sub)
    finally:
        R.set_syntax(False)
    _SEEN.clear()
    ctx.exhaustive = False
    ctx.note(
        "lock sampled by non-blocking acquire from the harness thread at every suspension and at the end; "
        "abort() replaced by a recorder, so _abort_blocking's own checkpoint.set() is not exercised"
    )


def search(ctx):
    """Correspondence broke without an oracle failure: hunt for a failing input with the oracle only."""
    _SEEN.clear()
    execute(ctx, cases_for(ctx, True), compare=False)
    _SEEN.clear()


def replay(ctx, case):
    R.setup()
    svc, script, cancel_at = case["case"]
    script = [list(m) for m in script]
    out = R.run(svc, script, tuple(cancel_at))
    print("call   :", svc)
    print("script :", script)
    print("impl   :", {k: out[k] for k in ("yields", "ret", "aborts", "recvs", "store_rsps", "ckpt", "lock", "raised")})
    print("spec   :", spec_multi(svc, script) if svc in R.MULTI else spec_single(svc, script))
    try:
        print("model  :", R.canon_lean(ctx.lean([["scu.run", svc, [R.lean_msg(m) for m in script]]])[0]))
    except Exception as exc:
        print("model  : unavailable", exc)
    fails = oracle_multi(svc, script, out) if svc in R.MULTI else oracle_single(svc, script, out)
    for sig, what in fails:
        print("FAIL   :", sig, "-", what)
    return 1 if fails else 0
